/-
C07  Connectives and quantifiers evaluate truth-functionally, left to right.

All statements are about the reference evaluator `evalE` of `PyPred.Model.EvalTrace`
(outcome of the call × list of calls made to instrumented leaves, in order), for
every probe table `T`, every tree and every value of the `PyVal` universe.  They
say what the property says; what ties them to the Python classes is the
correspondence check (harness/props/c07.py).
-/
import PyPred.Model.EvalTrace

namespace PyPred
open PyVal (iterElems)

variable (T : Table)

/-! ### Sequencing combinators -/

theorem Res.andThen_fst (a : Res) (b : Unit → Res) : (a.andThen b).1 = a.1.andThen (b ()).1 := by
  rcases a with ⟨o, t⟩
  cases o with
  | ok v => cases v <;> simp [Res.andThen, Outcome.andThen]
  | raised e => simp [Res.andThen, Outcome.andThen]

theorem Res.andThen_snd (a : Res) (b : Unit → Res) :
    (a.andThen b).2 = a.2 ++ (if a.1 = .ok true then (b ()).2 else []) := by
  rcases a with ⟨o, t⟩
  cases o with
  | ok v => cases v <;> simp [Res.andThen]
  | raised e => simp [Res.andThen]

theorem Res.orElse_fst (a : Res) (b : Unit → Res) : (a.orElse b).1 = a.1.orElse (b ()).1 := by
  rcases a with ⟨o, t⟩
  cases o with
  | ok v => cases v <;> simp [Res.orElse, Outcome.orElse]
  | raised e => simp [Res.orElse, Outcome.orElse]

theorem Res.orElse_snd (a : Res) (b : Unit → Res) :
    (a.orElse b).2 = a.2 ++ (if a.1 = .ok false then (b ()).2 else []) := by
  rcases a with ⟨o, t⟩
  cases o with
  | ok v => cases v <;> simp [Res.orElse]
  | raised e => simp [Res.orElse]

theorem Res.xor_fst (a : Res) (b : Unit → Res) :
    (a.xor b).1 = match a.1, (b ()).1 with
      | .ok u, .ok v => .ok (u != v)
      | .ok _, .raised e => .raised e
      | .raised e, _ => .raised e := by
  rcases a with ⟨o, t⟩
  rcases hb : b () with ⟨o', t'⟩
  cases o <;> cases o' <;> simp [Res.xor, hb]

theorem Res.xor_snd (a : Res) (b : Unit → Res) :
    (a.xor b).2 = a.2 ++ (if a.1.isOk then (b ()).2 else []) := by
  rcases a with ⟨o, t⟩
  rcases hb : b () with ⟨o', t'⟩
  cases o <;> cases o' <;> simp [Res.xor, hb, Outcome.isOk]

/-! ### Value laws: `&`, `|`, `^`, `~` -/

/-- `(p & q)(x)` is `p(x) and q(x)`. -/
theorem C07_and_value (l r : P) (x : PyVal) :
    value T (.and l r) x = (value T l x).andThen (value T r x) := by
  simp [value, evalE, Res.andThen_fst]

/-- `(p | q)(x)` is `p(x) or q(x)`. -/
theorem C07_or_value (l r : P) (x : PyVal) :
    value T (.or l r) x = (value T l x).orElse (value T r x) := by
  simp [value, evalE, Res.orElse_fst]

/-- `(p ^ q)(x)`: both operands are evaluated, left first; an exception of either propagates. -/
theorem C07_xor_value (l r : P) (x : PyVal) :
    value T (.xor l r) x =
      match value T l x, value T r x with
      | .ok a, .ok b => .ok (a != b)
      | .ok _, .raised e => .raised e
      | .raised e, _ => .raised e := by
  show ((evalE T l x).xor (fun _ => evalE T r x)).1 = _
  rw [Res.xor_fst]; rfl

/-- `(~p)(x)` is `not p(x)`. -/
theorem C07_not_value (p : P) (x : PyVal) : value T (.not p) x = (value T p x).not := by
  simp [value, evalE, Res.not]

/-- For operands that return booleans the four connectives are the Boolean functions
`and`, `or`, `!=`, `not`. -/
theorem C07_truth_functional (l r : P) (x : PyVal) (a b : Bool)
    (hl : value T l x = .ok a) (hr : value T r x = .ok b) :
    value T (.and l r) x = .ok (a && b) ∧ value T (.or l r) x = .ok (a || b) ∧
    value T (.xor l r) x = .ok (a != b) ∧ value T (.not l) x = .ok (!a) := by
  rw [C07_and_value, C07_or_value, C07_xor_value, C07_not_value, hl, hr]
  cases a <;> cases b <;> simp [Outcome.andThen, Outcome.orElse, Outcome.not]

/-! ### Trace laws: left operand first, right operand only when the left does not decide -/

theorem C07_and_trace (l r : P) (x : PyVal) :
    trace T (.and l r) x = trace T l x ++ (if value T l x = .ok true then trace T r x else []) := by
  show ((evalE T l x).andThen (fun _ => evalE T r x)).2 = _
  rw [Res.andThen_snd]; rfl

theorem C07_or_trace (l r : P) (x : PyVal) :
    trace T (.or l r) x = trace T l x ++ (if value T l x = .ok false then trace T r x else []) := by
  show ((evalE T l x).orElse (fun _ => evalE T r x)).2 = _
  rw [Res.orElse_snd]; rfl

/-- `^` never short-circuits: the right operand is called whenever the left returned. -/
theorem C07_xor_trace (l r : P) (x : PyVal) :
    trace T (.xor l r) x = trace T l x ++ (if (value T l x).isOk then trace T r x else []) := by
  show ((evalE T l x).xor (fun _ => evalE T r x)).2 = _
  rw [Res.xor_snd]; rfl

theorem C07_not_trace (p : P) (x : PyVal) : trace T (.not p) x = trace T p x := by
  simp [trace, evalE, Res.not]

/-- A guard on the left protects the operand on the right: if the left operand of
`&` returns `False`, the result is `False` and the right operand is not called at
all — whatever it is and whatever it would do (raise, loop over `x`, …). -/
theorem C07_guard_protects (l r : P) (x : PyVal) (h : value T l x = .ok false) :
    evalE T (.and l r) x = (.ok false, trace T l x) := by
  have h1 := C07_and_value T l r x
  have h2 := C07_and_trace T l r x
  rw [h] at h1 h2
  simp [Outcome.andThen] at h1 h2
  exact Prod.ext h1 h2

/-- Dual: a left operand of `|` that returns `True` decides. -/
theorem C07_guard_protects_or (l r : P) (x : PyVal) (h : value T l x = .ok true) :
    evalE T (.or l r) x = (.ok true, trace T l x) := by
  have h1 := C07_or_value T l r x
  have h2 := C07_or_trace T l r x
  rw [h] at h1 h2
  simp [Outcome.orElse] at h1 h2
  exact Prod.ext h1 h2

/-- In particular the result does not depend on the guarded operand. -/
theorem C07_guard_independent (l r r' : P) (x : PyVal) (h : value T l x = .ok false) :
    evalE T (.and l r) x = evalE T (.and l r') x := by
  rw [C07_guard_protects T l r x h, C07_guard_protects T l r' x h]

/-- An exception of the left operand propagates and the right one is not called. -/
theorem C07_left_raises (l r : P) (x : PyVal) (e : Err) (h : value T l x = .raised e) :
    evalE T (.and l r) x = (.raised e, trace T l x) ∧ evalE T (.or l r) x = (.raised e, trace T l x) ∧
    evalE T (.xor l r) x = (.raised e, trace T l x) := by
  refine ⟨Prod.ext ?_ ?_, Prod.ext ?_ ?_, Prod.ext ?_ ?_⟩
  · have := C07_and_value T l r x; rw [h] at this; simpa [Outcome.andThen, value] using this
  · have := C07_and_trace T l r x; rw [h] at this; simpa [trace] using this
  · have := C07_or_value T l r x; rw [h] at this; simpa [Outcome.orElse, value] using this
  · have := C07_or_trace T l r x; rw [h] at this; simpa [trace] using this
  · have := C07_xor_value T l r x; rw [h] at this; simpa [value] using this
  · have := C07_xor_trace T l r x; rw [h] at this; simpa [trace, Outcome.isOk] using this

/-! ### Quantifiers -/

section Quant
variable (f : PyVal → Res)

theorem allE_all_true (xs : List PyVal) (h : ∀ y ∈ xs, (f y).1 = .ok true) :
    allE f xs = (.ok true, xs.flatMap (fun y => (f y).2)) := by
  induction xs with
  | nil => rfl
  | cons y ys ih =>
    have hy := h y (by simp)
    have ih' := ih (fun z hz => h z (by simp [hz]))
    rcases hfy : f y with ⟨o, t⟩
    rw [hfy] at hy
    simp at hy
    subst hy
    simp [allE, hfy, ih']

theorem allE_stop (pre : List PyVal) (c : PyVal) (post : List PyVal)
    (h : ∀ y ∈ pre, (f y).1 = .ok true) (hc : (f c).1 ≠ .ok true) :
    allE f (pre ++ c :: post) = ((f c).1, (pre ++ [c]).flatMap (fun y => (f y).2)) := by
  induction pre with
  | nil =>
    rcases hfc : f c with ⟨o, t⟩
    rw [hfc] at hc
    simp at hc
    cases o with
    | ok b => cases b <;> simp_all [allE]
    | raised e => simp [allE, hfc]
  | cons y ys ih =>
    have hy := h y (by simp)
    have ih' := ih (fun z hz => h z (by simp [hz]))
    rcases hfy : f y with ⟨o, t⟩
    rw [hfy] at hy
    simp at hy
    subst hy
    simp [allE, hfy, ih']

theorem allE_isOk (xs : List PyVal) (h : ∀ y ∈ xs, (f y).1.isOk = true) :
    (allE f xs).1 = .ok (xs.all (fun y => (f y).1 == .ok true)) := by
  induction xs with
  | nil => rfl
  | cons y ys ih =>
    have hy := h y (by simp)
    have ih' := ih (fun z hz => h z (by simp [hz]))
    rcases hfy : f y with ⟨o, t⟩
    rw [hfy] at hy
    cases o with
    | ok b => cases b <;> simp [allE, hfy, ih']
    | raised e => simp [Outcome.isOk] at hy

theorem anyE_all_false (xs : List PyVal) (h : ∀ y ∈ xs, (f y).1 = .ok false) :
    anyE f xs = (.ok false, xs.flatMap (fun y => (f y).2)) := by
  induction xs with
  | nil => rfl
  | cons y ys ih =>
    have hy := h y (by simp)
    have ih' := ih (fun z hz => h z (by simp [hz]))
    rcases hfy : f y with ⟨o, t⟩
    rw [hfy] at hy
    simp at hy
    subst hy
    simp [anyE, hfy, ih']

theorem anyE_stop (pre : List PyVal) (c : PyVal) (post : List PyVal)
    (h : ∀ y ∈ pre, (f y).1 = .ok false) (hc : (f c).1 ≠ .ok false) :
    anyE f (pre ++ c :: post) = ((f c).1, (pre ++ [c]).flatMap (fun y => (f y).2)) := by
  induction pre with
  | nil =>
    rcases hfc : f c with ⟨o, t⟩
    rw [hfc] at hc
    simp at hc
    cases o with
    | ok b => cases b <;> simp_all [anyE]
    | raised e => simp [anyE, hfc]
  | cons y ys ih =>
    have hy := h y (by simp)
    have ih' := ih (fun z hz => h z (by simp [hz]))
    rcases hfy : f y with ⟨o, t⟩
    rw [hfy] at hy
    simp at hy
    subst hy
    simp [anyE, hfy, ih']

theorem anyE_isOk (xs : List PyVal) (h : ∀ y ∈ xs, (f y).1.isOk = true) :
    (anyE f xs).1 = .ok (xs.any (fun y => (f y).1 == .ok true)) := by
  induction xs with
  | nil => rfl
  | cons y ys ih =>
    have hy := h y (by simp)
    have ih' := ih (fun z hz => h z (by simp [hz]))
    rcases hfy : f y with ⟨o, t⟩
    rw [hfy] at hy
    cases o with
    | ok b => cases b <;> simp [anyE, hfy, ih']
    | raised e => simp [Outcome.isOk] at hy

end Quant

theorem evalE_all (p : P) (x : PyVal) (xs : List PyVal) (h : iterElems x = some xs) :
    evalE T (.all p) x = allE (fun y => evalE T p y) xs := by
  simp [evalE, h]

theorem evalE_any (p : P) (x : PyVal) (xs : List PyVal) (h : iterElems x = some xs) :
    evalE T (.any p) x = anyE (fun y => evalE T p y) xs := by
  simp [evalE, h]

/-- `all_p(p)` is `True` on an empty collection, without calling `p`. -/
theorem C07_all_empty (p : P) (x : PyVal) (h : iterElems x = some []) :
    evalE T (.all p) x = (.ok true, []) := by
  rw [evalE_all T p x [] h]; rfl

/-- `any_p(p)` is `False` on an empty collection, without calling `p`. -/
theorem C07_any_empty (p : P) (x : PyVal) (h : iterElems x = some []) :
    evalE T (.any p) x = (.ok false, []) := by
  rw [evalE_any T p x [] h]; rfl

/-- `all_p(p)` when `p` holds of every element: `True`, and the elements were visited in order. -/
theorem C07_all_true (p : P) (x : PyVal) (xs : List PyVal) (h : iterElems x = some xs)
    (hall : ∀ y ∈ xs, value T p y = .ok true) :
    evalE T (.all p) x = (.ok true, xs.flatMap (trace T p)) := by
  rw [evalE_all T p x xs h]
  exact allE_all_true _ xs hall

/-- `all_p(p)` stops at the first element `c` on which `p` does not return `True`
(a counter-example, or an exception): the result is `p(c)`, and nothing after `c` is
visited. -/
theorem C07_all_stops (p : P) (x : PyVal) (pre post : List PyVal) (c : PyVal)
    (h : iterElems x = some (pre ++ c :: post))
    (hpre : ∀ y ∈ pre, value T p y = .ok true) (hc : value T p c ≠ .ok true) :
    evalE T (.all p) x = (value T p c, (pre ++ [c]).flatMap (trace T p)) := by
  rw [evalE_all T p x _ h]
  exact allE_stop _ pre c post hpre hc

/-- `any_p(p)` when `p` fails on every element. -/
theorem C07_any_false (p : P) (x : PyVal) (xs : List PyVal) (h : iterElems x = some xs)
    (hall : ∀ y ∈ xs, value T p y = .ok false) :
    evalE T (.any p) x = (.ok false, xs.flatMap (trace T p)) := by
  rw [evalE_any T p x xs h]
  exact anyE_all_false _ xs hall

/-- `any_p(p)` stops at the first witness (or exception). -/
theorem C07_any_stops (p : P) (x : PyVal) (pre post : List PyVal) (c : PyVal)
    (h : iterElems x = some (pre ++ c :: post))
    (hpre : ∀ y ∈ pre, value T p y = .ok false) (hc : value T p c ≠ .ok false) :
    evalE T (.any p) x = (value T p c, (pre ++ [c]).flatMap (trace T p)) := by
  rw [evalE_any T p x _ h]
  exact anyE_stop _ pre c post hpre hc

/-- For a boolean-returning `p`, `all_p(p)` / `any_p(p)` are for-all / exists over the elements. -/
theorem C07_all_any_quantifiers (p : P) (x : PyVal) (xs : List PyVal) (h : iterElems x = some xs)
    (hok : ∀ y ∈ xs, (value T p y).isOk = true) :
    value T (.all p) x = .ok (xs.all (fun y => value T p y == .ok true)) ∧
    value T (.any p) x = .ok (xs.any (fun y => value T p y == .ok true)) := by
  constructor
  · simp only [value]; rw [evalE_all T p x xs h]; exact allE_isOk _ xs hok
  · simp only [value]; rw [evalE_any T p x xs h]; exact anyE_isOk _ xs hok

/-- Not iterable: `TypeError`, nothing called. -/
theorem C07_quantifier_not_iterable (p : P) (x : PyVal) (h : iterElems x = none) :
    evalE T (.all p) x = (.raised .typeError, []) ∧ evalE T (.any p) x = (.raised .typeError, []) := by
  simp [evalE, h]

/-! ### `comp_p` and `tee_p` -/

/-- `comp_p(f, p)(x)` is `p(f(x))`. -/
theorem C07_comp (b : BaseFn) (p : P) (x y : PyVal) (h : applyBase b x = .val y) :
    evalE T (.comp ⟨none, b⟩ p) x = evalE T p y := by
  simp [evalE, h]

/-- With an instrumented `f`: `f` is called exactly once, with `x`, before anything `p` does. -/
theorem C07_comp_instrumented (i : Nat) (b : BaseFn) (p : P) (x y : PyVal)
    (hT : (T i x).isOk = true) (h : applyBase b x = .val y) :
    evalE T (.comp ⟨some i, b⟩ p) x = (value T p y, ⟨i, x⟩ :: trace T p y) := by
  cases hT' : T i x with
  | ok v => simp [evalE, h, hT', value, trace]
  | raised e => simp [hT', Outcome.isOk] at hT

/-- If `f` raises, `p` is not called. -/
theorem C07_comp_fn_raises (b : BaseFn) (p : P) (x : PyVal) (e : Err) (h : applyBase b x = .err e) :
    evalE T (.comp ⟨none, b⟩ p) x = (.raised e, []) := by
  simp [evalE, h]

/-- `tee_p(f)` calls `f` exactly once, with `x`. -/
theorem C07_tee_once (i : Nat) (x : PyVal) : trace T (.tee i) x = [⟨i, x⟩] := by
  simp [trace, evalE]

/-- … and returns `True` whatever `f` returned. -/
theorem C07_tee_true (i : Nat) (x : PyVal) (h : (T i x).isOk = true) :
    evalE T (.tee i) x = (.ok true, [⟨i, x⟩]) := by
  cases hT : T i x with
  | ok v => simp [evalE, hT]
  | raised e => simp [hT, Outcome.isOk] at h

/-! ### The trace of any tree is the left-to-right short-circuit traversal

`outcomeS` and `visitsS` are the *specification*: two separate structural
definitions, one of the value (truth-functional, exception-aware) and one of the
order of visits, written exactly as the property reads.  The theorem says that the
one-pass evaluator `evalE` computes this pair for every tree.  The list-shaped nodes
(`tuple_of`, `set_of`, `dict_of`) are outside the property and are left to `evalE`. -/

def allO (o : PyVal → Outcome) : List PyVal → Outcome
  | [] => .ok true
  | y :: ys => (o y).andThen (allO o ys)

def anyO (o : PyVal → Outcome) : List PyVal → Outcome
  | [] => .ok false
  | y :: ys => (o y).orElse (anyO o ys)

def allV (o : PyVal → Outcome) (v : PyVal → List Event) : List PyVal → List Event
  | [] => []
  | y :: ys => v y ++ (if o y = .ok true then allV o v ys else [])

def anyV (o : PyVal → Outcome) (v : PyVal → List Event) : List PyVal → List Event
  | [] => []
  | y :: ys => v y ++ (if o y = .ok false then anyV o v ys else [])

/-- Value of a call, by structural recursion, no traces. -/
def outcomeS (T : Table) : P → PyVal → Outcome
  | .atom a, x => atomSem a x
  | .probe i, x => T i x
  | .and l r, x => (outcomeS T l x).andThen (outcomeS T r x)
  | .or l r, x => (outcomeS T l x).orElse (outcomeS T r x)
  | .xor l r, x =>
    match outcomeS T l x, outcomeS T r x with
    | .ok a, .ok b => .ok (a != b)
    | .ok _, .raised e => .raised e
    | .raised e, _ => .raised e
  | .not p, x => (outcomeS T p x).not
  | .all p, x =>
    match iterElems x with
    | some xs => allO (fun y => outcomeS T p y) xs
    | none => .raised .typeError
  | .any p, x =>
    match iterElems x with
    | some xs => anyO (fun y => outcomeS T p y) xs
    | none => .raised .typeError
  | .comp f p, x =>
    match f.probe.map (fun i => T i x) with
    | some (.raised e) => .raised e
    | _ =>
      match applyBase f.base x with
      | .err e => .raised e
      | .val y => outcomeS T p y
  | .tee i, x => match T i x with | .raised e => .raised e | _ => .ok true
  | q, x => value T q x

/-- Calls made, in order: left before right, right only if the left does not decide;
elements in order up to the first that decides; `f` before `p` in `comp_p`. -/
def visitsS (T : Table) : P → PyVal → List Event
  | .atom _, _ => []
  | .probe i, x => [⟨i, x⟩]
  | .and l r, x => visitsS T l x ++ (if outcomeS T l x = .ok true then visitsS T r x else [])
  | .or l r, x => visitsS T l x ++ (if outcomeS T l x = .ok false then visitsS T r x else [])
  | .xor l r, x => visitsS T l x ++ (if (outcomeS T l x).isOk then visitsS T r x else [])
  | .not p, x => visitsS T p x
  | .all p, x =>
    match iterElems x with
    | some xs => allV (fun y => outcomeS T p y) (fun y => visitsS T p y) xs
    | none => []
  | .any p, x =>
    match iterElems x with
    | some xs => anyV (fun y => outcomeS T p y) (fun y => visitsS T p y) xs
    | none => []
  | .comp f p, x =>
    (match f.probe with | some i => [⟨i, x⟩] | none => []) ++
    (match f.probe.map (fun i => T i x) with
     | some (.raised _) => []
     | _ =>
       match applyBase f.base x with
       | .err _ => []
       | .val y => visitsS T p y)
  | .tee i, x => [⟨i, x⟩]
  | q, x => trace T q x

theorem allE_spec (f : PyVal → Res) (xs : List PyVal) :
    allE f xs = (allO (fun y => (f y).1) xs, allV (fun y => (f y).1) (fun y => (f y).2) xs) := by
  induction xs with
  | nil => rfl
  | cons y ys ih =>
    rcases hfy : f y with ⟨o, t⟩
    cases o with
    | ok b => cases b <;> simp [allE, allO, allV, hfy, ih, Outcome.andThen]
    | raised e => simp [allE, allO, allV, hfy, Outcome.andThen]

theorem anyE_spec (f : PyVal → Res) (xs : List PyVal) :
    anyE f xs = (anyO (fun y => (f y).1) xs, anyV (fun y => (f y).1) (fun y => (f y).2) xs) := by
  induction xs with
  | nil => rfl
  | cons y ys ih =>
    rcases hfy : f y with ⟨o, t⟩
    cases o with
    | ok b => cases b <;> simp [anyE, anyO, anyV, hfy, ih, Outcome.orElse]
    | raised e => simp [anyE, anyO, anyV, hfy, Outcome.orElse]

/-- **Main theorem.**  For every tree, the evaluator's outcome is the truth-functional
value and its trace is the left-to-right short-circuit traversal. -/
theorem C07_trace_is_traversal (p : P) : ∀ x : PyVal, evalE T p x = (outcomeS T p x, visitsS T p x) := by
  induction p with
  | atom a => intro x; simp [evalE, outcomeS, visitsS]
  | probe i => intro x; simp [evalE, outcomeS, visitsS]
  | and l r ihl ihr =>
    intro x
    refine Prod.ext ?_ ?_
    · have := C07_and_value T l r x
      simp only [value] at this
      simp [this, outcomeS, ihl x, ihr x]
    · have := C07_and_trace T l r x
      simp only [trace, value] at this
      simp [this, visitsS, ihl x, ihr x]
  | or l r ihl ihr =>
    intro x
    refine Prod.ext ?_ ?_
    · have := C07_or_value T l r x
      simp only [value] at this
      simp [this, outcomeS, ihl x, ihr x]
    · have := C07_or_trace T l r x
      simp only [trace, value] at this
      simp [this, visitsS, ihl x, ihr x]
  | xor l r ihl ihr =>
    intro x
    refine Prod.ext ?_ ?_
    · have := C07_xor_value T l r x
      simp only [value] at this
      simp [this, outcomeS, ihl x, ihr x]
    · have := C07_xor_trace T l r x
      simp only [trace, value] at this
      simp [this, visitsS, ihl x, ihr x]
  | not p ih =>
    intro x
    simp [evalE, Res.not, outcomeS, visitsS, ih x]
  | all p ih =>
    intro x
    cases h : iterElems x with
    | none => simp [evalE, outcomeS, visitsS, h]
    | some xs =>
      rw [evalE_all T p x xs h, allE_spec]
      simp [outcomeS, visitsS, h, ih]
  | any p ih =>
    intro x
    cases h : iterElems x with
    | none => simp [evalE, outcomeS, visitsS, h]
    | some xs =>
      rw [evalE_any T p x xs h, anyE_spec]
      simp [outcomeS, visitsS, h, ih]
  | comp f p ih =>
    intro x
    rcases f with ⟨pr, b⟩
    cases pr with
    | none =>
      cases hb : applyBase b x with
      | err e => simp [evalE, outcomeS, visitsS, hb]
      | val y => simp [evalE, outcomeS, visitsS, hb, ih y]
    | some i =>
      cases hT : T i x with
      | raised e => simp [evalE, outcomeS, visitsS, hT]
      | ok v =>
        cases hb : applyBase b x with
        | err e => simp [evalE, outcomeS, visitsS, hb, hT]
        | val y => simp [evalE, outcomeS, visitsS, hb, hT, ih y]
  | tee i => intro x; cases hT : T i x <;> simp [evalE, outcomeS, visitsS, hT]
  | tupleOf ps _ => intro x; simp [outcomeS, visitsS, value, trace]
  | setOf p _ => intro x; simp [outcomeS, visitsS, value, trace]
  | dictOf kvs _ => intro x; simp [outcomeS, visitsS, value, trace]
  | pnil => intro x; simp [outcomeS, visitsS, value, trace]
  | pcons h t _ _ => intro x; simp [outcomeS, visitsS, value, trace]

/-- The value does not depend on the instrumentation being observed: it is the
structurally defined, exception-aware value. -/
theorem C07_value_is_outcomeS (p : P) (x : PyVal) : value T p x = outcomeS T p x := by
  simp [value, C07_trace_is_traversal T p x]

/-! ### Link with a total Boolean semantics -/

theorem evalTupE_fst_ok (ps : P) :
    (∀ x b, value T ps x = .ok b → evalB T ps x = b) ∧
    (∀ xs b, (evalTupE T ps xs).1 = .ok b → evalTupB T ps xs = b) := by
  induction ps with
  | atom a =>
    refine ⟨?_, ?_⟩
    · intro x b h; simp [value, evalE] at h; simp [evalB, h, Outcome.toBool]
    · intro xs b h; simp [evalTupE] at h; subst h; simp [evalTupB]
  | probe i =>
    refine ⟨?_, ?_⟩
    · intro x b h; simp [value, evalE] at h; simp [evalB, h, Outcome.toBool]
    · intro xs b h; simp [evalTupE] at h; subst h; simp [evalTupB]
  | and l r ihl ihr =>
    refine ⟨?_, ?_⟩
    · intro x b h
      rw [C07_and_value] at h
      cases hl : value T l x with
      | raised e => simp [hl, Outcome.andThen] at h
      | ok a =>
        cases a with
        | false =>
          simp [hl, Outcome.andThen] at h
          subst h
          simp [evalB, ihl.1 x false hl]
        | true =>
          simp [hl, Outcome.andThen] at h
          simp [evalB, ihl.1 x true hl, ihr.1 x b h]
    · intro xs b h; simp [evalTupE] at h; subst h; simp [evalTupB]
  | or l r ihl ihr =>
    refine ⟨?_, ?_⟩
    · intro x b h
      rw [C07_or_value] at h
      cases hl : value T l x with
      | raised e => simp [hl, Outcome.orElse] at h
      | ok a =>
        cases a with
        | true =>
          simp [hl, Outcome.orElse] at h
          subst h
          simp [evalB, ihl.1 x true hl]
        | false =>
          simp [hl, Outcome.orElse] at h
          simp [evalB, ihl.1 x false hl, ihr.1 x b h]
    · intro xs b h; simp [evalTupE] at h; subst h; simp [evalTupB]
  | xor l r ihl ihr =>
    refine ⟨?_, ?_⟩
    · intro x b h
      rw [C07_xor_value] at h
      cases hl : value T l x with
      | raised e => simp [hl] at h
      | ok a =>
        cases hr : value T r x with
        | raised e => simp [hl, hr] at h
        | ok c =>
          simp [hl, hr] at h
          subst h
          simp [evalB, ihl.1 x a hl, ihr.1 x c hr]
    · intro xs b h; simp [evalTupE] at h; subst h; simp [evalTupB]
  | not p ih =>
    refine ⟨?_, ?_⟩
    · intro x b h
      rw [C07_not_value] at h
      cases hp : value T p x with
      | raised e => simp [hp, Outcome.not] at h
      | ok a =>
        have := ih.1 x a hp
        simp [hp, Outcome.not] at h
        subst h
        simp [evalB, this]
    · intro xs b h; simp [evalTupE] at h; subst h; simp [evalTupB]
  | all p ih =>
    refine ⟨?_, ?_⟩
    · intro x b h
      cases hx : iterElems x with
      | none => simp [value, evalE, hx] at h
      | some xs =>
        simp only [value] at h
        rw [evalE_all T p x xs hx] at h
        simp only [evalB, hx, Option.getD_some]
        clear hx
        induction xs generalizing b with
        | nil => simp [allE] at h; subst h; simp []
        | cons y ys ihx =>
          rcases hfy : evalE T p y with ⟨o, t⟩
          cases o with
          | raised e => simp [allE, hfy] at h
          | ok a =>
            have hy := ih.1 y a (by simp [value, hfy])
            cases a with
            | false => simp [allE, hfy] at h; subst h; simp [hy]
            | true =>
              simp [allE, hfy] at h
              simp [hy, ihx b h]
    · intro xs b h; simp [evalTupE] at h; subst h; simp [evalTupB]
  | any p ih =>
    refine ⟨?_, ?_⟩
    · intro x b h
      cases hx : iterElems x with
      | none => simp [value, evalE, hx] at h
      | some xs =>
        simp only [value] at h
        rw [evalE_any T p x xs hx] at h
        simp only [evalB, hx, Option.getD_some]
        clear hx
        induction xs generalizing b with
        | nil => simp [anyE] at h; subst h; simp []
        | cons y ys ihx =>
          rcases hfy : evalE T p y with ⟨o, t⟩
          cases o with
          | raised e => simp [anyE, hfy] at h
          | ok a =>
            have hy := ih.1 y a (by simp [value, hfy])
            cases a with
            | true => simp [anyE, hfy] at h; subst h; simp [hy]
            | false =>
              simp [anyE, hfy] at h
              simp [hy, ihx b h]
    · intro xs b h; simp [evalTupE] at h; subst h; simp [evalTupB]
  | setOf p ih =>
    refine ⟨?_, ?_⟩
    · intro x b h
      cases hx : iterElems x with
      | none => simp [value, evalE, hx] at h
      | some xs =>
        simp only [value, evalE, hx] at h
        simp only [evalB, hx, Option.getD_some]
        clear hx
        induction xs generalizing b with
        | nil => simp [allE] at h; subst h; simp []
        | cons y ys ihx =>
          rcases hfy : evalE T p y with ⟨o, t⟩
          cases o with
          | raised e => simp [allE, hfy] at h
          | ok a =>
            have hy := ih.1 y a (by simp [value, hfy])
            cases a with
            | false => simp [allE, hfy] at h; subst h; simp [hy]
            | true =>
              simp [allE, hfy] at h
              simp [hy, ihx b h]
    · intro xs b h; simp [evalTupE] at h; subst h; simp [evalTupB]
  | comp f p ih =>
    refine ⟨?_, ?_⟩
    · intro x b h
      rw [C07_value_is_outcomeS] at h
      simp only [outcomeS] at h
      cases hb : applyBase f.base x with
      | err e =>
        rw [hb] at h
        split at h <;> simp at h
      | val y =>
        rw [hb] at h
        have : outcomeS T p y = .ok b := by
          split at h
          · simp at h
          · simpa using h
        rw [← C07_value_is_outcomeS] at this
        simp [evalB, hb, ih.1 y b this]
    · intro xs b h; simp [evalTupE] at h; subst h; simp [evalTupB]
  | tee i =>
    refine ⟨?_, ?_⟩
    · intro x b h
      simp only [value, evalE] at h
      cases hT : T i x with
      | ok v => simp [hT] at h; subst h; simp [evalB]
      | raised e => simp [hT] at h
    · intro xs b h; simp [evalTupE] at h; subst h; simp [evalTupB]
  | tupleOf ps ih =>
    refine ⟨?_, ?_⟩
    · intro x b h
      cases hx : iterElems x with
      | none => simp [value, evalE, hx] at h
      | some xs =>
        simp only [value, evalE, hx] at h
        simp only [evalB, hx, Option.getD_some]
        by_cases hlen : (xs.length == ps.chainLen) = true
        · simp [hlen] at h
          simp [hlen, ih.2 xs b h]
        · simp [hlen] at h
          subst h
          simp [hlen]
    · intro xs b h; simp [evalTupE] at h; subst h; simp [evalTupB]
  | dictOf kvs _ =>
    refine ⟨?_, ?_⟩
    · intro x b h; simp [evalB, h, Outcome.toBool]
    · intro xs b h; simp [evalTupE] at h; subst h; simp [evalTupB]
  | pnil =>
    refine ⟨?_, ?_⟩
    · intro x b h; simp [value, evalE] at h; subst h; simp [evalB]
    · intro xs b h; simp [evalTupE] at h; subst h; simp [evalTupB]
  | pcons hd tl ihh iht =>
    refine ⟨?_, ?_⟩
    · intro x b h; simp [value, evalE] at h; subst h; simp [evalB]
    · intro xs b h
      cases xs with
      | nil => simp [evalTupE] at h; subst h; simp [evalTupB]
      | cons y ys =>
        simp only [evalTupE, Res.andThen_fst] at h
        cases hh : (evalE T hd y).1 with
        | raised e => simp [hh, Outcome.andThen] at h
        | ok a =>
          have hy := ihh.1 y a (by simp [value, hh])
          cases a with
          | false => simp [hh, Outcome.andThen] at h; subst h; simp [evalTupB, hy]
          | true =>
            simp [hh, Outcome.andThen] at h
            simp [evalTupB, hy, iht.2 ys b h]

/-- Whenever a call returns (does not raise), the value it returns is the one the
total Boolean semantics assigns (exceptions read as `false`, no evaluation order):
short-circuiting never changes a returned value. -/
theorem C07_pure_agrees (p : P) (x : PyVal) (b : Bool) (h : value T p x = .ok b) : evalB T p x = b :=
  (evalTupE_fst_ok T p).1 x b h

/-! ### Non-vacuity -/

section Examples

private def T0 : Table := fun i x =>
  match i, x with
  | 0, .int n => .ok (decide (0 < n))
  | 0, _ => .raised .typeError
  | 1, _ => .raised .valueError
  | _, _ => .ok false

/-- `is_int_p & probe0` on a string: the guard answers `False`, probe 0 (which would raise) is not called. -/
example : evalE T0 (.and (.atom (.inst [.int])) (.probe 0)) (.str [97]) = (.ok false, []) := by rfl
/-- The other order raises. -/
example : evalE T0 (.and (.probe 0) (.atom (.inst [.int]))) (.str [97]) = (.raised .typeError, [⟨0, .str [97]⟩]) := by rfl
/-- `all_p` stops at the first counter-example. -/
example : evalE T0 (.all (.probe 0)) (.list [.int 1, .int 0, .int 2]) = (.ok false, [⟨0, .int 1⟩, ⟨0, .int 0⟩]) := by rfl
/-- `p | raising`: the left decides. -/
example : value T0 (.or (.probe 0) (.probe 1)) (.int 3) = .ok true := by rfl
/-- `^` evaluates both. -/
example : evalE T0 (.xor (.probe 2) (.probe 0)) (.int 3) = (.ok true, [⟨2, .int 3⟩, ⟨0, .int 3⟩]) := by rfl

end Examples

end PyPred
