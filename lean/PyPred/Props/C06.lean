/-
C06  Predicate equality is a congruence: p == q implies p and q agree everywhere.
-/
import PyPred.Lemmas.Beq

set_option linter.unusedSectionVars false

namespace PyPred
variable {V : Type} [DecidableEq V] [LT V] [LE V] [DecidableLT V] [DecidableLE V]

/-- `p == q` ⇒ same answer on every value, for every interpretation of the opaque
atoms.  The placeholders this_p / root_p are `leaf` kinds: their meaning is an
arbitrary `Interp.leaf`, i.e. whatever the surrounding scope makes of them, which
is exactly the exception the property makes. -/
theorem C06_beq_sound (I : Interp V) {p q : Pred V} (h : Pred.beq p q = true) (x : Val V) :
    eval I p x = eval I q x :=
  beq_sound I h x

theorem C06_beq_refl (p : Pred V) : Pred.beq p p = true := beq_refl p

theorem C06_beq_symm (p q : Pred V) : Pred.beq p q = Pred.beq q p := beq_symm p q

/-- `&`, `|`, `^` are unordered. -/
theorem C06_beq_comm (a b : Pred V) :
    Pred.beq (.and a b) (.and b a) = true ∧ Pred.beq (.or a b) (.or b a) = true ∧
    Pred.beq (.xor a b) (.xor b a) = true := by
  simp [Pred.beq, beq_refl]

/-- Equality separates every parameter of every atom. -/
theorem C06_beq_atom_iff (v w lo hi lo' hi' : V) (s t : List V) (k k' : Nat) (ps ps' : List Int)
    (kl kl' : List Nat) (n m : String) (b c : Bool) :
    (Pred.beq (.eq v : Pred V) (.eq w) = true ↔ v = w) ∧
    (Pred.beq (.ne v : Pred V) (.ne w) = true ↔ v = w) ∧
    (Pred.beq (.ge v : Pred V) (.ge w) = true ↔ v = w) ∧
    (Pred.beq (.gt v : Pred V) (.gt w) = true ↔ v = w) ∧
    (Pred.beq (.le v : Pred V) (.le w) = true ↔ v = w) ∧
    (Pred.beq (.lt v : Pred V) (.lt w) = true ↔ v = w) ∧
    (Pred.beq (.gele lo hi : Pred V) (.gele lo' hi') = true ↔ lo = lo' ∧ hi = hi') ∧
    (Pred.beq (.gelt lo hi : Pred V) (.gelt lo' hi') = true ↔ lo = lo' ∧ hi = hi') ∧
    (Pred.beq (.gtle lo hi : Pred V) (.gtle lo' hi') = true ↔ lo = lo' ∧ hi = hi') ∧
    (Pred.beq (.gtlt lo hi : Pred V) (.gtlt lo' hi') = true ↔ lo = lo' ∧ hi = hi') ∧
    (Pred.beq (.isin s : Pred V) (.isin t) = true ↔ ∀ a, a ∈ s ↔ a ∈ t) ∧
    (Pred.beq (.notin s : Pred V) (.notin t) = true ↔ ∀ a, a ∈ s ↔ a ∈ t) ∧
    (Pred.beq (.subset s : Pred V) (.subset t) = true ↔ ∀ a, a ∈ s ↔ a ∈ t) ∧
    (Pred.beq (.rsubset s : Pred V) (.rsubset t) = true ↔ ∀ a, a ∈ s ↔ a ∈ t) ∧
    (Pred.beq (.superset s : Pred V) (.superset t) = true ↔ ∀ a, a ∈ s ↔ a ∈ t) ∧
    (Pred.beq (.rsuperset s : Pred V) (.rsuperset t) = true ↔ ∀ a, a ∈ s ↔ a ∈ t) ∧
    (Pred.beq (.fn k : Pred V) (.fn k') = true ↔ k = k') ∧
    (Pred.beq (.inst kl : Pred V) (.inst kl') = true ↔ kl = kl') ∧
    (Pred.beq (.var n b : Pred V) (.var m c) = true ↔ n = m ∧ b = c) ∧
    (Pred.beq (.leaf k ps : Pred V) (.leaf k' ps') = true ↔ k = k' ∧ ps = ps') := by
  simp [Pred.beq]

/-- Different kinds are never equal (sample of the 39 × 38 off-diagonal pairs that
matter to the optimizer; the rest are the catch-all `| _, _ => false`). -/
theorem C06_beq_kinds (v : V) (s : List V) (p : Pred V) :
    Pred.beq (.eq v : Pred V) (.ne v) = false ∧ Pred.beq (.ge v : Pred V) (.gt v) = false ∧
    Pred.beq (.isin s : Pred V) (.notin s) = false ∧ Pred.beq (.subset s : Pred V) (.rsubset s) = false ∧
    Pred.beq (.all p) (.any p) = false ∧ Pred.beq (.tt : Pred V) .ff = false ∧
    Pred.beq (.isNone : Pred V) .isNotNone = false := by
  simp [Pred.beq]

/-- `can_optimize(p)` is `optimize(p) != p`, by definition of the model. -/
theorem C06_can_optimize_def (cfg : Cfg) (fnc : Nat → V → Bool) (n : Nat) (p o : Pred V)
    (h : optimize cfg fnc n p = some o) : canOptimize cfg fnc n p = some (!Pred.beq o p) := by
  simp [canOptimize, h]

/-- Non-vacuity: two syntactically different terms that are `==`. -/
example : Pred.beq (.and (.isin [1, 2, 2]) (.eq (3 : Int))) (.and (.eq 3) (.isin [2, 1])) = true := by decide

end PyPred
