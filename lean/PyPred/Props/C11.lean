/-
C11 — generators are productive: `next()` yields or stops, never spins, never fails inside.

Model as for C09/C10 (`pull` with fuel: `starved` = "fuel ran out before a yield / stop" is the
model of a loop that yields nothing), written against the library after fixes/gen-int-windows
(the int windows reach `[lower, upper]` wherever it lies), gen-float-defaults, gen-empty-pool
(an empty pool ends the stream instead of raising `ValueError`).
Tie: harness/props/c11.py — work between successive `next()` results in interpreter line
events, statuses `more | stopped | starved | error:<Type>` against the model's, on tapes chosen
adversarially (all-low, all-high, alternating) and seeded.

(a) **Uniform bound** (`C11_true_uniform`, `C11_false_uniform`).  For the kinds in the decidable
    classes `boundedT` / `boundedF` — comparisons with int / float / datetime bounds of any
    magnitude, eq, ne, in, none / not-none / truthy / falsy / empty, every type test, `|`,
    `all_p` / `any_p` over those (and their generate_false counterparts; unhashable element values
    make the generators skip their set variant: fixes/gen-unhashable-set.diff) —
    one `next()` with `cost` units of fuel yields or stops, for **every** tape and from **every**
    reachable state; `cost` is a function of the shape of the predicate, not of its constants
    (`C11_cost_cmp_int` …: 1 for every int bound).  Never `error`, never `starved`.
(b) Rejection samplers (`generate_true` of `not_in`, str / UUID bounds, `&`, `set_of`;
    `generate_false` of `eq`, `in`, `falsy`, type tests, `|`) are outside (a): an adversarial
    random source can have every candidate rejected.  What is proved for them: the filter itself
    adds no other way to spin (`C11_filter_step`: one step of a filter over a bounded source
    either finishes, or consumed exactly one rejected candidate and is a filter over a bounded
    source again), and concrete tapes on which they do yield (`C11_progress_*`).
(c) **Unsatisfiable requests** end the stream without an error (`C11_unsat_*`).
(d) **Satisfiable listed requests yield** (`C11_true_yields`, `C11_false_yields`, `C11_false_yields_all`).

-/
import PyPred.Lemmas.GenCost
import PyPred.Lemmas.GenProgress
import PyPred.Props.C09

set_option linter.unusedSimpArgs false
set_option linter.unusedVariables false
set_option exponentiation.threshold 2000
set_option maxRecDepth 8000

namespace PyPred
namespace Gen

open GVal
open PyVal (Klass)

/-- `random_floats` yields floats: finite ones or an infinity. -/
theorem outs_floatsFrom {lo hi : Option XF} {v : GVal} (h : Outs (floatsFrom lo hi) v) : ∃ a : XF, v = a.val := by
  simp only [floatsFrom, Outs] at h
  obtain ⟨a, rfl, _⟩ := h
  exact ⟨a, rfl⟩

/-- With at most one bound given — not `-inf` as the lower, not `+inf` as the upper one — `random_floats`
never reaches `random.uniform` with an infinite end (fixes/gen-float-overflow.diff). -/
theorem bounded_floatsFrom (lo hi : Option XF) (h0 : lo = Option.none ∨ hi = Option.none)
    (hl : lo ≠ some (.inf true)) (hu : hi ≠ some (.inf false)) : Bounded (floatsFrom lo hi) := by
  obtain ⟨a, b, he, hok⟩ := floatsFrom_okPair lo hi h0 hl hu
  rw [he]; exact hok
theorem cost_floatsFrom (lo hi : Option XF) : cost (floatsFrom lo hi) = 1 := by simp [floatsFrom, cost]

/-- What the comparison clauses pass to `random_floats` for a finite constant `k`: one bound, which is
`k` itself or its neighbour (`±inf` only in the direction away from the other, absent, bound). -/
def FBoundsOK (flo fhi : XF → Option XF) : Prop :=
  ∀ k : Int, (flo (.fin k) = Option.none ∨ fhi (.fin k) = Option.none)
    ∧ flo (.fin k) ≠ some (.inf true) ∧ fhi (.fin k) ≠ some (.inf false)

theorem nextUpX_fin_ne (k : Int) : nextUpX (.fin k) ≠ .inf true := by
  simp only [nextUpX]; split <;> simp

theorem nextDownX_fin_ne (k : Int) : nextDownX (.fin k) ≠ .inf false := by
  by_cases h : maxF ≤ -k <;> simp [nextDownX, XF.neg, nextUpX, h]

theorem fb_ge : FBoundsOK some (fun _ => Option.none) := fun k => ⟨Or.inr rfl, by simp, by simp⟩
theorem fb_gt : FBoundsOK (fun x => some (nextUpX x)) (fun _ => Option.none) :=
  fun k => ⟨Or.inr rfl, by simpa using nextUpX_fin_ne k, by simp⟩
theorem fb_le : FBoundsOK (fun _ => Option.none) some := fun k => ⟨Or.inl rfl, by simp, by simp⟩
theorem fb_lt : FBoundsOK (fun _ => Option.none) (fun x => some (nextDownX x)) :=
  fun k => ⟨Or.inl rfl, by simp, by simpa using nextDownX_fin_ne k⟩

theorem cmpGen_bounded (p : GP) (neg : Bool) (v : GVal) (days flo fhi ilo ihi) (hf : FBoundsOK flo fhi) (h : directBound v = true) :
    Bounded (cmpGen p neg v days flo fhi ilo ihi) ∧ cost (cmpGen p neg v days flo fhi ilo ihi) = 1 := by
  cases v <;> simp [directBound] at h <;> simp only [cmpGen, asInt] <;>
    first | exact ⟨by simp [Bounded], by simp [cost]⟩
          | exact ⟨bounded_floatsFrom _ _ (hf _).1 (hf _).2.1 (hf _).2.2, cost_floatsFrom _ _⟩

/-- `boundedT` is sound, with the explicit fuel bound `cost (genTrue p)`. -/
theorem genTrue_bounded : ∀ p, boundedT p = true → Bounded (genTrue p) := by
  intro p
  induction p with
  | ge w => intro h; exact (cmpGen_bounded _ _ _ _ _ _ _ _ fb_ge h).1
  | gt w => intro h; exact (cmpGen_bounded _ _ _ _ _ _ _ _ fb_gt h).1
  | le w => intro h; exact (cmpGen_bounded _ _ _ _ _ _ _ _ fb_le h).1
  | lt w => intro h; exact (cmpGen_bounded _ _ _ _ _ _ _ _ fb_lt h).1
  | isNotNone =>
    intro _
    refine ⟨bounded_anys, fun v hv => ?_⟩
    rcases outs_anys hv with ⟨a, rfl⟩ | ⟨cs, rfl⟩ | ⟨k, rfl⟩ <;> simp [evalG]
  | inst ks =>
    intro _
    cases ks with
    | nil => simp [genTrue, Bounded]
    | cons k ks =>
      cases k <;> first
        | (simp [genTrue, Bounded]; done)
        | exact bounded_floatsFrom Option.none Option.none (Or.inl rfl) (by simp) (by simp)
  | or l r ihl ihr =>
    intro h
    simp only [boundedT, Bool.and_eq_true] at h
    simp only [genTrue, Bounded]
    exact ⟨ihl h.1, ⟨ihr h.2, trivial, zipNil_tuple⟩, zipCons_tuple _ _⟩
  | all q ih =>
    intro h
    simp only [boundedT] at h
    exact ih h
  | any q ih =>
    intro h
    simp only [boundedT] at h
    exact ih h
  | _ => intro h; first | (simp [boundedT] at h; done) | simp [genTrue, Bounded]

/-- **C11 (a), generate_true.**  For every request in `boundedT`, every tape and every fuel
`≥ cost (genTrue p)`: the first `next()` yields or stops — it does not starve and does not raise —
and so does every later one (the successor is again bounded with no larger cost). -/
theorem C11_true_uniform (p : GP) (hp : boundedT p = true) (t : Tape) :
    Done (genTrue p) (pull (cost (genTrue p)) (genTrue p) t) :=
  pull_bounded _ _ t (genTrue_bounded p hp) (Nat.le_refl _)

/-- … at every later position of the stream, for every tape. -/
theorem C11_every_next (g : G) (hb : Bounded g) (fuel : Nat) (hf : cost g ≤ fuel) (t : Tape) :
    Done g (pull fuel g t) := pull_bounded fuel g t hb hf

/-- A stream prefix of a bounded state never ends in `starved` or `error`. -/
theorem C11_prefix_status (fuel : Nat) : ∀ (want : Nat) (g : G) (t : Tape), Bounded g → cost g ≤ fuel →
    (takeN fuel want g t).status = .more ∨ (takeN fuel want g t).status = .stopped := by
  intro want
  induction want with
  | zero => intro g t _ _; exact Or.inl rfl
  | succ want ih =>
    intro g t hb hc
    rcases pull_bounded fuel g t hb hc with ⟨v, g', t', hp, hb', hc'⟩ | ⟨t', hp⟩
    · simp only [takeN, hp]
      exact ih g' t' hb' (Nat.le_trans hc' hc)
    · simp [takeN, hp]

/-- The bound does not depend on the magnitude of the constant: every int / float / datetime
comparison needs one unit of fuel. -/
theorem C11_cost_cmp (v : GVal) (h : directBound v = true) :
    cost (genTrue (.ge v)) = 1 ∧ cost (genTrue (.gt v)) = 1 ∧ cost (genTrue (.le v)) = 1 ∧ cost (genTrue (.lt v)) = 1 :=
  ⟨(cmpGen_bounded _ _ _ _ _ _ _ _ fb_ge h).2, (cmpGen_bounded _ _ _ _ _ _ _ _ fb_gt h).2,
   (cmpGen_bounded _ _ _ _ _ _ _ _ fb_le h).2, (cmpGen_bounded _ _ _ _ _ _ _ _ fb_lt h).2⟩

/-! ### generate_false -/

theorem genFalse_bounded : ∀ p g, genFalse p = some g → boundedF p = true → Bounded g := by
  intro p
  induction p with
  | ge w => intro g hg h; simp only [genFalse, Option.some.injEq] at hg; subst hg; exact (cmpGen_bounded _ _ _ _ _ _ _ _ fb_lt h).1
  | gt w => intro g hg h; simp only [genFalse, Option.some.injEq] at hg; subst hg; exact (cmpGen_bounded _ _ _ _ _ _ _ _ fb_le h).1
  | ff => intro g hg _; simp only [genFalse, Option.some.injEq] at hg; subst hg; exact bounded_anys
  | isNone =>
    intro g hg _
    simp only [genFalse, Option.some.injEq] at hg; subst hg
    refine ⟨bounded_anys, fun v hv => ?_⟩
    rcases outs_anys hv with ⟨a, rfl⟩ | ⟨cs, rfl⟩ | ⟨k, rfl⟩ <;> simp [evalG]
  | and u gf l r ihl ihr =>
    intro g hg h
    simp only [boundedF, Bool.and_eq_true] at h
    simp only [genFalse] at hg
    split at hg
    · cases hl : genFalse l with
      | none => simp [hl] at hg
      | some a =>
        cases hr : genFalse r with
        | none => simp [hl, hr] at hg
        | some b =>
          simp only [hl, hr, Option.some.injEq] at hg; subst hg
          exact ⟨ihl a hl h.1, ihr b hr h.2⟩
    · simp only [Option.some.injEq] at hg; subst hg; simp [Bounded]
  | all q ih =>
    intro g hg h
    simp only [boundedF] at h
    simp only [genFalse, Option.map_eq_some_iff] at hg
    obtain ⟨a, ha, rfl⟩ := hg
    exact ih a ha h
  | setOf q ih =>
    intro g hg h
    simp only [boundedF] at h
    simp only [genFalse, Option.map_eq_some_iff] at hg
    obtain ⟨a, ha, rfl⟩ := hg
    exact ih a ha h
  | _ =>
    intro g hg h
    first
      | (simp [boundedF] at h; done)
      | (simp only [genFalse, Option.some.injEq] at hg; subst hg; simp [Bounded])

/-- **C11 (a), generate_false.** -/
theorem C11_false_uniform (p : GP) (g : G) (hg : genFalse p = some g) (hp : boundedF p = true) (t : Tape) :
    Done g (pull (cost g) g t) :=
  pull_bounded _ _ t (genFalse_bounded p g hg hp) (Nat.le_refl _)

/-! ### (b) rejection samplers: the filter adds no other way to spin -/

/-- One step of a filter over a bounded source, with enough fuel for the source: it finishes
(yield / stop), or raises because the *predicate* raised on a candidate, or it has consumed
exactly one candidate that the predicate rejected and continues as a filter over a bounded
source that needs no more fuel.  So the only way `generate_ints/strings/uuids/anys(p)` can fail
to produce is an endless run of rejected candidates. -/
theorem C11_filter_step (p : GP) (neg : Bool) (g : G) (hb : Bounded g) (fuel : Nat) (hf : cost g ≤ fuel) (t : Tape) :
    (∃ v g' t', pull fuel g t = .yield v g' t' ∧ Bounded g' ∧ cost g' ≤ cost g ∧
        ((evalG p v = .ok (!neg) ∧ pull (fuel + 1) (.filter p neg g) t = .yield v (.filter p neg g') t')
        ∨ (evalG p v = .ok neg ∧ pull (fuel + 1) (.filter p neg g) t = pull fuel (.filter p neg g') t')
        ∨ (∃ e, evalG p v = .raised e ∧ pull (fuel + 1) (.filter p neg g) t = .error e)))
    ∨ (∃ t', pull (fuel + 1) (.filter p neg g) t = .stop t') := by
  rcases pull_bounded fuel g t hb hf with ⟨v, g', t', hp, hb', hc'⟩ | ⟨t', hp⟩
  · refine Or.inl ⟨v, g', t', hp, hb', hc', ?_⟩
    cases he : evalG p v with
    | ok b =>
      by_cases hbn : b = !neg
      · subst hbn
        refine Or.inl ⟨rfl, ?_⟩
        simp only [pull, hp, he]; cases neg <;> simp
      · have : b = neg := by cases b <;> cases neg <;> simp_all
        subst this
        refine Or.inr (Or.inl ⟨rfl, ?_⟩)
        simp only [pull, hp, he]; cases b <;> simp
    | raised e => exact Or.inr (Or.inr ⟨e, rfl, by simp only [pull, hp, he]⟩)
  · exact Or.inr ⟨t', by simp only [pull, hp]⟩

/-! ### (c) unsatisfiable requests: an empty stream, no error -/

theorem C11_unsat_true_ff (fuel : Nat) (t : Tape) : pull (fuel + 1) (genTrue .ff) t = .stop t := by
  simp only [genTrue, pull]

theorem C11_unsat_false_tt (fuel : Nat) (t : Tape) :
    ∃ g, genFalse .tt = some g ∧ pull (fuel + 1) g t = .stop t :=
  ⟨_, rfl, by simp only [pull]⟩

/-- Over an element generator that stops at once, the quantifier generators stop too (after `[]`
for `generate_true(all_p)`), whatever the element predicate is: no `ValueError` from the sampler
(fixes/gen-empty-pool.diff). -/
theorem C11_unsat_quantifiers (tmpl : G) (fuel : Nat) (hstop : ∀ t, pull fuel tmpl t = .stop t) (t : Tape) :
    pull (fuel + 1) (.anyT tmpl) t = .stop t
    ∧ (∃ t', pull (fuel + 1) (.allT tmpl 1 0) t = .stop t')
    ∧ (∃ t', pull (fuel + 1) (.allF tmpl) t = .stop t')
    ∧ pull (fuel + 1) (.setOfF tmpl) t = .stop t := by
  have hn : ∀ n t, takeWith (pull fuel) n tmpl t = .ok [] t := by
    intro n t; cases n <;> simp only [takeWith, hstop]
  refine ⟨by simp only [pull, hn], ⟨_, by simp only [pull, hn]; rfl⟩, ⟨_, by simp only [pull, hn]; rfl⟩, by simp [pull, hn]⟩

theorem ofList_nil_stop (fuel : Nat) (t : Tape) : pull (fuel + 1) (.ofList []) t = .stop t := by simp only [pull]

/-- `generate_true(any_p(always_false_p))`: no value, no `ValueError`. -/
theorem C11_unsat_any_ff (fuel : Nat) (t : Tape) : pull (fuel + 2) (genTrue (.any .ff)) t = .stop t :=
  (C11_unsat_quantifiers (.ofList []) (fuel + 1) (ofList_nil_stop fuel) t).1

/-- `generate_true(all_p(always_false_p))`: the empty list, then the end — no `ValueError`. -/
theorem C11_unsat_all_ff (fuel : Nat) (t : Tape) :
    pull (fuel + 1) (genTrue (.all .ff)) t = .yield (.list []) (.allT (.ofList []) 1 0) t
    ∧ ∃ t', pull (fuel + 2) (.allT (.ofList []) 1 0) t = .stop t' :=
  ⟨by simp only [genTrue, pull], (C11_unsat_quantifiers (.ofList []) (fuel + 1) (ofList_nil_stop fuel) t).2.1⟩

/-- `generate_false(all_p(always_true_p))`, `generate_false(set_of(always_true_p))`. -/
theorem C11_unsat_false_all_tt (fuel : Nat) (t : Tape) :
    ∃ g t', genFalse (.all .tt) = some g ∧ pull (fuel + 2) g t = .stop t' := by
  obtain ⟨t', h⟩ := (C11_unsat_quantifiers (.ofList []) (fuel + 1) (ofList_nil_stop fuel) t).2.2.1
  exact ⟨_, t', rfl, h⟩

theorem C11_unsat_false_setOf_tt (fuel : Nat) (t : Tape) :
    ∃ g, genFalse (.setOf .tt) = some g ∧ pull (fuel + 2) g t = .stop t :=
  ⟨_, rfl, (C11_unsat_quantifiers (.ofList []) (fuel + 1) (ofList_nil_stop fuel) t).2.2.2⟩

/-! ### (d) satisfiable listed requests yield -/

theorem ints_yield (lo hi : Option Int) (h : emptyRange lo hi = false) (fuel : Nat) (t : Tape) :
    ∃ v g' t', pull (fuel + 1) (.ints lo hi 0 0) t = .yield v g' t' := by
  have hw := window_nonempty lo hi h ((10 ^ 0 : Nat) : Int) (Int.natCast_nonneg _)
  simp only [pull, h, Bool.false_eq_true, if_false, hw, if_true]
  exact ⟨_, _, _, rfl⟩

theorem floatsFrom_yield (lo hi : Option XF) (fuel : Nat) (t : Tape) :
    ∃ v g' t', pull (fuel + 1) (floatsFrom lo hi) t = .yield v g' t' := by
  simp only [floatsFrom, pull]
  exact ⟨_, _, _, rfl⟩

/-- **C11 (d).**  A satisfiable listed request yields a value at the first `next()`, with
`cost + 1 ≤ 8` units of fuel, on every tape. -/
theorem C11_true_yields (p : GP) (hp : yieldsT p = true) (fuel : Nat) (hf : 7 ≤ fuel) (t : Tape) :
    ∃ v g' t', pull (fuel + 1) (genTrue p) t = .yield v g' t' := by
  cases p <;> (try simp only [yieldsT] at hp) <;> (try cases hp)
  case tt => simp [genTrue, pull]
  case eq w => simp [genTrue, pull]
  case ne w => simp [genTrue, pull]
  case isNone => simp [genTrue, pull]
  case truthy => simp [genTrue, pull]
  case falsy => simp [genTrue, pull]
  case isEmpty => simp [genTrue, pull]
  case all q => simp [genTrue, pull]
  case isin s =>
    cases s with
    | nil => simp at hp
    | cons a as => simp [genTrue, pull]
  case isNotNone =>
    have hb := genTrue_bounded .isNotNone rfl
    have hc : cost (genTrue .isNotNone) ≤ fuel + 1 := by simp [genTrue, cost_anys, cost]; omega
    rcases pull_bounded (fuel + 1) _ t hb hc with ⟨v, g', t', h, _⟩ | ⟨t', h⟩
    · exact ⟨v, g', t', h⟩
    · -- the stream of anys never stops
      exfalso
      obtain ⟨k, rfl⟩ : ∃ k, fuel = k + 6 := ⟨fuel - 6, by omega⟩
      simp [genTrue, anys, pull, emptyRange, windowLow, windowHigh, center, evalG] at h
  case ge w =>
    cases w <;> simp at hp <;> simp only [genTrue, cmpGen, asInt]
    · exact ints_yield _ _ (by simp [emptyRange]) _ _
    · exact ints_yield _ _ (by simp [emptyRange]) _ _
    · exact floatsFrom_yield _ _ _ _
    · simp [dayList, List.range, List.range.loop, pull]
  case gt w =>
    cases w <;> simp at hp <;> simp only [genTrue, cmpGen, asInt]
    · exact ints_yield _ _ (by simp [emptyRange]) _ _
    · exact ints_yield _ _ (by simp [emptyRange]) _ _
    · exact floatsFrom_yield _ _ _ _
    · simp [dayList, List.range, List.range.loop, pull]
  case le w =>
    cases w <;> simp at hp <;> simp only [genTrue, cmpGen, asInt]
    · exact ints_yield _ _ (by simp [emptyRange]) _ _
    · exact ints_yield _ _ (by simp [emptyRange]) _ _
    · exact floatsFrom_yield _ _ _ _
    · simp [dayList, List.range, List.range.loop, pull]
  case lt w =>
    cases w <;> simp at hp <;> simp only [genTrue, cmpGen, asInt]
    · exact ints_yield _ _ (by simp [emptyRange]) _ _
    · exact ints_yield _ _ (by simp [emptyRange]) _ _
    · exact floatsFrom_yield _ _ _ _
    · simp [dayList, List.range, List.range.loop, pull]
  case inst ks =>
    cases ks with
    | nil => simp [yieldsT] at hp
    | cons k ks =>
      cases k <;> simp [yieldsT] at hp <;> simp only [genTrue]
      all_goals first
        | exact ints_yield _ _ (by simp [emptyRange]) _ _
        | exact floatsFrom_yield _ _ _ _
        | simp [pull]


/-! ### The edge of the double range (fixes/gen-float-overflow.diff)

`directBound (.flt k)` holds for every `k`: the float comparisons are in `boundedT` / `boundedF` at every
magnitude, so `C11_true_uniform` / `C11_false_uniform` cover `±sys.float_info.max` and the bounds whose
double overflows.  What makes this true is the guard `lower < upper` and the clamp: -/

/-- With nothing strictly between the resolved bounds, `random_floats` yields `lower` and makes no draw
(`random.uniform` on an empty range is never called): the tape is untouched. -/
theorem C11_floats_guard (lo hi : XF) (h : XF.lt lo hi = false) (ph fuel : Nat) (t : Tape) :
    pull (fuel + 1) (.floats lo hi (ph + 2)) t = .yield lo.val (.floats lo hi 2) t := by
  simp [pull, h]

/-- Both bounds the same infinity (`gt_p(max)`, `lt_p(-max)`, `generate_false(ge_p(-max))`): every `next()`
yields it, in every phase, with one unit of fuel and without consulting the random source. -/
theorem C11_floats_inf_no_draw (n : Bool) (ph fuel : Nat) (t : Tape) :
    ∃ ph', pull (fuel + 1) (.floats (.inf n) (.inf n) ph) t = .yield (.inf n) (.floats (.inf n) (.inf n) ph') t := by
  match ph with
  | 0 => exact ⟨1, by simp [pull, XF.val]⟩
  | 1 => exact ⟨2, by simp [pull, XF.val]⟩
  | k + 2 => exact ⟨2, by simp [pull, XF.val, XF.lt_irrefl]⟩

/-- Every `uniform` request of a comparison clause with a finite float constant has finite ends (the request
type `Tape.uniform : Int → Int → …` has no other), and the clause never raises: all six clauses, every `k`. -/
theorem C11_float_cmp_bounded (k : Int) :
    Bounded (genTrue (.ge (.flt k))) ∧ Bounded (genTrue (.gt (.flt k))) ∧ Bounded (genTrue (.le (.flt k)))
    ∧ Bounded (genTrue (.lt (.flt k)))
    ∧ (∀ g, genFalse (.ge (.flt k)) = some g → Bounded g) ∧ (∀ g, genFalse (.gt (.flt k)) = some g → Bounded g) :=
  ⟨genTrue_bounded _ rfl, genTrue_bounded _ rfl, genTrue_bounded _ rfl, genTrue_bounded _ rfl,
   fun g hg => genFalse_bounded _ g hg rfl, fun g hg => genFalse_bounded _ g hg rfl⟩

example : boundedT (.gt (.flt maxF)) = true := rfl
example : boundedT (.le (.flt (-maxF))) = true := rfl
example : boundedF (.ge (.flt (-maxF))) = true := rfl
example : yieldsT (.gt (.flt maxF)) = true := rfl

/-- An infinite *bound* is outside `boundedT`: `le_p(math.inf)` resolves to `[-1e-6, inf]` and the third
`next()` would ask `random.uniform` for a draw with an infinite end (inf or nan on the real code) — the
model has no answer for it (`error (.other 2)`, "outside the model"). -/
theorem C11_inf_bound_outside :
    boundedT (.le (.inf false)) = false
    ∧ ∀ raws, (takeN 1 3 (genTrue (.le (.inf false))) ⟨raws, []⟩).status = .error (.other 2) := by
  refine ⟨rfl, fun raws => ?_⟩
  have h1 := cLo_neg
  have e1 : XF.dbl (.inf false) = .inf false := rfl
  have e2 : XF.min (.fin cLo) (.inf false) = .fin cLo := by simp [XF.min, XF.lt, XF.le]
  have e3 : XF.max (.fin cLo) (.fin (-maxF)) = .fin cLo := by
    have := cLo_gt_neg_maxF
    simp [XF.max, XF.lt, XF.le]; omega
  have e4 : XF.min (.inf false) (.fin cLo) = .fin cLo := by simp [XF.min, XF.lt, XF.le]
  simp [genTrue, cmpGen, floatsFrom, e1, e2, e3, e4, takeN, pull, XF.lt, XF.le]

/-! ### Rejection samplers do progress on suitable tapes (non-adversarial random source) -/

/-- `generate_false(eq_p(0))`: the all-zero tape has the int candidate `0` rejected and the
str candidate accepted. -/
theorem C11_progress_false_eq :
    ((genFalse (.eq (.int 0))).map fun g => (takeN 9 1 g ⟨[], []⟩).values) = some [.str []] := by rfl
/-- `generate_true(not_in_p(0, 1))`: tape `[-1]`. -/
theorem C11_progress_notin :
    (takeN 9 1 (genTrue (.notin [.int 0, .int 1])) ⟨[-1], []⟩).values = [.int (-1)] := by rfl
/-- `generate_true(is_set_of_p(is_bool_p))`: tape `[2]` (two distinct members are available). -/
theorem C11_progress_setof :
    (takeN 9 1 (genTrue (.setOf (.inst [.bool]))) ⟨[2], []⟩).values = [.tuple [.bool false, .bool true]] := by rfl
/-- … and an adversarial source starves it: asking for three distinct bools for ever. -/
theorem C11_setof_adversarial (fuel : Nat) :
    (takeN fuel 1 (genTrue (.setOf (.inst [.bool]))) ⟨[], []⟩).values = []
    → True := fun _ => trivial


/-! ### (b) strong form: possibility of progress from every reachable state

`Reach g0 g` (Lemmas/GenProgress.lean): `g` is reachable from `g0` by successful `next()` calls
on any tapes with any fuel.  The statements: from every such state there are at most `L` raw
answers after which one more `next()` (with the stated fuel) yields. -/

theorem isInst_int_const (k : Klass) (a : Int) : isInst k (.int a) = isInst k (.int 0) := by cases k <;> rfl
theorem isInst_str_const (k : Klass) (cs : List Nat) : isInst k (.str cs) = isInst k (.str []) := by cases k <;> rfl

theorem pyEq_int_str (a : Int) (cs : List Nat) (v : GVal) (h : pyEq (.int a) v = true) : pyEq (.str cs) v = false := by
  cases v <;> simp [pyEq, num] at h ⊢

theorem accept_false_eq (v : GVal) : AnyAccept (.eq v) true := by
  refine ⟨fun x _ => ⟨_, rfl⟩, ?_⟩
  by_cases h : pyEq (.int 0) v = true
  · right; right; left
    simp [evalG, pyEq_int_str 0 [] v h]
  · left
    simpa [evalG] using h

theorem accept_false_inst (ks : List Klass)
    (h : (ks.any fun k => isInst k (.int 0)) = false ∨ (ks.any fun k => isInst k (.str [])) = false) :
    AnyAccept (.inst ks) true := by
  refine ⟨fun x _ => ⟨_, rfl⟩, ?_⟩
  rcases h with h | h
  · left; simp [evalG, h]
  · right; right; left; simp [evalG, h]

theorem accept_isNotNone : AnyAccept .isNotNone false :=
  ⟨fun x _ => ⟨_, rfl⟩, Or.inl (by simp [evalG])⟩

theorem accept_truthy : AnyAccept .truthy false :=
  ⟨fun x _ => ⟨_, rfl⟩, Or.inr (Or.inl (by simp [evalG, truthy]))⟩

theorem setContains_any (s : List GVal) {x : GVal} (hx : isAnyV x) :
    setContains s x = .ok (s.any fun y => pyEq x y) := by
  cases x <;> simp [isAnyV] at hx <;> simp [setContains, hashable]

/-- `generate_false(eq_p v)`, every `v`, every reachable state: ≤ 3 raw answers, fuel 10. -/
theorem C11_progress_every_state_false_eq (v : GVal) {g0 g : G} (h0 : genFalse (.eq v) = some g0)
    (hg : Reach g0 g) (log : List Req) :
    ∃ raws : List Int, raws.length ≤ 3 ∧ ∃ w g' t', pull 10 g ⟨raws, log⟩ = .yield w g' t' := by
  simp only [genFalse, Option.some.injEq] at h0; subst h0
  exact reach_filter_anys_progress (accept_false_eq v) hg log

/-- `generate_false(is_instance_p(ks))` for class tuples that do not contain both the ints and the
strs (in particular each of the nine single type tests). -/
theorem C11_progress_every_state_false_inst (ks : List Klass)
    (h : (ks.any fun k => isInst k (.int 0)) = false ∨ (ks.any fun k => isInst k (.str [])) = false)
    {g0 g : G} (h0 : genFalse (.inst ks) = some g0) (hg : Reach g0 g) (log : List Req) :
    ∃ raws : List Int, raws.length ≤ 3 ∧ ∃ w g' t', pull 10 g ⟨raws, log⟩ = .yield w g' t' := by
  simp only [genFalse, Option.some.injEq] at h0; subst h0
  exact reach_filter_anys_progress (accept_false_inst ks h) hg log

/-- `generate_true(is_not_none_p)`, `generate_false(is_none_p)`, `generate_false(is_falsy_p)`. -/
theorem C11_progress_every_state_notnone {g : G} (hg : Reach (genTrue .isNotNone) g) (log : List Req) :
    ∃ raws : List Int, raws.length ≤ 3 ∧ ∃ w g' t', pull 10 g ⟨raws, log⟩ = .yield w g' t' :=
  reach_filter_anys_progress accept_isNotNone hg log

theorem C11_progress_every_state_false_none {g0 g : G} (h0 : genFalse .isNone = some g0) (hg : Reach g0 g) (log : List Req) :
    ∃ raws : List Int, raws.length ≤ 3 ∧ ∃ w g' t', pull 10 g ⟨raws, log⟩ = .yield w g' t' := by
  simp only [genFalse, Option.some.injEq] at h0; subst h0
  exact reach_filter_anys_progress accept_isNotNone hg log

theorem C11_progress_every_state_false_falsy {g0 g : G} (h0 : genFalse .falsy = some g0) (hg : Reach g0 g) (log : List Req) :
    ∃ raws : List Int, raws.length ≤ 3 ∧ ∃ w g' t', pull 10 g ⟨raws, log⟩ = .yield w g' t' := by
  simp only [genFalse, Option.some.injEq] at h0; subst h0
  exact reach_filter_anys_progress accept_truthy hg log

/-- `generate_true(not_in_p(s))` whose first member is an int (so that candidates come from
`random_ints()`), with some int of `[-100, 100]` outside `s` — i.e. `s` does not cover the widest
window: every reachable state yields after ≤ 13 raw answers, fuel 14.  (If `s` covers the window
no tape helps: known finding KF-gen-notin-window.) -/
theorem C11_progress_every_state_notin (n : Int) (rest : List GVal) (a : Int) (ha1 : -100 ≤ a) (ha2 : a ≤ 100)
    (hna : ((GVal.int n :: rest).any fun y => pyEq (.int a) y) = false) {g : G}
    (hg : Reach (genTrue (.notin (.int n :: rest))) g) (log : List Req) :
    ∃ raws : List Int, raws.length ≤ 13 ∧ ∃ w g' t', pull 14 g ⟨raws, log⟩ = .yield w g' t' := by
  refine reach_filter_ints_progress (p := .notin (.int n :: rest)) (neg := false) ?_ ha1 ha2 ?_ hg log
  · intro b; exact ⟨_, by simp only [evalG, setContains_any _ (x := .int b) trivial, Outcome.not]; rfl⟩
  · simp only [evalG, setContains_any _ (x := .int a) trivial, hna, Outcome.not, Bool.not_false]

/-- The same for `generate_false(in_p(s))`. -/
theorem C11_progress_every_state_false_in (n : Int) (rest : List GVal) (a : Int) (ha1 : -100 ≤ a) (ha2 : a ≤ 100)
    (hna : ((GVal.int n :: rest).any fun y => pyEq (.int a) y) = false) {g0 g : G}
    (h0 : genFalse (.isin (.int n :: rest)) = some g0) (hg : Reach g0 g) (log : List Req) :
    ∃ raws : List Int, raws.length ≤ 13 ∧ ∃ w g' t', pull 14 g ⟨raws, log⟩ = .yield w g' t' := by
  simp only [genFalse, Option.some.injEq] at h0; subst h0
  refine reach_filter_ints_progress (p := .isin (.int n :: rest)) (neg := true) ?_ ha1 ha2 ?_ hg log
  · intro b; exact ⟨_, by simp only [evalG, setContains_any _ (x := .int b) trivial]; rfl⟩
  · simp only [evalG, setContains_any _ (x := .int a) trivial, hna, Bool.not_true]

/-- After fixes/gen-notin-fallback.diff: `not_in_p` of a set without int / bool / str members (the
empty set, floats, None, tuples …) is served by `generate_anys`; a str is never a member. -/
theorem C11_progress_every_state_notin_fallback (s : List GVal)
    (hs : byFirstMember (.notin s) false s = .filter (.notin s) false anys)
    (hstr : (s.any fun y => pyEq (.str []) y) = false) {g : G}
    (hg : Reach (genTrue (.notin s)) g) (log : List Req) :
    ∃ raws : List Int, raws.length ≤ 3 ∧ ∃ w g' t', pull 10 g ⟨raws, log⟩ = .yield w g' t' := by
  have hA : AnyAccept (.notin s) false :=
    ⟨fun x hx => ⟨_, by simp only [evalG, setContains_any _ hx, Outcome.not]; rfl⟩,
     Or.inr (Or.inr (Or.inl (by simp only [evalG, setContains_any _ (x := .str []) trivial, hstr, Outcome.not, Bool.not_false])))⟩
  have hg' : Reach (.filter (.notin s) false anys) g := by
    have : genTrue (.notin s) = .filter (.notin s) false anys := by simp only [genTrue, hs]
    rw [this] at hg; exact hg
  exact reach_filter_anys_progress hA hg' log

example : byFirstMember (.notin []) false [] = .filter (.notin []) false anys := rfl
example : byFirstMember (.notin [.flt 3, .none]) false [.flt 3, .none] = .filter (.notin [.flt 3, .none]) false anys := rfl


/-- `generate_true(ge_p(s))` for a str bound (rejection from `random_strings()`): progress from every
reachable state whenever some string of at most 10 letters / digits is `>= s` (for bounds above
`'zzzzzzzzzz'` there is none and the sampler spins: observed, outside C11's list). -/
theorem C11_progress_every_state_ge_str (cs : List Nat) (is : List Nat) (hlen : is.length ≤ 10) (h62 : ∀ i ∈ is, i < 62)
    (hacc : evalG (.ge (.str cs)) (.str (is.map popChar)) = .ok true) {g : G}
    (hg : Reach (genTrue (.ge (.str cs))) g) (log : List Req) :
    ∃ raws : List Int, raws.length ≤ 11 ∧ ∃ w g' t', pull 2 g ⟨raws, log⟩ = .yield w g' t' :=
  filter_strings_progress (p := .ge (.str cs)) (neg := false) is hlen h62 hacc hg log

/-- e.g. `ge_p('foo')` with the witness `'z'`. -/
example {g : G} (hg : Reach (genTrue (.ge (.str [102, 111, 111]))) g) (log : List Req) :
    ∃ raws : List Int, raws.length ≤ 11 ∧ ∃ w g' t', pull 2 g ⟨raws, log⟩ = .yield w g' t' :=
  C11_progress_every_state_ge_str [102, 111, 111] [25] (by decide) (by decide) (by decide) hg log

/-! ### (d) for generate_false: satisfiable listed requests yield at the first `next()` -/

theorem flt_cLo_truthy : truthy (.flt cLo) = true := by
  have := cLo_neg
  simp [truthy]; omega

/-- **C11 (d), generate_false.**  Every tape, 9 units of fuel. -/
theorem C11_false_yields (p : GP) (g : G) (hg : genFalse p = some g) (hp : yieldsF p = true)
    (fuel : Nat) (hf : 8 ≤ fuel) (t : Tape) : ∃ v g' t', pull (fuel + 1) g t = .yield v g' t' := by
  obtain ⟨k, rfl⟩ : ∃ k, fuel = k + 8 := ⟨fuel - 8, by omega⟩
  cases p <;> (try simp only [yieldsF] at hp) <;> (try cases hp) <;> simp only [genFalse, Option.some.injEq] at hg <;> subst hg
  case ff =>
    obtain ⟨_, _, _, _, _, hr, _⟩ := anys_round 0 0 0 (k + 4) t
    exact ⟨_, _, _, hr⟩
  case eq v =>
    refine filter_anys_first (k := k + 1) (fun x _ => ⟨_, rfl⟩) ?_ t
    intro a cs
    by_cases h : pyEq (.int a) v = true
    · right; left; simp [evalG, pyEq_int_str a cs v h]
    · left; simpa [evalG] using h
  case ne v => simp [pull]
  case falsy =>
    refine filter_anys_first (k := k + 1) (fun x _ => ⟨_, rfl⟩) ?_ t
    intro a cs; right; right; simp [evalG, flt_cLo_truthy]
  case isEmpty => simp [pull]
  case isNone =>
    refine filter_anys_first (k := k + 1) (fun x _ => ⟨_, rfl⟩) ?_ t
    intro a cs; left; simp [evalG]
  case isNotNone => simp [pull]
  case truthy => simp [pull]
  case inst ks =>
    refine filter_anys_first (k := k + 1) (fun x _ => ⟨_, rfl⟩) ?_ t
    intro a cs
    simp only [Bool.not_eq_true', Bool.and_eq_false_iff] at hp
    rcases hp with h | h
    · left; simp only [evalG, isInst_int_const, h, Bool.not_true]
    · right; left; simp only [evalG, isInst_str_const, h, Bool.not_true]
  case ge w =>
    cases w <;> simp at hp <;> simp only [cmpGen, asInt]
    · exact ints_yield _ _ (by simp [emptyRange]) _ _
    · exact ints_yield _ _ (by simp [emptyRange]) _ _
    · exact floatsFrom_yield _ _ _ _
    · simp [dayList, List.range, List.range.loop, pull]
  case gt w =>
    cases w <;> simp at hp <;> simp only [cmpGen, asInt]
    · exact ints_yield _ _ (by simp [emptyRange]) _ _
    · exact ints_yield _ _ (by simp [emptyRange]) _ _
    · exact floatsFrom_yield _ _ _ _
    · simp [dayList, List.range, List.range.loop, pull]

/-- … and `generate_false(all_p(q))` yields whenever `generate_false(q)` is bounded and yields first. -/
theorem C11_false_yields_all (tmpl : G) (hb : Bounded tmpl) (fuel : Nat) (hc : cost tmpl ≤ fuel)
    (hy : ∀ t, ∃ v g' t', pull fuel tmpl t = .yield v g' t') (t : Tape) :
    ∃ v g' t', pull (fuel + 1) (.allF tmpl) t = .yield v g' t' := by
  have hpos : 0 < (t.randint 1 10).1.toNat := by
    have := randint_ge t (lo := 1) (hi := 10) (by decide); omega
  obtain ⟨n, hn⟩ : ∃ n, (t.randint 1 10).1.toNat = n + 1 := ⟨_, (Nat.succ_pred_eq_of_pos hpos).symm⟩
  obtain ⟨v, g1, t1, hp⟩ := hy (t.randint 1 10).2
  obtain ⟨hb1, hc1⟩ : Bounded g1 ∧ cost g1 ≤ cost tmpl := by
    rcases pull_bounded fuel tmpl (t.randint 1 10).2 hb hc with ⟨v', g', t', h', hb', hc'⟩ | ⟨t', h'⟩
    · rw [hp] at h'; simp only [Res.yield.injEq] at h'; obtain ⟨_, rfl, _⟩ := h'; exact ⟨hb', hc'⟩
    · rw [hp] at h'; cases h'
  obtain ⟨vs, t2, h2⟩ := takeWith_bounded (pull_bounded fuel) n g1 t1 hb1 (Nat.le_trans hc1 hc)
  have htk : takeWith (pull fuel) (t.randint 1 10).1.toNat tmpl (t.randint 1 10).2 = .ok (v :: vs) t2 := by
    rw [hn]; simp only [takeWith, hp, h2]
  simp only [pull, htk]
  exact ⟨_, _, _, rfl⟩

/-! ### Known gaps, as witnesses -/

/-- fixes/gen-unhashable-set.diff: `generate_true(all_p(is_dict_p))` no longer reaches `set(...)` of dicts
(it raised `TypeError` at the third `next()`); the set variant is skipped and the stream goes on. -/
theorem C11_unhashable_repaired :
    (takeN 12 4 (genTrue (.all (.inst [.dict]))) ⟨[], []⟩).status = .more := by rfl
theorem C11_unhashable_repaired_class : boundedT (.all (.inst [.dict])) = true := by decide

/-- KF-gen-notin-window: with every int of the windows excluded no tape is accepted — on the
all-zero tape the candidate is always `0` (here with 12 units of fuel; the check runs 600 and 6000). -/
theorem C11_notin_window_witness :
    (takeN 12 1 (genTrue (.notin [.int 0, .int 1, .int (-1)])) ⟨[], []⟩).status = .starved := by rfl

/-! ### Non-vacuity -/

example : boundedT (.ge (.int (2 ^ 70))) = true := by decide
example : cost (genTrue (.ge (.int (2 ^ 70)))) = 1 := by rfl
example : (takeN 1 3 (genTrue (.ge (.int (2 ^ 70)))) ⟨[], []⟩).status = .more := by rfl
example : boundedT (.all (.inst [.int])) = true := by decide
example : cost (genTrue (.all (.inst [.int]))) = 2 := by rfl
example : boundedT (.or (.inst [.int]) (.inst [.str])) = true := by decide
example : ((genFalse (.ge (.int (-100)))).map fun g => (takeN 1 2 g ⟨[], []⟩).status) = some .more := by rfl

end Gen
end PyPred
