/-
C14G  The Lark grammar of `parse_expression` inside the model (supports C14 and C20).

`Grammar.reference` is the rule set of the compiled Lark object `predicate.parser.grammar` (checked against the
code on every run: `harness/grammar_reflect.py` prints the compiled object as a Lean term `g` and Lean decides
`g = Grammar.referenceWire`).  The theorems say what follows from "Lark returns a derivation of its grammar":

  `isDerivation reference start ts d`   `d` is a derivation tree of the token list `ts` from `predicate`
  `build d`                             Lark's tree builder (filtered tokens, inlined `?expression`) followed by
                                        `_PredicateTransformer`, on that derivation
  `Bracketing ts t`                     `t` has the names / constants / operators of `ts` in the same order, every
                                        variable its exact name, every parenthesised group a sub-tree
  `Reading ts t`                        (C14) … and every `~` governs exactly the operand that follows it

Trusted, observed by the check on every sampled text (stage `c14g` of `./check C14`): (1) `grammar.parse` returns a tree
that is `shape d` for some derivation `d` of the text's tokens, and raises when there is none; (2) `build` is what the
tree builder and the transformer compute.  The grammar is ambiguous; which derivation Lark picks (precedence, scope of
`~`) is not a consequence of the grammar: `Bracketing` is exactly what the grammar promises (`C14G_built_iff_bracketing`),
`Reading` fixes the scope of `~` in addition (`C14G_not_scope_open`), and C14 ties Lark's choice to the reference parser.
-/
import PyPred.Lemmas.GrammarGroups
import PyPred.Lemmas.GrammarDerives
import PyPred.Lemmas.ParserReassoc
import PyPred.Lemmas.ParserMatch

namespace PyPred
open Parser Grammar

/-! ### Derivations -/

/-- the tokens at the leaves of a derivation, left to right, are exactly the token list (parentheses included) -/
theorem C14G_derivation_yield {rules : List Rule} {A : NT} {ts : List Token} {d : DTree}
    (h : isDerivation rules A ts d = true) : yield d = ts := (isDerivation_iff.1 h).2

/-- `isDerivation` is: a well-formed tree for the non-terminal whose leaves spell the tokens -/
theorem C14G_isDerivation_iff {rules : List Rule} {A : NT} {ts : List Token} {d : DTree} :
    isDerivation rules A ts d = true ↔ wf rules (.nt A) d = true ∧ yield d = ts := isDerivation_iff

/-- the executable `isDerivation` decides the textbook relation "parse tree of the grammar with root `A` and frontier `ts`"
(`Grammar.Derives`: a leaf is a token its terminal matches, a node applies a rule of the grammar to parse trees of the symbols
of its expansion, whose frontiers are concatenated) -/
theorem C14G_isDerivation_iff_derives {rules : List Rule} {A : NT} {ts : List Token} {d : DTree} :
    isDerivation rules A ts d = true ↔ Derives rules (.nt A) d ts := isDerivation_iff_derives

/-- a node of a derivation applies a rule of the grammar to derivations of the symbols of its expansion -/
theorem C14G_node_iff {rules : List Rule} {A : NT} {d : DTree} :
    wf rules (.nt A) d = true ↔ ∃ r cs, d = .node r cs ∧ r ∈ rules ∧ r.origin = A ∧ wfs rules r.expansion cs = true := wf_nt

/-- `build` succeeds on every derivation of the reference grammar (the transformer never raises, never returns a non-predicate) -/
theorem C14G_build_total {ts : List Token} {d : DTree} (h : isDerivation reference start ts d = true) :
    ∃ t, build d = some t := by
  obtain ⟨t, ht, _⟩ := derivation_bracketing h
  exact ⟨t, ht⟩

/-- … and not only from the start symbol: every sub-derivation is built into a predicate -/
theorem C14G_build_total_sub {A : NT} {ts : List Token} {d : DTree} (h : isDerivation reference A ts d = true) :
    ∃ t, build d = some t ∧ Bracketing ts t := derivation_bracketing h

/-- **whatever derivation Lark returns, the predicate built from it is a bracketing of the tokens** -/
theorem C14G_derivation_bracketing {ts : List Token} {d : DTree} (h : isDerivation reference start ts d = true) :
    ∃ t, build d = some t ∧ Bracketing ts t := derivation_bracketing h

/-- what the driver's answer on Lark's own tree means (`deriv` command: `isDerivation` and `build d = t` evaluated) -/
theorem C14G_check_sound {ts : List Token} {d : DTree} {t : Tree} (h1 : isDerivation reference start ts d = true)
    (h2 : build d = some t) : Bracketing ts t := by
  obtain ⟨t', ht, hb⟩ := derivation_bracketing h1
  rw [h2] at ht; injection ht with e; subst e; exact hb

/-- every bracketing is built from some derivation: the grammar promises nothing more than `Bracketing` -/
theorem C14G_bracketing_is_derivation {ts : List Token} {t : Tree} (h : Bracketing ts t) :
    ∃ d, isDerivation reference start ts d = true ∧ build d = some t := by
  obtain ⟨d, hd⟩ := bracketing_deriv h
  exact ⟨d, deriv_isDerivation hd⟩

/-- the pairs (tokens, tree) that the grammar + tree builder + transformer can produce are exactly the bracketings -/
theorem C14G_built_iff_bracketing {ts : List Token} {t : Tree} :
    (∃ d, isDerivation reference start ts d = true ∧ build d = some t) ↔ Bracketing ts t :=
  ⟨fun ⟨_, h1, h2⟩ => C14G_check_sound h1 h2, C14G_bracketing_is_derivation⟩

/-! ### Readings (C14) against the grammar -/

theorem C14G_reading_bracketing {ts : List Token} {t : Tree} (h : Reading ts t) : Bracketing ts t := rd_bracketing h

/-- Lark *can* return each faithful reading: every reading is `build d` of some derivation `d` -/
theorem C14G_reading_is_derivation {ts : List Token} {t : Tree} (h : Reading ts t) :
    ∃ d, isDerivation reference start ts d = true ∧ build d = some t :=
  C14G_bracketing_is_derivation (rd_bracketing h)

/-- **the language of the grammar is exactly the language of C14** -/
theorem C14G_language (ts : List Token) :
    (∃ d, isDerivation reference start ts d = true) ↔ (∃ t, Reading ts t) := by
  constructor
  · rintro ⟨d, h⟩
    obtain ⟨t, _, hb⟩ := derivation_bracketing h
    exact bracketing_has_reading hb
  · rintro ⟨t, h⟩
    obtain ⟨d, hd, _⟩ := C14G_reading_is_derivation h
    exact ⟨d, hd⟩

/-- … so "accepts exactly the language" is "Lark finds a derivation iff one exists": the reference parser of C14
accepts exactly the token lists that have a derivation -/
theorem C14G_language_iff_accepts (ts : List Token) :
    (∃ d, isDerivation reference start ts d = true) ↔ (parse ts).isSome = true :=
  (C14G_language ts).trans (C14_accepts_iff_reading' ts).symm
where
  C14_accepts_iff_reading' (ts : List Token) : (parse ts).isSome = true ↔ ∃ t, Reading ts t := by
    constructor
    · intro h
      cases hp : parse ts with
      | none => simp [hp] at h
      | some t => exact ⟨t, tg_rd (pr_tg (parse_pr hp))⟩
    · rintro ⟨t, h⟩
      obtain ⟨t', h'⟩ := parse_complete h
      simp [h']

theorem C14G_language_iff_wellFormed (ts : List Token) :
    (∃ d, isDerivation reference start ts d = true) ↔ wellFormed ts = true :=
  (C14G_language ts).trans wellFormed_iff.symm

/-- the tree of the reference parser (the one C14 ties Lark's resolution to) is built from a derivation of the grammar -/
theorem C14G_parse_is_derivation {ts : List Token} {t : Tree} (h : parse ts = some t) :
    ∃ d, isDerivation reference start ts d = true ∧ build d = some t :=
  C14G_reading_is_derivation (tg_rd (pr_tg (parse_pr h)))

/-! ### What a bracketing fixes -/

/-- names, constants and operators in source order, every name verbatim -/
theorem C14G_bracketing_inorder {ts : List Token} {t : Tree} (h : Bracketing ts t) : inorder t = noParens ts :=
  bracketing_inorder h

/-- the variables of the tree are exactly the name tokens -/
theorem C14G_bracketing_names {ts : List Token} {t : Tree} (h : Bracketing ts t) (s : List Char) :
    s ∈ names t ↔ Token.name s ∈ ts := bracketing_names h s

theorem C14G_bracketing_balanced {ts : List Token} {t : Tree} (h : Bracketing ts t) : ts.count .lp = ts.count .rp :=
  bracketing_balanced h

/-- every parenthesised group is a sub-tree: behind every `(` of the token list there is a `)` such that the tokens
between the two are a bracketing of a sub-tree of the whole tree -/
theorem C14G_bracketing_group_subtree {ts : List Token} {t : Tree} (h : Bracketing ts t) {pre rest : List Token}
    (e : ts = pre ++ .lp :: rest) : ∃ mid post u, rest = mid ++ .rp :: post ∧ Bracketing mid u ∧ Subtree u t :=
  bracketing_group h pre rest e

/-- the same for derivations: whatever derivation Lark returns, groups are sub-trees of the predicate built -/
theorem C14G_derivation_group_subtree {ts : List Token} {d : DTree} (h : isDerivation reference start ts d = true)
    {pre rest : List Token} (e : ts = pre ++ .lp :: rest) :
    ∃ t mid post u, build d = some t ∧ rest = mid ++ .rp :: post ∧ Bracketing mid u ∧ Subtree u t := by
  obtain ⟨t, ht, hb⟩ := derivation_bracketing h
  obtain ⟨mid, post, u, h1, h2, h3⟩ := bracketing_group hb pre rest e
  exact ⟨t, mid, post, u, ht, h1, h2, h3⟩

theorem C14G_derivation_inorder {ts : List Token} {d : DTree} (h : isDerivation reference start ts d = true) :
    ∃ t, build d = some t ∧ inorder t = noParens ts ∧ ∀ s, s ∈ names t ↔ Token.name s ∈ ts := by
  obtain ⟨t, ht, hb⟩ := derivation_bracketing h
  exact ⟨t, ht, bracketing_inorder hb, bracketing_names hb⟩

/-! ### The compiled grammar as data -/

/-- no rule of the compiled grammar has an alias or keeps all tokens (`shape` labels a node with the rule's origin) -/
theorem C14G_rules_plain : ∀ r ∈ reference, r.alias = none ∧ r.keepAll = false := by decide

/-- only the alternatives of `?expression` are inlined, and each has exactly one symbol (so it is always inlined) -/
theorem C14G_rules_expand1 : ∀ r ∈ reference, r.expand1 = true ↔ r.origin = .expression := by decide
theorem C14G_rules_expression_unit : ∀ r ∈ reference, r.origin = .expression → r.expansion.length = 1 ∧ ∀ s ∈ r.expansion, s.filtered = false := by decide

/-- the symbols and rules are determined by their names: equal wire forms mean equal rule sets -/
theorem C14G_nt_name_injective : ∀ a b : NT, a.name = b.name → a = b := by
  intro a b; cases a <;> cases b <;> decide
theorem C14G_term_name_injective : ∀ a b : Term, a.name = b.name → a = b := by
  intro a b; cases a <;> cases b <;> decide

theorem C14G_rule_wire_injective {r r' : Rule} (h : r.wire = r'.wire) : r = r' := by
  have symInj : ∀ s s' : Sym, s.wire = s'.wire → s = s' := by
    intro s s' e
    cases s with
    | nt a => cases s' with
      | nt b => simp [Sym.wire] at e; rw [C14G_nt_name_injective a b e]
      | t b f => simp [Sym.wire] at e
    | t a f => cases s' with
      | nt b => simp [Sym.wire] at e
      | t b g => simp [Sym.wire] at e; rw [C14G_term_name_injective a b e.1, e.2]
  have listInj : ∀ l l' : List Sym, l.map Sym.wire = l'.map Sym.wire → l = l' := by
    intro l
    induction l with
    | nil => intro l' e; cases l' <;> simp at e ⊢
    | cons x xs ih =>
      intro l' e
      cases l' with
      | nil => simp at e
      | cons y ys => simp at e; rw [symInj x y e.1, ih ys e.2]
  cases r; cases r'
  simp [Rule.wire] at h
  obtain ⟨h1, h2, h3, h4, h5⟩ := h
  simp [C14G_nt_name_injective _ _ h1, listInj _ _ h2, h3, h4, h5]

theorem C14G_rules_wire_injective : ∀ {rules rules' : List Rule}, rules.map Rule.wire = rules'.map Rule.wire → rules = rules' := by
  intro rules
  induction rules with
  | nil => intro l' e; cases l' <;> simp at e ⊢
  | cons x xs ih =>
    intro l' e
    cases l' with
    | nil => simp at e
    | cons y ys => simp at e; rw [C14G_rule_wire_injective e.1, ih e.2]

/-- the tie of the check: a compiled grammar whose wire form is `referenceWire` has exactly the rules `reference` -/
theorem C14G_tie_means {rules : List Rule} (h : rules.map Rule.wire = referenceWire.rules) : rules = reference :=
  C14G_rules_wire_injective h

/-- the string terminals spell the tokens they match: a token that is not a name is matched by the terminal whose
pattern is the token's text (`Token.chars`, the inverse of the lexer) -/
theorem C14G_terminal_patterns : ∀ (T : Term) (tok : Token), T.matches tok = true → (∀ s, tok ≠ .name s) →
    ∃ td ∈ terminals, td.term = T ∧ td.isRegexp = false ∧ td.value.toList = tok.chars := by
  intro T tok h hn
  cases T <;> cases tok <;> simp [Term.matches] at h <;> first | exact absurd rfl (hn _) | decide

/-- `WORD` (the only regular expression) matches exactly the name tokens; the blank is the only ignored terminal -/
theorem C14G_word_matches (tok : Token) : Term.WORD.matches tok = true ↔ ∃ s, tok = .name s := by
  cases tok <;> simp [Term.matches]

theorem C14G_ignore_is_blank : ∀ td ∈ terminals, td.term ∈ ignore ↔ td.value = " " := by decide

/-- every terminal matches some token except the ignored one, and every token is matched by exactly one terminal -/
theorem C14G_token_terminal (tok : Token) : ∃ T : Term, T.matches tok = true ∧ ∀ T' : Term, T'.matches tok = true → T' = T := by
  cases tok <;> first
    | exact ⟨Term.WORD, rfl, by intro T' h; cases T' <;> simp_all [Term.matches]⟩
    | exact ⟨Term.TRUE, rfl, by intro T' h; cases T' <;> simp_all [Term.matches]⟩
    | exact ⟨Term.FALSE, rfl, by intro T' h; cases T' <;> simp_all [Term.matches]⟩
    | exact ⟨Term.TILDE, rfl, by intro T' h; cases T' <;> simp_all [Term.matches]⟩
    | exact ⟨Term.AMPERSAND, rfl, by intro T' h; cases T' <;> simp_all [Term.matches]⟩
    | exact ⟨Term.VBAR, rfl, by intro T' h; cases T' <;> simp_all [Term.matches]⟩
    | exact ⟨Term.CIRCUMFLEX, rfl, by intro T' h; cases T' <;> simp_all [Term.matches]⟩
    | exact ⟨Term.LPAR, rfl, by intro T' h; cases T' <;> simp_all [Term.matches]⟩
    | exact ⟨Term.RPAR, rfl, by intro T' h; cases T' <;> simp_all [Term.matches]⟩

/-! ### Concrete derivations (non-vacuity; `decide` runs the model) -/

section Examples

private def a : Tree := .var ['a']
private def b : Tree := .var ['b']
private def na : Token := .name ['a']
private def nb : Token := .name ['b']

/-- `~a & b` read as `(~a) & b`: the derivation Lark returns -/
def dNotAnd1 : DTree := dAnd (dNot (dVar ['a'])) (dVar ['b'])
/-- `~a & b` read as `~(a & b)`: also a derivation of the grammar -/
def dNotAnd2 : DTree := dNot (dAnd (dVar ['a']) (dVar ['b']))

example : isDerivation reference start [.not, na, .and, nb] dNotAnd1 = true ∧ build dNotAnd1 = some (.and (.not a) b) := by decide
example : isDerivation reference start [.not, na, .and, nb] dNotAnd2 = true ∧ build dNotAnd2 = some (.not (.and a b)) := by decide

/-- **the grammar does not fix the scope of `~`**: `~a & b` has a derivation that is built into `~(a & b)`, which is a
bracketing but not a reading; C14 (`Reading`, tied to Lark's resolution by the check) is what excludes it -/
theorem C14G_not_scope_open :
    isDerivation reference start [.not, .name ['a'], .and, .name ['b']] dNotAnd2 = true ∧
    build dNotAnd2 = some (.not (.and (.var ['a']) (.var ['b']))) ∧
    Bracketing [.not, .name ['a'], .and, .name ['b']] (.not (.and (.var ['a']) (.var ['b']))) ∧
    ¬ Reading [.not, .name ['a'], .and, .name ['b']] (.not (.and (.var ['a']) (.var ['b']))) := by
  refine ⟨by decide, by decide, ?_, ?_⟩
  · exact .not (.and (l := [.name ['a']]) (.name ['a']) (.name ['b']))
  · intro h
    have := isReading_iff.2 h
    revert this; decide

/-- the grammar does not fix precedence either: both bracketings of `a | b & c` have derivations -/
theorem C14G_precedence_open :
    (∃ d, isDerivation reference start [.name ['a'], .or, .name ['b'], .and, .name ['c']] d = true ∧
      build d = some (.or (.var ['a']) (.and (.var ['b']) (.var ['c'])))) ∧
    (∃ d, isDerivation reference start [.name ['a'], .or, .name ['b'], .and, .name ['c']] d = true ∧
      build d = some (.and (.or (.var ['a']) (.var ['b'])) (.var ['c']))) :=
  ⟨⟨dOr (dVar ['a']) (dAnd (dVar ['b']) (dVar ['c'])), by decide⟩, ⟨dAnd (dOr (dVar ['a']) (dVar ['b'])) (dVar ['c']), by decide⟩⟩

-- the check can say no
/-- a derivation of other tokens -/
theorem C14G_witness_yield : isDerivation reference start [.name ['a'], .and, .name ['b']] (dAnd (dVar ['a']) (dVar ['c'])) = false := by decide
/-- a node whose rule is not in the grammar (`not_expression: "~" expression` instead of `"~" predicate`) -/
theorem C14G_witness_foreign_rule :
    isDerivation reference start [.not, .name ['a']]
      (.node rPredExpr [.node rExprNot [.node (mk .not_ [.t .TILDE true, .nt .expression]) [.leaf .not, .node rPredVar [.node rVariable [.leaf (.name ['a'])]]]]]) = false := by decide
/-- a keyword under `variable` (`WORD` does not match the token `true`) -/
theorem C14G_witness_keyword_as_word : isDerivation reference start [.tt] (.node rPredVar [.node rVariable [.leaf .tt]]) = false := by decide
/-- children that do not fit the expansion -/
theorem C14G_witness_arity : isDerivation reference start [.name ['a'], .and] (.node rPredExpr [.node rExprAnd [.node rAnd [dVar ['a'], .leaf .and]]]) = false := by decide
/-- the token list of a text outside the language has no derivation -/
theorem C14G_witness_reject : ¬ ∃ d, isDerivation reference start [.name ['a'], .name ['b']] d = true := by
  rw [C14G_language_iff_wellFormed]; decide

example : build (dGrp (dOr (dVar ['f','o','o']) dTrue)) = some (.or (.var ['f','o','o']) .tt) := by decide
example : shape (dGrp (dVar ['a'])) = .node .predicate [.node .grouped [.node .predicate [.node .variable [.tok (.name ['a'])]]]] := by rfl
example : shape dTrue = .node .predicate [.node .true_ []] := by rfl

end Examples

end PyPred
