/-
C15G  The row enumeration of `truth_table` inside the model (a stage of C15; supports C20).

`truth_table` takes its assignments from
`combinations = sorted(gray_product(*repeat((False, True), n)))`.  Model/TruthTable.lean uses
`rows n` (ascending binary order) directly; this file closes the gap on the Lean side:

* `Gray.step` / `Gray.loop` / `Gray.grayProduct` (Model/Gray.lean) are the code of
  `more_itertools.gray_product` arm for arm (Knuth 7.2.1.1 Algorithm H: work lists `a`, `f`,
  `o`), for any number of iterables of any sizes;
* `Gray.pySorted` is `sorted` on tuples of bools (stable insertion sort, Python's tuple `<`);
* theorems: the loop terminates after exactly `∏ mᵢ` passes and yields the reflected
  mixed-radix Gray code (`C15G_loop_reflected`); over `n` binary factors the output is a
  permutation of all `2^n` boolean `n`-tuples (`C15G_gray_perm`, `C15G_gray_each_once`),
  consecutive tuples differ in exactly one position (`C15G_gray_adjacent`), and sorting it
  gives `rows n` (`C15G_sorted_gray_eq_rows`) — for every `n`, by induction; for arbitrary
  sizes the output lists every index tuple exactly once and consecutive tuples differ in one
  position (`C15G_mixed_each_once`, `C15G_mixed_adjacent`).

The tie to the installed `more_itertools` and to `truth_table` itself is the stage
`harness/props/c15g.py` (`./check C15G`), through `driver_gray`.
-/
import PyPred.Lemmas.GrayMixed
import PyPred.Props.C15

namespace PyPred.Gray
open PyPred.TT (rows)

/-! ### Algorithm H is the reflected Gray code -/

/-- **The loop.**  For iterables of sizes `ms`, all `≥ 2`: started as the library starts it,
the `while True:` loop yields exactly the reflected mixed-radix Gray code of `ms` (first
coordinate fastest) and reaches `break` in its `prod ms`-th pass — it does not run out of the
fuel `prod ms`, so the fuel is no restriction. -/
theorem C15G_loop_reflected (ms : List Nat) (h : ∀ m ∈ ms, 2 ≤ m) :
    loop ms (prod ms) (init ms.length) = some (reflected ms) := loop_reflected ms h

/-- `gray_product(range(m₀), range(m₁), …)`: `ValueError` when some iterable has fewer than
two items, otherwise the reflected code; never `diverged`. -/
theorem C15G_grayIdx (ms : List Nat) :
    grayIdx ms = if ms.any (· < 2) then .valueError else .ok (reflected ms) := grayIdx_eq ms

theorem grayIdx_ok {ms : List Nat} {L : List (List Int)} (h : grayIdx ms = .ok L) :
    (∀ m ∈ ms, 2 ≤ m) ∧ L = reflected ms := by
  rw [C15G_grayIdx] at h
  split at h
  · cases h
  · rename_i hany
    cases h
    refine ⟨?_, rfl⟩
    intro m hm
    simp only [List.any_eq_true, decide_eq_true_eq, not_exists, not_and] at hany
    have := hany m hm
    omega

/-- **mixed radix, adjacent.**  Whatever the sizes of the iterables: consecutive tuples of
`gray_product` differ in exactly one position. -/
theorem C15G_mixed_adjacent (ms : List Nat) (L : List (List Int)) (h : grayIdx ms = .ok L)
    (i : Nat) (hi : i + 1 < L.length) :
    (L[i]).length = (L[i + 1]).length ∧ diffs L[i] L[i + 1] = 1 := by
  obtain ⟨h2, rfl⟩ := grayIdx_ok h
  exact (List.isChain_iff_getElem.mp
    (reflected_chain ms (fun m hm => Nat.le_of_succ_le (h2 m hm)))) i hi

/-- **mixed radix, each once.**  `gray_product` yields no index tuple twice, and yields
exactly the tuples `t` with `0 ≤ tᵢ < mᵢ` for all `i` (so `∏ mᵢ` of them): it is an
arrangement of the Cartesian product. -/
theorem C15G_mixed_each_once (ms : List Nat) (L : List (List Int)) (h : grayIdx ms = .ok L) :
    L.Nodup ∧ ∀ t, t ∈ L ↔ List.Forall₂ (fun x m => 0 ≤ x ∧ x < (m : Int)) t ms := by
  obtain ⟨_, rfl⟩ := grayIdx_ok h
  exact ⟨(reflected_perm ms).nodup_iff.mpr (tuples_nodup ms),
    fun t => (reflected_perm ms).mem_iff.trans mem_tuples⟩

/-- Over `n` binary factors the call succeeds (also for `n = 0`) and returns the binary
reflected Gray code. -/
theorem C15G_gray_total (n : Nat) : grayBool n = .ok (reflectedBool n) := grayBool_eq n

/-! ### What the binary Gray enumeration is -/

/-- **perm.**  `list(gray_product(*repeat((False, True), n)))` is a permutation of the `2^n`
rows of the truth table. -/
theorem C15G_gray_perm (n : Nat) (L : List (List Bool)) (h : grayBool n = .ok L) :
    L.Perm (rows n) := by
  rw [C15G_gray_total] at h
  cases h
  exact reflectedBool_perm n

theorem C15G_gray_length (n : Nat) (L : List (List Bool)) (h : grayBool n = .ok L) :
    L.length = 2 ^ n := by
  rw [(C15G_gray_perm n L h).length_eq, TT.rows_length]

/-- Said without `rows`: every boolean `n`-tuple occurs exactly once, nothing else occurs. -/
theorem C15G_gray_each_once (n : Nat) (L : List (List Bool)) (h : grayBool n = .ok L)
    (r : List Bool) : L.count r = if r.length = n then 1 else 0 := by
  rw [(C15G_gray_perm n L h).count_eq]
  split
  · rename_i hr
    have h1 := List.nodup_iff_count.mp (TT.C15_rows_nodup n) r
    have h2 := List.count_pos_iff.mpr ((TT.C15_rows_complete n r).mpr hr)
    omega
  · rename_i hr
    exact List.count_eq_zero_of_not_mem (fun hm => hr ((TT.C15_rows_complete n r).mp hm))

/-- **adjacent.**  Consecutive tuples have the same length and differ in exactly one
position: the enumeration is a Gray code. -/
theorem C15G_gray_adjacent (n : Nat) (L : List (List Bool)) (h : grayBool n = .ok L)
    (i : Nat) (hi : i + 1 < L.length) :
    (L[i]).length = (L[i + 1]).length ∧ diffs L[i] L[i + 1] = 1 := by
  rw [C15G_gray_total] at h
  cases h
  exact (List.isChain_iff_getElem.mp (reflectedBool_chain n)) i hi

/-- It starts at `(False, …, False)`. -/
theorem C15G_gray_first (n : Nat) (L : List (List Bool)) (h : grayBool n = .ok L) :
    L.head? = some (List.replicate n false) := by
  rw [C15G_gray_total] at h
  cases h
  induction n with
  | zero => rfl
  | succ n ih =>
    cases hL : reflectedBool n with
    | nil => rw [hL] at ih; simp at ih
    | cons t ts =>
      rw [hL] at ih
      simp only [List.head?_cons, Option.some.injEq] at ih
      simp [reflectedBool, hL, weave, ih, List.replicate_succ]

/-! ### `sorted` -/

/-- The model's comparison is Python's tuple order: lexicographic over `False < True`, a
proper prefix first (the order `C15_rows_lex` speaks about). -/
theorem C15G_tupleLt_lex (a b : List Bool) : tupleLt a b = true ↔ a < b := tupleLt_iff_lt a b

/-- `pySorted` returns an ascending arrangement of its input … -/
theorem C15G_pySorted_sorts (l : List (List Bool)) :
    (pySorted l).Perm l ∧ (pySorted l).Pairwise (fun a b => ¬ b < a) := by
  refine ⟨pySorted_perm l, (pySorted_sorted l).imp ?_⟩
  intro a b hab hlt
  have := (tupleLt_iff_lt b a).mpr hlt
  unfold tupleLe at hab
  rw [hab] at this
  exact absurd this (by decide)

/-- … and leaves an ascending input as it is (stability, for what it matters on tuples). -/
theorem C15G_pySorted_stable (l : List (List Bool)) (h : l.Pairwise (fun a b => ¬ b < a)) :
    pySorted l = l := by
  apply pySorted_of_sorted
  refine h.imp ?_
  intro a b hab
  unfold tupleLe
  cases hc : tupleLt b a with
  | false => rfl
  | true => exact absurd ((tupleLt_iff_lt b a).mp hc) hab

theorem rows_tupleLe (n : Nat) : (rows n).Pairwise tupleLe :=
  (TT.C15_rows_lex n).imp (fun h => tupleLe_of_lt ((tupleLt_iff_lt _ _).mpr h))

/-- **sorted_gray_eq_rows.**  `sorted(gray_product(*repeat((False, True), n)))`, computed by
the model of the library loop and the model of `sorted`, is `rows n`: the enumeration all
C15 theorems are about.  For every `n`; `n = 0` gives the one empty row. -/
theorem C15G_sorted_gray_eq_rows (n : Nat) : combinations n = .ok (rows n) := by
  unfold combinations
  rw [C15G_gray_total]
  simp only [Res.map]
  rw [pySorted_eq_of_perm (reflectedBool_perm n) (rows_tupleLe n)]

/-- The same for any enumeration of the rows: only *that* `gray_product` lists every
assignment once matters to `truth_table`, not the order in which it does. -/
theorem C15G_sorted_any_perm (n : Nat) (L : List (List Bool)) (h : L.Perm (rows n)) :
    pySorted L = rows n := pySorted_eq_of_perm h (rows_tupleLe n)

theorem C15G_zero : grayBool 0 = .ok [[]] ∧ combinations 0 = .ok [[]] := by decide

/-! ### Non-vacuity and concrete instances -/

example : grayBool 3 = .ok [[false, false, false], [true, false, false], [true, true, false],
    [false, true, false], [false, true, true], [true, true, true], [true, false, true],
    [false, false, true]] := by decide

example : combinations 2 = .ok [[false, false], [false, true], [true, false], [true, true]] := by decide
example : combinations 4 = .ok (rows 4) := by decide

/-- `list(gray_product('AB', 'CD'))` of the docstring, as indices. -/
example : grayIdx [2, 2] = .ok [[0, 0], [1, 0], [1, 1], [0, 1]] := by decide

example : grayIdx [2, 3, 2] = .ok [[0, 0, 0], [1, 0, 0], [1, 1, 0], [0, 1, 0], [0, 2, 0], [1, 2, 0],
    [1, 2, 1], [0, 2, 1], [0, 1, 1], [1, 1, 1], [1, 0, 1], [0, 0, 1]] := by decide

example : grayIdx [3, 1] = .valueError := by decide
example : grayIdx [4, 2, 3] = .ok (reflected [4, 2, 3]) ∧ (reflected [4, 2, 3]).length = 24 := by decide
example : grayIdx [] = .ok [[]] := by decide

/-- The state of the loop after three passes over three binary factors (`a`, `f`, `o`). -/
example : (((step [2, 2, 2] (init 3)).bind (step [2, 2, 2])).bind (step [2, 2, 2]))
    = some ⟨[0, 1, 0], [2, 1, 2, 3], [1, -1, 1]⟩ := by decide

/-- With a one-item iterable the loop would not be a Gray code (hence the `ValueError`): the
hypothesis `2 ≤ m` of `C15G_loop_reflected` cannot be dropped. -/
example : loop [1, 2] (prod [1, 2]) (init 2) ≠ some (reflected [1, 2]) := by decide

/-- Not any enumeration is adjacent: `rows 2` is not. -/
example : ¬ (rows 2).IsChain Adj := by decide

example : pySorted [[true], [], [false, true], [false], [true], [false, false]]
    = [[], [false], [false, false], [false, true], [true], [true]] := by decide

end PyPred.Gray
