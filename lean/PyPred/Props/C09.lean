/-
C09 — every value produced by `generate_true(p)` satisfies `p`.

Model: `Model/GenVal.lean` (values, reference evaluator `evalG` = C08's semantics with exact
numbers), `Model/Gen.lean` (generator states, `pull`, the dispatch table `genTrue`), written
against the library *after* fixes/gen-int-windows, gen-float-defaults, gen-float-epsilon,
gen-lt-datetime, gen-empty-pool.  Tie: harness/props/c09.py (values, request log and status of
the first N `next()` calls against `driver_gen`, on tapes biased to the extremes).

Main theorem `C09_generate_true_sound`: for every predicate in the guard region `okT`, every
tape (= every behaviour of the random source), every fuel, every prefix length, every value of
the stream satisfies `p` (`evalG p v = ok true`: returns `True`, does not raise).
`okT` (Model/GenClass.lean) excludes exactly: `or` with a left operand that can raise
(`C09_or_left_raises`, a real failure: KF-gen-or-raises), `dict_of` with several pairs
(`C09_dictof_overlap`, KF-gen-dictof-overlap = K8), unhashable `in`/`has_key` parameters
(not constructible).
The pinned (unrepaired) helpers are characterised by the `*_pinned_*` witnesses at the end.
-/
import PyPred.Lemmas.GenClauses
import PyPred.Lemmas.GenEmbed

set_option linter.unusedSimpArgs false
set_option linter.unusedVariables false

namespace PyPred
namespace Gen

open GVal
open PyVal (Cmp cmpInt cmpIncl ofCmp Klass)

theorem hashable_of_mem {s : List GVal} (h : hashableL s = true) {v : GVal} (hv : v ∈ s) : hashable v = true := by
  induction s with
  | nil => cases hv
  | cons a as ih =>
    simp only [hashableL, Bool.and_eq_true] at h
    cases hv with
    | head => exact h.1
    | tail _ hm => exact ih h.2 hm

theorem setContains_mem {s : List GVal} (h : hashableL s = true) {v : GVal} (hv : v ∈ s) :
    setContains s v = .ok true := by
  have hh := hashable_of_mem h hv
  have hany : s.any (fun y => pyEq v y) = true := List.any_eq_true.mpr ⟨v, hv, GVal.pyEq_refl v⟩
  unfold setContains
  split <;> simp [hh, hany]

/-- `ne_p(v)(not v)` holds for every `v`. -/
theorem pyEq_not_truthy (w : GVal) : pyEq (.bool (!truthy w)) w = false := by
  have hs := scale_pos
  cases w <;> simp [pyEq, num, truthy]
  · rename_i b; cases b <;> simp <;> omega
  · rename_i n
    by_cases h : n = 0
    · subst h; simp; omega
    · simp [h]
      intro h0
      omega
  · rename_i k
    by_cases h : k = 0
    · subst h; simp; omega
    · simp [h]

theorem dictSet_has_key (items : List GVal) (k v : GVal) :
    ((dictSet items k v).map itemKey).any (fun y => pyEq k y) = true := by
  induction items with
  | nil => simp [dictSet, itemKey, GVal.pyEq_refl]
  | cons it rest ih =>
    simp only [dictSet]
    split
    · rename_i h
      have hk : itemKey (.tuple [itemKey it, v]) = itemKey it := rfl
      simp only [List.map_cons, List.any_cons, hk, h, Bool.true_or]
    · simp only [List.map_cons, List.any_cons, ih, Bool.or_true]

theorem zipOf_outs_tuple (p : GP) {v : GVal} (h : Outs (zipOf p) v) : ∃ xs, v = .tuple xs := by
  cases p <;> simp only [zipOf, Outs] at h
  all_goals first
    | exact ⟨[], h⟩
    | (obtain ⟨x, xs, rfl, _, _⟩ := h; exact ⟨_, rfl⟩)

theorem combos_sub : ∀ (r : Nat) (xs c : List GVal), c ∈ combos r xs → ∀ y ∈ c, y ∈ xs := by
  intro r xs
  induction xs generalizing r with
  | nil =>
    intro c hc y hy
    cases r with
    | zero => simp [combos] at hc; subst hc; cases hy
    | succ r => simp [combos] at hc
  | cons x xs ih =>
    intro c hc y hy
    cases r with
    | zero => simp [combos] at hc; subst hc; cases hy
    | succ r =>
      simp only [combos, List.mem_append, List.mem_map] at hc
      rcases hc with ⟨c', hc', rfl⟩ | hc
      · simp only [List.mem_cons] at hy ⊢
        rcases hy with rfl | hy
        · exact Or.inl rfl
        · exact Or.inr (ih r c' hc' y hy)
      · exact List.mem_cons_of_mem _ (ih (r + 1) c hc y hy)

theorem mem_powerset {s : List GVal} {v : GVal} (h : v ∈ powerset s) : ∃ sub, v = .set sub ∧ ∀ y ∈ sub, y ∈ s := by
  simp only [powerset, List.mem_flatten, List.mem_map] at h
  obtain ⟨l, ⟨r, _, rfl⟩, hv⟩ := h
  simp only [List.mem_map] at hv
  obtain ⟨c, hc, rfl⟩ := hv
  exact ⟨c, rfl, combos_sub r s c hc⟩

theorem subL_of_sub {sub s : List GVal} (h : ∀ y ∈ sub, y ∈ s) : subL sub s = true := by
  rw [GVal.subL_eq]
  simp only [List.all_eq_true, List.any_eq_true]
  exact fun x hx => ⟨x, h x hx, GVal.pyEq_refl x⟩

theorem subset_sound (s : List GVal) {v : GVal} (h : v ∈ powerset s) : evalG (.subset s) v = .ok true := by
  obtain ⟨sub, rfl, hsub⟩ := mem_powerset h
  simp only [evalG, pyLe, pyCmp, subL_of_sub hsub, ofCmp]
  cases supL sub s <;> simp [cmpIncl, Cmp.isLe]

theorem rsubset_sound (s : List GVal) {v : GVal} (h : v ∈ powerset s) (hne : pyEq v (.set s) = false) :
    evalG (.rsubset s) v = .ok true := by
  obtain ⟨sub, rfl, hsub⟩ := mem_powerset h
  have h1 := subL_of_sub hsub
  simp only [pyEq, h1, Bool.true_and] at hne
  simp only [evalG, pyLt, pyCmp, h1, ofCmp, supL, hne]
  simp [cmpIncl, Cmp.isLt]

/-- The static core of C09: every possible output of `generate_true(p)` satisfies `p`; for a
predicate list, every tuple of the zipped member generators satisfies the members in order. -/
theorem genTrue_sound : ∀ p : GP,
    (okT p = true → ∀ v, Outs (genTrue p) v → evalG p v = .ok true) ∧
    (okT p = true → ∀ xs, Outs (zipOf p) (.tuple xs) → xs.length = p.chainLen ∧ evalTup p xs = .ok true) := by
  intro p
  induction p with
  | tt =>
    refine ⟨fun _ v h => by simp [evalG], fun _ xs h => ?_⟩
    simp only [zipOf, Outs, GVal.tuple.injEq] at h; subst h; simp [GP.chainLen, evalTup]
  | ff =>
    refine ⟨fun _ v h => by simp [genTrue, Outs] at h, fun _ xs h => ?_⟩
    simp only [zipOf, Outs, GVal.tuple.injEq] at h; subst h; simp [GP.chainLen, evalTup]
  | eq w =>
    refine ⟨fun _ v h => ?_, fun _ xs h => ?_⟩
    · simp only [genTrue, Outs] at h; subst h; simp [evalG, GVal.pyEq_refl]
    · simp only [zipOf, Outs, GVal.tuple.injEq] at h; subst h; simp [GP.chainLen, evalTup]
  | ne w =>
    refine ⟨fun _ v h => ?_, fun _ xs h => ?_⟩
    · simp only [genTrue, Outs, List.mem_singleton] at h; subst h; simp [evalG, pyEq_not_truthy]
    · simp only [zipOf, Outs, GVal.tuple.injEq] at h; subst h; simp [GP.chainLen, evalTup]
  | ge w =>
    refine ⟨fun _ v h => ?_, fun _ xs h => ?_⟩
    · simp only [genTrue] at h
      rcases cmpGen_outs _ _ _ _ _ _ _ _ (by intro k; right; rfl) h with ⟨a, rfl, hx⟩ | ⟨k, a, rfl, rfl, h1, _⟩ | ⟨n, a, hn, rfl, h1, _⟩ | h
      · obtain ⟨d, rfl⟩ := mem_dayList hx
        simp only [evalG, pyGe, pyCmp_dt, ofCmp, cmpInt_isGe, dayUs]
        simp; omega
      · have := h1 k rfl
        simp only [evalG, pyGe_val]; simp [this]
      · have := h1 n rfl
        simp only [evalG, pyGe, pyCmp_int_asInt hn, ofCmp, cmpInt_isGe]; simp [scale_le, this]
      · simpa using h
    · simp only [zipOf, Outs, GVal.tuple.injEq] at h; subst h; simp [GP.chainLen, evalTup]
  | gt w =>
    refine ⟨fun hk v h => ?_, fun _ xs h => ?_⟩
    · simp only [genTrue] at h
      rcases cmpGen_outs _ _ _ _ _ _ _ _ (by intro k; right; rfl) h with ⟨a, rfl, hx⟩ | ⟨k, a, rfl, rfl, h1, _⟩ | ⟨n, a, hn, rfl, h1, _⟩ | h
      · obtain ⟨d, rfl⟩ := mem_dayList hx
        simp only [evalG, pyGt, pyCmp_dt, ofCmp, cmpInt_isGt, dayUs]
        simp; omega
      · have hne : k ≠ .inf false := by rintro rfl; simp [okT, isPosInf, isNegInf, XF.val] at hk
        have := XF.lt_of_lt_of_le (nextUpX_gt k hne) (h1 _ rfl)
        simp only [evalG, pyGt_val]; simp [this]
      · have := h1 _ rfl
        simp only [evalG, pyGt, pyCmp_int_asInt hn, ofCmp, cmpInt_isGt]; simp [scale_lt]; omega
      · simpa using h
    · simp only [zipOf, Outs, GVal.tuple.injEq] at h; subst h; simp [GP.chainLen, evalTup]
  | le w =>
    refine ⟨fun _ v h => ?_, fun _ xs h => ?_⟩
    · simp only [genTrue] at h
      rcases cmpGen_outs _ _ _ _ _ _ _ _ (by intro k; left; rfl) h with ⟨a, rfl, hx⟩ | ⟨k, a, rfl, rfl, _, h1⟩ | ⟨n, a, hn, rfl, _, h1⟩ | h
      · obtain ⟨d, rfl⟩ := mem_dayList hx
        simp only [evalG, pyLe, pyCmp_dt, ofCmp, cmpInt_isLe, dayUs]
        simp; omega
      · have := h1 k rfl
        simp only [evalG, pyLe_val]; simp [this]
      · have := h1 n rfl
        simp only [evalG, pyLe, pyCmp_int_asInt hn, ofCmp, cmpInt_isLe]; simp [scale_le, this]
      · simpa using h
    · simp only [zipOf, Outs, GVal.tuple.injEq] at h; subst h; simp [GP.chainLen, evalTup]
  | lt w =>
    refine ⟨fun hk v h => ?_, fun _ xs h => ?_⟩
    · simp only [genTrue] at h
      rcases cmpGen_outs _ _ _ _ _ _ _ _ (by intro k; left; rfl) h with ⟨a, rfl, hx⟩ | ⟨k, a, rfl, rfl, _, h1⟩ | ⟨n, a, hn, rfl, _, h1⟩ | h
      · obtain ⟨d, rfl⟩ := mem_dayList hx
        simp only [evalG, pyLt, pyCmp_dt, ofCmp, cmpInt_isLt, dayUs]
        simp; omega
      · have hne : k ≠ .inf true := by rintro rfl; simp [okT, isPosInf, isNegInf, XF.val] at hk
        have := XF.lt_of_le_of_lt (h1 _ rfl) (nextDownX_lt k hne)
        simp only [evalG, pyLt_val]; simp [this]
      · have := h1 _ rfl
        simp only [evalG, pyLt, pyCmp_int_asInt hn, ofCmp, cmpInt_isLt]; simp [scale_lt]; omega
      · simpa using h
    · simp only [zipOf, Outs, GVal.tuple.injEq] at h; subst h; simp [GP.chainLen, evalTup]
  | isin s =>
    refine ⟨fun hk v h => ?_, fun _ xs h => ?_⟩
    · simp only [genTrue, Outs] at h
      simp only [okT] at hk
      simp only [evalG]; exact setContains_mem hk h
    · simp only [zipOf, Outs, GVal.tuple.injEq] at h; subst h; simp [GP.chainLen, evalTup]
  | notin s =>
    refine ⟨fun _ v h => ?_, fun _ xs h => ?_⟩
    · simp only [genTrue] at h
      simpa using byFirstMember_outs _ _ _ h
    · simp only [zipOf, Outs, GVal.tuple.injEq] at h; subst h; simp [GP.chainLen, evalTup]
  | subset s =>
    refine ⟨fun _ v h => ?_, fun _ xs h => ?_⟩
    · simp only [genTrue, Outs] at h; exact subset_sound s h
    · simp only [zipOf, Outs, GVal.tuple.injEq] at h; subst h; simp [GP.chainLen, evalTup]
  | rsubset s =>
    refine ⟨fun _ v h => ?_, fun _ xs h => ?_⟩
    · simp only [genTrue, Outs, List.mem_filter, Bool.not_eq_eq_eq_not, Bool.not_true] at h
      exact rsubset_sound s h.1 h.2
    · simp only [zipOf, Outs, GVal.tuple.injEq] at h; subst h; simp [GP.chainLen, evalTup]
  | isNone =>
    refine ⟨fun _ v h => ?_, fun _ xs h => ?_⟩
    · simp only [genTrue, Outs, List.mem_singleton] at h; subst h; simp [evalG]
    · simp only [zipOf, Outs, GVal.tuple.injEq] at h; subst h; simp [GP.chainLen, evalTup]
  | isNotNone =>
    refine ⟨fun _ v h => ?_, fun _ xs h => ?_⟩
    · simp only [genTrue, Outs] at h; simpa using h.2
    · simp only [zipOf, Outs, GVal.tuple.injEq] at h; subst h; simp [GP.chainLen, evalTup]
  | truthy =>
    refine ⟨fun _ v h => ?_, fun _ xs h => ?_⟩
    · have := c314_pos
      simp only [genTrue, Outs, List.mem_cons, List.not_mem_nil, or_false] at h
      rcases h with rfl | rfl | rfl | rfl | rfl <;> simp [evalG, truthy] <;> omega
    · simp only [zipOf, Outs, GVal.tuple.injEq] at h; subst h; simp [GP.chainLen, evalTup]
  | falsy =>
    refine ⟨fun _ v h => ?_, fun _ xs h => ?_⟩
    · simp only [genTrue, Outs, List.mem_cons, List.not_mem_nil, or_false] at h
      rcases h with rfl | rfl | rfl | rfl | rfl <;> simp [evalG, truthy]
    · simp only [zipOf, Outs, GVal.tuple.injEq] at h; subst h; simp [GP.chainLen, evalTup]
  | isEmpty =>
    refine ⟨fun _ v h => ?_, fun _ xs h => ?_⟩
    · simp only [genTrue, Outs, List.mem_cons, List.not_mem_nil, or_false] at h
      rcases h with rfl | rfl | rfl | rfl | rfl <;> simp [evalG, iterElems]
    · simp only [zipOf, Outs, GVal.tuple.injEq] at h; subst h; simp [GP.chainLen, evalTup]
  | inst ks =>
    refine ⟨fun _ v h => ?_, fun _ xs h => ?_⟩
    · cases ks with
      | nil => simp [genTrue, Outs] at h
      | cons k ks =>
        cases k <;> simp only [genTrue, floatsFrom, Outs, List.not_mem_nil, List.mem_singleton] at h
        all_goals first
          | (obtain ⟨a, rfl⟩ := h; simp [evalG, isInst])
          | (obtain ⟨a, rfl, _⟩ := h; simp [evalG, isInst]; done)
          | (obtain ⟨a, rfl, _⟩ := h; cases a <;> simp [evalG, isInst, XF.val])
          | (subst h; simp [evalG, isInst])
          | exact absurd h id
    · simp only [zipOf, Outs, GVal.tuple.injEq] at h; subst h; simp [GP.chainLen, evalTup]
  | hasKey k =>
    refine ⟨fun hk v h => ?_, fun _ xs h => ?_⟩
    · simp only [okT] at hk
      simp only [genTrue, Outs] at h
      obtain ⟨w, ⟨x, xs, rfl, ⟨items, rfl⟩, ⟨y, ys, hys, _, hnil⟩⟩, hm⟩ := h
      simp only [GVal.tuple.injEq] at hys hnil
      subst hnil; subst hys
      simp only [applyMap, hk, if_true, Except.ok.injEq] at hm
      subst hm
      simp only [evalG, keysContain, hk, if_true, dictSet_has_key]
    · simp only [zipOf, Outs, GVal.tuple.injEq] at h; subst h; simp [GP.chainLen, evalTup]
  | and u g l r ihl ihr =>
    refine ⟨fun hk v h => ?_, fun _ xs h => ?_⟩
    · simp only [okT, Bool.and_eq_true] at hk
      simp only [genTrue] at h
      split at h
      · simp [Outs] at h
      · simp only [Outs, Bool.not_false] at h
        simp only [evalG, andThen_true]
        rcases h with ⟨h1, h2⟩ | ⟨h1, h2⟩
        · exact ⟨ihl.1 hk.1 v h1, h2⟩
        · exact ⟨h2, ihr.1 hk.2 v h1⟩
    · simp only [zipOf, Outs, GVal.tuple.injEq] at h; subst h; simp [GP.chainLen, evalTup]
  | or l r ihl ihr =>
    refine ⟨fun hk v h => ?_, fun _ xs h => ?_⟩
    · simp only [okT, Bool.and_eq_true] at hk
      simp only [genTrue, Outs, List.not_mem_nil, false_or] at h
      obtain ⟨xs, ⟨x, r1, h1, hx, ⟨y, r2, h2, hy, h3⟩⟩, hv⟩ := h
      simp only [GVal.tuple.injEq] at h1 h2 h3
      subst h3; subst h2; subst h1
      simp only [List.mem_cons, List.not_mem_nil, or_false] at hv
      simp only [evalG]
      rcases hv with rfl | rfl
      · simp [ihl.1 hk.1.1 _ hx, Outcome.orElse]
      · obtain ⟨b, hb⟩ := total_ok l hk.2 v
        cases b <;> simp [hb, Outcome.orElse, ihr.1 hk.1.2 _ hy]
    · simp only [zipOf, Outs, GVal.tuple.injEq] at h; subst h; simp [GP.chainLen, evalTup]
  | all q ih =>
    refine ⟨fun hk v h => ?_, fun _ xs h => ?_⟩
    · simp only [okT] at hk
      simp only [genTrue, Outs] at h
      obtain ⟨xs, hxs, rfl | rfl | rfl⟩ := h <;>
        simp only [evalG, iterElems] <;> exact allO_true _ _ (fun x hx => ih.1 hk x (hxs x hx))
    · simp only [zipOf, Outs, GVal.tuple.injEq] at h; subst h; simp [GP.chainLen, evalTup]
  | any q ih =>
    refine ⟨fun hk v h => ?_, fun _ xs h => ?_⟩
    · simp only [okT] at hk
      simp only [genTrue, Outs] at h
      obtain ⟨xs, hne, hxs, rfl | rfl⟩ := h <;>
        simp only [evalG, iterElems] <;> exact anyO_true_of_head _ _ hne (fun x hx => ih.1 hk x (hxs x hx))
    · simp only [zipOf, Outs, GVal.tuple.injEq] at h; subst h; simp [GP.chainLen, evalTup]
  | setOf q ih =>
    refine ⟨fun hk v h => ?_, fun _ xs h => ?_⟩
    · simp only [okT] at hk
      simp only [genTrue, Outs] at h
      obtain ⟨xs, hxs, rfl⟩ := h
      simp only [evalG, iterElems]; exact allO_true _ _ (fun x hx => ih.1 hk x (hxs x hx))
    · simp only [zipOf, Outs, GVal.tuple.injEq] at h; subst h; simp [GP.chainLen, evalTup]
  | tupleOf ps ih =>
    refine ⟨fun hk v h => ?_, fun _ xs h => ?_⟩
    · simp only [okT] at hk
      have hz : Outs (zipOf ps) v := by
        cases ps <;> simp only [genTrue] at h <;> first | exact h | (simp [Outs] at h)
      obtain ⟨xs, rfl⟩ := zipOf_outs_tuple ps hz
      obtain ⟨hlen, hev⟩ := ih.2 hk xs hz
      simp [evalG, iterElems, hlen, hev]
    · simp only [zipOf, Outs, GVal.tuple.injEq] at h; subst h; simp [GP.chainLen, evalTup]
  | dictOf kvs ih =>
    refine ⟨fun hk v h => ?_, fun _ xs h => ?_⟩
    · -- the guard leaves `pnil` (no values) and a single pair
      match kvs, hk, h, ih with
      | .pnil, _, h, _ => simp [genTrue, Outs] at h
      | .pcons k (.pcons w .pnil), hk, h, ih =>
        simp only [okT, Bool.and_eq_true] at hk
        simp only [genTrue, Outs] at h
        obtain ⟨tv, hz, hm⟩ := h
        have hz' : Outs (zipOf (.pcons k (.pcons w .pnil))) tv := by simpa [Outs, zipOf] using hz
        obtain ⟨xs, rfl⟩ := zipOf_outs_tuple _ hz'
        obtain ⟨hlen, hev⟩ := ih.2 (by simp [okT, hk.1, hk.2]) xs hz'
        match xs, hlen, hev, hm with
        | [a, b], _, hev, hm =>
          simp only [evalTup, andThen_true] at hev
          obtain ⟨ha, hb, _⟩ := hev
          simp only [applyMap, chunkDict] at hm
          split at hm
          · simp only [Except.map, dictSet] at hm
            cases hm
            simp [evalG, GP.chainLen, allO, anyO, anyKV, noBadKV, itemKey, itemVal, ha, hb, Outcome.andThen,
              Outcome.orElse, Outcome.not]
          · simp [Except.map] at hm
      | .pcons k (.pcons w (.pcons _ _)), hk, _, _ => simp [okT] at hk
    · simp only [zipOf, Outs, GVal.tuple.injEq] at h; subst h; simp [GP.chainLen, evalTup]
  | pnil =>
    refine ⟨fun _ v h => by simp [genTrue, Outs] at h, fun _ xs h => ?_⟩
    simp only [zipOf, Outs, GVal.tuple.injEq] at h; subst h; simp [GP.chainLen, evalTup]
  | pcons hd tl ihh iht =>
    refine ⟨fun _ v h => by simp [genTrue, Outs] at h, fun hk xs h => ?_⟩
    simp only [okT, Bool.and_eq_true] at hk
    simp only [zipOf, Outs, GVal.tuple.injEq] at h
    obtain ⟨x, r, rfl, hx, hr⟩ := h
    obtain ⟨hlen, hev⟩ := iht.2 hk.2 r hr
    refine ⟨by simp [GP.chainLen, hlen]; omega, ?_⟩
    simp only [evalTup, andThen_true]
    exact ⟨ihh.1 hk.1 x hx, hev⟩

/-- Every value in a stream prefix is a possible output of the initial state. -/
theorem takeN_outs (fuel : Nat) : ∀ (want : Nat) (g : G) (t : Tape), ∀ v ∈ (takeN fuel want g t).values, Outs g v := by
  intro want
  induction want with
  | zero => intro g t v hv; simp [takeN] at hv
  | succ want ih =>
    intro g t v hv
    simp only [takeN] at hv
    split at hv
    · rename_i v1 g1 t1 hp
      obtain ⟨h1, h2⟩ := pull_sound fuel _ _ _ _ _ hp
      simp only [List.mem_cons] at hv
      rcases hv with rfl | hv
      · exact h1
      · exact h2 _ (ih g1 t1 v hv)
    · cases hv
    · cases hv
    · cases hv

/-- **C09.**  For every supported predicate in the guard region, every tape (every seed and
every behaviour of `random`, `uuid4`, `now`), every fuel and every prefix length, each value of
the stream `generate_true(p)` satisfies `p`: calling `p` on it returns `True`. -/
theorem C09_generate_true_sound (p : GP) (hp : okT p = true) (raws : List Int) (fuel want : Nat) :
    ∀ v ∈ (takeN fuel want (genTrue p) ⟨raws, []⟩).values, evalG p v = .ok true :=
  fun v hv => (genTrue_sound p).1 hp v (takeN_outs fuel want _ _ v hv)

/-- … at every position: the `i`-th value, whenever the stream gets that far. -/
theorem C09_every_position (p : GP) (hp : okT p = true) (raws : List Int) (fuel want i : Nat) (v : GVal)
    (h : (takeN fuel want (genTrue p) ⟨raws, []⟩).values[i]? = some v) : evalG p v = .ok true :=
  C09_generate_true_sound p hp raws fuel want v (List.mem_of_getElem? h)

/-- … and from every reachable state, not only the initial one (stated with `Outs`). -/
theorem C09_states (p : GP) (hp : okT p = true) (fuel : Nat) (g g' : G) (t t' : Tape) (v : GVal)
    (hg : ∀ w, Outs g w → Outs (genTrue p) w) (h : pull fuel g t = .yield v g' t') :
    evalG p v = .ok true ∧ ∀ w, Outs g' w → Outs (genTrue p) w := by
  obtain ⟨h1, h2⟩ := pull_sound fuel _ _ _ _ _ h
  exact ⟨(genTrue_sound p).1 hp v (hg v h1), fun w hw => hg w (h2 w hw)⟩


/-! ### Outside the guard: the full statement is false there (witnesses on the model; the same
values fail on the real code, see known findings KF-gen-or-raises / KF-gen-dictof-overlap) -/

/-- `generate_true(ge_p(3) | is_str_p)` yields `''` on the all-zero tape … -/
theorem C09_or_left_raises_stream :
    (takeN 9 2 (genTrue (.or (.ge (.int 3)) (.inst [.str]))) ⟨[], []⟩).values = [.int 3, .str []] := by rfl
/-- … on which the predicate raises `TypeError` instead of returning `True`. -/
theorem C09_or_left_raises : evalG (.or (.ge (.int 3)) (.inst [.str])) (.str []) = .raised .typeError := by decide
theorem C09_or_left_raises_guard : okT (.or (.ge (.int 3)) (.inst [.str])) = false := by decide

/-- `is_dict_of_p((is_str_p, is_int_p), (is_str_p, is_str_p))`: overlapping key predicates (K8). -/
def dictOverlap : GP :=
  .dictOf (.pcons (.inst [.str]) (.pcons (.inst [.int]) (.pcons (.inst [.str]) (.pcons (.inst [.str]) .pnil))))
theorem C09_dictof_overlap_stream :
    (takeN 9 1 (genTrue dictOverlap) ⟨[], []⟩).values = [.dict [.tuple [.str [], .str []]]] := by rfl
theorem C09_dictof_overlap : evalG dictOverlap (.dict [.tuple [.str [], .str []]]) = .ok false := by decide
theorem C09_dictof_overlap_guard : okT dictOverlap = false := by decide

/-! ### Non-vacuity: concrete tapes, concrete values -/

example : (takeN 5 3 (genTrue (.ge (.int 101))) ⟨[5, 0, 999], []⟩).values = [.int 101, .int 101, .int 111] := by rfl
example : okT (.ge (.int 101)) = true := by decide
set_option maxRecDepth 8000 in
example : (takeN 5 3 (genTrue (.gt (.flt (2 * scale)))) ⟨[], []⟩).values.length = 3 := by rfl
example : (takeN 9 4 (genTrue (.all (.inst [.int]))) ⟨[3, 1, 2, 3, 0, 1, 2], []⟩).values.length = 4 := by rfl
example : nextUp 0 = 1 := by decide
example : nextDown 0 = -1 := by decide
/-- The spacing doubles at each binade: in float units `2^53 → 2^53 + 2`, `2^53 - 1 → 2^53`
(`math.nextafter`; the pinned code added `sys.float_info.epsilon`, which rounding absorbs for `|v| ≥ 2`). -/
example : nextUp (2 ^ 53) = 2 ^ 53 + 2 := by decide
example : nextUp (2 ^ 53 - 1) = 2 ^ 53 := by decide
example : nextDown (2 ^ 53) = 2 ^ 53 - 1 := by decide

/-! ### The edge of the double range (fixes/gen-float-overflow.diff)

`flt k` bounds of every magnitude are inside `C09_generate_true_sound` (no "the bound is a finite
double" hypothesis was needed: the clamp keeps the derived bound on the right side of the given one
whatever `k` is).  The infinities appear as *values*: `math.nextafter` at `±sys.float_info.max`. -/

/-- What `random_floats` resolves its bounds to when the lower bound given is `+inf`: both `+inf`. -/
theorem XF.le_pinf (x : XF) : XF.le x (.inf false) = true := by
  cases x with
  | fin k => simp [XF.le]
  | inf n => cases n <;> simp [XF.le]

theorem XF.ninf_le (x : XF) : XF.le (.inf true) x = true := by
  cases x with
  | fin k => simp [XF.le]
  | inf n => cases n <;> simp [XF.le]

theorem floatsFrom_pinf : floatsFrom (some (.inf false)) Option.none = .floats (.inf false) (.inf false) 0 := by
  simp [floatsFrom, XF.max, XF.lt, XF.le_pinf]

theorem floatsFrom_ninf : floatsFrom Option.none (some (.inf true)) = .floats (.inf true) (.inf true) 0 := by
  simp [floatsFrom, XF.min, XF.lt, XF.ninf_le]

theorem outs_floats_inf {n : Bool} {ph : Nat} {v : GVal} (h : Outs (.floats (.inf n) (.inf n) ph) v) : v = .inf n := by
  obtain ⟨a, rfl, hb⟩ := h
  obtain ⟨h1, h2⟩ := hb (XF.le_refl _)
  cases a with
  | fin k => cases n <;> simp [XF.le] at h1 h2
  | inf m => cases n <;> cases m <;> simp [XF.le, XF.val] at h1 h2 ⊢

/-- **Boundary case `gt_p(sys.float_info.max)`.**  On every tape, at every position: the value
yielded is `+inf` — and it satisfies the predicate (`inf > max` is `True`). -/
theorem C09_gt_maxF (raws : List Int) (fuel want : Nat) :
    ∀ v ∈ (takeN fuel want (genTrue (.gt (.flt maxF))) ⟨raws, []⟩).values,
      v = .inf false ∧ evalG (.gt (.flt maxF)) v = .ok true := by
  intro v hv
  have hs := C09_generate_true_sound (.gt (.flt maxF)) rfl raws fuel want v hv
  have ho := takeN_outs fuel want _ _ v hv
  simp only [genTrue, cmpGen, nextUpX_maxF, floatsFrom_pinf] at ho
  exact ⟨outs_floats_inf ho, hs⟩

/-- **Boundary case `lt_p(-sys.float_info.max)`**: every value is `-inf`, which satisfies it. -/
theorem C09_lt_neg_maxF (raws : List Int) (fuel want : Nat) :
    ∀ v ∈ (takeN fuel want (genTrue (.lt (.flt (-maxF)))) ⟨raws, []⟩).values,
      v = .inf true ∧ evalG (.lt (.flt (-maxF))) v = .ok true := by
  intro v hv
  have hs := C09_generate_true_sound (.lt (.flt (-maxF))) rfl raws fuel want v hv
  have ho := takeN_outs fuel want _ _ v hv
  simp only [genTrue, cmpGen, nextDownX_neg_maxF, floatsFrom_ninf] at ho
  exact ⟨outs_floats_inf ho, hs⟩

/-- The stream is not empty there (non-vacuity of the two boundary theorems), and no draw is made. -/
theorem C09_gt_maxF_stream (raws : List Int) :
    (takeN 1 3 (genTrue (.gt (.flt maxF))) ⟨raws, []⟩).values = [.inf false, .inf false, .inf false]
    ∧ (takeN 1 3 (genTrue (.gt (.flt maxF))) ⟨raws, []⟩).log = [] := by
  simp [genTrue, cmpGen, nextUpX_maxF, floatsFrom_pinf, takeN, pull, XF.val, XF.lt_irrefl]

/-- `ge_p` / `le_p` at the edge: the widened default is clamped to the largest double
(`2 * bound` overflows there), so the stream stays between the bound and `±max`. -/
theorem floatsFrom_ge_maxF : floatsFrom (some (.fin maxF)) Option.none = .floats (.fin maxF) (.fin maxF) 0 := by
  have h1 := maxF_pos
  have h2 := cHi_lt_maxF
  have e1 : XF.dbl (.fin maxF) = .inf false := by simp [XF.dbl]; omega
  simp [floatsFrom, e1, XF.max, XF.min, XF.lt, XF.le]

/-- An infinite *bound* is outside the guard: no float is greater than `+inf`, yet the float arm of
`generate_true(gt_p(math.inf))` yields `+inf` (so does the real code; unsatisfiable request). -/
theorem C09_gt_inf_outside :
    okT (.gt (.inf false)) = false
    ∧ (∀ raws, (takeN 1 1 (genTrue (.gt (.inf false))) ⟨raws, []⟩).values = [.inf false])
    ∧ evalG (.gt (.inf false)) (.inf false) = .ok false := by
  refine ⟨rfl, fun raws => ?_, by decide⟩
  simp [genTrue, cmpGen, nextUpX, floatsFrom_pinf, takeN, pull, XF.val]

example : okT (.gt (.flt maxF)) = true := rfl
example : okT (.lt (.flt (-maxF))) = true := rfl
example : okT (.ge (.inf true)) = true := rfl

/-! ### The pinned (unrepaired) `random_ints`, for the record -/

/-- The pinned windows `[max(-limit, lower), min(limit, upper)]`, `limit ∈ {1, 10, 100}`: a whole
round yields nothing — and `while True:` spins — exactly when the requested range misses `[-100, 100]`. -/
theorem C09_pinned_ints_round_empty (lower upper : Int) :
    (min 1 upper < max (-1) lower ∧ min 10 upper < max (-10) lower ∧ min 100 upper < max (-100) lower)
      ↔ (upper < lower ∨ 100 < lower ∨ upper < -100) := by
  omega


/-! ### Judged by the reference evaluator of C08

The property text says "each yielded value, judged by the reference evaluator of C08".  `evalG` is
that evaluator: on C08's universe `PyVal` (embedded by `embed`, Lemmas/GenEmbed.lean) and on every
predicate built from the atom kinds both models know (eq, ne, ge, gt, le, lt, in, not_in, subset,
real subset, none / not-none / truthy / falsy / empty, the type tests, has_key) with `&`, `|`,
`all_p`, `any_p`, `set_of`, it returns exactly what C07/C08's `evalPy` returns (`evalG_embed`).
Values outside the image of `embed` (datetimes, UUIDs, floats off the ½-grid) have no `PyVal`
counterpart; for them `evalG` extends the same definitions. -/

/-- **C09 in C08's terms.**  Whenever a value of the stream `generate_true(p)` is (the embedding of)
a value `x` of C08's universe, C08's evaluator says that `x` satisfies `p`. -/
theorem C09_judged_by_C08_evaluator (p : P) (g : GP) (hg : trP p = some g) (hfree : pObjFree p = true)
    (hok : okT g = true) (raws : List Int) (fuel want : Nat) (x : PyVal) (hx : objFree x = true)
    (hmem : embed x ∈ (takeN fuel want (genTrue g) ⟨raws, []⟩).values) : evalPy p x = .ok true := by
  rw [← evalG_embed p g hg hfree x hx]
  exact C09_generate_true_sound g hok raws fuel want _ hmem

example : trP (.and (.atom (.inst [.int])) (.atom (.ge (.int 3)))) = some (.and false true (.inst [.int]) (.ge (.int 3))) := rfl
example : embed (.flt 7) = .flt (7 * half) := rfl

end Gen
end PyPred
