/-
C15  truth_table(p) is the complete, ordered, history-independent evaluation of p.

Theorems about Model/TruthTable.lean (the model of predicate/truth_table.py over a
heap of shared, mutable variable objects); the tie to /repo is the correspondence
run by `./check C15` (random heaps, aliasings and interleavings of `next` on
several live generators, compared step by step with this model through
`driver_tt`).
-/
import PyPred.Lemmas.TTRun

namespace PyPred.TT
variable (nm : ObjId → String)

/-! ### The enumeration: 2^n rows, ascending binary order, each assignment once -/

theorem C15_rows_length (n : Nat) : (rows n).length = 2 ^ n := rows_length n

/-- Read as binary numbers (first name = most significant bit) the rows are
`0, 1, …, 2^n − 1`, in this order. -/
theorem C15_rows_binary (n : Nat) : (rows n).map val = List.range (2 ^ n) := rows_val n

/-- Strictly ascending … -/
theorem C15_rows_ascending (n : Nat) : (rows n).Pairwise (fun a b => val a < val b) := by
  have := List.pairwise_lt_range (n := 2 ^ n)
  rw [← rows_val n, List.pairwise_map] at this
  exact this

/-- The same order said the way Python says it: the rows are strictly ascending in the
lexicographic order of tuples over `False < True` (what `sorted` uses). -/
theorem C15_rows_lex (n : Nat) : (rows n).Pairwise (· < ·) := by
  induction n with
  | zero => simp [rows]
  | succ n ih =>
    simp only [rows]
    rw [List.pairwise_append]
    refine ⟨?_, ?_, ?_⟩
    · rw [List.pairwise_map]
      exact ih.imp (fun h => by simp [List.cons_lt_cons_iff, h])
    · rw [List.pairwise_map]
      exact ih.imp (fun h => by simp [List.cons_lt_cons_iff, h])
    · intro a ha b hb
      obtain ⟨a', _, rfl⟩ := List.mem_map.mp ha
      obtain ⟨b', _, rfl⟩ := List.mem_map.mp hb
      simp only [List.cons_lt_cons_iff]
      exact Or.inl (by decide)

/-- … hence duplicate-free, … -/
theorem C15_rows_nodup (n : Nat) : (rows n).Nodup := by
  refine List.Pairwise.imp ?_ (C15_rows_ascending n)
  intro a b hab heq
  subst heq
  exact Nat.lt_irrefl _ hab

/-- … and complete: the rows are exactly the `n`-tuples of Booleans. -/
theorem C15_rows_complete (n : Nat) (r : List Bool) : r ∈ rows n ↔ r.length = n := mem_rows

/-! ### The names: sorted, each once, exactly those occurring -/

theorem C15_names_sorted (t : Tree) : (names nm t).Pairwise (· < ·) := asc_sortDedup _

theorem C15_names_nodup (t : Tree) : (names nm t).Nodup := asc_nodup (asc_sortDedup _)

theorem C15_names_exact (t : Tree) (x : String) : x ∈ names nm t ↔ ∃ o ∈ t.objs, nm o = x := by
  simp [mem_names, Tree.leafNames]

/-- `get_named_predicates` (recursive `sorted(set(..))` of already sorted lists)
returns this list on propositional trees. -/
theorem C15_getNamed (t : Tree) (ht : t.isProp = true) : getNamed nm t = .ok (names nm t) :=
  getNamed_ok nm ht

/-- The row `r` is the assignment `names[i] ↦ r[i]`. -/
theorem C15_row_is_assignment (t : Tree) (r : List Bool) (hr : r.length = (names nm t).length)
    (i : Nat) (hi : i < (names nm t).length) :
    valuation (names nm t) r ((names nm t)[i]) = r[i]'(by omega) := by
  simp [valuation, assign_getElem (C15_names_nodup nm t) hr i hi]

/-! ### One generator -/

theorem nexts_stateAt (t : Tree) (m k : Nat) (h : Heap) :
    (nexts nm m h (stateAt nm t k)).1 = (List.range m).map (fun j => respond nm t (k + j)) := by
  induction m generalizing k h with
  | zero => simp [nexts]
  | succ m ih =>
    obtain ⟨h', e, _⟩ := next_stateAt nm t k h
    simp only [nexts, e]
    rw [List.range_succ_eq_map]
    simp only [List.map_cons, List.map_map]
    rw [ih (k + 1) h']
    simp only [Nat.add_zero, List.cons.injEq, true_and]
    apply List.map_congr_left
    intro j _
    simp [Nat.add_assoc, Nat.add_comm 1 j]

theorem respond_range (t : Tree) (ht : t.isProp = true) :
    (List.range (2 ^ (names nm t).length + 1)).map (respond nm t) = spec nm t ++ [.stop] := by
  rw [List.range_succ, List.map_append]
  congr 1
  · apply List.ext_getElem
    · simp [spec_length]
    · intro i h₁ h₂
      have hi : i < 2 ^ (names nm t).length := by simpa using h₁
      have hi' : i < (rows (names nm t).length).length := by simpa [rows_length] using hi
      simp [respond, ht, spec, hi']
  · simp [respond_ge nm ht (Nat.le_refl _)]

/-- **table_spec.**  For every initial heap (whatever earlier tables left in the
variables) and every aliasing (`nm` need not be injective, an object may occur many
times): `list(truth_table(p))` is the `2^n` rows in ascending order, each with the
value of `p` under `names ↦ row`, and then `StopIteration`. -/
theorem C15_table_spec (t : Tree) (ht : t.isProp = true) (h : Heap) :
    (nexts nm (2 ^ (names nm t).length + 1) h (.fresh t)).1 = spec nm t ++ [.stop] := by
  have := nexts_stateAt nm t (2 ^ (names nm t).length + 1) 0 h
  simp only [stateAt, Nat.zero_add] at this
  rw [this]
  exact respond_range nm t ht

/-- In particular the table does not depend on the heap it starts from. -/
theorem C15_history_independent (t : Tree) (m : Nat) (h₁ h₂ : Heap) :
    (nexts nm m h₁ (.fresh t)).1 = (nexts nm m h₂ (.fresh t)).1 := by
  have a := nexts_stateAt nm t m 0 h₁
  have b := nexts_stateAt nm t m 0 h₂
  simp only [stateAt] at a b
  rw [a, b]

/-- A tree without variables (`always_true_p` alone, …) has the single row `()`. -/
theorem C15_no_variables (t : Tree) (ht : t.isProp = true) (h0 : t.objs = []) (h : Heap) :
    (nexts nm 2 h (.fresh t)).1 = [.row [] (evalS nm (fun _ => false) t), .stop] := by
  have hn : names nm t = [] := by simp [names, Tree.leafNames, h0, sortDedup]
  have := C15_table_spec nm t ht h
  simp only [hn, List.length_nil, Nat.pow_zero] at this
  rw [this]
  have hv : valuation [] [] = fun _ => false := by funext x; simp [valuation, assign]
  simp [spec, hn, rows, hv]

/-! ### Rejection -/

/-- Anything but variables, constants and `& | ^ ~` anywhere in the tree: the first
`next` raises `ValueError` before any variable is written, the generator is then
exhausted. -/
theorem C15_rejects (t : Tree) (ht : t.isProp = false) (h : Heap) :
    next nm h (.fresh t) = (h, .done, .raised .valueError) ∧
    next nm h .done = (h, .done, .stop) := by
  simp [next, getNamed_err nm ht]

theorem C15_rejects_iff (t : Tree) (h : Heap) :
    (next nm h (.fresh t)).2.2 = .raised .valueError ↔ t.isProp = false := by
  constructor
  · intro e
    cases ht : t.isProp with
    | false => rfl
    | true =>
      obtain ⟨h', e', _⟩ := next_stateAt nm t 0 h
      simp only [stateAt] at e'
      rw [e'] at e
      have h0 : 0 < 2 ^ (names nm t).length := Nat.two_pow_pos _
      rw [respond_lt nm ht h0] at e
      simp at e
  · intro ht
    simp [(C15_rejects nm t ht h).1]

/-- No other exception ever leaves a generator (`KeyError` from `values[name]`
cannot happen: the dictionary has every name of the tree). -/
theorem C15_no_other_exception (t : Tree) (k : Nat) (e : Err) (he : respond nm t k = .raised e) :
    e = .valueError ∧ k = 0 ∧ t.isProp = false := by
  cases ht : t.isProp with
  | true =>
    by_cases hk : k < 2 ^ (names nm t).length
    · rw [respond_lt nm ht hk] at he; simp at he
    · rw [respond_ge nm ht (by omega)] at he; simp at he
  | false =>
    simp only [respond, ht] at he
    by_cases hk : k = 0
    · simp [hk] at he; simp [hk, he]
    · simp [hk] at he

/-! ### Several live generators sharing objects -/

/-- The answers generator `i` gave during a run, in order. -/
def answersOf (i : Nat) (tr : List (Nat × Step)) : List Step :=
  tr.filterMap (fun p => if p.1 = i then some p.2 else none)

theorem runSched_stateAt (ts : Nat → Tree) (sched : List Nat) :
    ∀ (ks : Nat → Nat) (h : Heap) (i : Nat),
      answersOf i (runSched nm h (fun j => stateAt nm (ts j) (ks j)) sched).2.2
        = (List.range (sched.count i)).map (fun j => respond nm (ts i) (ks i + j)) := by
  induction sched with
  | nil => intro ks h i; simp [runSched, answersOf]
  | cons a rest ih =>
    intro ks h i
    obtain ⟨h', e, _⟩ := next_stateAt nm (ts a) (ks a) h
    have hupd : (fun j => if j = a then stateAt nm (ts a) (ks a + 1) else stateAt nm (ts j) (ks j))
        = (fun j => stateAt nm (ts j) ((fun j => if j = a then ks a + 1 else ks j) j)) := by
      funext j; by_cases hj : j = a <;> simp [hj]
    simp only [runSched, e, hupd]
    have IH := ih (fun j => if j = a then ks a + 1 else ks j) h' i
    by_cases hia : a = i
    · subst hia
      simp only [answersOf, List.filterMap_cons, if_true, List.count_cons_self]
      simp only [answersOf, if_true] at IH
      rw [IH, List.range_succ_eq_map]
      simp only [List.map_cons, List.map_map, Nat.add_zero, List.cons.injEq, true_and]
      apply List.map_congr_left
      intro j _
      simp [Nat.add_assoc, Nat.add_comm 1 j]
    · have hia' : ¬ i = a := fun h => hia h.symm
      simp only [answersOf, List.filterMap_cons, hia, if_false]
      simp only [answersOf, hia', if_false] at IH
      rw [IH]
      simp [hia]

/-- **interleave.**  Any number of live generators over trees that may share
variable objects (with each other and internally), any initial heap, any schedule
of `next` calls: the `j`-th answer of generator `i` is `respond (ts i) j`, i.e. each
generator emits exactly its own table, in order, then `StopIteration` (or its
`ValueError`), regardless of what the others do in between. -/
theorem C15_interleave (ts : Nat → Tree) (sched : List Nat) (h : Heap) (i : Nat) :
    answersOf i (runSched nm h (fun j => .fresh (ts j)) sched).2.2
      = (List.range (sched.count i)).map (respond nm (ts i)) := by
  have := runSched_stateAt nm ts sched (fun _ => 0) h i
  simpa [stateAt] using this

/-- Writes are confined to the objects of the generator's own tree. -/
theorem C15_frame (t : Tree) (k : Nat) (h : Heap) (o : ObjId) (ho : o ∉ t.objs) :
    (next nm h (stateAt nm t k)).1 o = h o := by
  obtain ⟨h', e, b⟩ := next_stateAt nm t k h
  rw [e]; exact b o ho

/-! ### Non-vacuity and concrete instances -/

/-- Two objects named "a" (ids 0 and 2, one of them used twice) and one "b";
initial heap all-true: the table of `(a₀ & b₁) | ~a₂ ^ a₀` is that of `(a & b) | ~a ^ a`. -/
example :
    (nexts (fun o => if o = 1 then "b" else "a") 5 (fun _ => true)
      (.fresh (.or (.and (.var 0) (.var 1)) (.xor (.not (.var 2)) (.var 0))))).1
    = [.row [false, false] true, .row [false, true] true, .row [true, false] true,
       .row [true, true] true, .stop] := by decide

example : rows 2 = [[false, false], [false, true], [true, false], [true, true]] := by decide
example : names (fun o => if o = 1 then "B" else "a") (.and (.var 0) (.and (.var 1) (.var 2))) = ["B", "a"] := by
  decide

/-- Interleaving two generators that share object 0; the second tree is rejected. -/
example :
    (runSched (fun _ => "a") (fun _ => true)
      (fun j => if j = 0 then .fresh (.var 0) else .fresh (.and (.var 0) (.other 3))) [0, 1, 0, 1, 0]).2.2
    = [(0, .row [false] false), (1, .raised .valueError), (0, .row [true] true), (1, .stop), (0, .stop)] := by
  decide

end PyPred.TT
