/-
C20  The CLI prints the truth table / JSON of the expression it was given.

Theorems about `Cli.run` of Model/Cli.lean — the model of `main.py` (commands `table`
and `json`): click's view of the word, `parse_expression` (M4), `--optimize` (M1),
the drained `truth_table` generator over a heap of variable objects (M3) and
`json.dumps (to_json ..)` (M5).  The tie to /repo is the correspondence run by
`./check C20` (stdout byte for byte, exit status, stderr class, on every invocation).

  `tableText ns rows`   header line (names joined by a blank) and one line `b b b:   v` per row
  `namesP p`            the distinct names of `p`, ascending (`sorted(set(..))`)
  `specRows p`          the `2^k` assignments of `namesP p` in ascending binary order, each with the
                        value of `p` under it
  `jsonText t`          `json.dumps(to_json(..))` of the parsed tree
  `decodeTable`, `readJson`   decoders of the two texts (Model/CliDecode.lean)
-/
import Mathlib.Data.Int.Order.Basic
import PyPred.Props.C01
import PyPred.Props.C18
import PyPred.Props.C12T
import PyPred.Lemmas.CliParse

namespace PyPred
namespace Cli
open _root_.PyPred.Parser (Tree Token parseChars)
open TT (valuation rows val sortDedup)

variable (help : Cmd → List Char) (cfg : Cfg)

/-! ### click: a text of the language is always taken as the expression -/

theorem clickArg_expr_of_accepted {cs : List Char} {t : Tree} (h : parseChars cs = some t) : clickArg cs = .expr := by
  unfold clickArg
  split
  · rename_i c r
    have : parseChars ('-' :: c :: r) = none := C14_lex_reject_foreign (c := '-') (by decide) (by simp)
    rw [this] at h; cases h
  · rfl

theorem run_accepted {cs : List Char} {t : Tree} (h : parseChars cs = some t) (cmd : Cmd) (opt : Bool) :
    run help cfg cmd opt cs = runParsed cfg cmd opt cs (.tree t) := by
  simp [run, clickArg_expr_of_accepted h, parseExpression_tree.2 h]

/-! ### `table` -/

/-- **table.**  For every text of the language `table` prints exactly: the header, then the rows of the
specified table; nothing on stderr; exit status 0. -/
theorem C20_table {cs : List Char} {t : Tree} (h : parseChars cs = some t) :
    run help cfg .table false cs
      = ⟨tableText ((namesP (toPred t)).map String.toList) (specRows (toPred t)), .empty, 0⟩ := by
  rw [run_accepted help cfg h]
  simp [runParsed, render, tableOut_spec _ (toPred_isProp t)]

/-- **header**: the names of the header are strictly ascending (Python's order on `str`), hence distinct, … -/
theorem C20_table_header_sorted (p : Pred Int) : (namesP p).Pairwise (· < ·) := TT.asc_sortDedup _

theorem C20_table_header_nodup (p : Pred Int) : (namesP p).Nodup := TT.asc_nodup (TT.asc_sortDedup _)

/-- … and are exactly the variable names of the text. -/
theorem C20_table_header_exact {cs : List Char} {t : Tree} (h : parseChars cs = some t) (x : String) :
    x ∈ namesP (toPred t) ↔ ∃ s, Token.name s ∈ (Parser.lexChars cs).getD [] ∧ x = String.ofList s := by
  unfold parseChars at h
  cases hl : Parser.lexChars cs with
  | none => simp [hl] at h
  | some ts =>
    simp only [hl, Option.bind_some] at h
    have hr := C14_parse_sound h
    simp only [namesP, TT.mem_sortDedup, leafNames_toPred, List.mem_map, Option.getD_some]
    constructor
    · rintro ⟨s, hs, rfl⟩; exact ⟨s, (Parser.rd_names hr s).1 hs, rfl⟩
    · rintro ⟨s, hs, rfl⟩; exact ⟨s, (Parser.rd_names hr s).2 hs, rfl⟩

/-- **rows**: exactly `2^k` of them, … -/
theorem C20_table_rows_count (p : Pred Int) : (specRows p).length = 2 ^ (namesP p).length := by
  simp [specRows, TT.rows_length]

/-- … read as binary numbers (first name = most significant bit) they are `0, 1, …, 2^k − 1` in this order, … -/
theorem C20_table_rows_binary (p : Pred Int) : (specRows p).map (fun rv => val rv.1) = List.range (2 ^ (namesP p).length) := by
  simp only [specRows, List.map_map, Function.comp_def]
  exact TT.rows_val _

/-- … bit `i` of a row is the value given to the `i`-th name of the header, … -/
theorem C20_table_row_assignment (p : Pred Int) (rv : List Bool × Bool) (hrv : rv ∈ specRows p) :
    rv.1.length = (namesP p).length ∧
    ∀ (i : Nat) (hi : i < (namesP p).length) (hi' : i < rv.1.length),
      valuation (namesP p) rv.1 ((namesP p)[i]) = rv.1[i] := by
  simp only [specRows, List.mem_map] at hrv
  obtain ⟨r, hr, rfl⟩ := hrv
  have hl := TT.mem_rows.1 hr
  refine ⟨hl, fun i hi hi' => ?_⟩
  simp [valuation, TT.assign_getElem (C20_table_header_nodup p) hl i hi]

/-- … and the last column is the value of the *expression* under that assignment. -/
theorem C20_table_row_value (t : Tree) (rv : List Bool × Bool) (hrv : rv ∈ specRows (toPred t)) :
    rv.2 = Parser.eval (onChars (valuation (namesP (toPred t)) rv.1)) t := by
  simp only [specRows, List.mem_map] at hrv
  obtain ⟨r, _, rfl⟩ := hrv
  exact evalP_toPred _ t

/-- Lark does not bracket chains of one operator uniformly; whatever bracketing of equal operators the
parser picks, `table` (without `-o`) prints the same text. -/
theorem C20_table_assoc_invariant {t u : Tree} (h : Parser.sameModAssoc t u = true) (cs : List Char) :
    runParsed cfg .table false cs (.tree t) = runParsed cfg .table false cs (.tree u) := by
  simp [runParsed, render, tableOut_sameModAssoc h]

/-! ### the text determines the table -/

/-- **text_determines_table.**  Decoding what `table` printed gives back the header's names and every row:
a bit inversion, a swapped column, a renamed, dropped or duplicated name changes the text. -/
theorem C20_text_determines_table {cs : List Char} {t : Tree} (h : parseChars cs = some t) :
    decodeTable (run help cfg .table false cs).stdout
      = some ((namesP (toPred t)).map String.toList, specRows (toPred t)) := by
  rw [C20_table help cfg h]
  exact decodeTable_tableText (namesP_ok (parseChars_valid h)) _

theorem C20_tableText_injective {ns ns' : List (List Char)} (hn : ∀ w ∈ ns, NameOk w) (hn' : ∀ w ∈ ns', NameOk w)
    {rows rows' : List (List Bool × Bool)} (h : tableText ns rows = tableText ns' rows') : ns = ns' ∧ rows = rows' := by
  have a := decodeTable_tableText hn rows
  rw [h, decodeTable_tableText hn' rows'] at a
  simpa using a.symm

/-! ### `json` -/

/-- **json.**  `json` prints `json.dumps(to_json(..))` of the parsed tree, nothing else. -/
theorem C20_json {cs : List Char} {t : Tree} (h : parseChars cs = some t) :
    run help cfg .json false cs = ⟨dumps (toJson noFnName (toPred t)), .empty, 0⟩ := by
  rw [run_accepted help cfg h]
  simp [runParsed, render, jsonOut]

/-- **loads ∘ dumps = id** on what `json` can print: the text determines the tree (operators, operand
order, nesting, every name). -/
theorem C20_json_roundtrip {cs : List Char} {t : Tree} (h : parseChars cs = some t) :
    readJson (run help cfg .json false cs).stdout = some t := by
  rw [C20_json help cfg h]
  exact readJson_jsonText t (quoteFree_of_valid (parseChars_valid h))

theorem C20_jsonText_injective {t u : Tree} (ht : t.valid) (hu : u.valid) (h : jsonText t = jsonText u) : t = u := by
  have a := readJson_jsonText t (quoteFree_of_valid ht)
  rw [h, readJson_jsonText u (quoteFree_of_valid hu)] at a
  simpa using a.symm

/-- the nesting of the printed JSON is the nesting of the predicate (C18) -/
theorem C20_json_shape (t : Tree) : shapeJ (toJson noFnName (toPred t)) = shapeP (toPred t) := C18_shape _ _

/-! ### `--optimize` -/

theorem eval_σI {p : Pred Int} (hp : p.isProp = true) (σ : String → Bool) (x : Val Int) :
    eval (σI σ) p x = evalP σ p := by
  induction p <;> simp_all [eval, evalP, Pred.isProp, σI]

theorem evalP_congr {σ τ : String → Bool} (p : Pred Int) (h : ∀ a ∈ leafNames p, σ a = τ a) : evalP σ p = evalP τ p := by
  induction p <;> simp_all [evalP, leafNames]

theorem mem_namesP {p : Pred Int} {a : String} : a ∈ namesP p ↔ a ∈ leafNames p := TT.mem_sortDedup

/-- What `-o` prints once the optimizer has answered `o`: the table / JSON *of `o`*. -/
theorem C20_optimized_output {cs : List Char} {t : Tree} (h : parseChars cs = some t) {o : Pred Int}
    (ho : optimize cfg noFn (fuelFor (toPred t)) (toPred t) = some o) :
    run help cfg .table true cs = ⟨tableText ((namesP o).map String.toList) (specRows o), .empty, 0⟩ ∧
    run help cfg .json true cs = ⟨dumps (toJson noFnName o), .empty, 0⟩ := by
  have hp : o.isProp = true := C01_prop_closed cfg noFn _ (toPred_isProp t) ho
  rw [run_accepted help cfg h, run_accepted help cfg h]
  simp [runParsed, render, ho, tableOut_spec o hp, jsonOut]

/-- The optimised table mentions only names of the expression (any configuration). -/
theorem C20_optimized_names_subset {t : Tree} {o : Pred Int}
    (ho : optimize cfg noFn (fuelFor (toPred t)) (toPred t) = some o) :
    ∀ a ∈ namesP o, a ∈ namesP (toPred t) := by
  intro a ha
  have hp : o.isProp = true := C01_prop_closed cfg noFn _ (toPred_isProp t) ho
  rw [mem_namesP] at ha ⊢
  rw [leafNames_eq_names hp] at ha
  rw [leafNames_eq_names (toPred_isProp t)]
  exact C01_vars_subset cfg noFn _ ho a ha

/-- **optimized_same_function** (every configuration without a known-bad arm): every printed row of the
optimised table agrees with the value of the *original expression* under every extension of that row's
assignment to the expression's names; and the printed JSON is that of a predicate with the Boolean function
of the expression. -/
theorem C20_optimized_same_function (hq : cfg.noImpl) {t : Tree} {o : Pred Int}
    (ho : optimize cfg noFn (fuelFor (toPred t)) (toPred t) = some o) :
    (∀ rv ∈ specRows o, ∀ σ : String → Bool, (∀ a ∈ namesP o, σ a = valuation (namesP o) rv.1 a) →
        Parser.eval (onChars σ) t = rv.2) ∧
    (∀ σ : String → Bool, evalP σ o = Parser.eval (onChars σ) t) := by
  have hp : o.isProp = true := C01_prop_closed cfg noFn _ (toPred_isProp t) ho
  have key : ∀ σ : String → Bool, evalP σ o = Parser.eval (onChars σ) t := by
    intro σ
    have := C01_optimize_preserves cfg hq noFn _ ho (σI σ) (fun _ _ _ => rfl) (.sc 0 0)
    rw [eval_σI hp, eval_σI (toPred_isProp t), evalP_toPred] at this
    exact this
  refine ⟨fun rv hrv σ hσ => ?_, key⟩
  simp only [specRows, List.mem_map] at hrv
  obtain ⟨r, _, rfl⟩ := hrv
  rw [← key σ]
  exact evalP_congr o fun a ha => hσ a (mem_namesP.2 ha)

/-- **Partial statement for the code as it is** (`Cfg.allImpl`, or any configuration): if none of the
known-bad arms fired on the way (`quirksFired = []`), the same conclusion holds. -/
theorem C20_optimized_partial_impl {t : Tree} {o : Pred Int}
    (ho : optimizeT cfg noFn (fuelFor (toPred t)) (toPred t) = some (o, [])) :
    (∀ rv ∈ specRows o, ∀ σ : String → Bool, (∀ a ∈ namesP o, σ a = valuation (namesP o) rv.1 a) →
        Parser.eval (onChars σ) t = rv.2) ∧
    (∀ σ : String → Bool, evalP σ o = Parser.eval (onChars σ) t) := by
  have ho' : optimize cfg noFn (fuelFor (toPred t)) (toPred t) = some o := by simp [optimize, ho]
  have hp : o.isProp = true := C01_prop_closed cfg noFn _ (toPred_isProp t) ho'
  have key : ∀ σ : String → Bool, evalP σ o = Parser.eval (onChars σ) t := by
    intro σ
    have := C01_partial_impl cfg noFn _ ho (σI σ) (fun _ _ _ => rfl) (.sc 0 0)
    rw [eval_σI hp, eval_σI (toPred_isProp t), evalP_toPred] at this
    exact this
  refine ⟨fun rv hrv σ hσ => ?_, key⟩
  simp only [specRows, List.mem_map] at hrv
  obtain ⟨r, _, rfl⟩ := hrv
  rw [← key σ]
  exact evalP_congr o fun a ha => hσ a (mem_namesP.2 ha)

/-- the trace reported by the driver is empty exactly in the situation of the partial theorem -/
theorem C20_quirksFired_nil {t : Tree} {o : Pred Int} {tr : List Quirk}
    (ho : optimizeT cfg noFn (fuelFor (toPred t)) (toPred t) = some (o, tr)) :
    quirksFired cfg true (.tree t) = tr := by
  simp [quirksFired, ho]

/-! ### `--optimize` always answers (termination is a theorem: Props/C12T) -/

/-- The fuel `main`'s model gives the optimizer (`16·size + 64`) always suffices: by `C12_depth_le_size`
the recursion depth of `optimize` is at most `4·size + 2`.  So the hypothesis `optimize … = some o` of the
four theorems above is never vacuous and never fails: for every expression of the language, `-o` prints a
table / JSON. -/
theorem C20_optimize_answers (t : Tree) : ∃ o tr, optimizeT cfg noFn (fuelFor (toPred t)) (toPred t) = some (o, tr) := by
  have h := C12_depth_le_size cfg noFn (toPred t)
  cases hr : optimizeT cfg noFn (4 * (toPred t).size + 2) (toPred t) with
  | none => simp [hr] at h
  | some res =>
    obtain ⟨o, tr⟩ := res
    exact ⟨o, tr, optimizeT_fuel_mono cfg noFn (by unfold fuelFor; omega) hr⟩

/-- `-o` on text of the language: a table and a JSON text are printed, stderr empty, exit status 0, and (for a
configuration without a known-bad arm) they describe a predicate with the Boolean function of the expression —
no hypothesis about the optimizer left. -/
theorem C20_optimized_total (hq : cfg.noImpl) {cs : List Char} {t : Tree} (h : parseChars cs = some t) :
    ∃ o : Pred Int,
      run help cfg .table true cs = ⟨tableText ((namesP o).map String.toList) (specRows o), .empty, 0⟩ ∧
      run help cfg .json true cs = ⟨dumps (toJson noFnName o), .empty, 0⟩ ∧
      (∀ σ : String → Bool, evalP σ o = Parser.eval (onChars σ) t) := by
  obtain ⟨o, tr, ho⟩ := C20_optimize_answers cfg t
  have ho' : optimize cfg noFn (fuelFor (toPred t)) (toPred t) = some o := by simp [optimize, ho]
  have h1 := C20_optimized_output help cfg h ho'
  exact ⟨o, h1.1, h1.2, (C20_optimized_same_function cfg hq ho').2⟩

/-! ### rejected text -/

/-- **rejects.**  Text that is not in the language never yields a table or JSON, for both commands and both
settings of `-o`: stdout is empty — or, for the one word `--help`, the help page. -/
theorem C20_rejects {cs : List Char} (h : parseChars cs = none) (cmd : Cmd) (opt : Bool) :
    (run help cfg cmd opt cs).stdout = [] ∨ (cs = "--help".toList ∧ (run help cfg cmd opt cs).stdout = help cmd) := by
  unfold run
  cases hc : clickArg cs with
  | help =>
    right
    refine ⟨?_, rfl⟩
    unfold clickArg at hc
    split at hc
    · split at hc
      · assumption
      · cases hc
    · cases hc
  | usage => left; rfl
  | expr =>
    left
    rcases parseExpression_reject h with e | e <;> simp [e, runParsed, failedToPass, uncaught]

/-- … and what is observable instead: the `Could not parse …` line with exit status 0, lark's uncaught
`UnexpectedCharacters` with exit status 1, or click's usage error with exit status 2. -/
theorem C20_rejects_how {cs : List Char} (h : parseChars cs = none) (cmd : Cmd) (opt : Bool) :
    run help cfg cmd opt cs = ⟨[], .text (couldNotParse cs), 0⟩ ∨
    run help cfg cmd opt cs = ⟨[], .traceback .unexpectedCharacters, 1⟩ ∨
    run help cfg cmd opt cs = ⟨[], .usage, 2⟩ ∨
    (cs = "--help".toList ∧ run help cfg cmd opt cs = ⟨help cmd, .empty, 0⟩) := by
  unfold run
  cases hc : clickArg cs with
  | help =>
    right; right; right
    refine ⟨?_, rfl⟩
    unfold clickArg at hc
    split at hc
    · split at hc
      · assumption
      · cases hc
    · cases hc
  | usage => right; right; left; rfl
  | expr =>
    rcases parseExpression_reject h with e | e
    · left; simp [e, runParsed, failedToPass]
    · right; left; simp [e, runParsed, uncaught]

/-- Conversely a text of the language is always rendered: exit status 0 and nothing on stderr (without `-o`;
with `-o` whenever the optimizer answers: `C20_optimized_output`). -/
theorem C20_accepts {cs : List Char} {t : Tree} (h : parseChars cs = some t) (cmd : Cmd) :
    (run help cfg cmd false cs).stderr = .empty ∧ (run help cfg cmd false cs).exit = 0 ∧
    (run help cfg cmd false cs).stdout ≠ [] := by
  cases cmd
  · rw [C20_table help cfg h]; simp [tableText]
  · rw [C20_json help cfg h]
    refine ⟨rfl, rfl, ?_⟩
    have := readJson_jsonText t (quoteFree_of_valid (parseChars_valid h))
    intro e
    simp only [] at e
    rw [show dumps (toJson noFnName (toPred t)) = jsonText t from rfl] at e
    rw [e] at this
    simp [readJson, readJ, stripPrefix, kOpen] at this

/-! ### Negation witnesses: the two open xor findings reached through `-o`
(replayed on /repo by the check: KNOWN-FINDING KF-xorOr, KF-xorNotAnd) -/

section Witnesses

/-- Does the conclusion of `C20_optimized_same_function` fail for `t` at the extension `σ` of some printed row? -/
def breaksAt (cfg : Cfg) (t : Tree) (σ : String → Bool) : Bool :=
  match optimize cfg noFn (fuelFor (toPred t)) (toPred t) with
  | some o => (specRows o).any fun rv =>
      (namesP o).all (fun x => σ x == valuation (namesP o) rv.1 x) && (Parser.eval (onChars σ) t != rv.2)
  | none => false

theorem breaksAt_spec {cfg : Cfg} {t : Tree} {σ : String → Bool} (h : breaksAt cfg t σ = true) :
    ∃ o, optimize cfg noFn (fuelFor (toPred t)) (toPred t) = some o ∧
      ∃ rv ∈ specRows o, (∀ x ∈ namesP o, σ x = valuation (namesP o) rv.1 x) ∧ Parser.eval (onChars σ) t ≠ rv.2 := by
  unfold breaksAt at h
  split at h
  · rename_i o ho
    simp only [List.any_eq_true, Bool.and_eq_true, List.all_eq_true, beq_iff_eq, bne_iff_ne] at h
    obtain ⟨rv, hrv, h1, h2⟩ := h
    exact ⟨o, ho, rv, hrv, h1, h2⟩
  · cases h

private def a : Tree := .var ['a']
private def b : Tree := .var ['b']

/-- K2: `python main.py table -o "a ^ (a | b)"` prints the table of `b` … -/
theorem C20_witness_xorOr_text :
    cliTable true Cfg.allImpl "a ^ (a | b)" = ⟨"b\n0:   0\n1:   1\n".toList, .empty, 0⟩ ∧
    cliTable false Cfg.allImpl "a ^ (a | b)" = ⟨"a b\n0 0:   0\n0 1:   1\n1 0:   0\n1 1:   0\n".toList, .empty, 0⟩ ∧
    cliJson true Cfg.allImpl "a ^ (a | b)" = ⟨"{\"variable\": \"b\"}".toList, .empty, 0⟩ ∧
    quirksFired Cfg.allImpl true (parseExpression "a ^ (a | b)".toList) = [.xorOr] := by decide +kernel

/-- … whose row `b = 1` says 1, while the expression is 0 at `a = 1, b = 1`: the conclusion of
`C20_optimized_same_function` fails for the configuration that describes the code as it is. -/
theorem C20_witness_xorOr : breaksAt Cfg.allImpl (.xor a (.or a b)) (fun _ => true) = true := by decide +kernel

/-- K1: `a ^ (~a & b)` is printed as the table of `~(a | b)`; at `a = 1, b = 0` the expression is 1, the row says 0. -/
theorem C20_witness_xorNotAnd_text :
    cliTable true Cfg.allImpl "a ^ (~a & b)" = ⟨"a b\n0 0:   1\n0 1:   0\n1 0:   0\n1 1:   0\n".toList, .empty, 0⟩ ∧
    cliTable false Cfg.allImpl "a ^ (~a & b)" = ⟨"a b\n0 0:   0\n0 1:   1\n1 0:   1\n1 1:   1\n".toList, .empty, 0⟩ ∧
    quirksFired Cfg.allImpl true (parseExpression "a ^ (~a & b)".toList) = [.xorNotAnd] := by decide +kernel

theorem C20_witness_xorNotAnd : breaksAt Cfg.allImpl (.xor a (.and (.not a) b)) (fun x => x == "a") = true := by
  decide +kernel

/-- with the corrected right-hand sides both are right -/
theorem C20_fixed_agrees :
    breaksAt Cfg.allFixed (.xor a (.or a b)) (fun _ => true) = false ∧
    breaksAt Cfg.allFixed (.xor a (.and (.not a) b)) (fun x => x == "a") = false ∧
    cliTable true Cfg.allFixed "a ^ (a | b)" = ⟨"a b\n0 0:   0\n0 1:   1\n1 0:   0\n1 1:   0\n".toList, .empty, 0⟩ ∧
    cliTable true Cfg.allFixed "a ^ (~a & b)" = ⟨"a b\n0 0:   0\n0 1:   1\n1 0:   1\n1 1:   1\n".toList, .empty, 0⟩ := by
  decide +kernel

end Witnesses

/-! ### Non-vacuity and concrete instances (`decide +kernel`: the kernel runs the whole pipeline — lexer,
parser, optimizer, generator, printer; no axiom beyond the three standard ones is involved) -/

example : cliTable false Cfg.allImpl "a & ~b" = ⟨"a b\n0 0:   0\n0 1:   0\n1 0:   1\n1 1:   0\n".toList, .empty, 0⟩ := by decide +kernel
/-- header order is name order, not occurrence order -/
example : cliTable false Cfg.allImpl "b | a" = ⟨"a b\n0 0:   0\n0 1:   1\n1 0:   1\n1 1:   1\n".toList, .empty, 0⟩ := by decide +kernel
example : cliTable false Cfg.allImpl "foo & Bar" = ⟨"Bar foo\n0 0:   0\n0 1:   0\n1 0:   0\n1 1:   1\n".toList, .empty, 0⟩ := by decide +kernel
/-- no variables: empty header line, one row -/
example : cliTable false Cfg.allImpl "true" = ⟨"\n:   1\n".toList, .empty, 0⟩ := by decide +kernel
example : cliTable true Cfg.allImpl "a & ~a" = ⟨"\n:   0\n".toList, .empty, 0⟩ := by decide +kernel
/-- `-o` may drop a variable: header and rows are those of the optimised tree -/
example : cliTable true Cfg.allImpl "b & ~b | a" = ⟨"a\n0:   0\n1:   1\n".toList, .empty, 0⟩ := by decide +kernel
example : cliTable true Cfg.allImpl "a ^ b ^ b" = ⟨"a\n0:   0\n1:   1\n".toList, .empty, 0⟩ := by decide +kernel
example : cliJson false Cfg.allImpl "a & ~true" =
    ⟨"{\"and\": {\"left\": {\"variable\": \"a\"}, \"right\": {\"not\": {\"predicate\": {\"true\": true}}}}}".toList, .empty, 0⟩ := by
  decide +kernel
example : cliJson true Cfg.allImpl "a & ~true" = ⟨"{\"false\": false}".toList, .empty, 0⟩ := by decide +kernel
example : cliTable false Cfg.allImpl "a &" = ⟨[], .text "Could not parse expression: \"a &\"\n".toList, 0⟩ := by decide +kernel
example : cliJson true Cfg.allImpl "" = ⟨[], .text "Could not parse expression: \"\"\n".toList, 0⟩ := by decide +kernel
example : cliTable false Cfg.allImpl "a b" = ⟨[], .traceback .unexpectedCharacters, 1⟩ := by decide +kernel
example : cliTable true Cfg.allImpl "a1" = ⟨[], .traceback .unexpectedCharacters, 1⟩ := by decide +kernel
example : cliJson false Cfg.allImpl "-" = ⟨[], .traceback .unexpectedCharacters, 1⟩ := by decide +kernel
example : cliJson false Cfg.allImpl "-o" = ⟨[], .usage, 2⟩ := by decide +kernel
example : run (fun _ => ['H']) Cfg.allImpl .table true "--help".toList = ⟨['H'], .empty, 0⟩ := by decide +kernel
/-- the decoders can say no -/
example : decodeTable "a b\n0 0:   0\n0 1:   1\n".toList = some ([['a'], ['b']], [([false, false], false), ([false, true], true)]) := by
  decide +kernel
example : decodeTable "a b\n0 0:   0".toList = none := by decide +kernel
example : readJson "{\"or\": {\"left\": {\"variable\": \"b\"}, \"right\": {\"true\": true}}}".toList = some (.or (.var ['b']) .tt) := by
  decide +kernel
example : readJson "{\"or\": {\"right\": {\"variable\": \"b\"}, \"left\": {\"true\": true}}}".toList = none := by decide +kernel
/-- the hypotheses of the optimised theorems are met with rules really firing: `a & (a | b)` is rewritten
(to `a`) without any quirk arm, so `C20_optimized_partial_impl` applies to it under the implemented configuration -/
example : (optimizeT Cfg.allImpl noFn (fuelFor (toPred (.and (.var ['a']) (.or (.var ['a']) (.var ['b'])))))
    (toPred (.and (.var ['a']) (.or (.var ['a']) (.var ['b']))))).map Prod.snd = some [] := by decide +kernel
example : Cfg.allFixed.noImpl := by intro q; simp [Cfg.allFixed]

end Cli
end PyPred
