/-
C16  Self-referential predicates denote their own recursive definition in any scope.

Model: `PyPred/Model/Scope.lean` (M7).  `Cfg.pinned` is the code as pinned (`==`, a failed
frame walk is stored), `Cfg.fixed` the code after fixes/self-reference-identity.diff (`is`)
and fixes/unresolved-reference-not-cached.diff; `Json.seeded` is the initial cache after
fixes/is-json-any-caller.diff.

Proved, unbounded (every value, every stack of frames, every cache history):

* `C16_denotes`            – whenever the reference node of `P = base | is_list_of_p(node)`
                             resolves to `P` (now, or earlier: the cache holds `P`),
                             `P(x)` is `spec base x`, for every `x` and every fuel above its depth;
* `C16_spec_iff`           – `spec` is the recursive definition the property names;
* `C16_denotes_sequence`   – the same for any order of calls from any mixture of call sites;
* `C16_unresolved_raises`  – an unresolvable reference raises ValueError (never an answer), and
  `C16_unresolved_sticky`    the stored `None` keeps raising from every later caller (pinned),
  `C16_fixed_unresolved_then_recovers` – with the repair nothing is stored and later callers are unaffected;
* `C16_resolves_iff`       – the exact scope configurations in which a `this_p` / `root_p` node
                             resolves to `P` under the fixed code: `P` is the first (last, for
                             `root_p`) binding — in the innermost frame that has any — in which
                             the node *itself* occurs; `C16_lazy_resolves_iff` for `lazy_p`;
* `C16_fixed_any_scope`    – the property's "whatever unrelated predicates are in scope":
                             bindings in which the node does not occur are irrelevant, wherever
                             they are and whatever they are (other recursive predicates, factories);
* `C16_pinned_any_scope_partial` – what is left of that on the pinned code: it needs every
                             binding scanned earlier to be free of *any* node / factory of the class;
* `C16_pinned_two_in_scope`, `C16_pinned_module_factory`, `C16_pinned_root_two_in_scope`,
  `C16_pinned_any_scope_fails`, `C16_pinned_unresolved_poisons`
                           – `decide` witnesses that the pinned code falsifies the full statement,
                             each with the same configuration answered correctly by the fixed code;
* `C16_json_*`             – see the end of the file.
-/
import PyPred.Lemmas.Scope

namespace PyPred
open Scope

/-- `spec` is the recursive definition: `base x`, or `x` is a list all of whose
members satisfy `spec`. -/
theorem C16_spec_iff (I : Nat → Value → Bool) (base : Pred) (x : Value) :
    spec I base x = true ↔
      evalS I base x = true ∨ ∃ xs, x = .seq 0 xs ∧ ∀ e ∈ xs, spec I base e = true := by
  rw [spec_unfold]
  cases x with
  | atom k => simp
  | dict ks vs => simp
  | seq k xs =>
    simp only [Bool.or_eq_true, Bool.and_eq_true, beq_iff_eq, List.all_eq_true, Value.seq.injEq]
    constructor
    · rintro (h | ⟨rfl, h⟩)
      · exact Or.inl h
      · exact Or.inr ⟨xs, ⟨rfl, rfl⟩, h⟩
    · rintro (h | ⟨ys, ⟨rfl, rfl⟩, h⟩)
      · exact Or.inl h
      · exact Or.inr ⟨rfl, h⟩

/-- The reference node resolves to `P` for a call made with cache `c` from a site
with user frames `st`: either the node already holds `P`, or it holds nothing and the
frame walk from this site finds `P`. -/
def ResolvesTo (cfg : Cfg) (st : Stack) (node P : Pred) (c : Cache) : Prop :=
  c.get (nodeId node) = some (some (.pred P)) ∨
    (c.get (nodeId node) = none ∧ resolveRaw cfg st node = some (.pred P))

theorem resolve_of_resolvesTo {cfg : Cfg} {st : Stack} {node P : Pred} {c : Cache}
    (h : ResolvesTo cfg st node P c) :
    ∃ c', resolve cfg st node c = (some (.pred P), c') ∧ ResolvesTo cfg st node P c' := by
  rcases h with h | ⟨h1, h2⟩
  · exact ⟨c, by simp [resolve, h], Or.inl h⟩
  · refine ⟨(nodeId node, some (.pred P)) :: c, by simp [resolve, h1, h2, truthy], Or.inl ?_⟩
    exact Cache.get_cons_self _ _ _

/-- Main lemma, with the cache threaded through. -/
theorem denotes_aux (cfg : Cfg) (I : Nat → Value → Bool) (st : Stack) (base node : Pred)
    (hbase : base.simple = true) (hnode : node.isNode = true) :
    ∀ (n : Nat) (x : Value) (c : Cache), ResolvesTo cfg st node (recDef base node) c → x.depth < n →
      ∃ c', evalRec cfg I st n (recDef base node) x c = (.ok (spec I base x), c') ∧
        ResolvesTo cfg st node (recDef base node) c' := by
  intro n
  induction n with
  | zero => intro x c _ h; exact absurd h (Nat.not_lt_zero _)
  | succ n ih =>
    intro x c hc hd
    simp only [evalRec, recDef, listOf, evalP]
    rw [evalP_simple I _ base hbase x c, spec_unfold]
    cases hb : evalS I base x with
    | true => exact ⟨c, by simp, hc⟩
    | false =>
      simp only [Bool.false_or]
      cases x with
      | atom k => exact ⟨c, by simp [isSeqB], hc⟩
      | dict ks vs => exact ⟨c, by simp [isSeqB], hc⟩
      | seq k xs =>
        by_cases hk : k = 0
        · subst hk
          simp only [isSeqB, beq_self_eq_true, elems, Bool.true_and]
          have hall := allList_inv (f := evalP I (derefWith cfg st (evalRec cfg I st n)) node)
            (g := spec I base) (Inv := ResolvesTo cfg st node (recDef base node)) xs ?_ c hc
          · obtain ⟨c', h1, h2⟩ := hall
            exact ⟨c', h1, h2⟩
          · intro e he c1 hc1
            rw [evalP_node I _ hnode]
            obtain ⟨c2, hr, hc2⟩ := resolve_of_resolvesTo hc1
            simp only [derefWith, hr]
            have hde : e.depth < n := by
              have := depth_le_depthList he
              simp only [Value.depth] at hd
              omega
            exact ih e c2 hc2 hde
        · refine ⟨c, ?_, hc⟩
          have : (k == 0) = false := by simpa using hk
          simp [isSeqB, this]

/-- **C16, evaluation half.**  If the reference node of `P = base | is_list_of_p(node)`
(`node` a `this_p`, `root_p` or `lazy_p` node, `base` any reference-free predicate)
resolves to `P`, then `P(x)` is the recursive definition `spec base x`, for every
finitely nested `x`, every fuel above its depth, every caller's frames. -/
theorem C16_denotes (cfg : Cfg) (I : Nat → Value → Bool) (st : Stack) (base node : Pred)
    (hbase : base.simple = true) (hnode : node.isNode = true) (c : Cache)
    (hres : ResolvesTo cfg st node (recDef base node) c) (x : Value) (fuel : Nat) (hf : x.depth < fuel) :
    (evalRec cfg I st fuel (recDef base node) x c).1 = .ok (spec I base x) := by
  obtain ⟨c', h, _⟩ := denotes_aux cfg I st base node hbase hnode fuel x c hres hf
  rw [h]

/-- The cache holds nothing wrong for the node: nothing at all, or `P`. -/
def CleanFor (node P : Pred) (c : Cache) : Prop :=
  c.get (nodeId node) = none ∨ c.get (nodeId node) = some (some (.pred P))

/-- … for every order of first calls and every mixture of call sites: as long as each
call is made from a site whose frames resolve the node to `P`, each call answers
`spec`, and leaves a cache that is again clean (so the next call, from whatever such
site, is covered too). -/
theorem C16_denotes_sequence (cfg : Cfg) (I : Nat → Value → Bool) (st : Stack) (base node : Pred)
    (hbase : base.simple = true) (hnode : node.isNode = true) (c : Cache)
    (hclean : CleanFor node (recDef base node) c)
    (hres : resolveRaw cfg st node = some (.pred (recDef base node)))
    (x : Value) (fuel : Nat) (hf : x.depth < fuel) :
    (evalRec cfg I st fuel (recDef base node) x c).1 = .ok (spec I base x) ∧
      CleanFor node (recDef base node) (evalRec cfg I st fuel (recDef base node) x c).2 := by
  have hr : ResolvesTo cfg st node (recDef base node) c := by
    rcases hclean with h | h
    · exact Or.inr ⟨h, hres⟩
    · exact Or.inl h
  obtain ⟨c', h, hc'⟩ := denotes_aux cfg I st base node hbase hnode fuel x c hr hf
  rw [h]
  refine ⟨rfl, ?_⟩
  rcases hc' with h1 | ⟨h1, _⟩
  · exact Or.inr h1
  · exact Or.inl h1

/-! ### unresolved references -/

/-- **C16, ValueError half.**  A reference that the frame walk cannot resolve raises
ValueError — it never returns an answer — and stores `None` on the node. -/
theorem C16_unresolved_raises (cfg : Cfg) (I : Nat → Value → Bool) (st : Stack) (node : Pred)
    (hnode : node.isNode = true) (c : Cache) (hc : c.get (nodeId node) = none)
    (hres : resolveRaw cfg st node = none) (n : Nat) (x : Value) :
    evalRec cfg I st (n + 1) node x c =
      (.valueError, if cfg.cacheNone then (nodeId node, none) :: c else c) := by
  simp only [evalRec]
  rw [evalP_node I _ hnode]
  simp [derefWith, resolve, hc, hres, truthy]

/-- The same seen from `P = base | is_list_of_p(node)`: on every non-empty list that
`base` rejects, the call raises ValueError. -/
theorem C16_unresolved_raises_def (cfg : Cfg) (I : Nat → Value → Bool) (st : Stack) (base node : Pred)
    (hbase : base.simple = true) (hnode : node.isNode = true) (c : Cache)
    (hc : c.get (nodeId node) = none) (hres : resolveRaw cfg st node = none) (n : Nat)
    (e : Value) (es : List Value) (hb : evalS I base (.seq 0 (e :: es)) = false) :
    evalRec cfg I st (n + 1) (recDef base node) (.seq 0 (e :: es)) c =
      (.valueError, if cfg.cacheNone then (nodeId node, none) :: c else c) := by
  simp only [evalRec, recDef, listOf, evalP]
  rw [evalP_simple I _ base hbase, hb]
  simp only [isSeqB, beq_self_eq_true, elems, allList]
  rw [evalP_node I _ hnode]
  simp [derefWith, resolve, hc, hres, truthy]

/-- The stored `None` is never recomputed: once a call from a site that could not
resolve the node has been made, every later call that reaches the node raises
ValueError, from whatever site (also one that could have resolved it). -/
theorem C16_unresolved_sticky (cfg : Cfg) (I : Nat → Value → Bool) (st : Stack) (node : Pred)
    (hnode : node.isNode = true) (c : Cache) (hc : c.get (nodeId node) = some none)
    (n : Nat) (x : Value) :
    evalRec cfg I st (n + 1) node x c = (.valueError, c) := by
  simp only [evalRec]
  rw [evalP_node I _ hnode]
  simp [derefWith, resolve, hc]

/-- A `lazy_p` name bound to something that is not a predicate: TypeError for a
truthy object (`'int' object is not callable`), ValueError for a falsy one. -/
theorem C16_lazy_nonpredicate (cfg : Cfg) (I : Nat → Value → Bool) (st : Stack) (id : Nat) (name : String)
    (c : Cache) (hc : c.get id = none) (t : Bool) (hres : findLazy name st = some (.other t))
    (n : Nat) (x : Value) :
    (evalRec cfg I st (n + 1) (.lazy id name) x c).1 = (if t then .typeError else .valueError) := by
  cases t <;> simp [evalRec, evalP, derefWith, resolve, nodeId, hc, resolveRaw, hres]

/-! ### which scopes resolve the reference to its own definition -/

/-- A binding that has nothing to do with the node `(k, id)`: not a predicate, or
named `self`, or the node object itself, or a predicate in which the node object does
not occur (through `all / and / comp / or`).  It may be anything else — another
recursive predicate with its own node, a factory, a predicate built from those. -/
def Unrelated (k : RefKind) (id : Nat) (kb : String × Binding) : Prop :=
  ∀ v, kb.2 = .pred v → v = .ref k id ∨ kb.1 = "self" ∨ occurs k id v = false

theorem candidate_fixed_false_iff (k : RefKind) (id : Nat) (kb : String × Binding) :
    candidate Cfg.fixed k id kb.1 kb.2 = false ↔ Unrelated k id kb := by
  obtain ⟨key, b⟩ := kb
  cases b with
  | other t => simp [candidate, Unrelated]
  | pred v =>
    have h := candidate_fixed_iff k id key v
    simp only [Unrelated]
    constructor
    · intro hf w hw
      cases hw
      by_cases h1 : v = .ref k id
      · exact Or.inl h1
      · by_cases h2 : key = "self"
        · exact Or.inr (Or.inl h2)
        · refine Or.inr (Or.inr ?_)
          cases ho : occurs k id v with
          | false => rfl
          | true => rw [h.mpr ⟨h1, h2, ho⟩] at hf; cases hf
    · intro hu
      cases hc : candidate Cfg.fixed k id key (.pred v) with
      | false => rfl
      | true =>
        obtain ⟨h1, h2, h3⟩ := h.mp hc
        rcases hu v rfl with h' | h' | h'
        · exact absurd h' h1
        · exact absurd h' h2
        · rw [h3] at h'; cases h'

/-- **C16, resolution half (fixed code): exact characterisation.**  A `this_p`
(`root_p`) node resolves to `P` iff, walking the frames outward, the first frame that
binds anything related to the node binds `P` as the first (last) related binding. -/
theorem C16_resolves_iff (k : RefKind) (id : Nat) (st : Stack) (P : Pred) :
    findRef Cfg.fixed k id st = some P ↔
      ∃ inner fr outer, st = inner ++ fr :: outer ∧
        (∀ f ∈ inner, ∀ kb ∈ f, Unrelated k id kb) ∧
        ∃ pre name post, scanOrder k fr = pre ++ (name, .pred P) :: post ∧
          (∀ kb ∈ pre, Unrelated k id kb) ∧
          P ≠ .ref k id ∧ name ≠ "self" ∧ occurs k id P = true := by
  rw [findRef_eq_some_iff]
  constructor
  · rintro ⟨inner, fr, outer, hst, hin, pre, name, post, hfr, hpre, hc⟩
    refine ⟨inner, fr, outer, hst, ?_, pre, name, post, hfr, ?_, (candidate_fixed_iff k id name P).mp hc⟩
    · intro f hf kb hkb; exact (candidate_fixed_false_iff k id kb).mp (hin f hf kb hkb)
    · intro kb hkb; exact (candidate_fixed_false_iff k id kb).mp (hpre kb hkb)
  · rintro ⟨inner, fr, outer, hst, hin, pre, name, post, hfr, hpre, hc⟩
    refine ⟨inner, fr, outer, hst, ?_, pre, name, post, hfr, ?_, (candidate_fixed_iff k id name P).mpr hc⟩
    · intro f hf kb hkb; exact (candidate_fixed_false_iff k id kb).mpr (hin f hf kb hkb)
    · intro kb hkb; exact (candidate_fixed_false_iff k id kb).mpr (hpre kb hkb)

/-- `lazy_p(name)` resolves to the binding of `name` in the innermost frame that binds it. -/
theorem C16_lazy_resolves_iff (name : String) (st : Stack) (b : Binding) :
    findLazy name st = some b ↔
      ∃ inner fr outer, st = inner ++ fr :: outer ∧
        (∀ f ∈ inner, ∀ kb ∈ f, kb.1 ≠ name) ∧ lookupName name fr = some b := by
  rw [findLazy_eq_some_iff]
  constructor
  · rintro ⟨inner, fr, outer, hst, hin, hl⟩
    exact ⟨inner, fr, outer, hst, fun f hf => (lookupName_eq_none_iff name f).mp (hin f hf), hl⟩
  · rintro ⟨inner, fr, outer, hst, hin, hl⟩
    exact ⟨inner, fr, outer, hst, fun f hf => (lookupName_eq_none_iff name f).mpr (hin f hf), hl⟩

theorem occurs_recDef (k : RefKind) (id : Nat) (base : Pred) :
    occurs k id (recDef base (.ref k id)) = true := by
  simp [recDef, listOf, occurs]

/-- **C16 for the fixed code: "whatever unrelated predicates are in scope, however deep
below the defining scope P is called".**  `P = base | is_list_of_p(this_p / root_p)` is
bound (not under the name `self`) in some frame of the call stack; every binding in the
frames below it (`inner`, the call chain) and every binding scanned before it in its own
frame is unrelated to P's node (but otherwise arbitrary: other recursive predicates of any
flavour, the factories, non-predicates); the frames further out and the bindings scanned
later are arbitrary.  Then `P(x)` is `spec base x` for every `x`, whatever was called before
(as long as the node's cache entry is not already wrong). -/
theorem C16_fixed_any_scope (I : Nat → Value → Bool) (k : RefKind) (id : Nat) (base : Pred)
    (hbase : base.simple = true) (inner : List Frame) (fr : Frame) (outer : List Frame)
    (pre post : Frame) (name : String)
    (hfr : scanOrder k fr = pre ++ (name, .pred (recDef base (.ref k id))) :: post)
    (hname : name ≠ "self")
    (hinner : ∀ f ∈ inner, ∀ kb ∈ f, Unrelated k id kb)
    (hpre : ∀ kb ∈ pre, Unrelated k id kb)
    (c : Cache) (hclean : CleanFor (.ref k id) (recDef base (.ref k id)) c)
    (x : Value) (fuel : Nat) (hf : x.depth < fuel) :
    (evalRec Cfg.fixed I (inner ++ fr :: outer) fuel (recDef base (.ref k id)) x c).1 = .ok (spec I base x) := by
  have hres : findRef Cfg.fixed k id (inner ++ fr :: outer) = some (recDef base (.ref k id)) := by
    rw [C16_resolves_iff]
    refine ⟨inner, fr, outer, rfl, hinner, pre, name, post, hfr, hpre, ?_, hname, occurs_recDef k id base⟩
    simp [recDef]
  exact (C16_denotes_sequence Cfg.fixed I _ base (.ref k id) hbase rfl c hclean
    (by simp [resolveRaw, hres]) x fuel hf).1

/-- The same for `lazy_p(name)`: `P` is bound under `name`, and no frame below binds `name`. -/
theorem C16_lazy_any_scope (cfg : Cfg) (I : Nat → Value → Bool) (id : Nat) (name : String) (base : Pred)
    (hbase : base.simple = true) (inner : List Frame) (fr : Frame) (outer : List Frame)
    (hfr : lookupName name fr = some (.pred (recDef base (.lazy id name))))
    (hinner : ∀ f ∈ inner, ∀ kb ∈ f, kb.1 ≠ name)
    (c : Cache) (hclean : CleanFor (.lazy id name) (recDef base (.lazy id name)) c)
    (x : Value) (fuel : Nat) (hf : x.depth < fuel) :
    (evalRec cfg I (inner ++ fr :: outer) fuel (recDef base (.lazy id name)) x c).1 = .ok (spec I base x) := by
  have hres : findLazy name (inner ++ fr :: outer) = some (.pred (recDef base (.lazy id name))) := by
    rw [C16_lazy_resolves_iff]
    exact ⟨inner, fr, outer, rfl, hinner, hfr⟩
  exact (C16_denotes_sequence cfg I _ base (.lazy id name) hbase rfl c hclean
    (by simp [resolveRaw, hres]) x fuel hf).1

/-! ### the pinned code -/

/-- For the pinned `==` a binding is harmless only if it contains *no* node and no
factory of the class at all. -/
def KindFree (k : RefKind) (kb : String × Binding) : Prop :=
  ∀ v, kb.2 = .pred v → (∃ j, v = .ref k j) ∨ kb.1 = "self" ∨ occursKind k v = false

theorem candidate_pinned_false_of_kindFree (k : RefKind) (id : Nat) (kb : String × Binding)
    (h : KindFree k kb) : candidate Cfg.pinned k id kb.1 kb.2 = false := by
  obtain ⟨key, b⟩ := kb
  cases b with
  | other t => simp [candidate]
  | pred v =>
    cases hc : candidate Cfg.pinned k id key (.pred v) with
    | false => rfl
    | true =>
      obtain ⟨h1, h2, h3⟩ := (candidate_pinned_iff k id key v).mp hc
      rcases h v rfl with ⟨j, h'⟩ | h' | h'
      · exact absurd h' (h1 j)
      · exact absurd h' h2
      · rw [h3] at h'; cases h'

/-- **C16 on the pinned code, the part that holds (`_partial`).**  Same statement as
`C16_fixed_any_scope`, but the bindings met before `P` must be free of every `this_p`
(`root_p`) node and of the factory — i.e. no second recursive predicate of the same flavour
and no imported `this_p` / `root_p` name before `P`. -/
theorem C16_pinned_any_scope_partial (I : Nat → Value → Bool) (k : RefKind) (id : Nat) (base : Pred)
    (hbase : base.simple = true) (inner : List Frame) (fr : Frame) (outer : List Frame)
    (pre post : Frame) (name : String)
    (hfr : scanOrder k fr = pre ++ (name, .pred (recDef base (.ref k id))) :: post)
    (hname : name ≠ "self")
    (hinner : ∀ f ∈ inner, ∀ kb ∈ f, KindFree k kb)
    (hpre : ∀ kb ∈ pre, KindFree k kb)
    (c : Cache) (hclean : CleanFor (.ref k id) (recDef base (.ref k id)) c)
    (x : Value) (fuel : Nat) (hf : x.depth < fuel) :
    (evalRec Cfg.pinned I (inner ++ fr :: outer) fuel (recDef base (.ref k id)) x c).1 = .ok (spec I base x) := by
  have hres : findRef Cfg.pinned k id (inner ++ fr :: outer) = some (recDef base (.ref k id)) := by
    rw [findRef_eq_some_iff]
    refine ⟨inner, fr, outer, rfl, ?_, pre, name, post, hfr, ?_, ?_⟩
    · intro f hf kb hkb; exact candidate_pinned_false_of_kindFree k id kb (hinner f hf kb hkb)
    · intro kb hkb; exact candidate_pinned_false_of_kindFree k id kb (hpre kb hkb)
    · rw [candidate_pinned_iff]
      refine ⟨by simp [recDef], hname, ?_⟩
      simp [recDef, listOf, occursKind]
  exact (C16_denotes_sequence Cfg.pinned I _ base (.ref k id) hbase rfl c hclean
    (by simp [resolveRaw, hres]) x fuel hf).1

/-! ### witnesses -/

/-- Interpretation used by the witnesses (and by the driver): `base b` accepts the atoms of kind `b`. -/
def atomI : Nat → Value → Bool
  | b, .atom k => k == b
  | _, _ => false

namespace W
/-- `A = is_int_p | is_list_of_p(this_p)`, `P = is_str_p | is_list_of_p(this_p)` -/
def A : Pred := recDef (.base 1) (.ref .this 1)
def P : Pred := recDef (.base 0) (.ref .this 2)
def RA : Pred := recDef (.base 1) (.ref .root 1)
def RP : Pred := recDef (.base 0) (.ref .root 2)
/-- one function scope binding `A` then `P` -/
def two : Stack := [[("A", .pred A), ("P", .pred P)]]
/-- one function scope binding `P` then `A` (the failing order for `root_p`) -/
def twoRoot : Stack := [[("P", .pred RP), ("A", .pred RA)]]
/-- a module namespace after `from predicate import is_str_p, this_p` and `P = …` -/
def moduleLevel : Stack := [[("is_str_p", .pred (.base 0)), ("this_p", .pred (.factory .this)), ("P", .pred P)]]
/-- `["a"]` -/
def listOfStr : Value := .seq 0 [.atom 0]
end W

/-- With fixes/unresolved-reference-not-cached.diff (`cacheNone = false`) a call from a
site that cannot resolve the node leaves the cache exactly as it was — and answers either
ValueError or (when the node is not reached) the value of `spec` — so a later call from a
site that does see the definition is covered by `C16_denotes_sequence` again. -/
theorem C16_fixed_unresolved_then_recovers (cfg : Cfg) (hcn : cfg.cacheNone = false)
    (I : Nat → Value → Bool) (st : Stack) (base node : Pred)
    (hbase : base.simple = true) (hnode : node.isNode = true) (c : Cache)
    (hc : c.get (nodeId node) = none) (hres : resolveRaw cfg st node = none) (n : Nat) (x : Value) :
    (evalRec cfg I st (n + 1) (recDef base node) x c).2 = c ∧
      ((evalRec cfg I st (n + 1) (recDef base node) x c).1 = .valueError ∨
       (evalRec cfg I st (n + 1) (recDef base node) x c).1 = .ok (spec I base x)) := by
  simp only [evalRec, recDef, listOf, evalP]
  rw [evalP_simple I _ base hbase, spec_unfold]
  cases hb : evalS I base x with
  | true => simp
  | false =>
    cases x with
    | atom k => simp [isSeqB]
    | dict ks vs => simp [isSeqB]
    | seq k xs =>
      by_cases hk : k = 0
      · subst hk
        cases xs with
        | nil => simp [isSeqB, elems, allList]
        | cons e es =>
          simp only [isSeqB, beq_self_eq_true, elems, allList]
          rw [evalP_node I _ hnode]
          simp [derefWith, resolve, hc, hres, truthy, hcn]
      · have : (k == 0) = false := by simpa using hk
        simp [isSeqB, this]

/-- On the pinned code (`cacheNone = true`) the same first call poisons the node: a
`decide` witness — `P(["a"])` through `A.P` from a module that does not bind `P`, then
`from A import P` and `P(["a"])` again: ValueError both times; the repaired code answers `True`. -/
theorem C16_pinned_unresolved_poisons :
    let P : Pred := recDef (.base 0) (.ref .this 2)
    let outside : Stack := [[]]
    let inside : Stack := [[("P", .pred P)]]
    let x : Value := .seq 0 [.atom 0]
    (evalRec ⟨true, true⟩ atomI inside 5 P x (evalRec ⟨true, true⟩ atomI outside 5 P x []).2).1 = .valueError ∧
    (evalRec ⟨true, false⟩ atomI inside 5 P x (evalRec ⟨true, false⟩ atomI outside 5 P x []).2).1 = .ok true := by
  decide

/-- F6, first form: two `this_p` predicates in one scope — on the pinned code the later
one resolves to the earlier one and `P(["a"])` is `False` although `spec` says `True`;
the fixed code resolves to `P` and answers `True`. -/
theorem C16_pinned_two_in_scope :
    findRef Cfg.pinned .this 2 W.two = some W.A ∧
    (evalRec Cfg.pinned atomI W.two 5 W.P W.listOfStr []).1 = .ok false ∧
    spec atomI (.base 0) W.listOfStr = true ∧
    findRef Cfg.fixed .this 2 W.two = some W.P ∧
    (evalRec Cfg.fixed atomI W.two 5 W.P W.listOfStr []).1 = .ok true := by decide

/-- F6, mirrored for `root_p` (scans in reverse: the earlier predicate resolves to the later one). -/
theorem C16_pinned_root_two_in_scope :
    findRef Cfg.pinned .root 2 W.twoRoot = some W.RA ∧
    (evalRec Cfg.pinned atomI W.twoRoot 5 W.RP W.listOfStr []).1 = .ok false ∧
    findRef Cfg.fixed .root 2 W.twoRoot = some W.RP ∧
    (evalRec Cfg.fixed atomI W.twoRoot 5 W.RP W.listOfStr []).1 = .ok true := by decide

/-- F6, second form: at module level the imported factory `this_p` precedes `P` in the
namespace and is taken as the definition; calling it raises ValueError. -/
theorem C16_pinned_module_factory :
    findRef Cfg.pinned .this 2 W.moduleLevel = some (.factory .this) ∧
    (evalRec Cfg.pinned atomI W.moduleLevel 5 W.P W.listOfStr []).1 = .valueError ∧
    findRef Cfg.fixed .this 2 W.moduleLevel = some W.P ∧
    (evalRec Cfg.fixed atomI W.moduleLevel 5 W.P W.listOfStr []).1 = .ok true := by decide

/-- Hence the full statement (`Unrelated` bindings are irrelevant) is false for the pinned code. -/
theorem C16_pinned_any_scope_fails :
    ¬ (∀ (st : Stack) (P : Pred) (x : Value), findRef Cfg.fixed .this 2 st = some P →
        (evalRec Cfg.pinned atomI st 5 P x []).1 = (evalRec Cfg.fixed atomI st 5 P x []).1) := by
  intro h
  have := h W.two W.P W.listOfStr (by decide)
  revert this
  decide

/-- Non-vacuity of `C16_fixed_any_scope`: its hypotheses hold for the two-predicate scope. -/
example : ∀ kb ∈ [("A", Binding.pred W.A)], Unrelated .this 2 kb := by
  intro kb hkb
  simp only [List.mem_singleton] at hkb
  subst hkb
  intro v hv
  cases hv
  exact Or.inr (Or.inr (by decide))

/-! ### the library's own `is_json_p` -/

open Scope.Json in
/-- Both lazy nodes of `is_json_p` resolve to the library's own definitions (now or from the cache). -/
def JsonInv (cfg : Cfg) (st : Stack) (c : Cache) : Prop :=
  ResolvesTo cfg st Json.validJson Json.isJson c ∧
    ResolvesTo cfg st (.lazy Json.idValues "json_values") Json.jsonValues c

theorem resolvesTo_cons_ne {cfg : Cfg} {st : Stack} {node P : Pred} {c : Cache} {j : Nat}
    {v : Option Binding} (hj : (j == nodeId node) = false) (h : ResolvesTo cfg st node P c) :
    ResolvesTo cfg st node P ((j, v) :: c) := by
  unfold ResolvesTo at *
  simp only [Cache.get, hj]
  exact h

theorem json_resolve_valid {cfg : Cfg} {st : Stack} {c : Cache} (h : JsonInv cfg st c) :
    ∃ c', resolve cfg st Json.validJson c = (some (.pred Json.isJson), c') ∧ JsonInv cfg st c' := by
  obtain ⟨h1, h2⟩ := h
  rcases h1 with h1 | ⟨h1, h1'⟩
  · exact ⟨c, by simp [resolve, h1], Or.inl h1, h2⟩
  · refine ⟨(nodeId Json.validJson, some (.pred Json.isJson)) :: c, by simp [resolve, h1, h1', truthy], Or.inl ?_, ?_⟩
    · exact Cache.get_cons_self _ _ _
    · exact resolvesTo_cons_ne (by decide) h2

theorem json_resolve_values {cfg : Cfg} {st : Stack} {c : Cache} (h : JsonInv cfg st c) :
    ∃ c', resolve cfg st (.lazy Json.idValues "json_values") c = (some (.pred Json.jsonValues), c') ∧
      JsonInv cfg st c' := by
  obtain ⟨h1, h2⟩ := h
  rcases h2 with h2 | ⟨h2, h2'⟩
  · exact ⟨c, by simp [resolve, h2], h1, Or.inl h2⟩
  · refine ⟨(nodeId (.lazy Json.idValues "json_values"), some (.pred Json.jsonValues)) :: c,
      by simp [resolve, h2, h2', truthy], ?_, Or.inl ?_⟩
    · exact resolvesTo_cons_ne (by decide) h1
    · exact Cache.get_cons_self _ _ _

/-- what `json_values` demands of one member -/
def jsonElem (I : Nat → Value → Bool) (v : Value) : Bool :=
  I Json.bStr v || I Json.bInt v || I Json.bFloat v || Json.jsonSpec I v || I Json.bNone v

theorem jsonVals_eq_all (I : Nat → Value → Bool) (xs : List Value) :
    Json.jsonVals I xs = xs.all (jsonElem I) := by
  induction xs with
  | nil => simp [Json.jsonVals]
  | cons a t ih => simp [Json.jsonVals, jsonElem, ih]

/-- the member predicate inside `json_values` -/
def jsonElemP : Pred :=
  .or (.or (.or (.or (.or (.base Json.bStr) (.base Json.bInt)) (.base Json.bFloat)) Json.jsonList) Json.validJson)
    (.base Json.bNone)

/-- Induction hypotheses at fuel `m`. -/
def JsonIH (cfg : Cfg) (I : Nat → Value → Bool) (st : Stack) (m : Nat) : Prop :=
  (∀ x c, JsonInv cfg st c → 2 * x.depth + 1 ≤ m →
    ∃ c', evalRec cfg I st m Json.isJson x c = (.ok (Json.jsonSpec I x), c') ∧ JsonInv cfg st c') ∧
  (∀ k xs c, JsonInv cfg st c → 2 * depthList xs + 2 ≤ m →
    ∃ c', evalRec cfg I st m Json.jsonValues (.seq k xs) c = (.ok (Json.jsonVals I xs), c') ∧ JsonInv cfg st c')

theorem json_elem (cfg : Cfg) (I : Nat → Value → Bool) (st : Stack) (m : Nat) (ih : JsonIH cfg I st m)
    (v : Value) (c : Cache) (hc : JsonInv cfg st c) (hd : 2 * v.depth + 1 ≤ m) :
    ∃ c', evalP I (derefWith cfg st (evalRec cfg I st m)) jsonElemP v c = (.ok (jsonElem I v), c') ∧
      JsonInv cfg st c' := by
  obtain ⟨ihJ, ihV⟩ := ih
  simp only [jsonElemP, jsonElem, evalP, Json.jsonList, Json.validJson]
  cases h1 : I Json.bStr v with
  | true => exact ⟨c, by simp, hc⟩
  | false =>
  cases h2 : I Json.bInt v with
  | true => exact ⟨c, by simp, hc⟩
  | false =>
  cases h3 : I Json.bFloat v with
  | true => exact ⟨c, by simp, hc⟩
  | false =>
  simp only [Bool.false_or]
  -- the `validJson` step, used in every remaining branch
  have hvalid : ∀ c1, JsonInv cfg st c1 →
      ∃ c', derefWith cfg st (evalRec cfg I st m) (.lazy Json.idValid "is_json_p") v c1
          = (.ok (Json.jsonSpec I v), c') ∧ JsonInv cfg st c' := by
    intro c1 hc1
    obtain ⟨c2, hr, hc2⟩ := json_resolve_valid hc1
    simp only [Json.validJson] at hr
    simp only [derefWith, hr]
    exact ihJ v c2 hc2 hd
  cases v with
  | atom k =>
    obtain ⟨c', hv, hc'⟩ := hvalid c hc
    refine ⟨c', ?_, hc'⟩
    simp only [isSeqB, hv, Json.jsonSpec]
    simp
  | dict ks vs =>
    obtain ⟨c', hv, hc'⟩ := hvalid c hc
    refine ⟨c', ?_, hc'⟩
    simp only [isSeqB, hv]
    cases Json.jsonSpec I (.dict ks vs) <;> simp
  | seq k xs =>
    by_cases hk : k = 0
    · subst hk
      obtain ⟨c1, hr, hc1⟩ := json_resolve_values hc
      have hdx : 2 * depthList xs + 2 ≤ m := by
        simp only [Value.depth] at hd; omega
      obtain ⟨c2, hv2, hc2⟩ := ihV 0 xs c1 hc1 hdx
      simp only [isSeqB, beq_self_eq_true, derefWith, hr, hv2]
      cases hj : Json.jsonVals I xs with
      | true =>
        refine ⟨c2, ?_, hc2⟩
        simp [Json.jsonSpec, hj]
      | false =>
        obtain ⟨c', hv, hc'⟩ := hvalid c2 hc2
        refine ⟨c', ?_, hc'⟩
        simp only [derefWith] at hv
        simp only [hv, Json.jsonSpec, hj]
        simp
    · have hk' : (k == 0) = false := by simpa using hk
      obtain ⟨c', hv, hc'⟩ := hvalid c hc
      refine ⟨c', ?_, hc'⟩
      simp only [isSeqB, hk', hv, Json.jsonSpec]
      simp

theorem json_values_step (cfg : Cfg) (I : Nat → Value → Bool) (st : Stack) (m : Nat) (ih : JsonIH cfg I st m)
    (x : Value) (xs : List Value) (hx : elems x = some xs) (c : Cache) (hc : JsonInv cfg st c)
    (hd : ∀ v ∈ xs, 2 * v.depth + 1 ≤ m) :
    ∃ c', evalP I (derefWith cfg st (evalRec cfg I st m)) Json.jsonValues x c = (.ok (Json.jsonVals I xs), c') ∧
      JsonInv cfg st c' := by
  have h := allList_inv (f := evalP I (derefWith cfg st (evalRec cfg I st m)) jsonElemP)
    (g := jsonElem I) (Inv := JsonInv cfg st) xs
    (fun v hv c1 hc1 => json_elem cfg I st m ih v c1 hc1 (hd v hv)) c hc
  obtain ⟨c', h1, h2⟩ := h
  refine ⟨c', ?_, h2⟩
  rw [jsonVals_eq_all, ← h1]
  simp only [Json.jsonValues, evalP, hx]
  rfl

theorem json_keys_step (I : Nat → Value → Bool) (ks : List Nat) (c : Cache) :
    allList (fun x c1 => (Outcome.ok (I Json.bStr x), c1)) (ks.map .atom) c =
      (.ok (ks.all (fun k => I Json.bStr (.atom k))), c) := by
  induction ks with
  | nil => simp [allList]
  | cons a t ih =>
    simp only [List.map_cons, allList, List.all_cons]
    cases h : I Json.bStr (.atom a) with
    | true => simpa using ih
    | false => simp

theorem json_ih (cfg : Cfg) (I : Nat → Value → Bool) (st : Stack) : ∀ m, JsonIH cfg I st m := by
  intro m
  induction m with
  | zero =>
    refine ⟨?_, ?_⟩
    · intro x c _ h; omega
    · intro k xs c _ h; omega
  | succ m ih =>
    refine ⟨?_, ?_⟩
    · intro x c hc hd
      simp only [evalRec, Json.isJson, Json.jsonKeys, Json.jsonValuesP, Json.jsonList, evalP]
      cases x with
      | atom k =>
        exact ⟨c, by simp [isDictB, isSeqB, Json.jsonSpec], hc⟩
      | dict ks vs =>
        simp only [isDictB, isSeqB, elems, applyFn, json_keys_step]
        cases hk : ks.all (fun k => I Json.bStr (.atom k)) with
        | false => exact ⟨c, by simp [Json.jsonSpec, hk], hc⟩
        | true =>
          have hvs : ∀ v ∈ vs, 2 * v.depth + 1 ≤ m := by
            intro v hv
            have := depth_le_depthList hv
            simp only [Value.depth] at hd
            omega
          obtain ⟨c', hv, hc'⟩ := json_values_step cfg I st m ih (.seq 2 vs) vs rfl c hc hvs
          refine ⟨c', ?_, hc'⟩
          simp only [hv, Json.jsonSpec, hk]
          cases Json.jsonVals I vs <;> simp
      | seq k xs =>
        by_cases hk : k = 0
        · subst hk
          obtain ⟨c1, hr, hc1⟩ := json_resolve_values hc
          have hdx : 2 * depthList xs + 2 ≤ m := by
            simp only [Value.depth] at hd; omega
          obtain ⟨c2, hv2, hc2⟩ := ih.2 0 xs c1 hc1 hdx
          refine ⟨c2, ?_, hc2⟩
          simp [isDictB, isSeqB, derefWith, hr, hv2, Json.jsonSpec]
        · have hk' : (k == 0) = false := by simpa using hk
          exact ⟨c, by simp [isDictB, isSeqB, hk', Json.jsonSpec], hc⟩
    · intro k xs c hc hd
      simp only [evalRec]
      have hvs : ∀ v ∈ xs, 2 * v.depth + 1 ≤ m := by
        intro v hv
        have := depth_le_depthList hv
        omega
      exact json_values_step cfg I st m ih (.seq k xs) xs rfl c hc hvs

/-- **C16, `is_json_p`.**  Whenever both lazy references inside the library's `is_json_p`
resolve to the library's own `is_json_p` / `json_values` (from the cache or from the
caller's frames), `is_json_p(x)` is exactly "x is JSON-shaped", for every `x`, every
interpretation of the scalar tests, every fuel ≥ 2·depth + 1. -/
theorem C16_json_denotes (cfg : Cfg) (I : Nat → Value → Bool) (st : Stack) (c : Cache)
    (hc : JsonInv cfg st c) (x : Value) (fuel : Nat) (hf : 2 * x.depth + 1 ≤ fuel) :
    (evalRec cfg I st fuel Json.isJson x c).1 = .ok (Json.jsonSpec I x) := by
  obtain ⟨c', h, _⟩ := (json_ih cfg I st fuel).1 x c hc hf
  rw [h]

/-- After fixes/is-json-any-caller.diff the two nodes are bound at import time
(`Json.seeded`): `is_json_p` accepts exactly JSON-shaped data **from any caller**. -/
theorem C16_json_any_caller (cfg : Cfg) (I : Nat → Value → Bool) (st : Stack) (x : Value) (fuel : Nat)
    (hf : 2 * x.depth + 1 ≤ fuel) :
    (evalRec cfg I st fuel Json.isJson x Json.seeded).1 = .ok (Json.jsonSpec I x) :=
  C16_json_denotes cfg I st Json.seeded ⟨Or.inl (by decide), Or.inl (by decide)⟩ x fuel hf

/-- Pinned code (`_partial`): nothing is stored at import time, so the caller's frames
must bind *both* names to the library's objects. -/
theorem C16_json_caller_partial (cfg : Cfg) (I : Nat → Value → Bool) (st : Stack)
    (h1 : findLazy "is_json_p" st = some (.pred Json.isJson))
    (h2 : findLazy "json_values" st = some (.pred Json.jsonValues))
    (x : Value) (fuel : Nat) (hf : 2 * x.depth + 1 ≤ fuel) :
    (evalRec cfg I st fuel Json.isJson x []).1 = .ok (Json.jsonSpec I x) :=
  C16_json_denotes cfg I st [] ⟨Or.inr ⟨rfl, by simp [resolveRaw, Json.validJson, h1]⟩,
    Or.inr ⟨rfl, by simp [resolveRaw, h2]⟩⟩ x fuel hf

/-- K7 witnesses on the pinned code: a caller that imported only `is_json_p` gets
ValueError for the empty list and for `{"a": []}`; a caller that binds neither name
gets ValueError for `{"a": {}}` too; and the failure is stored: the next call from a
caller that binds both names still raises. -/
theorem C16_json_pinned_caller_fails :
    let onlyJson : Stack := [[("is_json_p", .pred Json.isJson)]]
    let both : Stack := [[("is_json_p", .pred Json.isJson), ("json_values", .pred Json.jsonValues)]]
    (evalRec Cfg.pinned atomI onlyJson 9 Json.isJson (.seq 0 []) []).1 = .valueError ∧
    (evalRec Cfg.pinned atomI onlyJson 9 Json.isJson (.dict [0] [.seq 0 []]) []).1 = .valueError ∧
    (evalRec Cfg.pinned atomI [] 9 Json.isJson (.dict [0] [.dict [] []]) []).1 = .valueError ∧
    (evalRec Cfg.pinned atomI both 9 Json.isJson (.seq 0 []) []).1 = .ok true ∧
    (evalRec Cfg.pinned atomI both 9 Json.isJson (.seq 0 [])
        (evalRec Cfg.pinned atomI onlyJson 9 Json.isJson (.seq 0 []) []).2).1 = .valueError ∧
    Json.jsonSpec atomI (.seq 0 []) = true := by decide

end PyPred
