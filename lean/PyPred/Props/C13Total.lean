/-
C13, fuel-free: the basic Boolean laws as equations about the total optimizer
`optimizeF` (Props/C01Total.lean), in the property's own wording — the result is
`always_false_p`, `always_true_p`, `optimize(p)` or `optimize(~p)`.  Each is the
corresponding fuelled law of Props/C13.lean at a fuel that exists by C12.
-/
import PyPred.Props.C13
import PyPred.Props.C01Total

set_option linter.unusedSectionVars false

namespace PyPred
variable {V : Type} [LinearOrder V]

/-- An answer of the fuelled model at any fuel is the value of the total optimizer. -/
theorem optimizeF_of_fuel (cfg : Cfg) (fnc : Nat → V → Bool) {k : Nat} {q r : Pred V} {t : List Quirk}
    (h : optimizeT cfg fnc k q = some (r, t)) : optimizeF cfg fnc q = r :=
  ((optimizeF_spec cfg fnc q).2 k r (by simp [optimize, h])).symm

/-- `optimize(p)` of an atom. -/
theorem optimizeF_atom (cfg : Cfg) (fnc : Nat → V → Bool) (p : Pred V) (h : p.isAtom = true) :
    optimizeF cfg fnc p = atomOpt p :=
  optimizeF_of_fuel cfg fnc (optimizeT_atom cfg fnc 0 p h)

/-- `optimize(~p)` of an atom. -/
theorem optimizeF_not_atom (cfg : Cfg) (fnc : Nat → V → Bool) (p : Pred V) (h : p.isAtom = true) :
    optimizeF cfg fnc (.not p) = negate (atomOpt p) :=
  optimizeF_of_fuel cfg fnc (atomFacts cfg fnc 0 p h).rn

theorem C13F_and_not (cfg : Cfg) (fnc : Nat → V → Bool) (p : Pred V) (h : p.isAtom = true) :
    optimizeF cfg fnc (.and p (.not p)) = .ff :=
  optimizeF_of_fuel cfg fnc (C13_and_not cfg fnc 0 p h)

theorem C13F_and_negate (cfg : Cfg) (fnc : Nat → V → Bool) (p : Pred V) (h : p.isAtom = true) :
    optimizeF cfg fnc (.and p (negate p)) = .ff :=
  optimizeF_of_fuel cfg fnc (C13_and_negate cfg fnc 0 p h)

theorem C13F_negate_and (cfg : Cfg) (fnc : Nat → V → Bool) (p : Pred V) (h : p.isAtom = true) :
    optimizeF cfg fnc (.and (negate p) p) = .ff :=
  optimizeF_of_fuel cfg fnc (C13_negate_and cfg fnc 0 p h)

theorem C13F_or_not (cfg : Cfg) (fnc : Nat → V → Bool) (p : Pred V) (h : p.isAtom = true) :
    optimizeF cfg fnc (.or p (.not p)) = .tt :=
  optimizeF_of_fuel cfg fnc (C13_or_not cfg fnc 0 p h)

theorem C13F_or_negate (cfg : Cfg) (fnc : Nat → V → Bool) (p : Pred V) (h : p.isAtom = true) :
    optimizeF cfg fnc (.or p (negate p)) = .tt :=
  optimizeF_of_fuel cfg fnc (C13_or_negate cfg fnc 0 p h)

theorem C13F_negate_or (cfg : Cfg) (fnc : Nat → V → Bool) (p : Pred V) (h : p.isAtom = true) :
    optimizeF cfg fnc (.or (negate p) p) = .tt :=
  optimizeF_of_fuel cfg fnc (C13_negate_or cfg fnc 0 p h)

theorem C13F_xor_not (cfg : Cfg) (fnc : Nat → V → Bool) (p : Pred V) (h : p.isAtom = true) :
    optimizeF cfg fnc (.xor p (.not p)) = .tt :=
  optimizeF_of_fuel cfg fnc (C13_xor_not cfg fnc 0 p h)

theorem C13F_xor_negate (cfg : Cfg) (fnc : Nat → V → Bool) (p : Pred V) (h : p.isAtom = true) :
    optimizeF cfg fnc (.xor p (negate p)) = .tt :=
  optimizeF_of_fuel cfg fnc (C13_xor_negate cfg fnc 0 p h)

theorem C13F_negate_xor (cfg : Cfg) (fnc : Nat → V → Bool) (p : Pred V) (h : p.isAtom = true) :
    optimizeF cfg fnc (.xor (negate p) p) = .tt :=
  optimizeF_of_fuel cfg fnc (C13_negate_xor cfg fnc 0 p h)

theorem C13F_not_not (cfg : Cfg) (fnc : Nat → V → Bool) (p : Pred V) (h : p.isAtom = true) :
    optimizeF cfg fnc (.not (.not p)) = optimizeF cfg fnc p :=
  by rw [optimizeF_atom cfg fnc p h]; exact optimizeF_of_fuel cfg fnc (C13_not_not cfg fnc 0 p h)

theorem C13F_not_and (cfg : Cfg) (fnc : Nat → V → Bool) (p : Pred V) (h : p.isAtom = true) :
    optimizeF cfg fnc (.and (.not p) p) = .ff :=
  optimizeF_of_fuel cfg fnc (C13_not_and cfg fnc 0 p h)

theorem C13F_not_or (cfg : Cfg) (fnc : Nat → V → Bool) (p : Pred V) (h : p.isAtom = true) :
    optimizeF cfg fnc (.or (.not p) p) = .tt :=
  optimizeF_of_fuel cfg fnc (C13_not_or cfg fnc 0 p h)

theorem C13F_not_xor (cfg : Cfg) (fnc : Nat → V → Bool) (p : Pred V) (h : p.isAtom = true) :
    optimizeF cfg fnc (.xor (.not p) p) = .tt :=
  optimizeF_of_fuel cfg fnc (C13_not_xor cfg fnc 0 p h)

theorem C13F_xor_self (cfg : Cfg) (fnc : Nat → V → Bool) (p : Pred V) (h : p.isAtom = true) :
    optimizeF cfg fnc (.xor p p) = .ff :=
  optimizeF_of_fuel cfg fnc (C13_xor_self cfg fnc 0 p h)

theorem C13F_or_self (cfg : Cfg) (fnc : Nat → V → Bool) (p : Pred V) (h : p.isAtom = true) :
    optimizeF cfg fnc (.or p p) = optimizeF cfg fnc p :=
  by rw [optimizeF_atom cfg fnc p h]; exact optimizeF_of_fuel cfg fnc (C13_or_self cfg fnc 0 p h)

theorem C13F_and_true (cfg : Cfg) (fnc : Nat → V → Bool) (p : Pred V) (h : p.isAtom = true) :
    optimizeF cfg fnc (.and p .tt) = optimizeF cfg fnc p :=
  by rw [optimizeF_atom cfg fnc p h]; exact optimizeF_of_fuel cfg fnc (C13_and_true cfg fnc 0 p h)

theorem C13F_true_and (cfg : Cfg) (fnc : Nat → V → Bool) (p : Pred V) (h : p.isAtom = true) :
    optimizeF cfg fnc (.and .tt p) = optimizeF cfg fnc p :=
  by rw [optimizeF_atom cfg fnc p h]; exact optimizeF_of_fuel cfg fnc (C13_true_and cfg fnc 0 p h)

theorem C13F_or_false (cfg : Cfg) (fnc : Nat → V → Bool) (p : Pred V) (h : p.isAtom = true) :
    optimizeF cfg fnc (.or p .ff) = optimizeF cfg fnc p :=
  by rw [optimizeF_atom cfg fnc p h]; exact optimizeF_of_fuel cfg fnc (C13_or_false cfg fnc 0 p h)

theorem C13F_false_or (cfg : Cfg) (fnc : Nat → V → Bool) (p : Pred V) (h : p.isAtom = true) :
    optimizeF cfg fnc (.or .ff p) = optimizeF cfg fnc p :=
  by rw [optimizeF_atom cfg fnc p h]; exact optimizeF_of_fuel cfg fnc (C13_false_or cfg fnc 0 p h)

theorem C13F_xor_false (cfg : Cfg) (fnc : Nat → V → Bool) (p : Pred V) (h : p.isAtom = true) :
    optimizeF cfg fnc (.xor p .ff) = optimizeF cfg fnc p :=
  by rw [optimizeF_atom cfg fnc p h]; exact optimizeF_of_fuel cfg fnc (C13_xor_false cfg fnc 0 p h)

theorem C13F_false_xor (cfg : Cfg) (fnc : Nat → V → Bool) (p : Pred V) (h : p.isAtom = true) :
    optimizeF cfg fnc (.xor .ff p) = optimizeF cfg fnc p :=
  by rw [optimizeF_atom cfg fnc p h]; exact optimizeF_of_fuel cfg fnc (C13_false_xor cfg fnc 0 p h)

theorem C13F_and_false (cfg : Cfg) (fnc : Nat → V → Bool) (p : Pred V) (h : p.isAtom = true) :
    optimizeF cfg fnc (.and p .ff) = .ff :=
  optimizeF_of_fuel cfg fnc (C13_and_false cfg fnc 0 p h)

theorem C13F_false_and (cfg : Cfg) (fnc : Nat → V → Bool) (p : Pred V) (h : p.isAtom = true) :
    optimizeF cfg fnc (.and .ff p) = .ff :=
  optimizeF_of_fuel cfg fnc (C13_false_and cfg fnc 0 p h)

theorem C13F_or_true (cfg : Cfg) (fnc : Nat → V → Bool) (p : Pred V) (h : p.isAtom = true) :
    optimizeF cfg fnc (.or p .tt) = .tt :=
  optimizeF_of_fuel cfg fnc (C13_or_true cfg fnc 0 p h)

theorem C13F_true_or (cfg : Cfg) (fnc : Nat → V → Bool) (p : Pred V) (h : p.isAtom = true) :
    optimizeF cfg fnc (.or .tt p) = .tt :=
  optimizeF_of_fuel cfg fnc (C13_true_or cfg fnc 0 p h)

theorem C13F_xor_true (cfg : Cfg) (fnc : Nat → V → Bool) (p : Pred V) (h : p.isAtom = true) :
    optimizeF cfg fnc (.xor p .tt) = optimizeF cfg fnc (.not p) :=
  by rw [optimizeF_not_atom cfg fnc p h]; exact optimizeF_of_fuel cfg fnc (C13_xor_true cfg fnc 0 p h)

theorem C13F_true_xor (cfg : Cfg) (fnc : Nat → V → Bool) (p : Pred V) (h : p.isAtom = true) :
    optimizeF cfg fnc (.xor .tt p) = optimizeF cfg fnc (.not p) :=
  by rw [optimizeF_not_atom cfg fnc p h]; exact optimizeF_of_fuel cfg fnc (C13_true_xor cfg fnc 0 p h)

end PyPred
