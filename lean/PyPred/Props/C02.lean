/-
C02  optimize() preserves scalar atoms: comparisons, ranges, membership, types.

The main theorem is the same induction as C01 — `optimizeT_sound` quantifies over
every constructor of `Pred`, every relative order of the constants of a linear
order, every interpretation of `isinstance` / function atoms (so overlapping
classes are inside the quantification) and every value.  The corollaries below
make the boundary claims of the property visible.
-/
import PyPred.Props.C01
import PyPred.Lemmas.ClosureInst

namespace PyPred
variable {V : Type} [LinearOrder V]

theorem C02_optimize_preserves (cfg : Cfg) (hq : cfg.noImpl) (fnc : Nat → V → Bool) (n : Nat)
    {p o : Pred V} (h : optimize cfg fnc n p = some o) (I : Interp V) (hA : Agrees I fnc) (x : Val V) :
    eval I o x = eval I p x :=
  C01_optimize_preserves cfg hq fnc n h I hA x

theorem C02_partial_impl (cfg : Cfg) (fnc : Nat → V → Bool) (n : Nat)
    {p o : Pred V} (h : optimizeT cfg fnc n p = some (o, [])) (I : Interp V) (hA : Agrees I fnc) (x : Val V) :
    eval I o x = eval I p x :=
  C01_partial_impl cfg fnc n h I hA x

/-! The totalised semantics is the usual one on scalars of a linear order. -/

theorem C02_scalar_semantics (I : Interp V) (v a : V) (ty : Nat) :
    eval I (.ge v) (.sc ty a) = decide (v ≤ a) ∧ eval I (.gt v) (.sc ty a) = decide (v < a) ∧
    eval I (.le v) (.sc ty a) = decide (a ≤ v) ∧ eval I (.lt v) (.sc ty a) = decide (a < v) ∧
    eval I (.eq v) (.sc ty a) = decide (a = v) ∧ eval I (.ne v) (.sc ty a) = decide (a ≠ v) := by
  simp [eval, onSc]
  grind

/-- The four two-sided forms are the conjunctions of the one-sided atoms, with the
strictness of each end, without any side condition on the bounds. -/
theorem C02_range_is_conj (I : Interp V) (lo hi : V) (x : Val V) :
    eval I (.gele lo hi) x = (eval I (.ge lo) x && eval I (.le hi) x) ∧
    eval I (.gelt lo hi) x = (eval I (.ge lo) x && eval I (.lt hi) x) ∧
    eval I (.gtle lo hi) x = (eval I (.gt lo) x && eval I (.le hi) x) ∧
    eval I (.gtlt lo hi) x = (eval I (.gt lo) x && eval I (.lt hi) x) := by
  simp [eval]

/-- `x >= v & x <= v` is `x == v` (the AND4 collapse). -/
theorem C02_ge_le_point (I : Interp V) (v : V) (x : Val V) :
    eval I (.eq v) x = (eval I (.ge v) x && eval I (.le v) x) := by
  cases x <;> simp [eval, onSc] <;> grind

/-- Membership algebra used by the merged-set rewrites, including the empty and
singleton collapses of `optimize_in_predicate` / `optimize_not_in_predicate`. -/
theorem C02_in_algebra (I : Interp V) (s t : List V) (x : Val V) :
    eval I (.isin (inter s t)) x = (eval I (.isin s) x && eval I (.isin t) x) ∧
    eval I (.isin (diff s t)) x = (eval I (.isin s) x && eval I (.notin t) x) ∧
    eval I (.isin (union s t)) x = (eval I (.isin s) x || eval I (.isin t) x) ∧
    eval I (.notin (union s t)) x = (eval I (.notin s) x && eval I (.notin t) x) ∧
    eval I (.isin (symdiff s t)) x = (eval I (.isin s) x != eval I (.isin t) x) ∧
    eval I (optIn s) x = eval I (.isin s) x ∧ eval I (optNotIn s) x = eval I (.notin s) x := by
  refine ⟨?_, ?_, ?_, ?_, ?_, optIn_sound I s x, optNotIn_sound I s x⟩ <;>
    (cases x <;> simp [eval, onSc] <;> grind)

/-! ### Negation witnesses for the two implemented arms that break C02. -/

section Witnesses

/-- fn0 holds on even codes. -/
private def fnc0 : Nat → Int → Bool := fun i v => (v + i) % 2 == 0

private def I0 (inst : Nat → Val Int → Bool) : Interp Int :=
  ⟨fun _ v => v, fun i x => match x with | .sc _ a => fnc0 i a | .coll _ xs => (xs.length + i) % 2 == 0,
   inst, fun _ => false, fun _ => false, fun _ _ _ => false, fun _ _ _ _ => false⟩

private def differsAt2 (cfg : Cfg) (inst : Nat → Val Int → Bool) (p : Pred Int) (x : Val Int) : Bool :=
  match optimize cfg fnc0 6 p with
  | some o => eval (I0 inst) o x != eval (I0 inst) p x
  | none => false

/-- K3: `fn & eq_p(v)` with `fn(v)` true is rewritten to `always_true_p`; at a
value `x ≠ v` the original is false. -/
theorem C02_witness_fnEq :
    differsAt2 Cfg.allImpl (fun _ _ => false) (.and (.fn 0) (.eq 2)) (.sc 2 0) = true := by decide

/-- K4: `is_int_p & is_bool_p` is rewritten to `always_false_p`; `True` is both
(class 1 = int, class 0 = bool, a value of tag 1 = bool is an instance of both). -/
theorem C02_witness_instDisjoint :
    differsAt2 Cfg.allImpl (fun c x => match x with | .sc ty _ => (c == 0 && ty == 1) || (c == 1 && (ty == 1 || ty == 2)) | _ => false)
      (.and (.inst [1]) (.inst [0])) (.sc 1 2) = true := by decide

theorem C02_fixed_agrees :
    differsAt2 Cfg.allFixed (fun _ _ => false) (.and (.fn 0) (.eq 2)) (.sc 2 0) = false ∧
    differsAt2 Cfg.allFixed (fun c x => match x with | .sc ty _ => (c == 0 && ty == 1) || (c == 1 && (ty == 1 || ty == 2)) | _ => false)
      (.and (.inst [1]) (.inst [0])) (.sc 1 2) = false := by decide

end Witnesses

/-! ### Non-vacuity: a merged range, a merged set and a collapsed constant are produced
without any quirk, so the partial theorem speaks about them. -/

example : (optimizeT Cfg.allImpl (fun _ _ => false) 6 (.and (.ge 1) (.le 3) : Pred Int)).map Prod.snd = some [] := by decide
example : (optimizeT Cfg.allImpl (fun _ _ => false) 6 (.or (.isin [1, 2]) (.eq 3) : Pred Int)).map Prod.snd = some [] := by decide
example : (optimizeT Cfg.allImpl (fun _ _ => false) 6 (.and (.ge 2) (.le 2) : Pred Int)).map Prod.snd = some [] := by decide

/-! ### No new constants: the optimised predicate is defined wherever the original is -/

/-- `optimize` invents no constant: every constant of the result (bounds, members,
compared values) is a constant of the argument — for every configuration, the code
as it is (`Cfg.allImpl`) included. -/
theorem C02_no_new_constants (cfg : Cfg) (fnc : Nat → V → Bool) (n : Nat) {p o : Pred V}
    (h : optimize cfg fnc n p = some o) : ∀ a, a ∈ o.consts → a ∈ p.consts :=
  consts_optimize cfg fnc n h

/-- `optimize` compares its argument with no new bound: the constants under
`<`, `<=`, `>`, `>=` in the result (one-sided atoms and both ends of the four
ranges) already occur under a comparison in the argument.  Python raises
`TypeError` exactly when a value is compared with a bound of an incomparable type,
so wherever every comparison atom of the original is defined, every comparison
atom of the optimised predicate is: this is what makes the totalised `eval` of
`C02_optimize_preserves` honest. -/
theorem C02_defined_preserved (cfg : Cfg) (fnc : Nat → V → Bool) (n : Nat) {p o : Pred V}
    (h : optimize cfg fnc n p = some o) (ok : V → Prop) (hp : ∀ a, a ∈ p.cmpConsts → ok a) :
    ∀ a, a ∈ o.cmpConsts → ok a :=
  fun a ha => hp a (cmpConsts_optimize cfg fnc n h a ha)

/-- Non-vacuity: a merged range keeps exactly the two bounds; the point collapse
`ge v & le v → eq v` leaves no comparison at all. -/
example : (optimize Cfg.allImpl (fun _ _ => false) 6 (.and (.ge 1) (.le 3) : Pred Int)).map Pred.cmpConsts = some [1, 3] := by decide
example : (optimize Cfg.allImpl (fun _ _ => false) 6 (.and (.ge 2) (.le 2) : Pred Int)).map Pred.cmpConsts = some [] := by decide

end PyPred
