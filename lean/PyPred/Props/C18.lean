/-
C18  to_json mirrors the predicate tree and never fails.

Theorems about `toJson` of Model/Json.lean (the model of
predicate/formatter/format_json.py after fixes/fn-name.diff); the tie to /repo
is the correspondence run by `./check C18`.  "Never fails" is, on the model side,
the fact that `toJson` is a total function once the name of a function atom is a
total function of the function (`fnName`); that this is so for the real code is
exactly what F5 violated and what the check tests on built-ins, method
descriptors, partials and callable objects.
-/
import PyPred.Model.Json

namespace PyPred
variable {V : Type} (fnName : Nat → String)

/-- Exactly one key, and it names the root's kind. -/
theorem C18_one_key (p : Pred V) : ∃ v, toJson fnName p = .obj1 (kindKey p) v := by
  cases p <;> simp [toJson, kindKey]
  split <;> simp

theorem C18_keys (p : Pred V) : (toJson fnName p).keys = some [kindKey p] := by
  obtain ⟨v, h⟩ := C18_one_key fnName p
  simp [h, Json.keys]

/-- The nesting of the JSON is the nesting of the predicate: `left`/`right` in
operand order under `and`/`or`/`xor`, `predicate` under `not`/`all`/`any`, and the
key at every inner node is the connective of the corresponding predicate node. -/
theorem C18_shape (p : Pred V) : shapeJ (toJson fnName p) = shapeP p := by
  induction p <;> simp_all [toJson, shapeJ, shapeP]
  split <;> simp [shapeJ]

/-- The operands' own renderings, in operand order. -/
theorem C18_binary (l r : Pred V) :
    toJson fnName (.and l r) = .obj1 "and" (.obj2 "left" (toJson fnName l) "right" (toJson fnName r)) ∧
    toJson fnName (.or l r) = .obj1 "or" (.obj2 "left" (toJson fnName l) "right" (toJson fnName r)) ∧
    toJson fnName (.xor l r) = .obj1 "xor" (.obj2 "left" (toJson fnName l) "right" (toJson fnName r)) := by
  simp [toJson]

theorem C18_unary (p : Pred V) :
    toJson fnName (.not p) = .obj1 "not" (.obj1 "predicate" (toJson fnName p)) ∧
    toJson fnName (.all p) = .obj1 "all" (.obj1 "predicate" (toJson fnName p)) ∧
    toJson fnName (.any p) = .obj1 "any" (.obj1 "predicate" (toJson fnName p)) := by
  simp [toJson]

theorem C18_variable_name (n : String) (v : Bool) :
    toJson fnName (.var n v : Pred V) = .obj1 "variable" (.str n) := by simp [toJson]

theorem C18_ne_constant (v : V) :
    toJson fnName (.ne v : Pred V) = .obj1 "ne" (.obj1 "v" (.const v)) := by simp [toJson]

/-- Function atoms — whatever the function is — are rendered by the function's name. -/
theorem C18_fn_name (i : Nat) :
    toJson fnName (.fn i : Pred V) = .obj1 "fn" (.obj1 "name" (.str (fnName i))) := by simp [toJson]

theorem C18_constants_and_tee (ps : List Int) :
    toJson fnName (.tt : Pred V) = .obj1 "true" (.bool true) ∧
    toJson fnName (.ff : Pred V) = .obj1 "false" (.bool false) ∧
    toJson fnName (.truthy : Pred V) = .obj1 "is_truthy" .null ∧
    toJson fnName (.falsy : Pred V) = .obj1 "is_falsy" .null ∧
    toJson fnName (.leaf leafTee ps : Pred V) = .obj1 "tee" .null := by
  simp [toJson]

/-- A kind is *rendered* if `to_json` has an arm for it. -/
def rendered : Pred V → Bool
  | .all _ | .ff | .tt | .and _ _ | .any _ | .fn _ | .falsy | .var _ _ | .truthy | .ne _ | .not _
  | .or _ _ | .xor _ _ => true
  | .leaf k _ => k == leafTee
  | _ => false

/-- Every kind without a rendering becomes the placeholder `{"unknown": {}}`
(in particular no exception), … -/
theorem C18_unknown_placeholder (p : Pred V) (h : rendered p = false) :
    toJson fnName p = .obj1 "unknown" .obj0 := by
  cases p <;> simp_all [toJson, rendered]

/-- … and only those do. -/
theorem C18_unknown_only (p : Pred V) (h : rendered p = true) :
    ∀ v, toJson fnName p ≠ .obj1 "unknown" v := by
  cases p <;> simp_all [toJson, rendered]

/-- Serialisable whenever the constants are: `json.dumps` can only fail on a
constant of an `ne` atom. -/
theorem C18_serialisable (okV : V → Bool) (p : Pred V) (h : ∀ v ∈ jsonConsts p, okV v = true) :
    (toJson fnName p).serialisable okV = true := by
  induction p <;> simp_all [toJson, Json.serialisable, jsonConsts]
  · split <;> simp [Json.serialisable]
  all_goals grind

/-- Conversely the constants are all there: if the result is serialisable, every `ne`
constant reached through rendered connectives is. -/
theorem C18_serialisable_iff (okV : V → Bool) (p : Pred V) :
    (toJson fnName p).serialisable okV = true ↔ ∀ v ∈ jsonConsts p, okV v = true := by
  constructor
  · intro h
    induction p <;> simp_all [toJson, Json.serialisable, jsonConsts]
    all_goals grind
  · exact C18_serialisable fnName okV p

/-! ### Non-vacuity / concrete instances -/

/-- Operand order is visible: swapping the operands changes the JSON. -/
example : toJson (fun _ => "f") (.xor (.var "a" false) (.ne 1) : Pred Int)
    ≠ toJson (fun _ => "f") (.xor (.ne 1) (.var "a" false) : Pred Int) := by decide

example : toJson (fun i => if i = 0 then "<lambda>" else "isfinite")
      (.and (.not (.fn 1)) (.all (.or (.eq 3) (.fn 0))) : Pred Int) =
    .obj1 "and" (.obj2
      "left" (.obj1 "not" (.obj1 "predicate" (.obj1 "fn" (.obj1 "name" (.str "isfinite")))))
      "right" (.obj1 "all" (.obj1 "predicate" (.obj1 "or" (.obj2
        "left" (.obj1 "unknown" .obj0)
        "right" (.obj1 "fn" (.obj1 "name" (.str "<lambda>")))))))) := by decide

example : shapeP (.and (.not (.fn 1)) (.all (.or (.eq 3) (.fn 0))) : Pred Int)
    = .bin "and" (.un "not" .leaf) (.un "all" (.bin "or" .leaf .leaf)) := by decide

/-- An unserialisable constant (here: code 7 declared not acceptable) is the only obstacle. -/
example : (toJson (fun _ => "f") (.not (.ne 7) : Pred Int)).serialisable (fun v => v != 7) = false := by decide
example : (toJson (fun _ => "f") (.not (.eq 7) : Pred Int)).serialisable (fun v => v != 7) = true := by decide

end PyPred
