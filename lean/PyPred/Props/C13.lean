/-
C13  The basic Boolean laws are applied at the root for every atom.

For every atom constructor with its parameters universally quantified, every law
and both operand orders: an equation on the model's output, valid for every fuel
`≥ 3` (stated at `n + 3`; `optimizeT_fuel_mono` lifts it to all larger fuels).
`atomOpt p` is what `optimize` makes of the atom itself (only the empty /
singleton collapse of in_p / not_in_p changes an atom).
-/
import Mathlib.Order.Defs.LinearOrder
import PyPred.Lemmas.Laws

set_option linter.unusedSectionVars false
set_option linter.unusedVariables false
set_option linter.unusedSimpArgs false
set_option maxHeartbeats 1600000

namespace PyPred
variable {V : Type} [LinearOrder V]

/-- The facts about an atom that every law below starts from. -/
structure AtomFacts (cfg : Cfg) (fnc : Nat → V → Bool) (n : Nat) (p : Pred V) : Prop where
  atom : p.isAtom = true
  oatom : (atomOpt p).isAtom = true
  r1 : optimizeT cfg fnc (n + 1) p = some (atomOpt p, [])
  r2 : optimizeT cfg fnc (n + 2) p = some (atomOpt p, [])
  rn : optimizeT cfg fnc (n + 2) (.not p) = some (negate (atomOpt p), [])
  ro : optimizeT cfg fnc (n + 2) (atomOpt p) = some (atomOpt p, [])
  rno : optimizeT cfg fnc (n + 2) (.not (atomOpt p)) = some (negate (atomOpt p), [])

theorem atomFacts (cfg : Cfg) (fnc : Nat → V → Bool) (n : Nat) (p : Pred V) (h : p.isAtom = true) :
    AtomFacts cfg fnc n p := by
  have ha := atomOpt_isAtom p h
  refine ⟨h, ha, optimizeT_atom cfg fnc n p h, optimizeT_atom cfg fnc (n + 1) p h,
    optimizeT_not_atom cfg fnc n p h, ?_, ?_⟩
  · have := optimizeT_atom cfg fnc (n + 1) (atomOpt p) ha
    rwa [atomOpt_idem p h] at this
  · have := optimizeT_not_atom cfg fnc n (atomOpt p) ha
    rwa [atomOpt_idem p h] at this

macro "law_unfold" : tactic =>
  `(tactic| simp_all [optimizeT, step, stepAnd, stepOr, stepXor, stepNot, andPre, andPhase2, andRulesA, andRulesB,
      orRulesA, orRulesB, orAndAnd, xorNot, xorAnd, xorOrRule, xorOrSide, xorOrMk, orElse, containsNegAnd, containsNegOr,
      Pred.isOr, Pred.isAtom, negate, implies, Pred.beq, bindR, ret, retQ, atomOpt, beq_refl, notPost, lt_irrefl])

/-! ### laws decided on the raw operands -/

theorem C13_and_not (cfg : Cfg) (fnc : Nat → V → Bool) (n : Nat) (p : Pred V) (h : p.isAtom = true) :
    optimizeT cfg fnc (n + 3) (.and p (.not p)) = some (.ff, []) := by
  have hb := beq_refl p
  cases p <;> law_unfold

theorem C13_and_negate (cfg : Cfg) (fnc : Nat → V → Bool) (n : Nat) (p : Pred V) (h : p.isAtom = true) :
    optimizeT cfg fnc (n + 3) (.and p (negate p)) = some (.ff, []) := by
  cases p <;> law_unfold

theorem C13_negate_and (cfg : Cfg) (fnc : Nat → V → Bool) (n : Nat) (p : Pred V) (h : p.isAtom = true) :
    optimizeT cfg fnc (n + 3) (.and (negate p) p) = some (.ff, []) := by
  cases p <;> law_unfold

theorem C13_or_not (cfg : Cfg) (fnc : Nat → V → Bool) (n : Nat) (p : Pred V) (h : p.isAtom = true) :
    optimizeT cfg fnc (n + 3) (.or p (.not p)) = some (.tt, []) := by
  cases p <;> law_unfold

theorem C13_or_negate (cfg : Cfg) (fnc : Nat → V → Bool) (n : Nat) (p : Pred V) (h : p.isAtom = true) :
    optimizeT cfg fnc (n + 3) (.or p (negate p)) = some (.tt, []) := by
  cases p <;> law_unfold

theorem C13_negate_or (cfg : Cfg) (fnc : Nat → V → Bool) (n : Nat) (p : Pred V) (h : p.isAtom = true) :
    optimizeT cfg fnc (n + 3) (.or (negate p) p) = some (.tt, []) := by
  cases p <;> law_unfold

theorem C13_xor_not (cfg : Cfg) (fnc : Nat → V → Bool) (n : Nat) (p : Pred V) (h : p.isAtom = true) :
    optimizeT cfg fnc (n + 3) (.xor p (.not p)) = some (.tt, []) := by
  cases p <;> law_unfold

theorem C13_xor_negate (cfg : Cfg) (fnc : Nat → V → Bool) (n : Nat) (p : Pred V) (h : p.isAtom = true) :
    optimizeT cfg fnc (n + 3) (.xor p (negate p)) = some (.tt, []) := by
  cases p <;> law_unfold

theorem C13_negate_xor (cfg : Cfg) (fnc : Nat → V → Bool) (n : Nat) (p : Pred V) (h : p.isAtom = true) :
    optimizeT cfg fnc (n + 3) (.xor (negate p) p) = some (.tt, []) := by
  cases p <;> law_unfold

theorem C13_not_not (cfg : Cfg) (fnc : Nat → V → Bool) (n : Nat) (p : Pred V) (h : p.isAtom = true) :
    optimizeT cfg fnc (n + 3) (.not (.not p)) = some (atomOpt p, []) := by
  have F := atomFacts cfg fnc n p h
  show step cfg fnc (optimizeT cfg fnc (n + 2)) _ = _
  simp [step, stepNot, F.r2]

/-! ### laws that go through the optimised operands -/

theorem optimizeT_tt (cfg : Cfg) (fnc : Nat → V → Bool) (n : Nat) :
    optimizeT cfg fnc (n + 1) (.tt : Pred V) = some (.tt, []) := rfl
theorem optimizeT_ff (cfg : Cfg) (fnc : Nat → V → Bool) (n : Nat) :
    optimizeT cfg fnc (n + 1) (.ff : Pred V) = some (.ff, []) := rfl

theorem optimizeT_not_tt (cfg : Cfg) (fnc : Nat → V → Bool) (n : Nat) :
    optimizeT cfg fnc (n + 2) (.not .tt : Pred V) = some (.ff, []) := rfl
theorem optimizeT_not_ff (cfg : Cfg) (fnc : Nat → V → Bool) (n : Nat) :
    optimizeT cfg fnc (n + 2) (.not .ff : Pred V) = some (.tt, []) := rfl

macro "law_defs" : tactic =>
  `(tactic| simp_all [andRulesA, andRulesB,
      orRulesA, orRulesB, orAndAnd, xorNot, xorAnd, xorOrRule, xorOrSide, xorOrMk, orElse, containsNegAnd, containsNegOr,
      Pred.isOr, Pred.isAtom, negate, implies, Pred.beq, bindR, ret, retQ, beq_refl, notPost, lt_irrefl, diff_self, inter_self,
      union_self, optimizeT_tt, optimizeT_ff, optimizeT_not_tt, optimizeT_not_ff])

theorem C13_not_and (cfg : Cfg) (fnc : Nat → V → Bool) (n : Nat) (p : Pred V) (h : p.isAtom = true) :
    optimizeT cfg fnc (n + 3) (.and (.not p) p) = some (.ff, []) := by
  cases p
  case isin s =>
    have F := atomFacts cfg fnc n (.isin s) rfl
    have hrno := F.rno
    have hro := F.ro
    simp only [atomOpt] at hrno hro
    show step cfg fnc (optimizeT cfg fnc (n + 2)) _ = _
    simp only [step, stepAnd, stepOr, stepXor, stepNot, andPre, xorNot, Pred.isOr, Pred.beq, negate, Bool.false_eq_true, if_false,
      andPhase2, F.rn, F.r2, optimizeT_tt, optimizeT_ff, bindR, atomOpt, ite_false]
    rcases optIn_cases s with h' | ⟨a, h'⟩ | h' <;> simp only [h'] at hrno hro ⊢ <;> law_defs
  case notin s =>
    have F := atomFacts cfg fnc n (.notin s) rfl
    have hrno := F.rno
    have hro := F.ro
    simp only [atomOpt] at hrno hro
    show step cfg fnc (optimizeT cfg fnc (n + 2)) _ = _
    simp only [step, stepAnd, stepOr, stepXor, stepNot, andPre, xorNot, Pred.isOr, Pred.beq, negate, Bool.false_eq_true, if_false,
      andPhase2, F.rn, F.r2, optimizeT_tt, optimizeT_ff, bindR, atomOpt, ite_false]
    rcases optNotIn_cases s with h' | ⟨a, h'⟩ | h' <;> simp only [h'] at hrno hro ⊢ <;> law_defs
  all_goals law_unfold

theorem C13_not_or (cfg : Cfg) (fnc : Nat → V → Bool) (n : Nat) (p : Pred V) (h : p.isAtom = true) :
    optimizeT cfg fnc (n + 3) (.or (.not p) p) = some (.tt, []) := by
  cases p
  case isin s =>
    have F := atomFacts cfg fnc n (.isin s) rfl
    have hrno := F.rno
    have hro := F.ro
    simp only [atomOpt] at hrno hro
    show step cfg fnc (optimizeT cfg fnc (n + 2)) _ = _
    simp only [step, stepAnd, stepOr, stepXor, stepNot, andPre, xorNot, Pred.isOr, Pred.beq, negate, Bool.false_eq_true, if_false,
      andPhase2, F.rn, F.r2, optimizeT_tt, optimizeT_ff, bindR, atomOpt, ite_false]
    rcases optIn_cases s with h' | ⟨a, h'⟩ | h' <;> simp only [h'] at hrno hro ⊢ <;> law_defs
  case notin s =>
    have F := atomFacts cfg fnc n (.notin s) rfl
    have hrno := F.rno
    have hro := F.ro
    simp only [atomOpt] at hrno hro
    show step cfg fnc (optimizeT cfg fnc (n + 2)) _ = _
    simp only [step, stepAnd, stepOr, stepXor, stepNot, andPre, xorNot, Pred.isOr, Pred.beq, negate, Bool.false_eq_true, if_false,
      andPhase2, F.rn, F.r2, optimizeT_tt, optimizeT_ff, bindR, atomOpt, ite_false]
    rcases optNotIn_cases s with h' | ⟨a, h'⟩ | h' <;> simp only [h'] at hrno hro ⊢ <;> law_defs
  all_goals law_unfold

theorem C13_not_xor (cfg : Cfg) (fnc : Nat → V → Bool) (n : Nat) (p : Pred V) (h : p.isAtom = true) :
    optimizeT cfg fnc (n + 3) (.xor (.not p) p) = some (.tt, []) := by
  cases p
  case isin s =>
    have F := atomFacts cfg fnc n (.isin s) rfl
    have hrno := F.rno
    have hro := F.ro
    simp only [atomOpt] at hrno hro
    show step cfg fnc (optimizeT cfg fnc (n + 2)) _ = _
    simp only [step, stepAnd, stepOr, stepXor, stepNot, andPre, xorNot, Pred.isOr, Pred.beq, negate, Bool.false_eq_true, if_false,
      andPhase2, F.rn, F.r2, optimizeT_tt, optimizeT_ff, bindR, atomOpt, ite_false]
    rcases optIn_cases s with h' | ⟨a, h'⟩ | h' <;> simp only [h'] at hrno hro ⊢ <;> law_defs
  case notin s =>
    have F := atomFacts cfg fnc n (.notin s) rfl
    have hrno := F.rno
    have hro := F.ro
    simp only [atomOpt] at hrno hro
    show step cfg fnc (optimizeT cfg fnc (n + 2)) _ = _
    simp only [step, stepAnd, stepOr, stepXor, stepNot, andPre, xorNot, Pred.isOr, Pred.beq, negate, Bool.false_eq_true, if_false,
      andPhase2, F.rn, F.r2, optimizeT_tt, optimizeT_ff, bindR, atomOpt, ite_false]
    rcases optNotIn_cases s with h' | ⟨a, h'⟩ | h' <;> simp only [h'] at hrno hro ⊢ <;> law_defs
  all_goals law_unfold

theorem C13_xor_self (cfg : Cfg) (fnc : Nat → V → Bool) (n : Nat) (p : Pred V) (h : p.isAtom = true) :
    optimizeT cfg fnc (n + 3) (.xor p p) = some (.ff, []) := by
  cases p
  case isin s =>
    have F := atomFacts cfg fnc n (.isin s) rfl
    have hrno := F.rno
    have hro := F.ro
    simp only [atomOpt] at hrno hro
    show step cfg fnc (optimizeT cfg fnc (n + 2)) _ = _
    simp only [step, stepAnd, stepOr, stepXor, stepNot, andPre, xorNot, Pred.isOr, Pred.beq, negate, Bool.false_eq_true, if_false,
      andPhase2, F.rn, F.r2, optimizeT_tt, optimizeT_ff, bindR, atomOpt, ite_false]
    rcases optIn_cases s with h' | ⟨a, h'⟩ | h' <;> simp only [h'] at hrno hro ⊢ <;> law_defs
  case notin s =>
    have F := atomFacts cfg fnc n (.notin s) rfl
    have hrno := F.rno
    have hro := F.ro
    simp only [atomOpt] at hrno hro
    show step cfg fnc (optimizeT cfg fnc (n + 2)) _ = _
    simp only [step, stepAnd, stepOr, stepXor, stepNot, andPre, xorNot, Pred.isOr, Pred.beq, negate, Bool.false_eq_true, if_false,
      andPhase2, F.rn, F.r2, optimizeT_tt, optimizeT_ff, bindR, atomOpt, ite_false]
    rcases optNotIn_cases s with h' | ⟨a, h'⟩ | h' <;> simp only [h'] at hrno hro ⊢ <;> law_defs
  all_goals law_unfold

theorem C13_or_self (cfg : Cfg) (fnc : Nat → V → Bool) (n : Nat) (p : Pred V) (h : p.isAtom = true) :
    optimizeT cfg fnc (n + 3) (.or p p) = some (atomOpt p, []) := by
  cases p
  case isin s =>
    have F := atomFacts cfg fnc n (.isin s) rfl
    have hrno := F.rno
    have hro := F.ro
    simp only [atomOpt] at hrno hro
    show step cfg fnc (optimizeT cfg fnc (n + 2)) _ = _
    simp only [step, stepAnd, stepOr, stepXor, stepNot, andPre, xorNot, Pred.isOr, Pred.beq, negate, Bool.false_eq_true, if_false,
      andPhase2, F.rn, F.r2, optimizeT_tt, optimizeT_ff, bindR, atomOpt, ite_false]
    rcases optIn_cases s with h' | ⟨a, h'⟩ | h' <;> simp only [h'] at hrno hro ⊢ <;> law_defs
  case notin s =>
    have F := atomFacts cfg fnc n (.notin s) rfl
    have hrno := F.rno
    have hro := F.ro
    simp only [atomOpt] at hrno hro
    show step cfg fnc (optimizeT cfg fnc (n + 2)) _ = _
    simp only [step, stepAnd, stepOr, stepXor, stepNot, andPre, xorNot, Pred.isOr, Pred.beq, negate, Bool.false_eq_true, if_false,
      andPhase2, F.rn, F.r2, optimizeT_tt, optimizeT_ff, bindR, atomOpt, ite_false]
    rcases optNotIn_cases s with h' | ⟨a, h'⟩ | h' <;> simp only [h'] at hrno hro ⊢ <;> law_defs
  all_goals law_unfold

theorem C13_and_true (cfg : Cfg) (fnc : Nat → V → Bool) (n : Nat) (p : Pred V) (h : p.isAtom = true) :
    optimizeT cfg fnc (n + 3) (.and p .tt) = some (atomOpt p, []) := by
  cases p
  case isin s =>
    have F := atomFacts cfg fnc n (.isin s) rfl
    have hrno := F.rno
    have hro := F.ro
    simp only [atomOpt] at hrno hro
    show step cfg fnc (optimizeT cfg fnc (n + 2)) _ = _
    simp only [step, stepAnd, stepOr, stepXor, stepNot, andPre, xorNot, Pred.isOr, Pred.beq, negate, Bool.false_eq_true, if_false,
      andPhase2, F.rn, F.r2, optimizeT_tt, optimizeT_ff, bindR, atomOpt, ite_false]
    rcases optIn_cases s with h' | ⟨a, h'⟩ | h' <;> simp only [h'] at hrno hro ⊢ <;> law_defs
  case notin s =>
    have F := atomFacts cfg fnc n (.notin s) rfl
    have hrno := F.rno
    have hro := F.ro
    simp only [atomOpt] at hrno hro
    show step cfg fnc (optimizeT cfg fnc (n + 2)) _ = _
    simp only [step, stepAnd, stepOr, stepXor, stepNot, andPre, xorNot, Pred.isOr, Pred.beq, negate, Bool.false_eq_true, if_false,
      andPhase2, F.rn, F.r2, optimizeT_tt, optimizeT_ff, bindR, atomOpt, ite_false]
    rcases optNotIn_cases s with h' | ⟨a, h'⟩ | h' <;> simp only [h'] at hrno hro ⊢ <;> law_defs
  all_goals law_unfold

theorem C13_true_and (cfg : Cfg) (fnc : Nat → V → Bool) (n : Nat) (p : Pred V) (h : p.isAtom = true) :
    optimizeT cfg fnc (n + 3) (.and .tt p) = some (atomOpt p, []) := by
  cases p
  case isin s =>
    have F := atomFacts cfg fnc n (.isin s) rfl
    have hrno := F.rno
    have hro := F.ro
    simp only [atomOpt] at hrno hro
    show step cfg fnc (optimizeT cfg fnc (n + 2)) _ = _
    simp only [step, stepAnd, stepOr, stepXor, stepNot, andPre, xorNot, Pred.isOr, Pred.beq, negate, Bool.false_eq_true, if_false,
      andPhase2, F.rn, F.r2, optimizeT_tt, optimizeT_ff, bindR, atomOpt, ite_false]
    rcases optIn_cases s with h' | ⟨a, h'⟩ | h' <;> simp only [h'] at hrno hro ⊢ <;> law_defs
  case notin s =>
    have F := atomFacts cfg fnc n (.notin s) rfl
    have hrno := F.rno
    have hro := F.ro
    simp only [atomOpt] at hrno hro
    show step cfg fnc (optimizeT cfg fnc (n + 2)) _ = _
    simp only [step, stepAnd, stepOr, stepXor, stepNot, andPre, xorNot, Pred.isOr, Pred.beq, negate, Bool.false_eq_true, if_false,
      andPhase2, F.rn, F.r2, optimizeT_tt, optimizeT_ff, bindR, atomOpt, ite_false]
    rcases optNotIn_cases s with h' | ⟨a, h'⟩ | h' <;> simp only [h'] at hrno hro ⊢ <;> law_defs
  all_goals law_unfold

theorem C13_or_false (cfg : Cfg) (fnc : Nat → V → Bool) (n : Nat) (p : Pred V) (h : p.isAtom = true) :
    optimizeT cfg fnc (n + 3) (.or p .ff) = some (atomOpt p, []) := by
  cases p
  case isin s =>
    have F := atomFacts cfg fnc n (.isin s) rfl
    have hrno := F.rno
    have hro := F.ro
    simp only [atomOpt] at hrno hro
    show step cfg fnc (optimizeT cfg fnc (n + 2)) _ = _
    simp only [step, stepAnd, stepOr, stepXor, stepNot, andPre, xorNot, Pred.isOr, Pred.beq, negate, Bool.false_eq_true, if_false,
      andPhase2, F.rn, F.r2, optimizeT_tt, optimizeT_ff, bindR, atomOpt, ite_false]
    rcases optIn_cases s with h' | ⟨a, h'⟩ | h' <;> simp only [h'] at hrno hro ⊢ <;> law_defs
  case notin s =>
    have F := atomFacts cfg fnc n (.notin s) rfl
    have hrno := F.rno
    have hro := F.ro
    simp only [atomOpt] at hrno hro
    show step cfg fnc (optimizeT cfg fnc (n + 2)) _ = _
    simp only [step, stepAnd, stepOr, stepXor, stepNot, andPre, xorNot, Pred.isOr, Pred.beq, negate, Bool.false_eq_true, if_false,
      andPhase2, F.rn, F.r2, optimizeT_tt, optimizeT_ff, bindR, atomOpt, ite_false]
    rcases optNotIn_cases s with h' | ⟨a, h'⟩ | h' <;> simp only [h'] at hrno hro ⊢ <;> law_defs
  all_goals law_unfold

theorem C13_false_or (cfg : Cfg) (fnc : Nat → V → Bool) (n : Nat) (p : Pred V) (h : p.isAtom = true) :
    optimizeT cfg fnc (n + 3) (.or .ff p) = some (atomOpt p, []) := by
  cases p
  case isin s =>
    have F := atomFacts cfg fnc n (.isin s) rfl
    have hrno := F.rno
    have hro := F.ro
    simp only [atomOpt] at hrno hro
    show step cfg fnc (optimizeT cfg fnc (n + 2)) _ = _
    simp only [step, stepAnd, stepOr, stepXor, stepNot, andPre, xorNot, Pred.isOr, Pred.beq, negate, Bool.false_eq_true, if_false,
      andPhase2, F.rn, F.r2, optimizeT_tt, optimizeT_ff, bindR, atomOpt, ite_false]
    rcases optIn_cases s with h' | ⟨a, h'⟩ | h' <;> simp only [h'] at hrno hro ⊢ <;> law_defs
  case notin s =>
    have F := atomFacts cfg fnc n (.notin s) rfl
    have hrno := F.rno
    have hro := F.ro
    simp only [atomOpt] at hrno hro
    show step cfg fnc (optimizeT cfg fnc (n + 2)) _ = _
    simp only [step, stepAnd, stepOr, stepXor, stepNot, andPre, xorNot, Pred.isOr, Pred.beq, negate, Bool.false_eq_true, if_false,
      andPhase2, F.rn, F.r2, optimizeT_tt, optimizeT_ff, bindR, atomOpt, ite_false]
    rcases optNotIn_cases s with h' | ⟨a, h'⟩ | h' <;> simp only [h'] at hrno hro ⊢ <;> law_defs
  all_goals law_unfold

theorem C13_xor_false (cfg : Cfg) (fnc : Nat → V → Bool) (n : Nat) (p : Pred V) (h : p.isAtom = true) :
    optimizeT cfg fnc (n + 3) (.xor p .ff) = some (atomOpt p, []) := by
  cases p
  case isin s =>
    have F := atomFacts cfg fnc n (.isin s) rfl
    have hrno := F.rno
    have hro := F.ro
    simp only [atomOpt] at hrno hro
    show step cfg fnc (optimizeT cfg fnc (n + 2)) _ = _
    simp only [step, stepAnd, stepOr, stepXor, stepNot, andPre, xorNot, Pred.isOr, Pred.beq, negate, Bool.false_eq_true, if_false,
      andPhase2, F.rn, F.r2, optimizeT_tt, optimizeT_ff, bindR, atomOpt, ite_false]
    rcases optIn_cases s with h' | ⟨a, h'⟩ | h' <;> simp only [h'] at hrno hro ⊢ <;> law_defs
  case notin s =>
    have F := atomFacts cfg fnc n (.notin s) rfl
    have hrno := F.rno
    have hro := F.ro
    simp only [atomOpt] at hrno hro
    show step cfg fnc (optimizeT cfg fnc (n + 2)) _ = _
    simp only [step, stepAnd, stepOr, stepXor, stepNot, andPre, xorNot, Pred.isOr, Pred.beq, negate, Bool.false_eq_true, if_false,
      andPhase2, F.rn, F.r2, optimizeT_tt, optimizeT_ff, bindR, atomOpt, ite_false]
    rcases optNotIn_cases s with h' | ⟨a, h'⟩ | h' <;> simp only [h'] at hrno hro ⊢ <;> law_defs
  all_goals law_unfold

theorem C13_false_xor (cfg : Cfg) (fnc : Nat → V → Bool) (n : Nat) (p : Pred V) (h : p.isAtom = true) :
    optimizeT cfg fnc (n + 3) (.xor .ff p) = some (atomOpt p, []) := by
  cases p
  case isin s =>
    have F := atomFacts cfg fnc n (.isin s) rfl
    have hrno := F.rno
    have hro := F.ro
    simp only [atomOpt] at hrno hro
    show step cfg fnc (optimizeT cfg fnc (n + 2)) _ = _
    simp only [step, stepAnd, stepOr, stepXor, stepNot, andPre, xorNot, Pred.isOr, Pred.beq, negate, Bool.false_eq_true, if_false,
      andPhase2, F.rn, F.r2, optimizeT_tt, optimizeT_ff, bindR, atomOpt, ite_false]
    rcases optIn_cases s with h' | ⟨a, h'⟩ | h' <;> simp only [h'] at hrno hro ⊢ <;> law_defs
  case notin s =>
    have F := atomFacts cfg fnc n (.notin s) rfl
    have hrno := F.rno
    have hro := F.ro
    simp only [atomOpt] at hrno hro
    show step cfg fnc (optimizeT cfg fnc (n + 2)) _ = _
    simp only [step, stepAnd, stepOr, stepXor, stepNot, andPre, xorNot, Pred.isOr, Pred.beq, negate, Bool.false_eq_true, if_false,
      andPhase2, F.rn, F.r2, optimizeT_tt, optimizeT_ff, bindR, atomOpt, ite_false]
    rcases optNotIn_cases s with h' | ⟨a, h'⟩ | h' <;> simp only [h'] at hrno hro ⊢ <;> law_defs
  all_goals law_unfold

theorem C13_and_false (cfg : Cfg) (fnc : Nat → V → Bool) (n : Nat) (p : Pred V) (h : p.isAtom = true) :
    optimizeT cfg fnc (n + 3) (.and p .ff) = some (.ff, []) := by
  cases p
  case isin s =>
    have F := atomFacts cfg fnc n (.isin s) rfl
    have hrno := F.rno
    have hro := F.ro
    simp only [atomOpt] at hrno hro
    show step cfg fnc (optimizeT cfg fnc (n + 2)) _ = _
    simp only [step, stepAnd, stepOr, stepXor, stepNot, andPre, xorNot, Pred.isOr, Pred.beq, negate, Bool.false_eq_true, if_false,
      andPhase2, F.rn, F.r2, optimizeT_tt, optimizeT_ff, bindR, atomOpt, ite_false]
    rcases optIn_cases s with h' | ⟨a, h'⟩ | h' <;> simp only [h'] at hrno hro ⊢ <;> law_defs
  case notin s =>
    have F := atomFacts cfg fnc n (.notin s) rfl
    have hrno := F.rno
    have hro := F.ro
    simp only [atomOpt] at hrno hro
    show step cfg fnc (optimizeT cfg fnc (n + 2)) _ = _
    simp only [step, stepAnd, stepOr, stepXor, stepNot, andPre, xorNot, Pred.isOr, Pred.beq, negate, Bool.false_eq_true, if_false,
      andPhase2, F.rn, F.r2, optimizeT_tt, optimizeT_ff, bindR, atomOpt, ite_false]
    rcases optNotIn_cases s with h' | ⟨a, h'⟩ | h' <;> simp only [h'] at hrno hro ⊢ <;> law_defs
  all_goals law_unfold

theorem C13_false_and (cfg : Cfg) (fnc : Nat → V → Bool) (n : Nat) (p : Pred V) (h : p.isAtom = true) :
    optimizeT cfg fnc (n + 3) (.and .ff p) = some (.ff, []) := by
  cases p
  case isin s =>
    have F := atomFacts cfg fnc n (.isin s) rfl
    have hrno := F.rno
    have hro := F.ro
    simp only [atomOpt] at hrno hro
    show step cfg fnc (optimizeT cfg fnc (n + 2)) _ = _
    simp only [step, stepAnd, stepOr, stepXor, stepNot, andPre, xorNot, Pred.isOr, Pred.beq, negate, Bool.false_eq_true, if_false,
      andPhase2, F.rn, F.r2, optimizeT_tt, optimizeT_ff, bindR, atomOpt, ite_false]
    rcases optIn_cases s with h' | ⟨a, h'⟩ | h' <;> simp only [h'] at hrno hro ⊢ <;> law_defs
  case notin s =>
    have F := atomFacts cfg fnc n (.notin s) rfl
    have hrno := F.rno
    have hro := F.ro
    simp only [atomOpt] at hrno hro
    show step cfg fnc (optimizeT cfg fnc (n + 2)) _ = _
    simp only [step, stepAnd, stepOr, stepXor, stepNot, andPre, xorNot, Pred.isOr, Pred.beq, negate, Bool.false_eq_true, if_false,
      andPhase2, F.rn, F.r2, optimizeT_tt, optimizeT_ff, bindR, atomOpt, ite_false]
    rcases optNotIn_cases s with h' | ⟨a, h'⟩ | h' <;> simp only [h'] at hrno hro ⊢ <;> law_defs
  all_goals law_unfold

theorem C13_or_true (cfg : Cfg) (fnc : Nat → V → Bool) (n : Nat) (p : Pred V) (h : p.isAtom = true) :
    optimizeT cfg fnc (n + 3) (.or p .tt) = some (.tt, []) := by
  cases p
  case isin s =>
    have F := atomFacts cfg fnc n (.isin s) rfl
    have hrno := F.rno
    have hro := F.ro
    simp only [atomOpt] at hrno hro
    show step cfg fnc (optimizeT cfg fnc (n + 2)) _ = _
    simp only [step, stepAnd, stepOr, stepXor, stepNot, andPre, xorNot, Pred.isOr, Pred.beq, negate, Bool.false_eq_true, if_false,
      andPhase2, F.rn, F.r2, optimizeT_tt, optimizeT_ff, bindR, atomOpt, ite_false]
    rcases optIn_cases s with h' | ⟨a, h'⟩ | h' <;> simp only [h'] at hrno hro ⊢ <;> law_defs
  case notin s =>
    have F := atomFacts cfg fnc n (.notin s) rfl
    have hrno := F.rno
    have hro := F.ro
    simp only [atomOpt] at hrno hro
    show step cfg fnc (optimizeT cfg fnc (n + 2)) _ = _
    simp only [step, stepAnd, stepOr, stepXor, stepNot, andPre, xorNot, Pred.isOr, Pred.beq, negate, Bool.false_eq_true, if_false,
      andPhase2, F.rn, F.r2, optimizeT_tt, optimizeT_ff, bindR, atomOpt, ite_false]
    rcases optNotIn_cases s with h' | ⟨a, h'⟩ | h' <;> simp only [h'] at hrno hro ⊢ <;> law_defs
  all_goals law_unfold

theorem C13_true_or (cfg : Cfg) (fnc : Nat → V → Bool) (n : Nat) (p : Pred V) (h : p.isAtom = true) :
    optimizeT cfg fnc (n + 3) (.or .tt p) = some (.tt, []) := by
  cases p
  case isin s =>
    have F := atomFacts cfg fnc n (.isin s) rfl
    have hrno := F.rno
    have hro := F.ro
    simp only [atomOpt] at hrno hro
    show step cfg fnc (optimizeT cfg fnc (n + 2)) _ = _
    simp only [step, stepAnd, stepOr, stepXor, stepNot, andPre, xorNot, Pred.isOr, Pred.beq, negate, Bool.false_eq_true, if_false,
      andPhase2, F.rn, F.r2, optimizeT_tt, optimizeT_ff, bindR, atomOpt, ite_false]
    rcases optIn_cases s with h' | ⟨a, h'⟩ | h' <;> simp only [h'] at hrno hro ⊢ <;> law_defs
  case notin s =>
    have F := atomFacts cfg fnc n (.notin s) rfl
    have hrno := F.rno
    have hro := F.ro
    simp only [atomOpt] at hrno hro
    show step cfg fnc (optimizeT cfg fnc (n + 2)) _ = _
    simp only [step, stepAnd, stepOr, stepXor, stepNot, andPre, xorNot, Pred.isOr, Pred.beq, negate, Bool.false_eq_true, if_false,
      andPhase2, F.rn, F.r2, optimizeT_tt, optimizeT_ff, bindR, atomOpt, ite_false]
    rcases optNotIn_cases s with h' | ⟨a, h'⟩ | h' <;> simp only [h'] at hrno hro ⊢ <;> law_defs
  all_goals law_unfold

/-- `p ^ true` is `optimize(~p)` (`optimizeT_not_atom`: that is `negate (atomOpt p)`). -/
theorem C13_xor_true (cfg : Cfg) (fnc : Nat → V → Bool) (n : Nat) (p : Pred V) (h : p.isAtom = true) :
    optimizeT cfg fnc (n + 3) (.xor p .tt) = some (negate (atomOpt p), []) := by
  cases p
  case isin s =>
    have F := atomFacts cfg fnc n (.isin s) rfl
    have hrno := F.rno
    have hro := F.ro
    simp only [atomOpt] at hrno hro
    show step cfg fnc (optimizeT cfg fnc (n + 2)) _ = _
    simp only [step, stepAnd, stepOr, stepXor, stepNot, andPre, xorNot, Pred.isOr, Pred.beq, negate, Bool.false_eq_true, if_false,
      andPhase2, F.rn, F.r2, optimizeT_tt, optimizeT_ff, bindR, atomOpt, ite_false]
    rcases optIn_cases s with h' | ⟨a, h'⟩ | h' <;> simp only [h'] at hrno hro ⊢ <;> law_defs
  case notin s =>
    have F := atomFacts cfg fnc n (.notin s) rfl
    have hrno := F.rno
    have hro := F.ro
    simp only [atomOpt] at hrno hro
    show step cfg fnc (optimizeT cfg fnc (n + 2)) _ = _
    simp only [step, stepAnd, stepOr, stepXor, stepNot, andPre, xorNot, Pred.isOr, Pred.beq, negate, Bool.false_eq_true, if_false,
      andPhase2, F.rn, F.r2, optimizeT_tt, optimizeT_ff, bindR, atomOpt, ite_false]
    rcases optNotIn_cases s with h' | ⟨a, h'⟩ | h' <;> simp only [h'] at hrno hro ⊢ <;> law_defs
  all_goals law_unfold

theorem C13_true_xor (cfg : Cfg) (fnc : Nat → V → Bool) (n : Nat) (p : Pred V) (h : p.isAtom = true) :
    optimizeT cfg fnc (n + 3) (.xor .tt p) = some (negate (atomOpt p), []) := by
  cases p
  case isin s =>
    have F := atomFacts cfg fnc n (.isin s) rfl
    have hrno := F.rno
    have hro := F.ro
    simp only [atomOpt] at hrno hro
    show step cfg fnc (optimizeT cfg fnc (n + 2)) _ = _
    simp only [step, stepAnd, stepOr, stepXor, stepNot, andPre, xorNot, Pred.isOr, Pred.beq, negate, Bool.false_eq_true, if_false,
      andPhase2, F.rn, F.r2, optimizeT_tt, optimizeT_ff, bindR, atomOpt, ite_false]
    rcases optIn_cases s with h' | ⟨a, h'⟩ | h' <;> simp only [h'] at hrno hro ⊢ <;> law_defs
  case notin s =>
    have F := atomFacts cfg fnc n (.notin s) rfl
    have hrno := F.rno
    have hro := F.ro
    simp only [atomOpt] at hrno hro
    show step cfg fnc (optimizeT cfg fnc (n + 2)) _ = _
    simp only [step, stepAnd, stepOr, stepXor, stepNot, andPre, xorNot, Pred.isOr, Pred.beq, negate, Bool.false_eq_true, if_false,
      andPhase2, F.rn, F.r2, optimizeT_tt, optimizeT_ff, bindR, atomOpt, ite_false]
    rcases optNotIn_cases s with h' | ⟨a, h'⟩ | h' <;> simp only [h'] at hrno hro ⊢ <;> law_defs
  all_goals law_unfold

/-- `p & p` — for every configuration whose subset arm is not the implemented one (K6). -/
theorem C13_and_self (cfg : Cfg) (fnc : Nat → V → Bool) (n : Nat) (p : Pred V) (h : p.isAtom = true)
    (hk : cfg .subsetEmpty ≠ .impl) :
    optimizeT cfg fnc (n + 3) (.and p p) = some (atomOpt p, []) := by
  cases p
  case isin s =>
    have F := atomFacts cfg fnc n (.isin s) rfl
    show step cfg fnc (optimizeT cfg fnc (n + 2)) _ = _
    simp only [step, stepAnd, stepOr, stepXor, stepNot, andPre, xorNot, Pred.isOr, Pred.beq, negate, Bool.false_eq_true, if_false,
      andPhase2, F.rn, F.r2, optimizeT_tt, optimizeT_ff, bindR, atomOpt, ite_false]
    rcases optIn_cases s with h' | ⟨a, h'⟩ | h'
    · simp only [h']; law_defs
    · simp only [h']; law_defs
    · have hs : s ≠ [] := by intro e; subst e; simp [optIn, dedup] at h'
      simp only [h']; law_defs
  case notin s =>
    have F := atomFacts cfg fnc n (.notin s) rfl
    show step cfg fnc (optimizeT cfg fnc (n + 2)) _ = _
    simp only [step, stepAnd, stepOr, stepXor, stepNot, andPre, xorNot, Pred.isOr, Pred.beq, negate, Bool.false_eq_true, if_false,
      andPhase2, F.rn, F.r2, optimizeT_tt, optimizeT_ff, bindR, atomOpt, ite_false]
    rcases optNotIn_cases s with h' | ⟨a, h'⟩ | h'
    · simp only [h']; law_defs
    · simp only [h']; law_defs
    · have hs : s ≠ [] := by intro e; subst e; simp [optNotIn, dedup] at h'
      simp only [h']; law_defs
  case subset s =>
    law_unfold
    rw [inter_self]
    by_cases hs : s = []
    · subst hs
      cases hm : cfg .subsetEmpty <;> simp_all
    · simp [hs]
  all_goals law_unfold

/-- K6: with the implemented arm the law fails for `p = is_subset_p(set())`. -/
theorem C13_witness_subsetEmpty :
    (optimizeT Cfg.allImpl (fun _ _ => false) 3 (.and (.subset ([] : List Int)) (.subset []))).map
      (fun r => (Pred.beq r.1 .ff, r.2)) = some (true, [.subsetEmpty]) := by decide

/-- Partial form for the code as it is (any configuration): every atom except the
empty-subset one. -/
theorem C13_and_self_partial (cfg : Cfg) (fnc : Nat → V → Bool) (n : Nat) (p : Pred V) (h : p.isAtom = true)
    (hp : ∀ s, p = .subset s → s ≠ []) :
    optimizeT cfg fnc (n + 3) (.and p p) = some (atomOpt p, []) := by
  cases p
  case isin s =>
    have F := atomFacts cfg fnc n (.isin s) rfl
    show step cfg fnc (optimizeT cfg fnc (n + 2)) _ = _
    simp only [step, stepAnd, stepOr, stepXor, stepNot, andPre, xorNot, Pred.isOr, Pred.beq, negate, Bool.false_eq_true, if_false,
      andPhase2, F.rn, F.r2, optimizeT_tt, optimizeT_ff, bindR, atomOpt, ite_false]
    rcases optIn_cases s with h' | ⟨a, h'⟩ | h'
    · simp only [h']; law_defs
    · simp only [h']; law_defs
    · have hs : s ≠ [] := by intro e; subst e; simp [optIn, dedup] at h'
      simp only [h']; law_defs
  case notin s =>
    have F := atomFacts cfg fnc n (.notin s) rfl
    show step cfg fnc (optimizeT cfg fnc (n + 2)) _ = _
    simp only [step, stepAnd, stepOr, stepXor, stepNot, andPre, xorNot, Pred.isOr, Pred.beq, negate, Bool.false_eq_true, if_false,
      andPhase2, F.rn, F.r2, optimizeT_tt, optimizeT_ff, bindR, atomOpt, ite_false]
    rcases optNotIn_cases s with h' | ⟨a, h'⟩ | h'
    · simp only [h']; law_defs
    · simp only [h']; law_defs
    · have hs : s ≠ [] := by intro e; subst e; simp [optNotIn, dedup] at h'
      simp only [h']; law_defs
  case subset s =>
    law_unfold
    rw [inter_self]
    simp_all
  all_goals law_unfold


/-! ### lifting to every larger fuel -/

theorem C13_any_fuel (cfg : Cfg) (fnc : Nat → V → Bool) {n m : Nat} {q : Pred V} {res : Pred V × List Quirk}
    (h : optimizeT cfg fnc (n + 3) q = some res) (hm : n + 3 ≤ m) : optimizeT cfg fnc m q = some res :=
  optimizeT_fuel_mono cfg fnc hm h

/-- Non-vacuity: the laws speak about real atoms of every family. -/
example : (Pred.eq (1 : Int)).isAtom = true ∧ (Pred.isin [1, 2] : Pred Int).isAtom = true ∧
    (Pred.leaf 3 [7] : Pred Int).isAtom = true ∧ (Pred.box 1 [0] (.kcons (.eq 1) .knil) : Pred Int).isAtom = true := by
  decide

end PyPred
