/-
C12, polynomial clause: the number of `optimize*` invocations of the optimizer model is bounded by a
polynomial — in fact a quadratic — in the size of the tree.  For every tree (all constructors,
quantifiers included), every constant type and every quirk configuration.

`cost cfg fnc n p` (Model/OptimizeCost.lean) is the length of the ticked trace: one entry per invocation
plus one per quirk arm fired in `impl` mode, so `invocations ≤ cost`.  `w` is the weighted size
(`size ≤ w ≤ 2 * size`, Lemmas/Weight.lean).

Proof (Lemmas/Poly*.lean): amortisation with the potential `M p = 3 * w p + X p`, `X p` = number of
`xor` nodes not of the final shape `non-conjunction ^ conjunction`.  Invariant of every answered call
(`Cst p o n`): there is `r ≥ 1` with `n ≤ 3 * w p * r` and `M o + r ≤ M p + 1` (`≤ M p` when exactly one of
`p`, `o` is a conjunction).  The arms that optimise *results* again (AND14, OR13, XOR3, XOR4, XOR9) each
release potential (a node disappears / an `xor` node reaches its final shape), which pays for the
re-optimisation at the rate `3 * w p` per unit.
-/
import PyPred.Lemmas.PolyMain
import PyPred.Lemmas.TerminatesFrag
import PyPred.Lemmas.PolyLower

set_option linter.unusedSectionVars false
set_option linter.unusedVariables false

namespace PyPred
variable {V : Type} [DecidableEq V] [LT V] [LE V] [DecidableLT V] [DecidableLE V]

/-- **Quadratic bound.**  At the fuel of the termination theorem the cost is defined and at most
`12 * w p ^ 2`. -/
theorem C12_cost_quadratic (cfg : Cfg) (fnc : Nat → V → Bool) (p : Pred V) :
    ∃ c, cost cfg fnc (μ p + 1) p = some c ∧ c ≤ 12 * (w p) ^ 2 :=
  cost_quadratic cfg fnc p

/-- The statement of the property: a polynomial bound with explicit constants, uniform in the
configuration, the interpretation of function atoms and the tree. -/
theorem C12_cost_polynomial :
    ∃ C k : Nat, ∀ (cfg : Cfg) (fnc : Nat → V → Bool) (p : Pred V),
      ∃ c, cost cfg fnc (μ p + 1) p = some c ∧ c ≤ C * (w p) ^ k :=
  ⟨12, 2, cost_quadratic⟩

/-- In the plain node count: at most `48 * size ^ 2`. -/
theorem C12_cost_quadratic_size (cfg : Cfg) (fnc : Nat → V → Bool) (p : Pred V) :
    ∃ c, cost cfg fnc (μ p + 1) p = some c ∧ c ≤ 48 * p.size ^ 2 := by
  obtain ⟨c, h, hc⟩ := cost_quadratic cfg fnc p
  refine ⟨c, h, Nat.le_trans hc ?_⟩
  have h2 : (w p) ^ 2 ≤ (2 * p.size) ^ 2 := Nat.pow_le_pow_left (w_le_two_size p) 2
  have h3 : (2 * p.size) ^ 2 = 4 * p.size ^ 2 := by rw [Nat.mul_pow]
  omega

/-- Whatever the fuel: whenever the cost is defined it obeys the bound. -/
theorem C12_cost_quadratic_any_fuel (cfg : Cfg) (fnc : Nat → V → Bool) {n : Nat} {p : Pred V} {c : Nat}
    (h : cost cfg fnc n p = some c) : c ≤ 12 * (w p) ^ 2 := by
  obtain ⟨c0, h0, hc⟩ := cost_quadratic cfg fnc p
  by_cases hn : n ≤ μ p + 1
  · have := cost_fuel_mono cfg fnc hn h
    rw [h0] at this; simp at this; omega
  · have := cost_fuel_mono cfg fnc (by omega : μ p + 1 ≤ n) h0
    rw [h] at this; simp at this; omega

/-- The exact number of invocations (`optimizeC`, the counter tied to the implementation's call
count) obeys the same bound. -/
theorem C12_invocations_quadratic (cfg : Cfg) (fnc : Nat → V → Bool) {n : Nat} {p o : Pred V} {k : Nat}
    (h : optimizeC cfg fnc n p = some (o, k)) : k ≤ 12 * (w p) ^ 2 := by
  unfold optimizeC at h
  split at h
  · rename_i o' tk _ tt hk _
    simp at h
    have : cost cfg fnc n p = some tk.length := by simp [cost, hk]
    have := C12_cost_quadratic_any_fuel cfg fnc this
    omega
  · simp at h

/-- **Amortised form.**  The cost is at most `3 * w p` per unit of potential released, plus one
round: an optimisation that releases no potential (`M o = M p`, e.g. a fixed point) is linear. -/
theorem C12_cost_potential (cfg : Cfg) (fnc : Nat → V → Bool) (p : Pred V) :
    ∃ o tr, optimizeK cfg fnc (μ p + 1) p = some (o, tr) ∧ w o ≤ w p ∧ M o ≤ M p ∧
      tr.length ≤ 3 * (w p * (M p + 1 - M o)) :=
  cost_le_potential cfg fnc p

/-- The potential is within `[3 w, 4 w]` and never increases. -/
theorem C12_potential_bounds (p : Pred V) : 3 * w p ≤ M p ∧ M p ≤ 4 * w p :=
  ⟨by unfold M; omega, M_le p⟩

/-- Re-optimising a fixed point is linear: if `optimize p = p` then the cost is at most `3 * w p`. -/
theorem C12_cost_linear_fixpoint (cfg : Cfg) (fnc : Nat → V → Bool) (p : Pred V)
    (hfix : optimize cfg fnc (μ p + 1) p = some p) :
    ∃ c, cost cfg fnc (μ p + 1) p = some c ∧ c ≤ 3 * w p := by
  obtain ⟨o, tr, h, _, _, hl⟩ := cost_le_potential cfg fnc p
  have h1 := optimizeK_fst cfg fnc (μ p + 1) p
  have h2 : (optimizeT cfg fnc (μ p + 1) p).map Prod.fst = some p := hfix
  rw [h2, h] at h1
  simp at h1
  subst h1
  refine ⟨tr.length, by simp [cost, h], ?_⟩
  have : M o + 1 - M o = 1 := by omega
  rw [this] at hl
  omega

/-- One invocation, given an oracle satisfying the invariant below `p`, satisfies it at `p`
(the induction step, exported: this is where every arm is accounted for). -/
theorem C12_step_invariant (cfg : Cfg) (fnc : Nat → V → Bool) {rec : Pred V → R V} {p : Pred V}
    (hrec : NiceC p rec) : AnsC (step cfg fnc rec p) (fun o n => Cst p o (n + 1)) :=
  step_cst cfg fnc hrec

/-! ### Quadratic is tight: an exact lower bound -/

/-- **Lower bound.**  The family `s_0 = all f_0`, `s_{k+1} = all f_{k+1} & all s_k` (`lbFam`, `f_i` function
atoms; AND14 fires at every level and re-optimises the whole optimised tail) has `4 k + 2` nodes, weight
`4 k + 2`, and costs exactly `3 k² + 10 k + 2` invocations — in every configuration, at every sufficient fuel;
no quirk arm fires (`optimizeC` is the exact invocation counter). -/
theorem C12_cost_lower_exact (cfg : Cfg) (fnc : Nat → V → Bool) (k : Nat) {N : Nat} (h : 2 * k + 3 ≤ N) :
    optimizeC cfg fnc N (lbFam k : Pred V) = some (.all (lbBody k), 3 * k * k + 10 * k + 2) ∧
    cost cfg fnc N (lbFam k : Pred V) = some (3 * k * k + 10 * k + 2) ∧
    w (lbFam k : Pred V) = 4 * k + 2 ∧ (lbFam k : Pred V).size = 4 * k + 2 := by
  refine ⟨?_, ?_, w_lbFam k, size_lbFam k⟩
  · simp [optimizeC, optK_fam cfg fnc k h, optT_fam cfg fnc k h, marks, lbCost]
  · simp [cost, optK_fam cfg fnc k h, marks, lbCost]

/-- Hence no bound `o(w²)` holds: on the family `16 * cost ≥ 3 * w²`, at the fuel of the upper-bound theorem. -/
theorem C12_cost_lower_quadratic (cfg : Cfg) (fnc : Nat → V → Bool) (k : Nat) :
    ∃ c, cost cfg fnc (μ (lbFam k : Pred V) + 1) (lbFam k) = some c ∧ 3 * (w (lbFam k : Pred V)) ^ 2 ≤ 16 * c ∧
      c ≤ 12 * (w (lbFam k : Pred V)) ^ 2 := by
  have hw := w_lbFam (V := V) k
  have hN : 2 * k + 3 ≤ μ (lbFam k : Pred V) + 1 := by unfold μ; omega
  obtain ⟨_, hc, _, _⟩ := C12_cost_lower_exact cfg fnc k hN
  refine ⟨_, hc, ?_, C12_cost_quadratic_any_fuel cfg fnc hc⟩
  rw [hw, Nat.pow_two]
  clear hN hc
  have : (4 * k + 2) * (4 * k + 2) = 16 * (k * k) + 16 * k + 4 := by nlinarith
  have h2 : 3 * k * k = 3 * (k * k) := Nat.mul_assoc 3 k k
  omega

/-! ### Non-vacuity, tightness -/

section Examples

/-- The family `t_k = (t_{k-1} & z_k) ^ y_k` (XOR9 swaps at every level and re-optimises both
optimised operands): in the configuration without the quirk arms the number of invocations is
`2 k² + 7 k + 1` for `w = 4 k + 1` — quadratic growth is real. -/
def xorFam : Nat → Pred Int
  | 0 => .var "x" true
  | k + 1 => .xor (.and (xorFam k) (.var s!"z{k}" true)) (.var s!"y{k}" true)

example : w (xorFam 1) = 5 ∧ w (xorFam 2) = 9 ∧ w (xorFam 3) = 13 ∧ w (xorFam 4) = 17 := by decide
example : (optimizeC Cfg.allOff (fun _ _ => false) 40 (xorFam 1)).map Prod.snd = some 10 := by decide
example : (optimizeC Cfg.allOff (fun _ _ => false) 40 (xorFam 2)).map Prod.snd = some 23 := by decide
example : (optimizeC Cfg.allOff (fun _ _ => false) 40 (xorFam 3)).map Prod.snd = some 40 := by decide
example : (optimizeC Cfg.allOff (fun _ _ => false) 40 (xorFam 4)).map Prod.snd = some 61 := by decide
/-- The potential of the family: every level carries an `xor` node in the shape that XOR9 swaps. -/
example : M (xorFam 3) = 3 * 13 + 3 := by decide
/-- AND14 (`all a & all b`): 12 ticked entries for `w = 5`, bound 300. -/
example : cost Cfg.allImpl (fun _ _ => false) 20
    (.and (.all (.var "a" true)) (.all (.var "b" true)) : Pred Int) = some 12 := by decide
/-- A leaf meets the amortised bound with equality up to the factor 3: cost 1, one round. -/
example : cost Cfg.allImpl (fun _ _ => false) 5 (.var "a" true : Pred Int) = some 1 := by decide

/-- A quadratic family of the implementation as it is (`Cfg.allImpl`), AND14 at every level:
`s_0 = all x_0`, `s_k = all x_k & all s_{k-1}`; `w = 4 k + 2`, invocations `3 k² + 10 k + 2`
(measured on the model and on the real code up to `k = 128`; here `k ≤ 4` by evaluation). -/
def allFam : Nat → Pred Int
  | 0 => .all (.var "x" true)
  | k + 1 => .and (.all (.var s!"x{k}" true)) (.all (allFam k))

example : w (allFam 1) = 6 ∧ w (allFam 2) = 10 ∧ w (allFam 3) = 14 ∧ w (allFam 4) = 18 := by decide
example : (optimizeC Cfg.allImpl (fun _ _ => false) 60 (allFam 1)).map Prod.snd = some 15 := by decide
example : (optimizeC Cfg.allImpl (fun _ _ => false) 60 (allFam 2)).map Prod.snd = some 34 := by decide
example : (optimizeC Cfg.allImpl (fun _ _ => false) 60 (allFam 3)).map Prod.snd = some 59 := by decide
example : (optimizeC Cfg.allImpl (fun _ _ => false) 60 (allFam 4)).map Prod.snd = some 90 := by decide

end Examples

end PyPred
