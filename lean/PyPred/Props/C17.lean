/-
C17  to_dot renders a graph isomorphic to the predicate tree, with truthful labels.

Model: `PyPred/Model/Dot.lean` (`render` = `to_value`, `cluster` = `render`, `toDot` =
`to_dot`).  `decode` reads a cluster back from its node table and its edges only.
`erase dc p` is `p` with what the labels do not show removed (the value of a
`NamedPredicate`, the functions of `comp`/`tee`; with the pinned `is_instance` arm
also all classes but the first).
-/
import PyPred.Lemmas.Dot
import PyPred.Lemmas.ClosureDot

namespace PyPred
namespace Dot

/-! ### One cluster: isomorphic to the tree -/

/-- The graph determines the tree: reading the cluster back from its nodes
(id, name, label) and its non-dashed edges (grouped by source, in emission order)
gives the predicate, operand order = edge order. -/
theorem C17_decode_render (dc : DCfg) (k : Nat) (p : Pred Int) (g : Graph) (k' : Nat)
    (h : render dc k p = .ok (g, k')) : decode g = some (erase dc p) :=
  decode_render h

/-- Node ids are exactly `k, k+1, …` in the order of allocation, and the counter
ends at `k + number of nodes`. -/
theorem C17_render_ids_fresh (dc : DCfg) (k : Nat) (p : Pred Int) (g : Graph) (k' : Nat)
    (h : render dc k p = .ok (g, k')) :
    g.nodes.map (·.id) = List.range' k g.nodes.length ∧ k' = k + g.nodes.length :=
  let r := rend_ids ((render_rend dc).1 k p g k' h)
  ⟨r.2, r.1⟩

/-- Exactly one node per sub-predicate, in pre-order, each recorded in
`node_predicate_mapping`; the only other nodes are one `kv` node per key/value
pair of a `DictOfPredicate` (`slots`). -/
theorem C17_one_node_per_subpredicate (dc : DCfg) (k : Nat) (p : Pred Int) (g : Graph) (k' : Nat)
    (h : render dc k p = .ok (g, k')) : g.nodes.map (·.pred) = slots p :=
  rend_slots ((render_rend dc).1 k p g k' h)

/-- The tree rendering emits no dashed edge, and every edge stays inside the id
range of its own rendering. -/
theorem C17_edges_in_cluster (dc : DCfg) (k : Nat) (p : Pred Int) (g : Graph) (k' : Nat)
    (h : render dc k p = .ok (g, k')) :
    ∀ e ∈ g.edges, e.style ≠ .dashed ∧ k ≤ e.src ∧ e.src < k' ∧ k ≤ e.dst ∧ e.dst < k' := by
  intro e he
  obtain ⟨h1, h2, h3, h4⟩ := rend_edges ((render_rend dc).1 k p g k' h) e he
  exact ⟨h1, h4.1, h4.2, h2, h3⟩

/-- One edge per parent–child link: a rendering with `n` nodes has `n - 1` edges. -/
theorem C17_edge_count (dc : DCfg) (k : Nat) (p : Pred Int) (g : Graph) (k' : Nat)
    (h : render dc k p = .ok (g, k')) : g.edges.length + 1 = g.nodes.length := by
  have hr := (render_rend dc).1 k p g k' h
  suffices H : ∀ m k p g k', Rend dc m k p g k' →
      match m with
      | .tree => g.edges.length + 1 = g.nodes.length
      | .pairs _ => g.edges.length = g.nodes.length from H _ _ _ _ _ hr
  intro m k p g k' hr
  induction hr with
  | leaf _ _ _ => simp
  | un mk _ _ _ _ ih => simp only at ih ⊢; simp; omega
  | bin mk _ _ _ _ _ ihl ihr => simp only at ihl ihr ⊢; simp; omega
  | dict _ ih => simp only at ih ⊢; simp; omega
  | nil => simp
  | cons _ _ _ ihk ihv ihr => simp only at ihk ihv ihr ⊢; simp; omega

/-! ### Labels -/

/-- A node without operands: its name and label determine the atom — operator,
constants, and for a range which bound is on which side and the sign of each end
(`parseAtom` accepts exactly one spelling per kind). -/
theorem C17_label_decodes (dc : DCfg) (k : Nat) (a : Pred Int) (g : Graph) (n : Node) (k' : Nat)
    (h : render dc k a = .ok (g, k')) (hn : g.nodes = [n]) (hd : n.kind ≠ .dictOf) :
    parseAtom n.kind n.label = some (erase dc a) := by
  have hr := (render_rend dc).1 k a _ k' h
  cases hr with
  | leaf hp _ _ => simp at hn; subst hn; exact hp
  | un mk hq _ _ _ =>
    have := rend_ids hq
    have hp := rend_tree_pos hq
    simp at hn
    rw [hn.2] at this; simp at this; omega
  | bin mk hl hr' _ _ _ =>
    have := rend_ids hl
    have hp := rend_tree_pos hl
    simp at hn
    rw [hn.2.1] at this; simp at this; omega
  | dict _ =>
    simp at hn
    exact absurd (hn.1 ▸ rfl) hd

/-- Left / right constant and strictness of each end, read off a range label. -/
def rangeView : Label → Option (Int × Bool × Bool × Int)
  | [.const l, .lit s, .const h] =>
    if s = " ≤ x ≤ " then some (l, false, false, h)
    else if s = " ≤ x < " then some (l, false, true, h)
    else if s = " < x ≤ " then some (l, true, false, h)
    else if s = " < x < " then some (l, true, true, h)
    else none
  | _ => none

def labelOf (r : Res) : Option Label :=
  match r with
  | .ok (⟨[n], _⟩, _) => some n.label
  | _ => none

/-- A range node shows its lower bound on the left, its upper bound on the right and
a strict / non-strict sign matching each end. -/
theorem C17_range_label (dc : DCfg) (k : Nat) (lo hi : Int) :
    (labelOf (render dc k (.gele lo hi))).bind rangeView = some (lo, false, false, hi) ∧
    (labelOf (render dc k (.gelt lo hi))).bind rangeView = some (lo, false, true, hi) ∧
    (labelOf (render dc k (.gtle lo hi))).bind rangeView = some (lo, true, false, hi) ∧
    (labelOf (render dc k (.gtlt lo hi))).bind rangeView = some (lo, true, true, hi) := by
  simp [render, single, labelOf, rangeView]

def rangeSem (v : Int × Bool × Bool × Int) (x : Int) : Bool :=
  (if v.2.1 then decide (v.1 < x) else decide (v.1 ≤ x)) && (if v.2.2.1 then decide (x < v.2.2.2) else decide (x ≤ v.2.2.2))

/-- … and what the label says is what the predicate computes on every scalar. -/
theorem C17_range_truthful (dc : DCfg) (I : Interp Int) (k : Nat) (a : Pred Int) (v : Int × Bool × Bool × Int)
    (ha : match a with | .gele _ _ | .gelt _ _ | .gtle _ _ | .gtlt _ _ => True | _ => False)
    (hv : (labelOf (render dc k a)).bind rangeView = some v) (ty : Nat) (x : Int) :
    eval I a (.sc ty x) = rangeSem v x := by
  cases a <;> simp at ha
  all_goals
    simp [render, single, labelOf, rangeView] at hv
    subst hv
    simp only [eval, onSc, rangeSem]
    rw [Bool.eq_iff_iff]
    simp

/-- The comparison atoms show their operator sign and constant. -/
theorem C17_comparison_labels (dc : DCfg) (k : Nat) (v : Int) :
    labelOf (render dc k (.eq v)) = some [.lit "x = ", .const v] ∧
    labelOf (render dc k (.ne v)) = some [.lit "x ≠ ", .const v] ∧
    labelOf (render dc k (.ge v)) = some [.lit "x ≥ ", .const v] ∧
    labelOf (render dc k (.gt v)) = some [.lit "x > ", .const v] ∧
    labelOf (render dc k (.le v)) = some [.lit "x ≤ ", .const v] ∧
    labelOf (render dc k (.lt v)) = some [.lit "x < ", .const v] := by
  simp [render, single, labelOf]

/-- The set atoms show their relation sign and their set; `not_in` differs from `in`
by the sign only (both nodes are named `in_<n>`). -/
theorem C17_set_labels (dc : DCfg) (k : Nat) (s : List Int) :
    labelOf (render dc k (.isin s)) = some [.lit "x ∈ ", .set s] ∧
    labelOf (render dc k (.notin s)) = some [.lit "x ∉ ", .set s] ∧
    labelOf (render dc k (.subset s)) = some [.lit "x ⊆ ", .set s] ∧
    labelOf (render dc k (.rsubset s)) = some [.lit "x ⊂ ", .set s] ∧
    labelOf (render dc k (.superset s)) = some [.lit "x ⊇ ", .set s] ∧
    labelOf (render dc k (.rsuperset s)) = some [.lit "x ⊃ ", .set s] := by
  simp [render, single, labelOf]

/-- With the repaired `is_instance` arm the label shows every class, in order. -/
theorem C17_instance_label (dc : DCfg) (hi : dc.instAll = true) (k : Nat) (ks : List Nat) :
    (labelOf (render dc k (.inst ks))).bind parseCls = some ks := by
  simp [render, instLabel, hi, single, labelOf, parseCls_instLabelAll]

/-- K9 (pinned arm): only the first class is shown — the label of
`is_instance_p(int, str)` is that of `is_int_p` — and an empty class tuple raises
`IndexError`, not `ValueError`. -/
theorem C17_instance_label_partial (k : Nat) (c : Nat) (ks : List Nat) :
    labelOf (render DCfg.pinned k (.inst (c :: ks))) = labelOf (render DCfg.pinned k (.inst [c])) := by
  simp [render, instLabel, DCfg.pinned, single, labelOf]

example : (labelOf (render DCfg.pinned 0 (.inst [1, 3]))).bind parseCls = some [1] := by decide
example : ∃ e, render DCfg.pinned 0 (.inst []) = .error e ∧ e = .indexError := ⟨_, rfl, rfl⟩

/-! ### Unknown kinds -/

/-- A predicate `to_dot` cannot render is reported with `ValueError`, never with
another exception (with the repaired `is_instance` arm). -/
theorem C17_unknown_kind_valueError (dc : DCfg) (hi : dc.instAll = true) (k : Nat) (p : Pred Int) (e : Err)
    (h : render dc k p = .error e) : e = .valueError :=
  (render_error dc hi).1 k p e h

/-- `render` succeeds exactly on the trees built from the kinds it lists. -/
theorem C17_supported_iff (dc : DCfg) (k : Nat) (p : Pred Int) :
    (∃ g k', render dc k p = .ok (g, k')) ↔ supported dc p = true := by
  have h := (render_ok_supported dc).1 k p
  constructor
  · rintro ⟨g, k', hr⟩
    rw [hr] at h; simpa [okB] using h.symm
  · intro hs
    rw [hs] at h
    cases hr : render dc k p with
    | ok r => exact ⟨r.1, r.2, rfl⟩
    | error e => rw [hr] at h; simp [okB] at h

/-- The opaque kinds of the wire format that `to_dot` does not list (has_key,
has_length, regex, property, factory; tuple_of, set_of). -/
example (dc : DCfg) (ps : List Int) :
    render dc 0 (.leaf 1 ps) = .error .valueError ∧ render dc 0 (.leaf 2 ps) = .error .valueError ∧
    render dc 0 (.leaf 3 ps) = .error .valueError ∧ render dc 0 (.leaf 8 ps) = .error .valueError ∧
    render dc 0 (.leaf 9 ps) = .error .valueError := by
  simp [render, leafNode, leafLazy, leafThis, leafRoot, leafTee]
example (dc : DCfg) (ps : List Int) (c : Pred Int) : render dc 0 (.box 2 ps c) = .error .valueError := by
  rw [render.eq_def]; simp [boxComp, boxDictOf]
example (dc : DCfg) (ps : List Int) (c : Pred Int) : render dc 0 (.box 3 ps c) = .error .valueError := by
  rw [render.eq_def]; simp [boxComp, boxDictOf]

/-! ### Clusters: `render(dot, predicate, node_nr)` and `to_dot` -/

/-- What a successfully rendered cluster is. -/
structure ClusterOK (dc : DCfg) (k : Nat) (p : Pred Int) (g : Graph) (k' : Nat) : Prop where
  /-- isomorphic to the tree (dashed edges are not part of the tree) -/
  decodes : decode g = some (erase dc p)
  ids : g.nodes.map (·.id) = List.range' k g.nodes.length
  counter : k' = k + g.nodes.length
  nodes : g.nodes.map (·.pred) = slots p
  /-- every edge, dashed ones included, joins two nodes of this cluster -/
  closed : ∀ e ∈ g.edges, k ≤ e.src ∧ e.src < k' ∧ k ≤ e.dst ∧ e.dst < k'
  /-- dashed edges only leave lazy / this / root nodes -/
  dashed : ∀ e ∈ g.edges, e.style = .dashed →
    ∃ n ∈ g.nodes, n.id = e.src ∧ ∃ q, n.pred = some q ∧ isRefLeaf q = true

theorem mem_mapping {g : Graph} {i : Nat} {q : Pred Int} (h : (i, q) ∈ mapping g) :
    ∃ n ∈ g.nodes, n.id = i ∧ n.pred = some q := by
  simp only [mapping, List.mem_filterMap] at h
  obtain ⟨n, hn, hm⟩ := h
  cases hp : n.pred with
  | none => simp [hp] at hm
  | some q' =>
    simp [hp] at hm
    exact ⟨n, hn, hm.1, by rw [hp, hm.2]⟩

theorem C17_cluster (dc : DCfg) (bound : List Int) (orig : Pred Int) (outer : List (Pred Int)) (k : Nat)
    (p : Pred Int) (g : Graph) (k' : Nat) (h : cluster dc bound orig outer k p = .ok (g, k')) :
    ClusterOK dc k p g k' := by
  unfold cluster at h
  split at h
  · simp at h
  · rename_i g0 k0 hr
    cases h
    have hR := (render_rend dc).1 k p g0 k' hr
    have hids := rend_ids hR
    have hspec := refLoop_spec bound orig (p :: outer) (mapping g0) ⟨none, none, none⟩ (mapping g0)
    have hdst : ∀ j, j ∈ (mapping g0).map (·.1) → k ≤ j ∧ j < k' := by
      intro j hj
      obtain ⟨⟨i, q⟩, hm, rfl⟩ := List.mem_map.1 hj
      obtain ⟨n, hn, hid, _⟩ := mem_mapping hm
      have : n.id ∈ List.range' k g0.nodes.length := by
        rw [← hids.2]; exact List.mem_map.2 ⟨n, hn, rfl⟩
      have := List.mem_range'_1.1 this
      simp only at hid ⊢
      omega
    refine ⟨decode_rend_ext hR _ (fun e he => (hspec e he).1), hids.2, hids.1, rend_slots hR, ?_, ?_⟩
    · intro e he
      simp only [List.mem_append] at he
      rcases he with he | he
      · obtain ⟨_, h2, h3, h4⟩ := rend_edges hR e he
        exact ⟨h4.1, h4.2, h2, h3⟩
      · obtain ⟨_, hd, q, hm, _⟩ := hspec e he
        have hs := hdst e.src (List.mem_map.2 ⟨(e.src, q), hm, rfl⟩)
        have hd' := hdst e.dst hd
        exact ⟨hs.1, hs.2, hd'.1, hd'.2⟩
    · intro e he hst
      simp only [List.mem_append] at he
      rcases he with he | he
      · exact absurd hst (rend_edges hR e he).1
      · obtain ⟨_, _, q, hm, hq⟩ := hspec e he
        obtain ⟨n, hn, hid, hp⟩ := mem_mapping hm
        exact ⟨n, hn, hid, q, hp, hq⟩

/-- `to_dot`: the first cluster renders `p` with ids from 0; with `show_optimized` a
second cluster renders `optimize p` in the same way with ids continuing where the
first stopped. -/
theorem C17_toDot (cfg : Cfg) (fnc : Nat → Int → Bool) (fuel : Nat) (dc : DCfg) (bound : List Int) (showOpt : Bool)
    (p : Pred Int) (gs : List Graph) (h : toDot cfg fnc fuel dc bound showOpt p = .ok gs) :
    ∃ g1 k1, ClusterOK dc 0 p g1 k1 ∧
      ((showOpt = false ∧ gs = [g1]) ∨
       (showOpt = true ∧ ∃ o g2 k2, optimize cfg fnc fuel p = some o ∧ gs = [g1, g2] ∧ ClusterOK dc k1 o g2 k2)) := by
  unfold toDot at h
  split at h
  · simp at h
  · rename_i g1 k1 h1
    refine ⟨g1, k1, C17_cluster _ _ _ _ _ _ _ _ h1, ?_⟩
    cases showOpt with
    | false => simp at h; exact Or.inl ⟨rfl, h.symm⟩
    | true =>
      simp only [if_true] at h
      split at h
      · simp at h
      · rename_i o ho
        split at h
        · simp at h
        · rename_i g2 k2 h2
          simp at h
          exact Or.inr ⟨rfl, o, g2, k2, ho, h.symm, C17_cluster _ _ _ _ _ _ _ _ h2⟩

/-- Node ids of the two clusters are disjoint. -/
theorem C17_clusters_disjoint (dc : DCfg) (p o : Pred Int) (g1 g2 : Graph) (k1 k2 : Nat)
    (h1 : ClusterOK dc 0 p g1 k1) (h2 : ClusterOK dc k1 o g2 k2) :
    ∀ a ∈ g1.nodes, ∀ b ∈ g2.nodes, a.id ≠ b.id := by
  intro a ha b hb
  have hA : a.id ∈ List.range' 0 g1.nodes.length := by rw [← h1.ids]; exact List.mem_map.2 ⟨a, ha, rfl⟩
  have hB : b.id ∈ List.range' k1 g2.nodes.length := by rw [← h2.ids]; exact List.mem_map.2 ⟨b, hb, rfl⟩
  have := List.mem_range'_1.1 hA
  have := List.mem_range'_1.1 hB
  have := h1.counter
  omega

/-- `to_dot` fails only with `ValueError` (repaired `is_instance` arm); `fuel` is the
model's own bound on `optimize`. -/
theorem C17_toDot_error (cfg : Cfg) (fnc : Nat → Int → Bool) (fuel : Nat) (dc : DCfg) (hi : dc.instAll = true)
    (bound : List Int) (showOpt : Bool) (p : Pred Int) (e : Err)
    (h : toDot cfg fnc fuel dc bound showOpt p = .error e) : e = .valueError ∨ e = .fuel := by
  have hc : ∀ orig outer k q e, cluster dc bound orig outer k q = .error e → e = .valueError := by
    intro orig outer k q e hc
    unfold cluster at hc
    split at hc
    · rename_i e' hr
      simp at hc; subst hc
      exact (render_error dc hi).1 _ _ _ hr
    · simp at hc
  unfold toDot at h
  split at h
  · rename_i e' h1
    simp at h; subst h
    exact Or.inl (hc _ _ _ _ _ h1)
  · split at h
    · split at h
      · simp at h; exact Or.inr h.symm
      · split at h
        · rename_i e' h2
          simp at h; subst h
          exact Or.inl (hc _ _ _ _ _ h2)
        · simp at h
    · simp at h

/-- Without `show_optimized`, every predicate built from the supported kinds is
rendered. -/
theorem C17_toDot_total (cfg : Cfg) (fnc : Nat → Int → Bool) (fuel : Nat) (dc : DCfg) (bound : List Int)
    (p : Pred Int) (hs : supported dc p = true) : ∃ g, toDot cfg fnc fuel dc bound false p = .ok [g] := by
  obtain ⟨g, k', hr⟩ := (C17_supported_iff dc 0 p).2 hs
  exact ⟨⟨g.nodes, g.edges ++ refEdges bound p [p] g⟩, by simp [toDot, cluster, hr]⟩

/-- With `show_optimized`: rendered whenever `optimize p` is again built from
supported kinds.  (For the repaired code the last hypothesis is a theorem, `C17_optimize_supported`,
and the full statement is `C17_toDot_optimized_total` below; for the pinned variant
it is false, see the example.) -/
theorem C17_toDot_optimized_total_partial (cfg : Cfg) (fnc : Nat → Int → Bool) (fuel : Nat) (dc : DCfg)
    (bound : List Int) (p o : Pred Int) (hs : supported dc p = true) (ho : optimize cfg fnc fuel p = some o)
    (hso : supported dc o = true) : ∃ g1 g2, toDot cfg fnc fuel dc bound true p = .ok [g1, g2] := by
  obtain ⟨g, k', hr⟩ := (C17_supported_iff dc 0 p).2 hs
  obtain ⟨g2, k2, hr2⟩ := (C17_supported_iff dc k' o).2 hso
  exact ⟨⟨g.nodes, g.edges ++ refEdges bound p [p] g⟩, ⟨g2.nodes, g2.edges ++ refEdges bound p [o, p] g2⟩,
    by simp [toDot, cluster, hr, ho, hr2]⟩

/-- The optimizer maps trees built from the kinds `to_dot` lists (after the repair
that gave `IsNotNone/IsEmpty/IsNotEmpty` arms) to such trees — every rule, every
configuration: instance of the generic closure theorem `optimizeT_closed`. -/
theorem C17_optimize_supported (cfg : Cfg) (fnc : Nat → Int → Bool) (fuel : Nat) (p o : Pred Int)
    (hs : supported DCfg.fixed p = true) (ho : optimize cfg fnc fuel p = some o) : supported DCfg.fixed o = true :=
  supported_optimize cfg fnc fuel ho hs

/-- With `show_optimized`, full statement: every predicate built from the supported
kinds is rendered as two clusters (whenever `optimize` answers at all, which is
C12's business). -/
theorem C17_toDot_optimized_total (cfg : Cfg) (fnc : Nat → Int → Bool) (fuel : Nat)
    (bound : List Int) (p o : Pred Int) (hs : supported DCfg.fixed p = true) (ho : optimize cfg fnc fuel p = some o) :
    ∃ g1 g2, toDot cfg fnc fuel DCfg.fixed bound true p = .ok [g1, g2] :=
  C17_toDot_optimized_total_partial cfg fnc fuel DCfg.fixed bound p o hs ho (C17_optimize_supported cfg fnc fuel p o hs ho)

/-- Pinned tree (no arms for the three kinds): `~is_none_p` is built from supported
kinds, `optimize` turns it into `is_not_none_p`, and `to_dot(…, show_optimized=True)`
raises `ValueError`. -/
example : supported DCfg.pinned (.not .isNone) = true ∧
    toDot Cfg.allImpl (fun _ _ => false) 10 DCfg.pinned [] true (.not .isNone) = .error .valueError :=
  ⟨rfl, rfl⟩

/-- … and renders both clusters after the repair. -/
example : ∃ g1 g2, toDot Cfg.allImpl (fun _ _ => false) 10 DCfg.fixed [] true (.not .isNone) = .ok [g1, g2] ∧
    g1.nodes.map (·.id) = [0, 1] ∧ g2.nodes.map (·.id) = [2] ∧ g2.nodes.map (·.kind) = [.notNone] :=
  ⟨_, _, rfl, rfl, rfl, rfl⟩

/-- Non-vacuity: a dict_of inside an `and`, ids, edges and round trip. -/
example : ∃ g k', render DCfg.fixed 0 (.and (.gtle 2 4) (.box 4 [] (.kcons (.eq 7) (.kcons (.inst [1, 3]) .knil)))) = .ok (g, k') ∧
    g.nodes.map (·.id) = [0, 1, 2, 3, 4, 5] ∧
    g.edges = [⟨0, 1, .solid⟩, ⟨2, 3, .solid⟩, ⟨3, 4, .key⟩, ⟨3, 5, .value⟩, ⟨0, 2, .solid⟩] ∧ k' = 6 :=
  ⟨_, _, rfl, rfl, rfl, rfl⟩

/-- A self-reference: `this_p` under `all` under `or` gets one dashed edge to the
root of its own cluster, in both clusters. -/
example : ∃ g1 g2, toDot Cfg.allImpl (fun _ _ => false) 10 DCfg.fixed [] true (.or (.eq 1) (.all (.leaf 5 []))) = .ok [g1, g2] ∧
    g1.edges.filter (·.style == .dashed) = [⟨3, 0, .dashed⟩] ∧ g2.edges.filter (·.style == .dashed) = [⟨7, 4, .dashed⟩] :=
  ⟨_, _, rfl, rfl, rfl⟩

end Dot
end PyPred
