"""Shared machinery of the checks: build + axiom audit of the Lean side, known
findings, replay files, evidence files, the final decision (DESIGN.md §5)."""
import json
import os
import re
import subprocess
import sys
import time

HERE = os.path.dirname(os.path.abspath(__file__))
ROOT = os.path.dirname(HERE)
LEAN_DIR = os.path.join(ROOT, "lean")
EVIDENCE_DIR = os.environ.get("VERIF_EVIDENCE_DIR") or os.path.join(ROOT, "evidence")  # seeded-change runs redirect it
REPLAY_DIR = os.path.join(ROOT, "replays")
KNOWN_FILE = os.path.join(ROOT, "known_findings.json")

ALLOWED_AXIOMS = {"propext", "Classical.choice", "Quot.sound"}
FORBIDDEN = re.compile(r"\bsorry\b|\badmit\b|^\s*axiom\s|native_decide|bv_decide|implemented_by|\bunsafe\s|maxHeartbeats\s+0\b")

TRUSTED_BASE = [
    "Lean 4.33.0 kernel; axioms propext, Classical.choice, Quot.sound only (audited per theorem with #print axioms on every run)",
    "the Mathlib modules imported by lean/PyPred/Lemmas and lean/PyPred/Props (order lemmas and tactics only)",
    "correspondence harness: harness/lift.py (object <-> s-expression), the case generators, the compiled Lean driver, CPython 3.12 running /repo",
    "Python object model (dataclass ==, match class patterns, singledispatch, set hashing) is exercised, not modelled",
]


class HarnessError(Exception):
    """Something in the machinery itself failed: exit status 2, never a VIOLATION."""


def seed_from_env() -> int:
    try:
        return int(os.environ.get("VERIF_SEED", "0"))
    except ValueError:
        return 0


# ---------------------------------------------------------------- Lean side


def strip_comments(text: str) -> str:
    # nested /- -/ comments and -- line comments
    out = []
    i, depth = 0, 0
    n = len(text)
    while i < n:
        if text.startswith("/-", i):
            depth += 1
            i += 2
        elif depth and text.startswith("-/", i):
            depth -= 1
            i += 2
        elif depth:
            if text[i] == "\n":
                out.append("\n")
            i += 1
        elif text.startswith("--", i):
            while i < n and text[i] != "\n":
                i += 1
        else:
            out.append(text[i])
            i += 1
    return "".join(out)


def grep_forbidden():
    hits = []
    for base, _dirs, files in os.walk(LEAN_DIR):
        if ".lake" in base:
            continue
        for f in files:
            if f.endswith(".lean"):
                path = os.path.join(base, f)
                body = strip_comments(open(path, encoding="utf-8").read())
                for ln, line in enumerate(body.split("\n"), 1):
                    if FORBIDDEN.search(line):
                        hits.append(f"{os.path.relpath(path, ROOT)}:{ln}: {line.strip()[:120]}")
    return hits


def lean_build(modules, timeout=3400, exes=("driver",)):
    """Build the given modules (and the driver executables).  Returns (ok, log)."""
    cmd = ["lake", "build", *modules, *exes]
    p = subprocess.run(cmd, cwd=LEAN_DIR, capture_output=True, text=True, timeout=timeout)
    return p.returncode == 0, (p.stdout + p.stderr)


_AX_RE = re.compile(r"^'([^']+)' (depends on axioms: \[([^\]]*)\]|does not depend on any axioms)", re.M)


def lean_audit(pid, timeout=1800):
    """Run PyPred/Audit/<pid>.lean; returns dict theorem -> list of axioms, and the raw log."""
    path = os.path.join("PyPred", "Audit", f"{pid}.lean")
    if not os.path.exists(os.path.join(LEAN_DIR, path)):
        return {}, f"missing {path}", False
    p = subprocess.run(["lake", "env", "lean", path], cwd=LEAN_DIR, capture_output=True, text=True, timeout=timeout)
    log = p.stdout + p.stderr
    # `#print axioms` wraps long lists over several lines
    flat = re.sub(r"\n\s+", " ", log)
    res = {}
    for m in _AX_RE.finditer(flat):
        axs = [a.strip() for a in (m.group(3) or "").split(",") if a.strip()]
        res[m.group(1)] = axs
    return res, log, p.returncode == 0


def expected_theorems(pid):
    """Theorem names listed in the audit file (one `#print axioms X` per line)."""
    path = os.path.join(LEAN_DIR, "PyPred", "Audit", f"{pid}.lean")
    if not os.path.exists(path):
        return []
    body = strip_comments(open(path, encoding="utf-8").read())
    return re.findall(r"#print axioms\s+(\S+)", body)


def leanchecker(modules, timeout=3400):
    p = subprocess.run(["lake", "env", "leanchecker", *modules], cwd=LEAN_DIR, capture_output=True, text=True, timeout=timeout)
    return p.returncode == 0, (p.stdout + p.stderr)[-4000:]


# ---------------------------------------------------------------- known findings


def load_known():
    if not os.path.exists(KNOWN_FILE):
        return {"findings": [], "fixed": []}
    return json.load(open(KNOWN_FILE, encoding="utf-8"))


def open_findings(pid):
    return [f for f in load_known()["findings"] if pid in f["property"] and f.get("status") == "open"]


# ---------------------------------------------------------------- the check object


class SourceCoverage:
    """Which executable lines of the property's anchored source files ran while the check was running (sys.monitoring, Python >= 3.12;
    every location disables itself after its first hit, so the cost is negligible).  It bounds what the correspondence and the
    search saw: an anchored line that never ran is a place where a change cannot have been noticed.  Reported, never judged."""

    TOOL = 3

    def __init__(self, files):
        self.repo = os.path.realpath(os.environ.get("PYPRED_REPO", "/repo"))
        self.files = {os.path.join(self.repo, f): f for f in files if f.endswith(".py")}
        self.hit = {f: set() for f in self.files}
        self.on = False
        mon = getattr(sys, "monitoring", None)
        if mon is None or os.environ.get("VERIF_SOURCE_COVERAGE", "1") == "0" or not self.files:
            return
        try:
            mon.use_tool_id(self.TOOL, "verif-source-coverage")
        except ValueError:
            return
        files, hit = self.files, self.hit

        def on_line(code, line):
            s = hit.get(code.co_filename)
            if s is not None:
                s.add(line)
            return mon.DISABLE

        mon.register_callback(self.TOOL, mon.events.LINE, on_line)
        mon.set_events(self.TOOL, mon.events.LINE)
        self.on = True

    @staticmethod
    def _lines(code, acc):
        if code.co_flags & 0x1:  # CO_OPTIMIZED: a function body (class bodies ran at import, before the check started)
            for _s, _e, ln in code.co_lines():
                if ln is not None and ln != code.co_firstlineno:
                    acc.add(ln)
        for c in code.co_consts:
            if hasattr(c, "co_lines"):
                SourceCoverage._lines(c, acc)

    def report(self):
        if not self.on:
            return None
        mon = sys.monitoring
        mon.set_events(self.TOOL, 0)
        mon.register_callback(self.TOOL, mon.events.LINE, None)
        mon.free_tool_id(self.TOOL)
        self.on = False
        out, th, tt = {}, 0, 0
        for path, rel in sorted(self.files.items()):
            try:
                src = open(path, encoding="utf-8").read()
                body = set()
                top = compile(src, path, "exec")
                for c in top.co_consts:  # function / class bodies only: module-level statements ran at import, before the check started
                    if hasattr(c, "co_lines"):
                        self._lines(c, body)
            except (OSError, SyntaxError):
                continue
            text = src.split("\n")
            # a `def` / `class` / decorator line executes when the enclosing body does (at import): not a line of behaviour
            body = {n for n in body if 0 < n <= len(text) and not text[n - 1].lstrip().startswith(("def ", "class ", "@", '\"\"\"'))}
            hit = self.hit[path] & body
            miss = sorted(body - hit)
            th += len(hit)
            tt += len(body)
            out[rel] = {"lines_hit": len(hit), "lines": len(body), "never_ran": miss[:200]}
        return {"anchored_files": out, "lines_hit": th, "lines": tt,
                "note": "executable lines inside function bodies of the files the property is anchored in; never_ran = lines no case of this run reached IN THIS PROCESS (work done in worker processes -- the parser pool of C14, the CLI subprocesses of C20 -- is not counted)"}


def anchored_files(pid):
    try:
        for line in open(os.path.join(ROOT, "properties.jsonl"), encoding="utf-8"):
            d = json.loads(line)
            if d.get("id") == pid:
                return list((d.get("anchors") or {}).get("files") or [])
    except (OSError, ValueError):
        pass
    return []


class Check:
    def __init__(self, pid, tier):
        self.source_cov = SourceCoverage(anchored_files(pid))
        self.pid = pid
        self.tier = tier
        self.seed = seed_from_env()
        self.t0 = time.time()
        self.obligations = []  # (name, ok, detail)
        self.proof_problems = []  # strings
        self.corr = []  # dicts: name, cases, disagreements (list)
        self.failures = []  # dicts: input, detail, explained_by (finding id or None)
        self.known_hit = {}  # finding id -> description
        self.samples = []
        self.evaluations = 0
        self.nontrivial = set()
        self.rule = ""
        self.extra = {}
        self.assumptions = []
        self.checker_cmd = ""
        self.exhaustive = False

    # -- Lean
    def prove(self, modules=None, audit=True, checker=False, exes=("driver",)):
        pid = self.pid
        modules = modules or [f"PyPred.Props.{pid}"]
        self.checker_cmd = f"cd lean && lake build {' '.join(modules)} {' '.join(exes)} && lake env lean PyPred/Audit/{pid}.lean"
        t = time.time()
        ok, log = lean_build(modules, exes=exes)
        self.extra["lean_build_s"] = round(time.time() - t, 1)
        if not ok:
            errs = [l for l in log.split("\n") if "error" in l.lower()][:20]
            self.proof_problems.append("lake build failed: " + " | ".join(errs)[:1500])
        hits = grep_forbidden()
        if hits:
            self.proof_problems.append("forbidden constructs: " + "; ".join(hits[:10]))
        if audit:
            names = expected_theorems(pid)
            res, alog, aok = lean_audit(pid) if ok else ({}, "build failed", False)
            short = {k.split(".", 1)[1] if k.startswith("PyPred.") else k: v for k, v in res.items()}
            for nm in names:
                axs = res.get(nm, short.get(nm))
                if axs is None:
                    self.obligations.append((nm, False, "not checked (missing or build broken)"))
                elif set(axs) - ALLOWED_AXIOMS:
                    self.obligations.append((nm, False, f"axioms {axs}"))
                else:
                    self.obligations.append((nm, True, ",".join(axs) or "no axioms"))
            if ok and not aok:
                self.proof_problems.append("audit file failed: " + alog[-800:])
            if not names:
                self.proof_problems.append("no theorems listed for audit")
        if checker and ok:
            t = time.time()
            cok, clog = leanchecker(modules)
            self.extra["leanchecker_s"] = round(time.time() - t, 1)
            self.extra["leanchecker_ok"] = cok
            if not cok:
                self.proof_problems.append("leanchecker rejected: " + clog[-800:])
        return ok

    @property
    def proofs_ok(self):
        return not self.proof_problems and all(o[1] for o in self.obligations) and bool(self.obligations)

    # -- correspondence bookkeeping
    def add_corr(self, name, cases, disagreements, note=""):
        self.corr.append({"name": name, "cases": cases, "disagreements": len(disagreements), "first": disagreements[:5], "note": note})

    @property
    def corr_ok(self):
        return all(c["disagreements"] == 0 for c in self.corr)

    def add_failure(self, inp, detail, explained_by=None):
        self.failures.append({"input": inp, "detail": detail, "explained_by": explained_by})
        if explained_by:
            old = self.known_hit.get(explained_by)
            if old is None or len(str(inp)) < len(str(old["input"])):
                self.known_hit[explained_by] = {"input": inp, **(detail if isinstance(detail, dict) else {"detail": detail})}

    # -- outcome
    def write_replay(self, kind, payload):
        os.makedirs(REPLAY_DIR, exist_ok=True)
        n = 0
        while os.path.exists(os.path.join(REPLAY_DIR, f"{self.pid}-{n}.json")):
            n += 1
        path = os.path.join(REPLAY_DIR, f"{self.pid}-{n}.json")
        json.dump({"property": self.pid, "kind": kind, "tier": self.tier, "seed": self.seed, **payload}, open(path, "w", encoding="utf-8"), indent=1, default=str)
        return os.path.relpath(path, ROOT)

    def write_evidence(self, violations):
        os.makedirs(EVIDENCE_DIR, exist_ok=True)
        rep = self.source_cov.report()
        if rep is not None:
            self.extra["source_line_coverage"] = rep
        cov = {
            "obligations": len(self.obligations),
            "discharged": sum(1 for o in self.obligations if o[1]),
            "checker_cmd": self.checker_cmd,
            "trusted_base": TRUSTED_BASE,
            "theorems": [{"name": o[0], "ok": o[1], "axioms": o[2]} for o in self.obligations],
            "proof_problems": self.proof_problems,
            "evaluations": self.evaluations,
            "distinct_nontrivial": len(self.nontrivial) if isinstance(self.nontrivial, set) else int(self.nontrivial),
            "rule": self.rule,
            "samples": self.samples[:12],
            "exhaustive": self.exhaustive,
            "correspondence": self.corr,
            "failing_inputs_explained_by_known_findings": sum(1 for f in self.failures if f["explained_by"]),
            "failing_inputs_unexplained": sum(1 for f in self.failures if not f["explained_by"]),
            "known_findings_hit": sorted(self.known_hit),
            **self.extra,
        }
        ev = {
            "property_id": self.pid,
            "tier": self.tier,
            "seed": self.seed,
            "level": "proof",
            "coverage": cov,
            "assumptions": self.assumptions,
            "wall_s": round(time.time() - self.t0, 2),
            "violations": violations,
        }
        json.dump(ev, open(os.path.join(EVIDENCE_DIR, f"{self.pid}.json"), "w", encoding="utf-8"), indent=1, default=str)

    def finish(self, search_fn=None):
        """Decide (DESIGN.md §5 step 6), print, write evidence, return the exit code."""
        if REPLAY_TARGET is not None:
            return self._finish_replay()
        unexplained = [f for f in self.failures if not f["explained_by"]]
        broken = []
        if not self.proofs_ok:
            bad = [o[0] for o in self.obligations if not o[1]]
            broken.append({"what": "proof", "theorems": bad, "problems": self.proof_problems})
        for c in self.corr:
            if c["disagreements"]:
                broken.append({"what": "correspondence", "model_function": c["name"], "first_disagreements": c["first"]})
        if broken and not unexplained and search_fn is not None:
            # the proof or the tie no longer checks: look harder for a concrete failing input
            try:
                search_fn()
            except HarnessError:
                raise
            unexplained = [f for f in self.failures if not f["explained_by"]]
        code = 0
        if unexplained:
            unexplained = sorted(unexplained, key=lambda f: len(json.dumps(f["input"], default=str)))  # smallest first (stable)
            f = unexplained[0]
            path = self.write_replay("failing-input", {"input": f["input"], "detail": f["detail"], "others": [u["input"] for u in unexplained[1:20]], "broken": broken})
            print(f"VIOLATION property={self.pid} replay={path}")
            code = 1
        elif broken:
            path = self.write_replay("not-shown", {"broken": broken, "note": "the theorem or correspondence named here no longer checks; the search found no input on which the property fails"})
            print(f"VIOLATION property={self.pid} replay={path} no-failing-input-found")
            code = 1
        texts = {f["id"]: f.get("what", "") for f in load_known()["findings"]}
        for fid, d in sorted(self.known_hit.items()):
            eg = {k: v for k, v in d.items() if k in ("input", "optimized", "assignment", "value", "original_value", "optimized_value")}
            print(f"KNOWN-FINDING: property={self.pid} {fid} {texts.get(fid, '')} -- e.g. {json.dumps(eg, default=str)}")
        self.write_evidence(violations=len(unexplained) + (1 if (broken and not unexplained) else 0))
        d = sum(1 for o in self.obligations if o[1])
        print(f"[{self.pid} {self.tier} seed={self.seed}] theorems {d}/{len(self.obligations)} ok; correspondence " + ", ".join(f"{c['name']}:{c['cases']}/{c['disagreements']}d" for c in self.corr) + f"; failing inputs: {len(self.failures)} ({len(unexplained)} unexplained); {round(time.time() - self.t0, 1)}s")
        return code


REPLAY_TARGET = None  # set by replay_by_rerun: the recorded failing input (or "*" for a not-shown replay)


def _finish_replay(self):
    """Replay by re-running the check's own search on the current tree: exit 1 iff the recorded input still fails
    (for a replay that names a broken theorem / correspondence: iff that still does not check).  Writes nothing."""
    unexplained = [f for f in self.failures if not f["explained_by"]]
    if REPLAY_TARGET == "*":
        bad = (not self.proofs_ok) or (not self.corr_ok) or bool(unexplained)
        print("proofs ok:", self.proofs_ok, "| correspondence ok:", self.corr_ok, "| unexplained failing inputs:", len(unexplained))
        for c in self.corr:
            if c["disagreements"]:
                print("  correspondence", c["name"], "first disagreement:", json.dumps(c["first"][:1], default=str)[:600])
        return 1 if bad else 0
    key = json.dumps(REPLAY_TARGET, sort_keys=True, default=str)
    hits = [f for f in unexplained if json.dumps(f["input"], sort_keys=True, default=str) == key]
    if hits:
        print("the recorded input still fails on this tree:")
        print(json.dumps({"input": hits[0]["input"], "detail": hits[0]["detail"]}, indent=1, default=str)[:3000])
        return 1
    print("the recorded input does not fail on this tree (", len(unexplained), "other unexplained failing inputs in the re-run )")
    return 0


Check._finish_replay = _finish_replay


def replay_by_rerun(main_fn, path):
    """Generic replay: re-run the check (same tier and seed as recorded) and look for the recorded input."""
    global REPLAY_TARGET
    d = json.load(open(path, encoding="utf-8"))
    os.environ["VERIF_SEED"] = str(d.get("seed", 0))
    REPLAY_TARGET = d["input"] if d.get("kind") == "failing-input" else "*"
    print(f"replaying {path}: property {d.get('property')}, tier {d.get('tier')}, seed {d.get('seed')}, kind {d.get('kind')}")
    return main_fn(d.get("tier", "quick"))


def run_check(fn):
    """Wrap a check body: harness errors and timeouts are exit 2, never a VIOLATION."""
    try:
        code = fn()
    except subprocess.TimeoutExpired as e:
        print(f"HARNESS-TIMEOUT: {e}", file=sys.stderr)
        code = 2
    except HarnessError as e:
        print(f"HARNESS-ERROR: {e}", file=sys.stderr)
        code = 2
    except Exception:  # noqa: BLE001  a bug in the machinery is never a VIOLATION
        import traceback

        traceback.print_exc()
        print("HARNESS-ERROR: unexpected exception in the check", file=sys.stderr)
        code = 2
    sys.exit(code)
