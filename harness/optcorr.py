"""Correspondence of the optimizer model with predicate.optimize, and the direct
search of 'optimize preserves meaning' on the real code (used by C01–C03, C12,
C13, C20)."""
import ast
import glob
import itertools
import os
import sys

from . import driver, lift, sx as S
from .core import HarnessError, open_findings

sys.setrecursionlimit(20000)

from predicate import optimize  # noqa: E402
from predicate.named_predicate import NamedPredicate  # noqa: E402
from predicate.predicate import AndPredicate, NotPredicate, OrPredicate, XorPredicate  # noqa: E402

QUIRKS = ["xorNotAnd", "xorOr", "xorAndUnguarded", "fnEq", "instDisjoint", "anyTrue", "subsetEmpty"]

_p, _q, _r = ("var", "p", "0"), ("var", "q", "0"), ("var", "r", "0")
DISCRIMINATORS = {
    "xorNotAnd": [("xor", _p, ("and", ("not", _p), _q)), ("xor", _p, ("and", _q, ("not", _p)))],
    "xorOr": [("xor", _p, ("or", _p, _q)), ("xor", _p, ("or", _q, _p)), ("xor", ("or", _p, _q), _p), ("xor", ("or", _q, _p), _p)],
    "xorAndUnguarded": [("xor", _p, ("and", _q, _r)), ("xor", _p, ("and", _p, _q)), ("xor", _p, ("and", _q, _p))],
    "fnEq": [("and", ("fn", "0"), ("eq", "2")), ("and", ("fn", "0"), ("eq", "4")), ("and", ("fn", "1"), ("eq", "3"))],
    "instDisjoint": [("and", ("inst", "1"), ("inst", "0")), ("and", ("inst", "1", "3"), ("inst", "3", "1"))],
    "anyTrue": [("any", "tt"), ("any", ("or", "tt", ("eq", "2")))],
    "subsetEmpty": [("and", ("subset", "2"), ("subset", "4")), ("and", ("subset",), ("subset",))],
}


def py_optimize_text(sxp, share=None, judge=None, states=None, cover=None):
    """Run the real optimize on the lowered term; canonical text of the result, or RAISED <type>.
    `judge.before` records what the property needs of the original BEFORE optimize runs."""
    try:
        p = lift.lower(sxp, share)
    except lift.Unliftable as e:
        raise HarnessError(f"cannot lower {sxp!r}: {e}")
    if states is not None:
        states.append(judge.before(p, sxp) if judge is not None else None)
    snap = snapshot(p) if SNAPSHOT else None
    try:
        if CALL_BUDGET is not None:
            o, _ = optimize_counted(p, CALL_BUDGET(S.size(sxp)))
        elif cover is not None:
            o = _watchdog(lambda: cover.call(lambda: optimize(p)), sxp)
        else:
            o = _watchdog(lambda: optimize(p), sxp)
        if SNAPSHOT and snapshot(p) != snap:
            return p, o, "MUTATED its argument"
    except RecursionError:
        return p, None, "RAISED RecursionError"
    except Exception as e:  # noqa: BLE001
        return p, None, f"RAISED {type(e).__name__}"
    try:
        return p, o, S.show(lift.lift(o))
    except lift.Unliftable as e:
        return p, o, f"UNLIFTABLE {e}"
    except Exception as e:  # noqa: BLE001  (e.g. optimize returned None)
        return p, o, f"UNLIFTABLE {type(e).__name__}: {e}"


class ArmCoverage:
    """Which `return` statements (= rule arms) of predicate/optimizer/*.py, negate.py and implies.py executed while the
    correspondence ran.  Bounds what the tie saw; an un-hit arm is reported, it is not an alarm by itself."""

    def __init__(self):
        import predicate

        root = os.path.dirname(os.path.abspath(predicate.__file__))
        files = sorted(glob.glob(os.path.join(root, "optimizer", "*.py"))) + [os.path.join(root, "negate.py"), os.path.join(root, "implies.py")]
        self.root = root
        self.arms = set()
        for f in files:
            try:
                tree = ast.parse(open(f, encoding="utf-8").read())
            except (OSError, SyntaxError):
                continue
            for node in ast.walk(tree):
                if isinstance(node, ast.Return):
                    self.arms.add((f, node.lineno))
        self.files = {f for f, _ in self.arms}
        self.hit = set()
        self.cases = 0

    def call(self, fn):
        if sys.gettrace() is not None:  # a budget tracer is active: leave it alone
            return fn()
        hit, files = self.hit, self.files

        def local(frame, event, arg):
            if event == "line":
                hit.add((frame.f_code.co_filename, frame.f_lineno))
            return local

        def tracer(frame, event, arg):
            return local if frame.f_code.co_filename in files else None

        self.cases += 1
        sys.settrace(tracer)
        try:
            return fn()
        finally:
            sys.settrace(None)

    def report(self):
        hit = self.arms & self.hit
        unhit = sorted(self.arms - self.hit)
        return {"arms_total": len(self.arms), "arms_hit": len(hit), "cases_traced": self.cases,
                "unhit": [f"{os.path.relpath(f, self.root)}:{ln}" for f, ln in unhit][:60]}


_SITE_CACHE: dict = {}


def call_sites_executed(p, findings):
    """Ids of the open findings whose CALL SITE (the body of the `case` arm named by the finding's call_site_markers) executes
    during optimize(p).  Used only to attribute a failing input that the model cannot explain (the implementation took another
    path than the model, e.g. after an unrelated new rule): the defect is identified by its call site.  A refactor that removes
    the marker text simply disables the attribution (the failing input is then reported)."""
    import predicate

    root = os.path.dirname(os.path.abspath(predicate.__file__))
    arms = {}  # (file, first body line, last body line) -> finding id
    for f in findings:
        for fname, marker in f.get("call_site_markers", []):
            path = os.path.join(root, "optimizer", fname)
            if path not in _SITE_CACHE:
                try:
                    _SITE_CACHE[path] = open(path, encoding="utf-8").read().split("\n")
                except OSError:
                    _SITE_CACHE[path] = []
            lines = _SITE_CACHE[path]
            for i, ln in enumerate(lines):
                if ln.strip().startswith("case ") and marker in ln:
                    ind = len(ln) - len(ln.lstrip())
                    j = i + 1
                    while j < len(lines) and (not lines[j].strip() or len(lines[j]) - len(lines[j].lstrip()) > ind):
                        j += 1
                    arms[(path, i + 2, j)] = f["id"]  # 1-based body lines i+2 .. j
    if not arms or sys.gettrace() is not None:
        return set()
    files = {a[0] for a in arms}
    hit = set()

    def local(frame, event, arg):
        if event == "line":
            hit.add((frame.f_code.co_filename, frame.f_lineno))
        return local

    def tracer(frame, event, arg):
        return local if frame.f_code.co_filename in files else None

    sys.settrace(tracer)
    try:
        optimize(p)
    except Exception:  # noqa: BLE001
        pass
    finally:
        sys.settrace(None)
    return {fid for (path, lo, hi), fid in arms.items() if any(fl == path and lo <= n <= hi for fl, n in hit)}


TWIN_LIMIT = 1500  # cases per stream re-run over string twins of their constants (0 = off)


def has_const(sxp):
    return any(isinstance(t, tuple) and t and t[0] in ("eq", "ne", "ge", "gt", "le", "lt", "gele", "gelt", "gtle", "gtlt", "in", "notin", "subset", "rsubset", "superset", "rsuperset") and len(t) > 1
               for t in S.subterms(sxp))


COVER = None  # created on first use
COVER_LIMIT = 2500  # cases per stream that run under the line tracer


WATCHDOG_S = 60  # a single optimize call that runs this long is trouble of its own (C12's subject): the check stops with exit status 2


def _watchdog(fn, sxp):
    import signal

    def on_alarm(signum, frame):
        raise HarnessError(f"optimize did not return within {WATCHDOG_S} s on {S.show(sxp)[:300]} (termination is C12's property; this check cannot go on)")

    old = signal.signal(signal.SIGALRM, on_alarm)
    signal.alarm(WATCHDOG_S)
    try:
        return fn()
    finally:
        signal.alarm(0)
        signal.signal(signal.SIGALRM, old)


CALL_BUDGET = None  # C12: max optimize* invocations per call as a function of the tree size (None = unlimited)


class CostExceeded(Exception):
    pass


def optimize_counted(p, limit):
    """optimize(p) counting optimize* invocations; raises CostExceeded beyond `limit`.  Returns (result, calls)."""
    n = 0

    def prof(frame, event, arg):
        nonlocal n
        if event == "call" and frame.f_code.co_name.startswith("optimize") and "optimizer" in frame.f_code.co_filename:
            n += 1
            if limit is not None and n > limit:
                raise CostExceeded(f"more than {limit} optimize* invocations")

    sys.setprofile(prof)
    try:
        o = optimize(p)
    finally:
        sys.setprofile(None)
    return o, n


SNAPSHOT = False  # C12 switches this on: deep structural picture of the argument before / after optimize


def snapshot(p, _path=()):
    """Deep structural picture of a predicate: classes, fields, set contents (a node met again on the path from the root -- a
    resolved self-reference -- is recorded as such, not followed)."""
    from predicate.predicate import Predicate

    if isinstance(p, Predicate):
        if id(p) in _path:
            return ("cycle", type(p).__name__, _path.index(id(p)))
        d = getattr(p, "__dict__", {})
        path = _path + (id(p),)
        return (type(p).__name__, tuple((k, snapshot(v, path)) for k, v in sorted(d.items()) if k != "frame"))
    if isinstance(p, (set, frozenset)):
        return ("set", tuple(sorted(map(repr, p))))
    if isinstance(p, (list, tuple)):
        return (type(p).__name__, tuple(snapshot(x, _path) for x in p))
    if callable(p):
        return ("fn", id(p))
    return ("v", repr(p))


_HISTORY_DONE = False


def raising_history(n=700):
    """A prelude of optimize() calls that RAISE and are caught by the caller (a function atom that rejects the constant of
    `fn & eq`, bounds of incomparable types): afterwards the optimizer must behave as in a fresh process -- nothing may be
    left behind by an exception (a depth counter, a half-filled cache, a lock)."""
    global _HISTORY_DONE
    if _HISTORY_DONE:
        return 0
    _HISTORY_DONE = True
    from predicate import eq_p, fn_p, ge_p, le_p, lt_p
    from predicate.predicate import AndPredicate, NotPredicate, OrPredicate

    raised = 0
    makers = [
        lambda k: AndPredicate(fn_p(str.isalpha), eq_p(k)),                       # str.isalpha(3) -> TypeError inside the fn & eq arm
        lambda k: AndPredicate(ge_p("a"), le_p(k)),                               # "a" < 1 -> TypeError inside the range arm
        lambda k: OrPredicate(NotPredicate(AndPredicate(ge_p("a"), lt_p(k))), eq_p(k)),
        lambda k: AndPredicate(AndPredicate(fn_p(len), eq_p(k)), ge_p(k)),
    ]
    for k in range(n):
        try:
            _watchdog(lambda: optimize(makers[k % len(makers)](k)), ("tt",))
        except HarnessError:
            raise
        except Exception:  # noqa: BLE001
            raised += 1
    _probe_after_history()
    return raised


HISTORY_FAILURES = []


def _probe_after_history():
    """Ordinary small trees right after the raising prelude, with the interpreter's DEFAULT recursion limit restored (the
    harness raises it for its own deep inputs; a user's process has the default, and a guard computed from it must not
    have been used up by calls that raised)."""
    from predicate import eq_p, ge_p, le_p, always_false_p
    from predicate.predicate import AndPredicate, NotPredicate, OrPredicate

    old = sys.getrecursionlimit()
    sys.setrecursionlimit(1000)
    try:
        probes = [
            ("(and (eq 1) (eq 1))", lambda: AndPredicate(eq_p(1), eq_p(1)), "eq_p(1)"),
            ("(or (not (ge 2)) (ge 2))", lambda: OrPredicate(NotPredicate(ge_p(2)), ge_p(2)), "always_true_p"),
            ("(and (and (ge 1) (le 0)) (eq 5))", lambda: AndPredicate(AndPredicate(ge_p(1), le_p(0)), eq_p(5)), None),
        ]
        for text, mk, want in probes:
            try:
                got = repr(optimize(mk()))
            except Exception as e:  # noqa: BLE001
                HISTORY_FAILURES.append((text, f"RAISED {type(e).__name__}: {e}"))
                continue
            if want is not None and got != want:
                HISTORY_FAILURES.append((text, f"returned {got}, a fresh process returns {want}"))
    finally:
        sys.setrecursionlimit(old)


def detect_cfg():
    """Which variant of each quirk arm does /repo follow today?  (DESIGN.md §5.3)"""
    raising_history()
    cfg = {}
    detail = {}
    for q in QUIRKS:
        inputs = DISCRIMINATORS[q]
        py = [py_optimize_text(s)[2] for s in inputs]
        chosen = None
        for mode in "iof":
            c = "".join(mode if x == q else "i" for x in QUIRKS)
            out = driver.run(f"opt {c} {S.show(s)}" for s in inputs)
            model = [o.rsplit(" ", 1)[0] for o in out]
            if model == py:
                chosen = mode
                break
        detail[q] = {"python": py, "variant": {"i": "impl", "o": "off", "f": "fixed", None: "none-matches"}[chosen]}
        cfg[q] = chosen or "i"
    return "".join(cfg[q] for q in QUIRKS), detail


def model_opt(cfg, cases):
    out = driver.run(f"opt {cfg} {S.show(s)}" for s in cases)
    res = []
    for o in out:
        if o == "FUEL" or o.startswith("ERR"):
            res.append((o, []))
        else:
            text, tr = o.rsplit(" ", 1)
            tr = tr.strip("[]")
            res.append((text, [t for t in tr.split(",") if t]))
    return res


def names_of(sxp):
    return sorted({t[1] for t in S.subterms(sxp) if isinstance(t, tuple) and t and t[0] == "var"})


def named_objects(p, acc):
    if isinstance(p, NamedPredicate):
        acc.append(p)
    elif isinstance(p, (AndPredicate, OrPredicate, XorPredicate)):
        named_objects(p.left, acc)
        named_objects(p.right, acc)
    elif isinstance(p, NotPredicate):
        named_objects(p.predicate, acc)
    return acc


class PropJudge:
    """C01's statement on the real objects: same truth value under every assignment
    of the variables (by name).  The original's table is recorded BEFORE optimize runs
    (so an optimize that mutates shared sub-terms is seen) and re-read afterwards."""

    def _table(self, q, names, objs):
        rows = []
        for bits in itertools.product([False, True], repeat=len(names)):
            env = dict(zip(names, bits))
            for n in objs:
                n.v = env.get(n.name, False)
            rows.append(bool(q(False)))
        return rows

    def before(self, p, sxp):
        names = names_of(sxp)
        saved = [(n, n.v) for n in named_objects(p, [])]
        t = self._table(p, names, [n for n, _ in saved])
        for n, v in saved:  # optimize must see the variables in the state the case prescribes
            n.v = v
        return names, t

    def after(self, state, p, o, sxp):
        names, t0 = state
        objs = named_objects(p, []) + named_objects(o, [])
        t1 = self._table(o, names, objs)
        t2 = self._table(p, names, objs)
        for k, bits in enumerate(itertools.product([0, 1], repeat=len(names))):
            if t0[k] != t1[k]:
                return {"assignment": dict(zip(names, bits)), "original_value": t0[k], "optimized_value": t1[k], "_env": dict(zip(names, [bool(b) for b in bits]))}
            if t0[k] != t2[k]:
                return {"assignment": dict(zip(names, bits)), "original_value": t0[k], "original_after_optimize": t2[k], "what": "optimize changed the meaning of its argument (mutation)"}
        return None


prop_differs = PropJudge()


class ValuesJudge:
    def __init__(self, values):
        self.values = values

    def before(self, p, sxp):
        from .evalcorr import atoms_defined

        rec = []
        for x in self.values:
            if atoms_defined(p, x):  # outside the property otherwise: some atom of the original is undefined here
                rec.append((x, bool(p(x))))
        return rec

    def after(self, state, p, o, sxp):
        for x, a in state:
            try:
                b = o(x)
            except Exception as e:  # noqa: BLE001
                return {"value": repr(x), "original_value": a, "optimized_value": f"raised {type(e).__name__}"}
            if a != bool(b):
                return {"value": repr(x), "original_value": a, "optimized_value": bool(b), "_x": x}
            try:
                a2 = bool(p(x))
            except Exception as e:  # noqa: BLE001
                a2 = f"raised {type(e).__name__}"
            if a2 != a:
                return {"value": repr(x), "original_value": a, "original_after_optimize": a2, "what": "optimize changed the meaning of its argument (mutation)"}
        return None


def values_differ(values):
    return ValuesJudge(values)


class NoJudge:
    def before(self, p, sxp):
        return None

    def after(self, state, p, o, sxp):
        return None


def run(chk, name, cases, cfg, differs, share=False, restore_vars=True):
    """Correspondence `opt` + property search on the same cases.

    * disagreement: model output != implementation output (under the detected cfg)
    * failure: optimize changed the meaning on the real objects; explained only if
      model and implementation agree on that input and the model's trace names a
      quirk listed as an open known finding for this property."""
    cases = list(cases)
    known = {f["quirk"]: f["id"] for f in open_findings(chk.pid) if "quirk" in f}
    while HISTORY_FAILURES:
        text, what = HISTORY_FAILURES.pop()
        chk.add_failure(text + "  [after a history of optimize() calls that raised and were caught; default recursion limit]", {"what": "optimize no longer answers an ordinary tree after earlier calls raised: " + what}, None)
    global COVER
    if COVER is None:
        COVER = ArmCoverage()
    py, states = [], []
    stride = max(1, len(cases) // COVER_LIMIT)
    for k, s in enumerate(cases):
        shared = {} if share else None
        py.append(py_optimize_text(s, shared, differs, states, cover=COVER if k % stride == 0 else None))
    if COVER.cases:
        chk.extra["arm_coverage"] = COVER.report()
    model = model_opt(cfg, cases)
    disagreements = []
    fired = {}
    changed = 0
    for s, (p, o, ptxt), (mtxt, tr), state in zip(cases, py, model, states):
        chk.evaluations += 1
        stext = S.show(s)
        for t in tr:
            fired[t] = fired.get(t, 0) + 1
        agree = ptxt == mtxt
        if not agree:
            disagreements.append({"input": stext, "model": mtxt, "implementation": ptxt, "cfg": cfg})
        if ptxt != stext:
            changed += 1
            chk.nontrivial.add(stext)
        if o is not None and not ptxt.startswith(("RAISED", "UNLIFTABLE", "MUTATED")):
            w = differs.after(state, p, o, s)
            if w is not None:
                expl = None
                quirk = next((known[t] for t in tr if t in known), None) if "what" not in w else None
                if quirk and agree:
                    expl = quirk
                elif quirk and not mtxt.startswith(("FUEL", "ERR")):
                    # the implementation's result is not the model's (some other rule changed), but the input still runs into the
                    # open finding if the MODEL's result is wrong at the same point in the same way
                    try:
                        mo = lift.lower(S.parse1(mtxt))
                        if "_x" in w:
                            same = bool(mo(w["_x"])) == w["optimized_value"]
                        else:
                            for nobj in named_objects(mo, []):
                                nobj.v = w["_env"].get(nobj.name, False)
                            same = bool(mo(False)) == w["optimized_value"]
                        if same:
                            expl = quirk
                    except Exception:  # noqa: BLE001
                        pass
                w = {k: v for k, v in w.items() if not k.startswith("_")}
                if expl is None and "what" not in w and not agree:
                    sites = call_sites_executed(lift.lower(s, {} if share else None), open_findings(chk.pid))
                    if sites:
                        expl = sorted(sites)[0]
                        w["attributed_by_call_site"] = sorted(sites)
                chk.add_failure(stext, {"optimized": ptxt, **w, "model_trace": tr}, expl)
        elif ptxt.startswith("RAISED") or ptxt.startswith("UNLIFTABLE") or ptxt.startswith("MUTATED"):
            # optimize did not return a predicate: that is a failure of C12/C01 in itself
            chk.add_failure(stext, {"optimized": ptxt, "model": mtxt}, None)
    chk.add_corr(name, len(cases), disagreements)
    st = chk.extra.setdefault("opt_stats", {})
    st[name] = {"cases": len(cases), "changed_by_optimize": changed, "quirk_arms_fired": fired}
    # -- second pass: a sample of the same cases again, in reverse order, in the same process: optimize is a function of its
    # argument, so every answer must be the one given the first time (a memo, a counter, anything that survives between calls shows)
    if TWIN_LIMIT and len(cases) > 1:
        step2 = max(1, len(cases) // TWIN_LIMIT)
        rdis, rn = [], 0
        for k in reversed(range(0, len(cases), step2)):
            ptxt = py[k][2]
            if ptxt.startswith(("RAISED", "UNLIFTABLE", "MUTATED")):
                continue
            ttxt = py_optimize_text(cases[k], {} if share else None)[2]
            rn += 1
            if ttxt != ptxt:
                rdis.append({"input": S.show(cases[k]), "first_time": ptxt, "second_time": ttxt})
        chk.add_corr(name + "/again-in-reverse-order", rn, rdis, note="optimize must answer a case the same way whatever was optimised before it")
        chk.evaluations += rn
        for d in rdis[:5]:
            chk.add_failure(d["input"] + "  [optimised a second time, after the other cases of the stream]", {"what": "optimize answers differently the second time (its answer depends on earlier calls)", **d}, None)
    # -- twin pass: the same trees over the digit-string twins of their constants ("1" for 1, ...), in the same process
    # and after the numeric pass: the result must be the isomorphic tree (same text after lifting back).
    if TWIN_LIMIT:
        idx = [k for k, s in enumerate(cases) if has_const(s) and lift.twinnable(s)]
        step = max(1, len(idx) // TWIN_LIMIT)
        tdis, tn = [], 0
        with lift.twin():
            for k in idx[::step]:
                ptxt = py[k][2]
                if ptxt.startswith(("RAISED", "UNLIFTABLE", "MUTATED")):
                    continue
                ttxt = py_optimize_text(cases[k], {} if share else None)[2]
                tn += 1
                if ttxt != ptxt:
                    tdis.append({"input": S.show(cases[k]), "numeric_constants": ptxt, "string_twins": ttxt})
        if tn:
            chk.add_corr(name + "/string-twins", tn, tdis, note="same tree over order-isomorphic str constants must optimise to the isomorphic tree")
            chk.evaluations += tn
            for d in tdis[:5]:  # a cache keyed on printed constants answers with the wrong type: judged on the real objects
                chk.add_failure(d["input"] + "  [constants lowered as the strings that print the same]", {"what": "optimize depends on how constants print, not on their values", **d}, None)
        # the same over constants of other types (aware datetimes with differing offsets, ints beyond 2**53, tuples, Fraction, Decimal)
        kinds = [k for k in lift.TWIN_KINDS if k != "str"]
        odis, on = [], 0
        for j, k in enumerate(idx[::step]):
            ptxt = py[k][2]
            if ptxt.startswith(("RAISED", "UNLIFTABLE", "MUTATED")):
                continue
            kind = kinds[j % len(kinds)]
            with lift.twin(kind):
                ttxt = py_optimize_text(cases[k], {} if share else None)[2]
            on += 1
            if ttxt != ptxt:
                odis.append({"input": S.show(cases[k]), "numeric_constants": ptxt, "twin_kind": kind, "twin_constants": ttxt})
        if on:
            chk.add_corr(name + "/typed-twins", on, odis, note="same tree over order-isomorphic constants of another type (aware datetime / big int / tuple / Fraction / Decimal) must optimise to the isomorphic tree")
            chk.evaluations += on
            for d in odis[:5]:
                chk.add_failure(d["input"] + f"  [constants lowered as order-isomorphic {d['twin_kind']} values]", {"what": "optimize depends on the type of the constants, not on their order and equality", **d}, None)
    return disagreements


def run_objects(chk, name, items, cfg, judge):
    """Like `run`, for predicate objects built on the Python side: items = [(description, object)];
    judge(p, o) returns None or a failure detail (the property on the real code)."""
    known = {f["quirk"]: f["id"] for f in open_findings(chk.pid) if "quirk" in f}
    texts, py = [], []
    global COVER
    if COVER is None:
        COVER = ArmCoverage()
    for d, p in items:
        texts.append(S.show(lift.lift(p)))
        try:
            o = COVER.call(lambda: optimize(p))
            py.append((o, S.show(lift.lift(o))))
        except lift.Unliftable as e:
            py.append((None, f"UNLIFTABLE {e}"))
        except Exception as e:  # noqa: BLE001
            py.append((None, f"RAISED {type(e).__name__}"))
    out = driver.run(f"opt {cfg} {t}" for t in texts)
    dis = []
    fired = {}
    for (d, p), t, (o, ptxt), ans in zip(items, texts, py, out):
        chk.evaluations += 1
        if ans == "FUEL" or ans.startswith("ERR"):
            mtxt, tr = ans, []
        else:
            mtxt, trs = ans.rsplit(" ", 1)
            tr = [x for x in trs.strip("[]").split(",") if x]
        for q in tr:
            fired[q] = fired.get(q, 0) + 1
        agree = mtxt == ptxt
        if not agree:
            dis.append({"input": d, "sexp": t, "model": mtxt, "implementation": ptxt, "cfg": cfg})
        if ptxt != t:
            chk.nontrivial.add(t)
        if o is None:
            chk.add_failure(d, {"optimized": ptxt}, None)
            continue
        w = judge(p, o)
        if w is not None:
            expl = None
            if agree:
                for q in tr:
                    if q in known:
                        expl = known[q]
                        break
            chk.add_failure(d, {"optimized": ptxt, **w, "model_trace": tr}, expl)
    chk.add_corr(name, len(items), dis)
    if COVER.cases:
        chk.extra["arm_coverage"] = COVER.report()
    chk.extra.setdefault("opt_stats", {})[name] = {"cases": len(items), "quirk_arms_fired": fired}
    return dis
