"""Reflection of the compiled Lark grammar of `predicate.parser` (C14G).

Nothing here reads the Python *source* of the grammar: everything is taken from the compiled `lark.Lark` object of
the code under test (`grammar.rules`, `grammar.terminals`, `grammar.ignore_tokens`, `grammar.options`) and from the
transformer class, so a maintainer may build the grammar text differently without breaking the tie.

  find()            -> Reflected | None       (None = no Lark object in the module: the tie is not applicable)
  reflect(lark, tr) -> canonical dict          rules sorted by (origin, names of the expansion), terminals sorted by name;
                                               `rule.order` / `options.priority` are recorded but not compared (they only steer
                                               Lark's choice among derivations, which the model does not contain)
  items(g)          -> list[str]               one line per rule / terminal / option, the text form the Lean driver prints
  lean_source(g)    -> str                     a Lean file: `example : <g> = PyPred.Grammar.referenceWire := by decide`
  check_tie(g)      -> (ok, log, components)   runs `lake env lean` on that file in a private temporary directory
  unshape(g, tree)  -> derivation s-expression | None   the derivation behind a `lark.Tree` (re-inserts filtered tokens and
                                               inlined `?rule` nodes); untrusted: the Lean driver checks `shape d = tree`
  raw_wire(tree)    -> s-expression of the `lark.Tree` itself
"""
import os
import shutil
import subprocess
import sys
import tempfile

HERE = os.path.dirname(os.path.abspath(__file__))
LEAN_DIR = os.path.join(os.path.dirname(HERE), "lean")

OPTION_KEYS = ("ambiguity", "g_regex_flags", "keep_all_tokens", "lexer", "maybe_placeholders", "parser")  # not `priority`: like rule.order it only steers the choice among derivations
# options that change what `parse` returns and that the model has no counterpart for: any non-default value is reported
OPTION_DEFAULTS = {"postlex": None, "transformer": None, "tree_class": None, "edit_terminals": None, "lexer_callbacks": {}, "regex": False, "use_bytes": False, "propagate_positions": False, "_plugins": {}}


class Reflected:
    def __init__(self, module, lark, transformer, how):
        self.module = module
        self.lark = lark
        self.transformer = transformer
        self.how = how
        self.g = reflect(lark, transformer)


def _import_parser():
    repo = os.environ.get("PYPRED_REPO", "/repo")
    if repo not in sys.path:
        sys.path.insert(0, repo)
    import importlib

    return importlib.import_module("predicate.parser")


def find():
    """The Lark object of predicate.parser: the global `grammar` if it is one, otherwise any global that is a Lark instance."""
    try:
        from lark import Lark, Transformer
    except Exception:  # noqa: BLE001
        return None
    try:
        mod = _import_parser()
    except Exception:  # noqa: BLE001
        return None
    lark, how = None, None
    cand = getattr(mod, "grammar", None)
    if isinstance(cand, Lark):
        lark, how = cand, "predicate.parser.grammar"
    else:
        for k in sorted(vars(mod)):
            v = vars(mod)[k]
            if isinstance(v, Lark):
                lark, how = v, f"predicate.parser.{k}"
                break
    if lark is None:
        return None
    tr = None
    for k in sorted(vars(mod)):
        v = vars(mod)[k]
        if isinstance(v, type) and issubclass(v, Transformer) and v.__module__ == mod.__name__:
            tr = v
            break
    if tr is None and getattr(lark.options, "transformer", None) is not None:
        tr = type(lark.options.transformer)
    return Reflected(mod, lark, tr, how)


def _sym(s):
    from lark.grammar import Terminal

    if isinstance(s, Terminal):
        return {"term": True, "name": str(s.name), "filter_out": bool(getattr(s, "filter_out", False))}
    return {"term": False, "name": str(s.name), "filter_out": False}


def reflect(lark, transformer=None):
    from lark.lexer import PatternRE, PatternStr

    unsupported = []
    rules = []
    for r in lark.rules:
        o = r.options
        origin = str(r.origin.name)
        rule = {
            "origin": origin,
            "order": int(r.order),
            "expansion": [_sym(s) for s in r.expansion],
            "alias": None if r.alias is None else str(r.alias),
            "expand1": bool(o.expand1) if o is not None else False,
            "keep_all": bool(o.keep_all_tokens) if o is not None else False,
            "priority": None if (o is None or o.priority is None) else int(o.priority),
        }
        if o is not None and getattr(o, "template_source", None) is not None:
            unsupported.append(f"rule {origin}#{rule['order']} comes from a template")
        if o is not None and tuple(getattr(o, "empty_indices", ()) or ()):
            unsupported.append(f"rule {origin}#{rule['order']} has empty indices")
        if origin.startswith("_"):
            unsupported.append(f"rule {origin}#{rule['order']} is inlined into its parent")
        if not r.expansion:
            unsupported.append(f"rule {origin}#{rule['order']} is empty")
        rules.append(rule)
    rules.sort(key=lambda r: (r["origin"], [x["name"] for x in r["expansion"]], r["order"]))
    terms = []
    for t in lark.terminals:
        p = t.pattern
        if isinstance(p, PatternStr):
            kind = "str"
        elif isinstance(p, PatternRE):
            kind = "re"
        else:
            kind = type(p).__name__
            unsupported.append(f"terminal {t.name} has a pattern of type {kind}")
        terms.append({"name": str(t.name), "re": kind != "str", "value": str(p.value), "flags": sorted(str(f) for f in (p.flags or ())), "priority": int(t.priority)})
    terms.sort(key=lambda t: t["name"])
    opts = lark.options
    options = [(k, str(getattr(opts, k, None))) for k in OPTION_KEYS]
    for k, dflt in OPTION_DEFAULTS.items():
        v = getattr(opts, k, dflt)
        if v != dflt and not (k == "transformer" and transformer is not None and isinstance(v, transformer)):
            unsupported.append(f"option {k} is set")
    start = opts.start if isinstance(opts.start, (list, tuple)) else [opts.start]
    if transformer is None:
        callbacks = []
        unsupported.append("no Transformer subclass in predicate.parser")
    else:
        callbacks = sorted(k for k, v in vars(transformer).items() if callable(v) and not k.startswith("_"))
    return {
        "rules": rules,
        "terminals": terms,
        "ignore": sorted(str(x) for x in lark.ignore_tokens),
        "start": [str(s) for s in start],
        "options": options,
        "callbacks": callbacks,
        "unsupported": sorted(unsupported),
    }


# ---------------------------------------------------------------- text items (the form `driver_grammar` prints)


def enc_text(s: str) -> str:
    return ".".join("%x" % ord(c) for c in s) or "-"


def _fb(b):
    return "T" if b else "F"


def items(g):
    out = []
    for r in g["rules"]:
        syms = " ".join(("T:" if s["term"] else "N:") + s["name"] + ("!" if s["filter_out"] else "") for s in r["expansion"])
        out.append(f"rule {r['origin']} expand1={_fb(r['expand1'])} keep_all={_fb(r['keep_all'])} alias={r['alias'] or '-'} : {syms}")
    for t in g["terminals"]:
        out.append(f"terminal {t['name']} {'re' if t['re'] else 'str'} {enc_text(t['value'])} flags={','.join(t['flags'])} priority={t['priority']}")
    out += [f"ignore {x}" for x in g["ignore"]]
    out += [f"start {x}" for x in g["start"]]
    out += [f"option {k}={v}" for k, v in g["options"]]
    out += [f"callback {x}" for x in g["callbacks"]]
    out += [f"unsupported {x}" for x in g["unsupported"]]
    return out


def rule_key(r) -> str:
    """How a derivation node names its rule on the wire: origin and the names of the expansion."""
    return r["origin"] + "/" + ",".join(x["name"] for x in r["expansion"])


def readable(item: str) -> str:
    """`terminal X str 28 …` with the pattern decoded, for reports."""
    ws = item.split(" ")
    if ws[0] == "terminal" and len(ws) > 3:
        try:
            ws[3] = repr("" if ws[3] == "-" else "".join(chr(int(x, 16)) for x in ws[3].split(".")))
        except ValueError:
            pass
    return " ".join(ws)


# ---------------------------------------------------------------- the Lean term


def lean_str(s: str) -> str:
    out = ['"']
    for c in s:
        o = ord(c)
        if c == "\\":
            out.append("\\\\")
        elif c == '"':
            out.append('\\"')
        elif c == "\n":
            out.append("\\n")
        elif c == "\t":
            out.append("\\t")
        elif 32 <= o < 127:
            out.append(c)
        elif 0xD800 <= o <= 0xDFFF:
            out.append("\\u{fffd}")  # not a scalar value: cannot occur in a Lean string (and differs from the model anyway)
        else:
            out.append("\\u{%x}" % o)
    out.append('"')
    return "".join(out)


def _lean_bool(b):
    return "true" if b else "false"


def _lean_list(xs):
    return "[" + ", ".join(xs) + "]"


def _lean_int(n):
    return f"({n} : Int)"


COMPONENTS = ("rules", "terminals", "ignore", "start", "options", "callbacks", "unsupported")


def lean_component(g, comp):
    if comp == "rules":
        rs = []
        for r in g["rules"]:
            ex = _lean_list([f"⟨{_lean_bool(s['term'])}, {lean_str(s['name'])}, {_lean_bool(s['filter_out'])}⟩" for s in r["expansion"]])
            alias = "none" if r["alias"] is None else f"some {lean_str(r['alias'])}"
            rs.append(f"{{ origin := {lean_str(r['origin'])}, expansion := {ex}, alias := {alias}, expand1 := {_lean_bool(r['expand1'])}, keepAll := {_lean_bool(r['keep_all'])} }}")
        return "([" + ",\n   ".join(rs) + "] : List WRule)"
    if comp == "terminals":
        ts = [f"{{ name := {lean_str(t['name'])}, isRegexp := {_lean_bool(t['re'])}, value := {lean_str(t['value'])}, flags := {_lean_list([lean_str(f) for f in t['flags']])}, priority := {_lean_int(t['priority'])} }}" for t in g["terminals"]]
        return "([" + ",\n   ".join(ts) + "] : List WTerm)"
    if comp == "options":
        return "(" + _lean_list([f"({lean_str(k)}, {lean_str(v)})" for k, v in g["options"]]) + " : List (String × String))"
    return "(" + _lean_list([lean_str(x) for x in g[comp]]) + " : List String)"


def lean_source(g):
    """-> (source text, {line number of an `example`: component name})"""
    lines = [
        "-- generated by harness/grammar_reflect.py from the compiled Lark object of predicate.parser; not part of the lake package",
        "import PyPred.Model.Grammar",
        "open PyPred.Grammar",
        "",
    ]
    for comp in COMPONENTS:
        lines.append(f"def reflected_{comp} := {lean_component(g, comp)}")
    lines.append("")
    for comp in COMPONENTS:
        lines.append(f"example : reflected_{comp} = PyPred.Grammar.referenceWire.{comp} := by decide")
    lines.append("")
    lines.append("example : ({ " + ", ".join(f"{c} := reflected_{c}" for c in COMPONENTS) + " } : WGrammar) = PyPred.Grammar.referenceWire := by decide")
    text = "\n".join(lines) + "\n"
    where = {}  # the definitions may span several lines: number the lines of the final text
    for n, ln in enumerate(text.split("\n"), 1):
        if ln.startswith("example : reflected_"):
            where[n] = ln[len("example : reflected_") :].split(" ")[0]
        elif ln.startswith("example : ({"):
            where[n] = "grammar"
    return text, where


def check_tie(g, timeout=600):
    """Let Lean decide `reflected = referenceWire`.  -> (ok, log, components whose `example` failed)"""
    text, where = lean_source(g)
    tmp = tempfile.mkdtemp(prefix="pypred_grammar_")
    try:
        path = os.path.join(tmp, "Reflected.lean")
        with open(path, "w", encoding="utf-8") as f:
            f.write(text)
        p = subprocess.run(["lake", "env", "lean", path], cwd=LEAN_DIR, capture_output=True, text=True, timeout=timeout)
        log = p.stdout + p.stderr
    finally:
        shutil.rmtree(tmp, ignore_errors=True)
    bad = []
    for ln in log.split("\n"):
        if "error" in ln and "Reflected.lean:" in ln:
            try:
                n = int(ln.split("Reflected.lean:")[1].split(":")[0])
            except ValueError:
                continue
            comp = where.get(n)
            if comp is None:  # an error inside a definition (a term that does not elaborate)
                comp = "elaboration"
            if comp not in bad:
                bad.append(comp)
    ok = p.returncode == 0 and not bad
    if p.returncode != 0 and not bad:
        bad.append("lean")
    return ok, log, bad


# ---------------------------------------------------------------- Lark's tree -> derivation


def leaf_wire(ty, text):
    return f"{ty}:{enc_text(text)}"


def raw_wire(x):
    from lark import Token, Tree

    if isinstance(x, Tree):
        return "(" + " ".join([str(x.data)] + [raw_wire(c) for c in x.children]) + ")"
    if isinstance(x, Token):
        return leaf_wire(x.type, str(x))
    raise TypeError(f"neither Tree nor Token: {type(x).__name__}")


class Unshaper:
    """Finds a derivation `d` of the reflected grammar with `shape d = tree` (first one found; the grammar's tree
    shaping is injective for the pinned grammar).  Iterative deepening is not needed: every step consumes a node of the
    tree or applies an `expand1` rule, and chains of `expand1` rules are cut by `busy`."""

    def __init__(self, g):
        self.by_origin = {}
        for r in g["rules"]:
            self.by_origin.setdefault(r["origin"], []).append(r)
        self.literal = {t["name"]: t["value"] for t in g["terminals"] if not t["re"]}
        self.busy = set()

    def label(self, r):
        return r["alias"] or r["origin"]

    def node(self, r, kids):
        return "(" + " ".join([rule_key(r)] + kids) + ")"

    def match(self, expansion, keep, children):
        """All ways to read `children` (shaped) as the shapes of derivations of `expansion` -> lists of derivation wires."""
        from lark import Token

        if not expansion:
            if not children:
                yield []
            return
        s = expansion[0]
        if s["term"]:
            if s["filter_out"] and not keep:
                if s["name"] not in self.literal:
                    return  # a filtered regular expression: its text is not in the tree
                lf = leaf_wire(s["name"], self.literal[s["name"]])
                for rest in self.match(expansion[1:], keep, children):
                    yield [lf] + rest
            elif children and isinstance(children[0], Token) and children[0].type == s["name"]:
                lf = leaf_wire(children[0].type, str(children[0]))
                for rest in self.match(expansion[1:], keep, children[1:]):
                    yield [lf] + rest
        elif children:
            for d in self.derive(s["name"], children[0]):
                for rest in self.match(expansion[1:], keep, children[1:]):
                    yield [d] + rest

    def derive(self, nt, item):
        """Derivations of the non-terminal `nt` whose shape is exactly `item`."""
        from lark import Tree

        key = (nt, id(item))
        if key in self.busy:
            return
        self.busy.add(key)
        try:
            for r in self.by_origin.get(nt, []):
                if isinstance(item, Tree) and self.label(r) == str(item.data):
                    if not (r["expand1"] and len(item.children) == 1):  # such a node would have been replaced by its child
                        for kids in self.match(r["expansion"], r["keep_all"], list(item.children)):
                            yield self.node(r, kids)
                if r["expand1"]:
                    for kids in self.match(r["expansion"], r["keep_all"], [item]):
                        yield self.node(r, kids)
        finally:
            self.busy.discard(key)


def unshape(g, tree, start=None):
    u = Unshaper(g)
    for st in [start] if start else g["start"]:
        for d in u.derive(st, tree):
            return d
    return None


if __name__ == "__main__":
    r = find()
    if r is None:
        print("no Lark object in predicate.parser: tie not applicable")
        sys.exit(0)
    print("# from", r.how)
    for it in items(r.g):
        print(readable(it))
    if "--lean" in sys.argv:
        print(lean_source(r.g)[0])
    if "--check" in sys.argv:
        ok, log, bad = check_tie(r.g)
        print("tie:", "ok" if ok else f"BROKEN {bad}")
        if not ok:
            print(log[-3000:])
