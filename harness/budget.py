"""Deterministic work budgets: count interpreter line events and stop a call that
exceeds its allowance (used for every call into the library's generators and for
optimize on large trees).  `Starved` is an outcome, never an error of the harness."""
import sys


class Starved(Exception):
    pass


def limited(fn, max_events):
    """Run fn() under a line-event budget.  Returns (result, events) or raises Starved."""
    count = 0

    def tracer(frame, event, arg):
        nonlocal count
        if event == "line":
            count += 1
            if count > max_events:
                raise Starved(f"more than {max_events} line events")
        return tracer

    old = sys.gettrace()
    sys.settrace(tracer)
    try:
        r = fn()
    finally:
        sys.settrace(old)
    return r, count


def take(gen_fn, n, max_events_per_item):
    """First n items of the iterator returned by gen_fn(), each `next` under its own budget.
    Returns (items, status) with status in 'more' | 'stopped' | 'starved' | 'error:<Type>'."""
    items = []
    try:
        it, _ = limited(lambda: iter(gen_fn()), max_events_per_item)
    except Starved:
        return items, "starved"
    except Exception as e:  # noqa: BLE001
        return items, f"error:{type(e).__name__}"
    for _ in range(n):
        try:
            v, _ = limited(lambda: next(it), max_events_per_item)
        except StopIteration:
            return items, "stopped"
        except Starved:
            return items, "starved"
        except Exception as e:  # noqa: BLE001
            return items, f"error:{type(e).__name__}"
        items.append(v)
    return items, "more"
