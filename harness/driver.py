"""Client of the Lean model driver (lean/Driver.lean): batch line protocol."""
import os
import subprocess

HERE = os.path.dirname(os.path.abspath(__file__))
LEAN_DIR = os.path.join(os.path.dirname(HERE), "lean")
EXE = os.path.join(LEAN_DIR, ".lake", "build", "bin", "driver")


class DriverError(RuntimeError):
    pass


def build(targets=("PyPred", "driver"), timeout=3000):
    """`lake build`; returns (ok, output)."""
    p = subprocess.run(["lake", "build", *targets], cwd=LEAN_DIR, capture_output=True, text=True, timeout=timeout)
    return p.returncode == 0, p.stdout + p.stderr


def run(lines, timeout=3000, exe="driver", src="Driver.lean"):
    """Send request lines to a compiled driver (lean_exe `exe`, source `src`), return the answer lines (same length)."""
    lines = list(lines)
    if not lines:
        return []
    data = "\n".join(lines) + "\n"
    path = os.path.join(LEAN_DIR, ".lake", "build", "bin", exe)
    if os.path.exists(path):
        cmd = [path]
    else:  # fallback: interpreter
        cmd = ["lake", "env", "lean", "--run", src]
    p = subprocess.run(cmd, cwd=LEAN_DIR, input=data, capture_output=True, text=True, timeout=timeout)
    if p.returncode != 0:
        raise DriverError(f"driver exit {p.returncode}: {p.stderr[:2000]}")
    out = p.stdout.split("\n")
    if out and out[-1] == "":
        out.pop()
    if len(out) != len(lines):
        raise DriverError(f"driver answered {len(out)} lines for {len(lines)} requests")
    return out
