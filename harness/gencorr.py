"""M6 correspondence machinery shared by C09, C10, C11 (harness/props/c09.py, c10.py, c11.py).

* specs: nested tuples with Python values as parameters, e.g. ('ge', 101), ('and', ('inst', ('int',)),
  ('le', 5.0)), ('dictof', [(('inst', ('str',)), ('inst', ('int',)))]); `build` makes the real
  predicate object, `sexp` the wire form of the model tree (set members in the object's own iteration
  order, the two optimizer guards of `&` computed by the real `optimize`).
* values: `lift_val` Python value -> wire s-expression with exact floats (`(f k)`, k = x * 2**1074; `(F 0)` = +inf, `(F 1)` = -inf),
  `canon` puts set members in `GVal.key` order so that both sides compare as strings.
* `Patched(raws)`: context manager that replaces, as seen from the library's modules, random.randint /
  random.uniform / helpers.choices / more_itertools.recipes.randrange / .sample / helpers.uuid4 /
  helpers.datetime by tape readers that log every request.  Same answers as Model/Gen.lean `Tape.*`
  (`clamp raw lo hi`; 0 past the end of the tape).
* `pull_impl`: first n results of successive next() calls, each under a line-event budget.
* `run_model`: the same request to `driver_gen`.
"""
import datetime as _dt
import math
import random
import uuid
from fractions import Fraction

import more_itertools.recipes as _recipes
import sys

import predicate as P
from predicate.generator import helpers as _helpers
from predicate.generator.generate_false import generate_false
from predicate.generator.generate_true import generate_true
from predicate.optimizer.predicate_optimizer import optimize
from predicate.set_predicates import is_real_subset_p, is_subset_p
from predicate.standard_predicates import has_key_p, is_dict_of_p, is_set_of_p, is_tuple_of_p

from . import budget, driver, sx as S
from .core import HarnessError

EXE = dict(exe="driver_gen", src="DriverGen.lean")
SCALE = 2**1074
DT_MIN = _dt.datetime.min
US = _dt.timedelta(microseconds=1)
NOW_LO, NOW_HI = 60_000_000_000_000_000, 70_000_000_000_000_000
POP = "abcdefghijklmnopqrstuvwxyzABCDEFGHIJKLMNOPQRSTUVWXYZ0123456789"

KLASS = {
    "bool": bool, "int": int, "float": float, "str": str, "list": list, "tuple": tuple, "set": set, "dict": dict,
    "complex": complex, "datetime": _dt.datetime, "uuid": uuid.UUID,
}


class NotInUniverse(Exception):
    pass


class GuardUnknown(Exception):
    """optimize(p) raised: the guard of generate_true/false(&) has no value, the spec is skipped (counted)."""


# ------------------------------------------------------------------ values


def fk(x: float) -> int:
    """float -> float units (exact)."""
    if x != x or x in (math.inf, -math.inf):
        raise NotInUniverse(repr(x))
    f = Fraction(x) * SCALE
    assert f.denominator == 1
    return f.numerator


def kf(k: int) -> float:
    """float units -> float (exact for a representable k; checked)."""
    x = float(Fraction(k, SCALE))
    if fk(x) != k:
        raise HarnessError(f"float units {k} are not a double")
    return x


def dt_us(d) -> int:
    return (d - DT_MIN) // US


def us_dt(us: int):
    return DT_MIN + _dt.timedelta(microseconds=us)


def lift_val(x):
    """Python value -> s-expression tuple (sets and dicts in Python's own iteration order)."""
    if x is None:
        return "N"
    if x is True:
        return ("b", "1")
    if x is False:
        return ("b", "0")
    t = type(x)
    if t is int:
        return ("i", str(x))
    if t is float:
        if x == math.inf or x == -math.inf:
            return ("F", "1" if x < 0 else "0")  # GVal.inf neg
        return ("f", str(fk(x)))
    if t is str:
        return ("s", *[str(ord(c)) for c in x])
    if t is list:
        return ("l", *[lift_val(y) for y in x])
    if t is tuple:
        return ("t", *[lift_val(y) for y in x])
    if t is set or t is frozenset:
        return ("S", *[lift_val(y) for y in x])
    if t is dict:
        return ("d", *[(lift_val(k), lift_val(v)) for k, v in x.items()])
    if isinstance(x, _dt.datetime):
        return ("D", str(dt_us(x)))
    if t is uuid.UUID:
        return ("U", str(x.int))
    if t is complex:
        if x.real != int(x.real) or x.imag != int(x.imag):
            raise NotInUniverse(repr(x))
        return ("C", str(int(x.real)), str(int(x.imag)))
    raise NotInUniverse(repr(x))


def key(sx):
    """GVal.key on the wire form (Model/GenVal.lean)."""
    if sx == "N":
        return [0]
    h = sx[0]
    if h == "b":
        return [1, int(sx[1])]
    if h == "i":
        return [2, int(sx[1])]
    if h == "f":
        return [3, int(sx[1])]
    if h == "s":
        return [4, len(sx) - 1, *[int(c) for c in sx[1:]]]
    if h in ("l", "t", "S"):
        out = [{"l": 5, "t": 6, "S": 7}[h], len(sx) - 1]
        for y in sx[1:]:
            out += key(y)
        return out
    if h == "d":
        out = [8, len(sx) - 1]
        for k, v in sx[1:]:
            out += key(("t", k, v))
        return out
    if h == "D":
        return [9, int(sx[1])]
    if h == "U":
        return [10, int(sx[1])]
    if h == "C":
        return [11, int(sx[1]), int(sx[2])]
    if h == "F":
        return [12, 0 if sx[1] == "1" else 1]
    raise HarnessError(f"bad value s-expression {sx!r}")


def canon(sx):
    """Canonical form: set members sorted by key, recursively."""
    if isinstance(sx, str):
        return sx
    h = sx[0]
    if h in ("l", "t"):
        return (h, *[canon(y) for y in sx[1:]])
    if h == "S":
        return ("S", *sorted((canon(y) for y in sx[1:]), key=key))
    if h == "d":
        return ("d", *[(canon(k), canon(v)) for k, v in sx[1:]])
    return sx


def show_val(x) -> str:
    return S.show(canon(lift_val(x)))


def py_key(x):
    return key(canon(lift_val(x)))


# ------------------------------------------------------------------ predicates

_SIMPLE = {"tt": P.always_true_p, "ff": P.always_false_p, "none": P.is_none_p, "notnone": P.is_not_none_p,
           "truthy": P.is_truthy_p, "falsy": P.is_falsy_p, "empty": P.is_empty_p}
_UNARY = {"eq": P.eq_p, "ne": P.ne_p, "ge": P.ge_p, "gt": P.gt_p, "le": P.le_p, "lt": P.lt_p}


def build(s):
    """spec -> the real predicate object."""
    h = s[0]
    if h in _SIMPLE:
        return _SIMPLE[h]
    if h in _UNARY:
        return _UNARY[h](s[1])
    if h == "in":
        return P.in_p(*s[1])
    if h == "notin":
        return P.not_in_p(*s[1])
    if h == "subset":
        return is_subset_p(set(s[1]))
    if h == "rsubset":
        return is_real_subset_p(set(s[1]))
    if h == "inst":
        return P.is_instance_p(*[KLASS[k] for k in s[1]])
    if h == "haskey":
        return has_key_p(s[1])
    if h == "and":
        return build(s[1]) & build(s[2])
    if h == "or":
        return build(s[1]) | build(s[2])
    if h == "all":
        return P.all_p(build(s[1]))
    if h == "any":
        return P.any_p(build(s[1]))
    if h == "setof":
        return is_set_of_p(build(s[1]))
    if h == "tupleof":
        return is_tuple_of_p(*[build(q) for q in s[1]])
    if h == "dictof":
        return is_dict_of_p(*[(build(k), build(v)) for k, v in s[1]])
    raise HarnessError(f"unknown spec {s!r}")


def sexp(s, p) -> tuple:
    """spec + its predicate object -> wire form of the model tree."""
    h = s[0]
    if h in _SIMPLE:
        return h
    if h in _UNARY or h == "haskey":
        return (h, lift_val(s[1]))
    if h in ("in", "notin", "subset", "rsubset"):
        return (h, *[lift_val(y) for y in p.v])  # the object's own iteration order
    if h == "inst":
        return ("inst", *s[1])
    if h in ("and", "or"):
        l, r = sexp(s[1], p.left), sexp(s[2], p.right)
        if h == "or":
            return ("or", l, r)
        try:
            opt, _ = budget.limited(lambda: optimize(p), 2_000_000)
        except budget.Starved:
            raise
        except Exception as e:  # noqa: BLE001  optimize itself raises on ill-typed operands (datetime vs float bounds): no guard to model
            raise GuardUnknown(f"optimize raised {type(e).__name__}") from e
        unsat = opt == P.always_false_p
        gen_f = opt != P.always_true_p
        return ("and", "1" if unsat else "0", "1" if gen_f else "0", l, r)
    if h in ("all", "any", "setof"):
        return (h, sexp(s[1], p.predicate))
    if h == "tupleof":
        return ("tupleof", *[sexp(q, pq) for q, pq in zip(s[1], p.predicates)])
    if h == "dictof":
        return ("dictof", *[(sexp(k, pk), sexp(v, pv)) for (k, v), (pk, pv) in zip(s[1], p.key_value_predicates)])
    raise HarnessError(f"unknown spec {s!r}")


def show_spec(s) -> str:
    h = s[0]
    if h in _SIMPLE:
        return h
    if h in _UNARY or h == "haskey":
        return f"{h}({s[1]!r})"
    if h in ("in", "notin", "subset", "rsubset"):
        xs = list(s[1])
        body = ", ".join(repr(x) for x in xs[:6]) + (f", … {len(xs)} members" if len(xs) > 6 else "")
        return f"{h}({body})"
    if h == "inst":
        return "inst(" + ",".join(s[1]) + ")"
    if h in ("and", "or"):
        return f"({show_spec(s[1])} {'&' if h == 'and' else '|'} {show_spec(s[2])})"
    if h in ("all", "any", "setof"):
        return f"{h}({show_spec(s[1])})"
    if h == "tupleof":
        return "tupleof(" + ", ".join(show_spec(q) for q in s[1]) + ")"
    if h == "dictof":
        return "dictof(" + ", ".join(f"{show_spec(k)}: {show_spec(v)}" for k, v in s[1]) + ")"
    return repr(s)


def kind_of(s) -> str:
    h = s[0]
    if h in _UNARY:
        return f"{h}:{type(s[1]).__name__}"
    if h in ("all", "any", "setof"):
        return f"{h}({kind_of(s[1])})"
    if h in ("and", "or"):
        return f"{h}({s[1][0]},{s[2][0]})"
    return h


FALSE_KINDS = {"tt", "ff", "eq", "ne", "ge", "gt", "falsy", "in", "empty", "none", "notnone", "truthy", "inst", "and", "or", "all", "setof"}


def false_supported(s) -> bool:
    """generate_false has a clause for the spec and for every sub-spec it will descend into (Model: genFalse ≠ none)."""
    h = s[0]
    if h not in FALSE_KINDS:
        return False
    if h in ("and", "or"):
        return false_supported(s[1]) and false_supported(s[2])
    if h in ("all", "setof"):
        return false_supported(s[1])
    return True


# ------------------------------------------------------------------ the tape


def clamp(r, lo, hi):
    return max(lo, min(r, hi))


class Tape:
    def __init__(self, raws):
        self.raws = list(raws)
        self.pos = 0
        self.log = []

    def raw(self):
        r = self.raws[self.pos] if self.pos < len(self.raws) else 0
        self.pos += 1
        return r

    # -- the replaced functions
    def randint(self, lo, hi):
        lo, hi = int(lo), int(hi)
        self.log.append(("randint", lo, hi))
        if lo > hi:
            raise ValueError("empty range in randint")
        return clamp(self.raw(), lo, hi)

    def uniform(self, lo, hi):
        lo, hi = float(lo), float(hi)
        if not (math.isfinite(lo) and math.isfinite(hi)):
            # random.uniform with an infinite end returns inf or nan: no answer in the model; the request is logged and shows in the comparison
            self.log.append(("uniform", repr(lo), repr(hi)))
            raise NotInUniverse(f"random.uniform({lo!r}, {hi!r})")
        klo, khi = fk(lo), fk(hi)
        self.log.append(("uniform", klo, khi))
        return kf(clamp(self.raw(), klo, khi))

    def randrange(self, n):
        self.log.append(("randrange", 0, n - 1))
        if n <= 0:
            raise ValueError("empty range for randrange()")
        return clamp(self.raw(), 0, n - 1)

    def choices(self, population, k=1):
        self.log.append(("choices", len(population), k))
        return [population[clamp(self.raw(), 0, len(population) - 1)] for _ in range(k)]

    def sample(self, pool, r):
        pool = list(pool)
        self.log.append(("sample", len(pool), r))
        if r != len(pool):
            raise HarnessError("sample() with r != len(pool) is not modelled")
        return sorted(pool, key=py_key)

    def uuid4(self):
        self.log.append(("uuid4", 0, 2**128 - 1))
        return uuid.UUID(int=clamp(self.raw(), 0, 2**128 - 1))

    def now(self):
        self.log.append(("now", NOW_LO, NOW_HI))
        return us_dt(clamp(self.raw(), NOW_LO, NOW_HI))


class Patched:
    """Replace the random source as seen from the library's modules by readers of `tape`."""

    def __init__(self, tape):
        self.tape = tape
        self.saved = []

    def _set(self, obj, name, val):
        self.saved.append((obj, name, getattr(obj, name)))
        setattr(obj, name, val)

    def __enter__(self):
        t = self.tape

        class TapeDatetime(_dt.datetime):
            @classmethod
            def now(cls, tz=None):
                return t.now()

        self._set(random, "randint", t.randint)
        self._set(random, "uniform", t.uniform)
        self._set(_helpers, "choices", t.choices)
        self._set(_helpers, "uuid4", t.uuid4)
        self._set(_helpers, "datetime", TapeDatetime)
        self._set(_recipes, "randrange", t.randrange)
        self._set(_recipes, "sample", t.sample)
        return t

    def __exit__(self, *exc):
        for obj, name, val in reversed(self.saved):
            setattr(obj, name, val)
        return False


# ------------------------------------------------------------------ pulling


def pull_impl(mode, pred, n, events, raws=None, seed=None):
    """First n results of successive next() calls of generate_true/false(pred), each under its own
    line-event budget.  With `raws` the random source is the tape (returns its log), with `seed` the real
    PRNG.  Returns (items, status, log, max events of a successful next)."""
    fn = generate_true if mode == "T" else generate_false
    items, worst = [], 0
    tape = Tape(raws if raws is not None else [])

    def go():
        nonlocal worst
        try:
            it, _ = budget.limited(lambda: iter(fn(pred)), events)
        except budget.Starved:
            return "starved"
        except Exception as e:  # noqa: BLE001
            return f"error:{type(e).__name__}"
        for _ in range(n):
            try:
                v, ev = budget.limited(lambda: next(it), events)
            except StopIteration:
                return "stopped"
            except budget.Starved:
                return "starved"
            except HarnessError:
                raise
            except Exception as e:  # noqa: BLE001
                return f"error:{type(e).__name__}"
            worst = max(worst, ev)
            items.append(v)
        return "more"

    if raws is not None:
        with Patched(tape):
            status = go()
    else:
        state = random.getstate()
        random.seed(seed)
        try:
            status = go()
        finally:
            random.setstate(state)
    return items, status, tape.log, worst


def model_request(mode, sx_pred, n, fuel, raws) -> str:
    body = " ".join(str(r) if k == 1 else f"(r {r} {k})" for r, k in rle(raws))
    return f"gen {mode} {fuel} {n} {S.show(sx_pred)} ({body})"


def parse_run(line):
    """driver answer -> (status, [canonical value strings], [(kind, lo, hi)])."""
    if line.startswith("ERR"):
        raise HarnessError(f"driver_gen: {line}")
    xs = S.parse(line)
    status, vals, reqs = xs[0], xs[1], xs[2]
    return status, [S.show(canon(v)) for v in vals], [(r[0], int(r[1]), int(r[2])) for r in reqs]


def run_model(requests):
    return [parse_run(o) for o in driver.run(requests, **EXE)]


def eval_model(pairs):
    """[(sx_pred, value sexp)] -> ['ok T' | 'ok F' | 'raised X']."""
    return driver.run([f"eval {S.show(p)} {S.show(v)}" for p, v in pairs], **EXE)


def classify(sx_preds):
    """Model/GenClass.lean through the driver: dicts with okT, okF, boundedT, boundedF, yieldsT, total, falseSupported."""
    names = ("okT", "okF", "boundedT", "boundedF", "yieldsT", "total", "falseSupported")
    out = []
    for line in driver.run([f"class {S.show(p)}" for p in sx_preds], **EXE):
        if line.startswith("ERR"):
            raise HarnessError(f"driver_gen class: {line}")
        out.append(dict(zip(names, (b == "1" for b in line.split()))))
    return out


def call(p, x):
    """What calling the real predicate does: True / False / 'raised <Type>'."""
    try:
        r, _ = budget.limited(lambda: p(x), 500_000)
    except budget.Starved:
        return "starved"
    except Exception as e:  # noqa: BLE001
        return f"raised {type(e).__name__}"
    return r if isinstance(r, bool) else f"non-bool {r!r}"


# ------------------------------------------------------------------ tapes


def float_points():
    return [0.0, 1.0, -1.0, 1e-6, -1e-6, 1e-7, 0.1, 2.0, 3.14, 1e6, -1e6, 2e6, -2e6, 1e16, -1e16, 5e-324, 1.5, -2.5, 123456.789, 4e6, -4e6, 3e16]


BIG = 2**2100  # above every finite double in float units


def rle(raws):
    out = []
    for r in raws:
        if out and out[-1][0] == r:
            out[-1][1] += 1
        else:
            out.append([r, 1])
    return out


def unrle(pairs):
    return [r for r, k in pairs for _ in range(k)]


def make_tape(rng, length, style, bounds=()):
    """Raw tapes: every entry is either a small int (|r| <= 2**53, which is also a valid subnormal in float units)
    or the float units of a double, so that a uniform() answer is always a double."""
    big = BIG
    fpts = [fk(x) for x in float_points()] + [fk(float(b)) for b in bounds if isinstance(b, float) and math.isfinite(b)]
    ipts = [0, 1, -1, 2, 5, 9, 10, 11, 61, 99, 100, 101, -99, -100, -101, 1000, -1000] + [b for b in bounds if isinstance(b, int) and not isinstance(b, bool) and abs(b) <= 2**53]
    near = []
    for b in bounds:
        if isinstance(b, int) and not isinstance(b, bool) and abs(b) <= 2**52:
            near += [b - 1, b, b + 1, b + 5, b - 5, b + 50, b - 50, b + 100, b - 100]
        if isinstance(b, float) and math.isfinite(b):
            # neighbours of the bound and of the widened default; at the edge of the double range those that are still doubles,
            # plus the extremes of the range that is requested there (the largest double and its neighbour)
            cand = [math.nextafter(b, math.inf), math.nextafter(b, -math.inf), b * 2, b / 2, b + 1.0, b - 1.0]
            if abs(b) > 1e307:
                cand += [sys.float_info.max, -sys.float_info.max, math.nextafter(sys.float_info.max, 0.0), math.nextafter(-sys.float_info.max, 0.0)]
            near += [fk(x) for x in cand if math.isfinite(x)]
    out = []
    for _ in range(length):
        if style == "lo":
            out.append(-big)
        elif style == "hi":
            out.append(big)
        elif style == "zero":
            out.append(0)
        elif style == "alt":
            out.append(big if len(out) % 2 else -big)
        else:
            c = rng.random()
            if c < 0.15:
                out.append(rng.choice([big, -big]))
            elif c < 0.35:
                out.append(rng.choice(ipts))
            elif c < 0.5 and near:
                out.append(rng.choice(near))
            elif c < 0.6:
                out.append(rng.choice(fpts))
            elif c < 0.8:
                out.append(rng.randint(-12, 12))
            elif c < 0.9:
                out.append(rng.randint(-200, 200))
            elif c < 0.95:
                out.append(fk(rng.uniform(-3e6, 3e6)))
            else:
                out.append(rng.getrandbits(53) << rng.randint(0, 75))  # 128-bit range, still a double in float units
    return out


def spec_bounds(s):
    """The int / float constants of a spec (to aim tapes at them)."""
    out = []
    if s[0] in _UNARY and isinstance(s[1], (int, float)):
        out.append(s[1])
    if s[0] in ("in", "notin"):
        out += [x for x in list(s[1])[:4] if isinstance(x, (int, float))]
    for x in s[1:]:
        if isinstance(x, tuple) and x and isinstance(x[0], str):
            out += spec_bounds(x)
        elif isinstance(x, list):
            for y in x:
                if isinstance(y, tuple) and y and isinstance(y[0], str):
                    out += spec_bounds(y)
                elif isinstance(y, tuple):
                    for z in y:
                        if isinstance(z, tuple) and z and isinstance(z[0], str):
                            out += spec_bounds(z)
    return out


# ------------------------------------------------------------------ the parameter grid (DESIGN §7 C09)

import sys as _sys

D1 = _dt.datetime(2020, 1, 2, 3, 4, 5)
D2 = _dt.datetime(1999, 12, 31, 23, 59, 59, 999999)
U0, U1, U2 = uuid.UUID(int=0), uuid.UUID(int=2**127 + 12345), uuid.UUID(int=2**128 - 1)
MAXS = _sys.maxsize

INT_BOUNDS = [0, 1, -1, 99, -99, 100, -100, 101, -101, 1000, -1000, MAXS, -MAXS, MAXS + 1, -MAXS - 1, 2**70, -(2**70)]
# the last eight: the edge of the double range (2 * bound overflows beyond 8.98e307; nextafter leaves the finite range at ±max)
EDGE_FLOAT_BOUNDS = [1e308, -1e308, 1.7e308, -1.7e308, sys.float_info.max, -sys.float_info.max, 8.99e307, -8.99e307]
FLOAT_BOUNDS = [0.0, 1.0, -1.0, 1e-6, -1e-6, 1e-7, 1e6, -1e6, 2e6, -2e6, 1e16, -1e16, 2.0, 0.1, 3.5e300] + EDGE_FLOAT_BOUNDS
STR_BOUNDS = ["", "foo", "Zz9", "a"]
DT_BOUNDS = [D1, D2]
UUID_BOUNDS = [U0, U1, U2]
SETS = [[], [2, 3, 4], ["a", "b"], [2, "foo", 4], list(range(-100, 101)), [1.5], [True], [0, "x"], list(range(-100, 100)), ["", "a", "b"],
        [1.0, 2], [0.0, 7], [3.0, "x", 4], [True, 5], [-1.0, 0.0, 1.0, 2]]  # members of another numeric type that equal small ints


def scalar_specs():
    out = [("tt",), ("ff",), ("none",), ("notnone",), ("truthy",), ("falsy",), ("empty",)]
    for h in ("ge", "gt", "le", "lt"):
        for v in INT_BOUNDS + FLOAT_BOUNDS + STR_BOUNDS + DT_BOUNDS + UUID_BOUNDS + [True, None]:
            out.append((h, v))
    for h in ("eq", "ne"):
        for v in [2, 0, -101, MAXS + 1, 3.14, 0.0, 2e6, "foo", "", D1, U1, None, True, False, (), (1, 2), 1.0]:
            out.append((h, v))
    for h in ("in", "notin"):
        for s in SETS:
            out.append((h, s))
    for s in ([1, 2, 3], [], ["a"], [1, "a"]):
        out.append(("subset", s))
        out.append(("rsubset", s))
    for k in ("bool", "int", "float", "str", "complex", "dict", "set", "datetime", "uuid", "list", "tuple"):
        out.append(("inst", (k,)))
    out += [("inst", ("int", "str")), ("inst", ("str", "int")), ("inst", ("float", "int", "str")), ("inst", ("bool", "float"))]
    out += [("haskey", "foo"), ("haskey", 3), ("haskey", 1.5), ("haskey", "")]
    return out


LEAVES = [
    ("tt",), ("ff",), ("none",), ("notnone",), ("truthy",), ("falsy",), ("empty",),
    ("ge", 2), ("le", 5), ("ge", 101), ("lt", -100), ("gt", 2.0), ("le", -1.0), ("ge", "foo"), ("ge", D1), ("lt", U1),
    ("eq", 2), ("eq", "foo"), ("ne", 2), ("in", [2, 3, 4]), ("notin", [2, "foo", 4]), ("in", ["a", "b"]),
    ("inst", ("int",)), ("inst", ("str",)), ("inst", ("float",)), ("inst", ("bool",)), ("inst", ("datetime",)), ("inst", ("uuid",)),
    ("inst", ("dict",)), ("inst", ("set",)), ("inst", ("complex",)), ("inst", ("list",)),
]


def composite_specs(rng, n_random):
    """Composites two levels deep: a fixed list of the shapes the tests and the property texts name, plus random ones."""
    I, Sx, F, B, DT, UU = ("inst", ("int",)), ("inst", ("str",)), ("inst", ("float",)), ("inst", ("bool",)), ("inst", ("datetime",)), ("inst", ("uuid",))
    out = [
        ("and", ("ge", 2), ("le", 5)), ("and", I, ("ge", 3)), ("and", ("ge", 3), I), ("and", ("inst", ("list",)), ("all", I)),
        ("and", ("ge", 5), ("le", 2)), ("and", ("tt",), ("tt",)), ("and", ("in", [1, 2]), ("ge", 5)), ("and", ("notnone",), ("ge", 3)),
        ("and", ("ge", D1), I), ("and", ("truthy",), ("notnone",)), ("and", ("empty",), ("inst", ("list",))), ("and", I, Sx),
        ("or", I, Sx), ("or", ("or", B, DT), Sx), ("or", ("ge", 3), Sx), ("or", Sx, ("ge", 3)), ("or", ("eq", 2), ("eq", "foo")),
        ("or", ("ff",), I), ("or", I, ("ff",)), ("or", ("ge", 2), ("le", -2)), ("or", ("none",), ("ge", 2.0)), ("or", ("ge", D1), I),
        ("all", I), ("all", ("ff",)), ("all", ("tt",)), ("all", ("ge", 200)), ("all", ("inst", ("dict",))), ("all", ("inst", ("set",))), ("all", DT),
        ("all", ("or", I, Sx)), ("all", ("and", I, ("ge", 3))), ("all", ("all", I)), ("all", ("eq", 2)), ("all", ("lt", -1e16)), ("all", ("in", [2, 3])),
        ("any", UU), ("any", ("ff",)), ("any", ("tt",)), ("any", I), ("any", ("inst", ("dict",))), ("any", ("ge", 101)), ("any", ("none",)),
        ("any", ("or", I, Sx)), ("any", ("all", I)),
        ("setof", I), ("setof", B), ("setof", DT), ("setof", F), ("setof", Sx), ("setof", ("or", I, Sx)), ("setof", ("or", ("or", B, DT), Sx)),
        ("setof", ("inst", ("dict",))), ("setof", ("ff",)), ("setof", ("tt",)), ("setof", ("eq", 1)), ("setof", ("ge", 1000)), ("setof", ("in", [1, 2])),
        ("setof", ("setof", I)), ("setof", ("tupleof", [I, Sx])),
        ("tupleof", [B]), ("tupleof", [I]), ("tupleof", [Sx]), ("tupleof", [I, I]), ("tupleof", []), ("tupleof", [I, Sx, ("ge", 2.0)]),
        ("tupleof", [("ff",), I]), ("tupleof", [("all", I), ("setof", B)]), ("tupleof", [DT, I]),
        ("dictof", [(Sx, I)]), ("dictof", []), ("dictof", [(Sx, I), (I, Sx)]), ("dictof", [(Sx, I), (Sx, Sx)]), ("dictof", [(("eq", "k"), ("ge", 3))]),
        ("dictof", [(I, ("all", I))]), ("dictof", [(("inst", ("dict",)), I)]),
        ("and", ("inst", ("dict",)), ("haskey", "foo")), ("or", ("haskey", "a"), ("none",)),
    ]
    # operands related by implication (what implies() knows: ge/gt pairs, eq against ge/gt/in/ne, in within in, real-subset within
    # subset), weaker first and stronger first: a filter that is skipped "because the other operand implies it" shows here
    related = [(("ge", 2), ("ge", 50)), (("gt", 7), ("ge", -2)), (("ge", 1), ("eq", 3)), (("in", [1, 2, 3, 4, 5]), ("in", [1, 2])), (("in", [2, 3, 4]), ("eq", 2)),
               (("ne", 3), ("eq", 2)), (("subset", [1, 2, 3]), ("rsubset", [1, 2, 3])), (("ge", 2.0), ("gt", 2.0)), (("le", 5), ("le", -5)), (("notin", [2, 3]), ("in", [7, 8]))]
    for weak, strong in related:
        out += [("and", weak, strong), ("and", strong, weak), ("or", weak, strong), ("or", strong, weak)]
    unary = ["all", "any", "setof"]
    for _ in range(n_random):
        c = rng.random()
        if c < 0.3:
            out.append(("and", rng.choice(LEAVES), rng.choice(LEAVES)))
        elif c < 0.55:
            out.append(("or", rng.choice(LEAVES), rng.choice(LEAVES)))
        elif c < 0.75:
            inner = rng.choice(LEAVES) if rng.random() < 0.6 else (rng.choice(["and", "or"]), rng.choice(LEAVES), rng.choice(LEAVES))
            out.append((rng.choice(unary), inner))
        elif c < 0.9:
            out.append(("tupleof", [rng.choice(LEAVES) for _ in range(rng.randint(1, 3))]))
        else:
            out.append(("dictof", [(rng.choice(LEAVES), rng.choice(LEAVES)) for _ in range(rng.randint(1, 2))]))
    return out


def is_total(s) -> bool:
    """Lemmas/GenClauses.lean `total`."""
    h = s[0]
    if h in ("tt", "ff", "eq", "ne", "none", "notnone", "truthy", "falsy", "inst"):
        return True
    if h in ("and", "or"):
        return is_total(s[1]) and is_total(s[2])
    return False


def subspecs(s):
    yield s
    h = s[0]
    if h in ("and", "or"):
        yield from subspecs(s[1])
        yield from subspecs(s[2])
    elif h in ("all", "any", "setof"):
        yield from subspecs(s[1])
    elif h == "tupleof":
        for q in s[1]:
            yield from subspecs(q)
    elif h == "dictof":
        for k, v in s[1]:
            yield from subspecs(k)
            yield from subspecs(v)


# ------------------------------------------------------------------ one correspondence case


class Case:
    """One (mode, spec, tape) run of both sides."""

    __slots__ = ("mode", "spec", "pred", "sx", "raws", "style", "n", "items", "status", "log", "worst", "m_status", "m_vals", "m_log", "i_vals", "dis")

    def input(self):
        return {"mode": self.mode, "spec": repr(self.spec), "predicate": show_spec(self.spec), "tape_rle": rle(self.raws), "style": self.style, "n": self.n}


SKIPPED = []
FUEL = 600
EVENTS = 150_000


def _log_diff(c):
    """Where the request logs part (reported along with a value / status difference)."""
    a, b = [tuple(x) for x in c.log], [tuple(x) for x in c.m_log]
    k = next((i for i, (x, y) in enumerate(zip(a, b)) if x != y), min(len(a), len(b)))
    if k == len(a) == len(b):
        return {}
    return {"requests_differ_at": k, "request_implementation": [str(x)[:120] for x in a[k : k + 1]], "request_model": [str(x)[:120] for x in b[k : k + 1]]}


def compare(c):
    """Fill c.dis with a description of the first difference between model and implementation (or None)."""
    try:
        c.i_vals = [show_val(v) for v in c.items]
    except NotInUniverse as e:
        c.i_vals = None
        c.dis = {"what": "implementation yielded a value outside the model's universe", "value": str(e)}
        return
    if c.i_vals != c.m_vals:
        k = next((i for i, (a, b) in enumerate(zip(c.i_vals, c.m_vals)) if a != b), min(len(c.i_vals), len(c.m_vals)))
        c.dis = {"what": "yielded values differ", "position": k, "implementation": c.i_vals[k : k + 2], "model": c.m_vals[k : k + 2],
                 "len_implementation": len(c.i_vals), "len_model": len(c.m_vals), "status_implementation": c.status, "status_model": c.m_status,
                 **_log_diff(c)}
        return
    if c.status != c.m_status:
        c.dis = {"what": "final status differs", "status_implementation": c.status, "status_model": c.m_status, "values": len(c.i_vals), **_log_diff(c)}
        return
    if c.status in ("more", "stopped"):
        if c.log != c.m_log:
            k = next((i for i, (a, b) in enumerate(zip(c.log, c.m_log)) if a != b), min(len(c.log), len(c.m_log)))
            c.dis = {"what": "requests to the random source differ", "position": k, "implementation": [str(x)[:120] for x in c.log[k : k + 2]],
                     "model": [str(x)[:120] for x in c.m_log[k : k + 2]], "len_implementation": len(c.log), "len_model": len(c.m_log)}
            return
    elif c.status == "starved":
        if c.log[: len(c.m_log)] != c.m_log:
            c.dis = {"what": "requests before the starved next() differ"}
            return
    c.dis = None


def run_cases(mode, specs, n, tapes_for, rng):
    """Run model and implementation on every (spec, tape).  Returns the list of Case objects."""
    cases = []
    for s in specs:
        p = build(s)
        try:
            sxp = sexp(s, p)
        except GuardUnknown:
            SKIPPED.append(show_spec(s))
            continue
        for style, raws in tapes_for(s):
            c = Case()
            c.mode, c.spec, c.pred, c.sx, c.raws, c.style, c.n = mode, s, p, sxp, raws, style, n
            cases.append(c)
    outs = run_model([model_request(mode, c.sx, n, FUEL, c.raws) for c in cases])
    for c, (st, vals, log) in zip(cases, outs):
        c.m_status, c.m_vals, c.m_log = st, vals, log
        c.items, c.status, c.log, c.worst = pull_impl(mode, c.pred, n, EVENTS, raws=c.raws)
        compare(c)
    # a starved / yielded mismatch may be a matter of budget: retry both sides with ten times as much
    redo = [c for c in cases if c.dis and "starved" in (c.status, c.m_status) and c.status != c.m_status]
    if redo:
        outs = run_model([model_request(mode, c.sx, n, FUEL * 10, c.raws) for c in redo])
        for c, (st, vals, log) in zip(redo, outs):
            c.m_status, c.m_vals, c.m_log = st, vals, log
            c.items, c.status, c.log, c.worst = pull_impl(mode, c.pred, n, EVENTS * 10, raws=c.raws)
            compare(c)
    return cases


def standard_tapes(rng, n_mixed, length=160):
    def tapes_for(s):
        b = spec_bounds(s)
        short = 40  # the extreme tapes are long numbers; after them the tape reads 0
        out = [("lo", [-BIG] * short), ("hi", [BIG] * short), ("alt", make_tape(rng, short, "alt"))]
        out += [("mix", make_tape(rng, length, "mix", b)) for _ in range(n_mixed)]
        return out

    return tapes_for


def judge_values(c, want):
    """The property itself on the real code for one case: every yielded value must make the real predicate return `want`.
    Returns [(position, value repr, outcome)] for the values that do not."""
    bad = []
    for i, v in enumerate(c.items):
        r = call(c.pred, v)
        if r is not want:
            bad.append((i, repr(v)[:200], r if isinstance(r, str) else repr(r)))
    return bad


# ------------------------------------------------------------------ C09 / C10: the safety check

import json as _json
import random as _random


def wire_float(x):
    return "N" if x is None else S.show(lift_val(x))


def float_bounds_corr(rng, n_random):
    """Model/Gen.lean floatsFrom, nextUpX, nextDownX against helpers.random_floats and math.nextafter.  Returns (cases, disagreements)."""
    M = sys.float_info.max
    pts = list(FLOAT_BOUNDS) + float_points() + [M / 2, math.nextafter(M / 2, math.inf), math.nextafter(M / 2, 0.0), -M / 2, math.nextafter(-M / 2, -math.inf),
                                                 math.nextafter(M, 0.0), math.nextafter(-M, 0.0), math.inf, -math.inf, 5e-324, -5e-324, 2.2250738585072014e-308,
                                                 -5e-7, 5e-7, 5e5, -5e5, 8.98e307, -8.98e307, 8.9884656743115795e307, -8.9884656743115795e307]
    pts += [rng.uniform(-1, 1) * 10.0 ** rng.randint(-320, 308) for _ in range(n_random)]
    reqs, want, what = [], [], []
    for x in pts:
        for lo, hi in ((x, None), (None, x)):
            def first_two(lo=lo, hi=hi):
                g = _helpers.random_floats(lower=lo, upper=hi)
                return next(g), next(g)
            try:
                (a, b), _ = budget.limited(first_two, 20_000)
                exp = f"({wire_float(a)} {wire_float(b)})"
            except budget.Starved:
                exp = "starved"
            except NotInUniverse as e:
                exp = f"outside the universe: {e}"
            except Exception as e:  # noqa: BLE001
                exp = f"error:{type(e).__name__}"
            reqs.append(f"floats {wire_float(lo)} {wire_float(hi)}")
            want.append(exp)
            what.append(f"random_floats(lower={lo!r}, upper={hi!r})")
        for cmd, to in (("nextup", math.inf), ("nextdown", -math.inf)):
            reqs.append(f"{cmd} {wire_float(x)}")
            want.append(wire_float(math.nextafter(x, to)))
            what.append(f"math.nextafter({x!r}, {to!r})")
    reqs.append("floats N N")
    want.append(f"({wire_float(-1e-6)} {wire_float(1e6)})")
    what.append("random_floats()")
    outs = driver.run(reqs, **EXE)
    dis = [{"input": {"call": w}, "what": "resolved float bounds / nextafter differ", "implementation": e[:200], "model": o[:200]} for w, e, o in zip(what, want, outs) if e != o]
    return len(reqs), dis


def long_specs(mode):
    """Cheap unbounded streams, read far beyond two rounds of the 1 + 10 + 100 windows of random_ints."""
    ints = [0, 5, 150, -150, 1000, -1000, MAXS, -MAXS]
    floats = [0.0, 2.0, -1e-7, 2e6]
    out = []
    for h in (("ge", "gt", "le", "lt") if mode == "T" else ("ge", "gt")):
        out += [(h, v) for v in ints + floats]
    if mode == "T":
        out += [("inst", ("int",)), ("inst", ("float",)), ("inst", ("str",)), ("notin", [2, "foo", 4]), ("notin", [2, 3]), ("notnone",),
                ("or", ("ge", 150), ("le", -150)), ("and", ("ge", -150), ("le", 150)), ("and", ("inst", ("int",)), ("ge", 150))]
    else:
        out += [("eq", 2), ("eq", "foo"), ("in", [2, 3, 4]), ("in", ["a", "b"]), ("inst", ("int",)), ("inst", ("str",)), ("ff",), ("none",), ("falsy",),
                ("or", ("ge", 150), ("gt", -150)), ("and", ("ge", -150), ("gt", 150))]
    return out


def long_tapes(rng, n):
    def tapes_for(s):
        b = spec_bounds(s)
        return [("lo", [-BIG] * (6 * n)), ("hi", [BIG] * (6 * n)), ("mix", make_tape(rng, 6 * n, "mix", b))]

    return tapes_for


def explain_safety(mode, spec, outcome):
    """Known findings (narrow: kind + parameter region + how the value fails)."""
    raised = isinstance(outcome, str) and outcome.startswith("raised")
    if mode == "T":
        for s in subspecs(spec):
            if s[0] == "dictof" and len(s[1]) >= 2:
                return "KF-gen-dictof-overlap"
        if raised:
            for s in subspecs(spec):
                if s[0] == "or" and not is_total(s[1]):
                    return "KF-gen-or-raises"
    else:
        if raised:
            for s in subspecs(spec):
                if s[0] == "and" and not is_total(s[1]):
                    return "KF-gen-and-raises"
    return None


def model_outcome(line):
    return {"ok T": True, "ok F": False}.get(line, line)


HISTORY_KINDS = ("empty", "notempty", "truthy", "falsy", "inst", "none", "notnone", "eq", "ne", "haskey", "tupleof", "listof", "dictof", "setof")


def spoil(v, depth=0):
    """Change a yielded container in place so that its emptiness / truthiness / contents flip (the caller owns it)."""
    if depth > 3:
        return
    try:
        if isinstance(v, list):
            for e in list(v):
                spoil(e, depth + 1)
            if v:
                v.clear()
            else:
                v.append("spoiled")
        elif isinstance(v, dict):
            for e in list(v.values()):
                spoil(e, depth + 1)
            if v:
                v.clear()
            else:
                v["spoiled"] = 1
        elif isinstance(v, set):
            if v:
                v.clear()
            else:
                v.add("spoiled")
        elif isinstance(v, tuple):
            for e in v:
                spoil(e, depth + 1)
    except Exception:  # noqa: BLE001
        pass


def safety_check(pid, mode, tier):
    from .core import Check

    want = mode == "T"
    chk = Check(pid, tier)
    chk.prove(checker=(tier == "thorough"), exes=("driver_gen",))
    rng = _random.Random(chk.seed)
    quick = tier == "quick"
    n = 24 if quick else 80
    specs = scalar_specs() + composite_specs(rng, 60 if quick else 400)
    if mode == "F":
        specs = [s for s in specs if false_supported(s)]
    # ---- correspondence on tapes + the property on the tape-driven streams
    cases = run_cases(mode, specs, n, standard_tapes(rng, 1 if quick else 5), rng)
    dis = [{"input": c.input(), **c.dis} for c in cases if c.dis]
    chk.add_corr("genTrue/pull" if want else "genFalse/pull", len(cases), dis,
                 note=f"first {n} next() results: values, request log, final status; fuel {FUEL} / {EVENTS} line events per next")
    status_count, kinds, max_events = {}, {}, 0
    judged = 0
    evals = []  # (case, position, value) for the evalG cross-check
    for c in cases:
        st = c.status.split(":")[0]
        status_count[st] = status_count.get(st, 0) + 1
        kinds[kind_of(c.spec)] = kinds.get(kind_of(c.spec), 0) + 1
        max_events = max(max_events, c.worst)
        for i, v in enumerate(c.items):
            r = call(c.pred, v)
            judged += 1
            if r is not want:
                out = r if isinstance(r, str) else repr(r)
                chk.add_failure({**c.input(), "position": i}, {"what": f"generate_{'true' if want else 'false'} yielded a value on which the predicate does not return {want}", "value": repr(v)[:300], "predicate_returned": out},
                                explain_safety(mode, c.spec, r))
            if c.i_vals is not None and i < 6:
                evals.append((c, i, v, r))
        if c.items:
            chk.nontrivial.add((show_spec(c.spec), c.style))
    # ---- long prefixes: more than two full rounds of the int windows (positions >= 111, >= 222 of the stream)
    ln = 260 if quick else 700
    lcases = run_cases(mode, long_specs(mode), ln, long_tapes(rng, ln), rng)
    ldis = [{"input": c.input(), **c.dis} for c in lcases if c.dis]
    chk.add_corr(("genTrue" if want else "genFalse") + "/long-prefix", len(lcases), ldis,
                 note=f"first {ln} next() results of {len(long_specs(mode))} cheap unbounded requests on tapes all-low, all-high, long mixed: values, request log, status")
    long_judged = 0
    for c in lcases:
        for i, v in enumerate(c.items):
            r = call(c.pred, v)
            long_judged += 1
            if r is not want:
                out = r if isinstance(r, str) else repr(r)
                chk.add_failure({**c.input(), "position": i}, {"what": f"generate_{'true' if want else 'false'} yielded a value on which the predicate does not return {want} (long prefix)", "value": repr(v)[:300], "predicate_returned": out},
                                explain_safety(mode, c.spec, r))
        if len(c.items) > 222:
            chk.nontrivial.add((show_spec(c.spec), c.style, "long"))
    judged += long_judged
    dis = dis + ldis
    chk.extra["long_prefix"] = {"specs": len(long_specs(mode)), "cases": len(lcases), "length": ln, "values_judged": long_judged,
                                "streams_longer_than_two_window_rounds": sum(1 for c in lcases if len(c.items) > 222)}
    # ---- which cases lie inside the region the theorem covers (the Lean guard itself, through the driver)
    uniq = {}
    for c in cases:
        uniq.setdefault(S.show(c.sx), c)
    cls = dict(zip(uniq, classify([c.sx for c in uniq.values()])))
    guard = "okT" if want else "okF"
    inside = sum(1 for k in uniq if cls[k][guard])
    for c in cases:
        if cls[S.show(c.sx)][guard]:
            for i, v in enumerate(c.items):
                if call(c.pred, v) is not want:
                    chk.add_failure({**c.input(), "position": i}, {"what": f"a value inside the proved region {guard} fails on the real code (theorem and implementation disagree)", "value": repr(v)[:300]}, None)
                    break
    chk.extra["specs_inside_theorem_guard"] = inside
    chk.extra["specs_outside_theorem_guard"] = len(uniq) - inside
    # ---- evalG against the real predicate on generated values (the reference evaluator is C08's semantics)
    outs = eval_model([(c.sx, canon(lift_val(v))) for c, i, v, r in evals])
    edis = []
    for (c, i, v, r), o in zip(evals, outs):
        mo = model_outcome(o)
        ro = r if isinstance(r, bool) else (r if isinstance(r, str) else repr(r))
        if mo != ro:
            edis.append({"input": {**c.input(), "value": repr(v)[:200]}, "model": o, "implementation": str(ro)})
    chk.add_corr("evalG", len(evals), edis, note="reference evaluator vs the real predicate on generated values")
    # ---- search with the real PRNG, independent of the model
    seeds = range(2) if quick else range(20)
    sn = 16 if quick else 60
    searched = 0
    for s in specs:
        p = build(s)
        for k in seeds:
            items, st, _, _ = pull_impl(mode, p, sn, EVENTS, seed=chk.seed * 1000 + k)
            for i, v in enumerate(items):
                r = call(p, v)
                searched += 1
                if r is not want:
                    out = r if isinstance(r, str) else repr(r)
                    chk.add_failure({"mode": mode, "spec": repr(s), "predicate": show_spec(s), "seed": chk.seed * 1000 + k, "position": i},
                                    {"what": f"generate_{'true' if want else 'false'} yielded a value on which the predicate does not return {want}", "value": repr(v)[:300], "predicate_returned": out},
                                    explain_safety(mode, s, r))
    # ---- the two float helpers of the model on their own, against the real functions: the resolved bounds of random_floats(lower=x) /
    # (upper=x) (driver command `floats`; Model/Gen.lean floatsFrom) and math.nextafter(x, ±inf) (nextUpX / nextDownX), infinities included
    fb_cases, fb_dis = float_bounds_corr(rng, 150 if quick else 1500)
    chk.add_corr("random_floats/bounds+nextafter", fb_cases, fb_dis, note="first two values of the real random_floats(lower=x) and (upper=x) vs floatsFrom; math.nextafter(x, ±inf) vs nextUpX/nextDownX; grid bounds, "
                 "±max/2 and neighbours, ±max and neighbours, ±inf, subnormals, seeded doubles of every exponent")
    dis = dis + fb_dis
    # ---- float bounds at the edge of the double range (|b| > 8.9e307: 2*b overflows).  They are part of the parameter grid above
    # (the model clamps like the code and has ±inf as values); this stage stays as an independent check on the real code with real seeds
    edge = EDGE_FLOAT_BOUNDS + [math.inf, -math.inf]  # the infinities too: a float constant like any other (oracle only: not part of the model's grid)
    edge_specs = [(h, b) for h in (("ge", "gt", "le", "lt") if mode == "T" else ("ge", "gt")) for b in edge]
    edge_judged = 0
    for s_ in edge_specs:
        p_ = build(s_)
        for k in range(2 if quick else 8):
            items, st, _, _ = pull_impl(mode, p_, 12, EVENTS, seed=chk.seed * 1000 + 31 + k)
            if st.startswith("error"):
                chk.add_failure({"mode": mode, "spec": repr(s_), "predicate": show_spec(s_), "seed": chk.seed * 1000 + 31 + k, "position": len(items)},
                                {"what": f"generate_{'true' if want else 'false'} failed with {st} on a bound at the edge of the double range"}, explain_safety(mode, s_, st))
            for i, v in enumerate(items):
                r = call(p_, v)
                edge_judged += 1
                if r is not want:
                    out = r if isinstance(r, str) else repr(r)
                    chk.add_failure({"mode": mode, "spec": repr(s_), "predicate": show_spec(s_), "seed": chk.seed * 1000 + 31 + k, "position": i},
                                    {"what": f"generate_{'true' if want else 'false'} yielded a value on which the predicate does not return {want} (bound at the edge of the double range)", "value": repr(v)[:300], "predicate_returned": out},
                                    explain_safety(mode, s_, r))
                    break
    edge_cases = [c for c in cases if c.spec[0] in _UNARY and isinstance(c.spec[1], float) and abs(c.spec[1]) > 8.9e307]
    chk.extra["edge_of_double_range"] = {
        "specs": len(edge_specs), "values_judged": edge_judged,
        "correspondence_cases_in_grid": len(edge_cases),
        "correspondence_cases_yielding_inf": sum(1 for c in edge_cases if any(isinstance(v, float) and math.isinf(v) for v in c.items)),
        "correspondence_cases_with_uniform_requests": sum(1 for c in edge_cases if any(r[0] == "uniform" for r in c.log)),
        "uniform_requests_ending_at_the_largest_double": sum(1 for c in edge_cases for r in c.log if r[0] == "uniform" and isinstance(r[1], int) and isinstance(r[2], int) and fk(sys.float_info.max) in (abs(r[1]), abs(r[2]))),
    }
    # ---- datetime bounds at the edge of the representable range (datetime.min / datetime.max and a microsecond inside, naive and
    # aware): today most of these requests fail with OverflowError -- that is "no value produced" and is not judged here (C11 speaks of
    # int and float bounds only); whatever IS produced is judged
    import datetime as _dtm

    dt_edge = [_dtm.datetime.max, _dtm.datetime.min, _dtm.datetime.max - _dtm.timedelta(microseconds=1), _dtm.datetime.min + _dtm.timedelta(microseconds=1),
               _dtm.datetime.max.replace(tzinfo=_dtm.timezone.utc), _dtm.datetime.min.replace(tzinfo=_dtm.timezone.utc), _dtm.datetime(9999, 12, 30, 12, 0), _dtm.datetime(1, 1, 2, 12, 0)]
    dt_judged, dt_raised = 0, 0
    for h in ("ge", "gt", "le", "lt"):
        for b in dt_edge:
            for wrap in (lambda q: q, lambda q: P.all_p(q), lambda q: is_tuple_of_p(q)) if mode == "T" else (lambda q: q,):
                try:
                    p_ = wrap({"ge": P.ge_p, "gt": P.gt_p, "le": P.le_p, "lt": P.lt_p}[h](b))
                    items, st, _, _ = pull_impl(mode, p_, 8, EVENTS, seed=chk.seed * 1000 + 53)
                except HarnessError:
                    raise
                except Exception:  # noqa: BLE001
                    dt_raised += 1
                    continue
                if st.startswith("error"):
                    dt_raised += 1
                for i, v in enumerate(items):
                    r = call(p_, v)
                    dt_judged += 1
                    if r is not want:
                        chk.add_failure({"mode": mode, "spec": f"{h}_p({b!r})", "predicate": repr(p_), "seed": chk.seed * 1000 + 53, "position": i},
                                        {"what": f"generate_{'true' if want else 'false'} yielded a value on which the predicate does not return {want} (datetime bound at the edge of the representable range)",
                                         "value": repr(v)[:300], "predicate_returned": r if isinstance(r, str) else repr(r)}, None)
                        break
    chk.extra["edge_of_datetime_range"] = {"values_judged": dt_judged, "requests_that_failed_without_a_value": dt_raised}
    # ---- regex_p (exrex is third-party and not modelled): judged on the real code only -- every generated string matches, for
    # plain, anchored, alternation / class / repetition patterns and for case-insensitive ones with letters whose full upper-casing
    # is not their case-folded form
    if mode == "T":
        import re as _re

        from predicate.regex_predicate import RegexPredicate as _Rx

        rx = [P.regex_p("^foo"), P.regex_p("a+b?"), P.regex_p("[a-c]{2}x"), P.regex_p("(foo|ba[rz])\\d"), P.regex_p("(?i)stra\u00dfe"), _Rx("stra\u00dfe", _re.I), _Rx("\ufb01x", _re.I),
              _Rx("caf\u00e9", _re.I | _re.A), _Rx("fo+", _re.I), _Rx("x[\u00e0-\u00e5]y", _re.I), P.regex_p("\\w\\s\\d")]
        rx_judged = 0
        for p_ in rx:
            items, st, _, _ = pull_impl("T", p_, 40, EVENTS, seed=chk.seed * 1000 + 77)
            if st.startswith("error"):
                chk.add_failure({"mode": "T", "predicate": repr(p_), "flags": int(getattr(p_, "flags", 0))}, {"what": f"generate_true(regex_p) failed with {st}"}, None)
            for i, v in enumerate(items):
                rx_judged += 1
                if call(p_, v) is not True:
                    chk.add_failure({"mode": "T", "predicate": repr(p_), "flags": int(getattr(p_, "flags", 0)), "position": i}, {"what": "generate_true(regex_p(...)) yielded a string the pattern does not match", "value": ascii(v)}, None)
                    break
        chk.extra["regex_values_judged"] = rx_judged
    # ---- composites over opaque function atoms (outside the wire format of the generator model): judged on the real code only
    def _even(x):
        return isinstance(x, int) and not isinstance(x, bool) and x % 2 == 0

    def _small(x):
        return isinstance(x, (int, float)) and not isinstance(x, bool) and abs(x) < 50

    fn_specs = [
        ("ge_p(0) & fn_p(even)", lambda: P.ge_p(0) & P.fn_p(_even)), ("ge_p(0) & (fn_p(even) & eq_p(4))", lambda: P.ge_p(0) & (P.fn_p(_even) & P.eq_p(4))),
        ("is_int_p & (fn_p(even) & eq_p(4))", lambda: P.is_int_p & (P.fn_p(_even) & P.eq_p(4))), ("is_int_p & fn_p(small)", lambda: P.is_int_p & P.fn_p(_small)),
        ("le_p(10) & (fn_p(small) & ne_p(3))", lambda: P.le_p(10) & (P.fn_p(_small) & P.ne_p(3))), ("in_p(2, 3, 4) & fn_p(even)", lambda: P.in_p(2, 3, 4) & P.fn_p(_even)),
    ]
    fn_judged = 0
    if mode == "T":
        for d_, th in fn_specs:
            p_ = th()
            items, st, _, _ = pull_impl("T", p_, 25, EVENTS, seed=chk.seed * 1000 + 5)
            for i, v in enumerate(items):
                fn_judged += 1
                if call(p_, v) is not True:
                    chk.add_failure({"mode": "T", "predicate": d_, "seed": chk.seed * 1000 + 5, "position": i}, {"what": "generate_true yielded a value on which the predicate does not return True (function atoms in a conjunction)", "value": repr(v)[:200]}, None)
                    break
    chk.extra["fn_composite_values_judged"] = fn_judged
    # ---- history: the values a stream yields belong to the caller.  Draw from both generators of a spec, change every
    # yielded container in place (empty ones get an item, non-empty ones are emptied; nested ones too), then open a NEW
    # stream: its values must still satisfy / violate the predicate (a sample object shared between streams shows here)
    hist_specs = [s_ for s_ in specs if s_[0] in HISTORY_KINDS or s_[0] in ("all", "any", "setof", "or", "and")]
    if quick:
        hist_specs = hist_specs[:: max(1, len(hist_specs) // 160)]
    hist_judged = 0
    for s_ in hist_specs:
        p_ = build(s_)
        first = []
        for m_ in ("T", "F"):
            if m_ == "F" and not false_supported(s_):
                continue
            first += pull_impl(m_, p_, 14, EVENTS, seed=chk.seed * 1000 + 7)[0]
        for v in first:
            spoil(v)
        items, st, _, _ = pull_impl(mode, build(s_), 14, EVENTS, seed=chk.seed * 1000 + 7)
        for i, v in enumerate(items):
            r = call(p_, v)
            hist_judged += 1
            if r is not want:
                out = r if isinstance(r, str) else repr(r)
                chk.add_failure({"mode": mode, "spec": repr(s_), "predicate": show_spec(s_), "seed": chk.seed * 1000 + 7, "position": i,
                                 "history": "generate_true and generate_false of the same predicate were read first and every container they yielded was changed in place by the caller"},
                                {"what": f"after the caller changed values yielded by earlier streams, a new generate_{'true' if want else 'false'} stream yielded a value on which the predicate does not return {want}", "value": repr(v)[:300], "predicate_returned": out},
                                explain_safety(mode, s_, r))
    chk.extra["history_streams"] = {"specs": len(hist_specs), "values_judged": hist_judged}
    # (a disagreement between model and implementation is a broken correspondence, not a failing input: finish() reports it
    # as such -- `no-failing-input-found` unless a value above really fails the predicate -- with the first disagreements in the replay)
    chk.evaluations = judged + searched + hist_judged + edge_judged
    chk.extra.update(specs=len(specs), specs_skipped_because_optimize_raises=sorted(set(SKIPPED)), cases=len(cases), prefix_length=n, status_counts=status_count, kinds=kinds, values_judged_on_tapes=judged,
                     values_judged_with_real_seeds=searched, max_line_events_per_successful_next=max_events, fuel=FUEL, events_budget=EVENTS,
                     int_bounds=[str(x) for x in INT_BOUNDS], float_bounds=FLOAT_BOUNDS)
    chk.rule = (
        "parameter grid of DESIGN §7 C09: comparison kinds x int bounds 0, ±1, ±99, ±100, ±101, ±1000, ±sys.maxsize, beyond; float bounds 0, ±1, ±1e-6, 1e-7, ±1e6, ±2e6, ±1e16, 2.0, 0.1, 3.5e300 and the edge of the double range ±8.99e307, ±1e308, ±1.7e308, ±sys.float_info.max; "
        "str / datetime / UUID constants; eq/ne constants; membership sets ∅, small, range(-100,101), str members, float members; all type tests; has_key; composites two levels deep "
        "(fixed list + seeded random).  Per spec: tapes all-low, all-high, alternating and seeded mixed (extremes of each requested range, values around the bounds); first %d next() results of the "
        "real generator (random source replaced by the tape, every next under a line-event budget) compared with driver_gen: values, request log, status.  Every yielded value is judged by the real "
        "predicate; independently %d real seeds per spec.  non-trivial = distinct (predicate, tape style) with at least one yield." % (n, len(seeds))
    )
    chk.samples = [f"generate_{'true' if want else 'false'}({show_spec(c.spec)}) [{c.style}] -> {' '.join(c.m_vals[:3])[:160]} … {c.status}" for c in cases[5::max(1, len(cases) // 12)]]
    chk.assumptions = [
        "random.randint/uniform/randrange/choices, uuid4, datetime.now answer within their documented range (the tape answers clamp(raw, lo, hi)); random_permutation of a set is modelled as the members in a fixed order",
        "floats are exact multiples of 2^-1074 (finite doubles) or ±inf (wire form (F 0|1)); the model clamps the widened default bounds of random_floats to ±sys.float_info.max like the code; NaN and infinite *bounds* (gt_p(math.inf), …) are outside the model and the grid",
        "exrex (regex_p) is not modelled; more_itertools.take/interleave/random_combination_with_replacement/powerset_of_sets and zip are modelled from their documented behaviour and exercised for real",
        "the optimizer guards of & are parameters of the model node (computed by the real optimize in the harness)",
    ]
    return chk.finish()


def safety_replay(path, mode):
    d = _json.load(open(path))
    print(_json.dumps(d, indent=1)[:3000])
    inp = d.get("input") or {}
    if d.get("kind") != "failing-input":  # a broken correspondence / theorem: re-run the check and see whether it still does not check
        from .core import replay_by_rerun

        return replay_by_rerun(lambda tier: safety_check(d.get("property", "C09" if mode == "T" else "C10"), mode, tier), path)
    if "spec" not in inp:
        return 1
    import ast

    spec = eval(inp["spec"], {"datetime": _dt, "UUID": uuid.UUID})  # noqa: S307  specs are reprs of plain tuples written by this harness
    p = build(spec)
    want = mode == "T"
    if "history" in inp:
        first = []
        for m_ in ("T", "F"):
            if m_ == "F" and not false_supported(spec):
                continue
            first += pull_impl(m_, p, 14, EVENTS, seed=inp["seed"])[0]
        for v in first:
            spoil(v)
        items, st, log, _ = pull_impl(mode, build(spec), 14, EVENTS, seed=inp["seed"])
    elif "tape_rle" in inp:
        # a tape-driven case: run both sides again, a disagreement between model and implementation reproduces the failure too
        try:
            c = Case()
            c.mode, c.spec, c.pred, c.sx, c.raws, c.style, c.n = mode, spec, p, sexp(spec, p), unrle(inp["tape_rle"]), inp.get("style", "replay"), inp.get("n", 30)
            (c.m_status, c.m_vals, c.m_log), = run_model([model_request(mode, c.sx, c.n, FUEL * 10, c.raws)])
            c.items, c.status, c.log, c.worst = pull_impl(mode, p, c.n, EVENTS * 10, raws=c.raws)
            compare(c)
            items, st, log = c.items, c.status, c.log
            if c.dis:
                print("model and implementation disagree:", _json.dumps(c.dis)[:1500])
                return 1
        except GuardUnknown:
            items, st, log, _ = pull_impl(mode, p, inp.get("n", 30), EVENTS, raws=unrle(inp["tape_rle"]))
    else:
        items, st, log, _ = pull_impl(mode, p, inp.get("position", 0) + 1, EVENTS, seed=inp["seed"])
    bad = [(i, repr(v)[:200], call(p, v)) for i, v in enumerate(items) if call(p, v) is not want]
    print("status:", st, "values:", [repr(v)[:60] for v in items[:10]])
    print("failing:", bad[:5])
    return 1 if bad else 0
