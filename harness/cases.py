"""Case generators (s-expression space).  Every random choice comes from the
`random.Random` instance handed in, which the checks seed from VERIF_SEED."""
import itertools
from functools import lru_cache

NAMES3 = ["a", "b", "c"]
NAMES5 = ["a", "b", "c", "d", "e"]


def var(n, v="0"):
    return ("var", n, v)


# ---------------------------------------------------------------- exhaustive trees


def trees_exact(n, leaves, unary=("not",), binary=("and", "or", "xor")):
    """All trees with exactly n nodes over the given leaves."""
    leaves = tuple(leaves)

    @lru_cache(maxsize=None)
    def go(k):
        if k == 1:
            return leaves
        out = []
        for u in unary:
            out.extend((u, t) for t in go(k - 1))
        for i in range(1, k - 1):
            j = k - 1 - i
            for op in binary:
                for l in go(i):
                    for r in go(j):
                        out.append((op, l, r))
        return tuple(out)

    return go(n)


def trees_upto(n, leaves, **kw):
    for k in range(1, n + 1):
        yield from trees_exact(k, leaves, **kw)


def two_level(names=("a", "b"), extra=()):
    """op1(op2(l1, l2), op3(l3, l4)) over the literals x, ~x of the names (+ extra leaves): every root rule that pairs two binary
    operands -- (~p & q) | (p & ~q), distribution, absorption -- in every operand order, whatever the node budget of the
    exhaustive space is."""
    lits = [var(n) for n in names] + [("not", var(n)) for n in names] + list(extra)
    ops = ("and", "or", "xor")
    for o1 in ops:
        for o2 in ops:
            for o3 in ops:
                for l1, l2, l3, l4 in itertools.product(lits, repeat=4):
                    yield (o1, (o2, l1, l2), (o3, l3, l4))


def prop_leaves(names):
    return [var(x) for x in names] + ["tt", "ff"]


# ---------------------------------------------------------------- random trees with sharing


def random_tree(rng, size, leaves, unary=("not",), binary=("and", "or", "xor"), pool=None, p_reuse=0.3, p_neg_reuse=0.15):
    """A random tree of about `size` nodes.  `pool` collects the sub-terms built so
    far; with probability p_reuse an earlier sub-term is repeated verbatim, with
    p_neg_reuse its negation is used — the rewrite rules fire on equal and
    complementary sub-terms in arbitrary positions."""
    if pool is None:
        pool = []

    def go(k):
        if pool and k >= 1:
            r = rng.random()
            if r < p_reuse:
                return rng.choice(pool)
            if r < p_reuse + p_neg_reuse:
                return ("not", rng.choice(pool))
        if k <= 1:
            t = rng.choice(leaves)
        else:
            r = rng.random()
            if r < 0.2 and unary:
                t = (rng.choice(unary), go(k - 1))
            else:
                i = rng.randint(1, max(1, k - 2))
                l = go(i)
                r_ = go(k - 1 - i)
                if rng.random() < 0.5:
                    l, r_ = r_, l
                t = (rng.choice(binary), l, r_)
        pool.append(t)
        return t

    return go(size)


def random_var_states(rng, sx):
    """Give every variable leaf a random stored value (objects left in any state
    by earlier truth tables)."""
    if isinstance(sx, tuple):
        if sx[0] == "var":
            return ("var", sx[1], rng.choice("01"))
        if sx[0] in ("and", "or", "xor", "not", "all", "any"):
            return (sx[0], *[random_var_states(rng, k) for k in sx[1:]])
    return sx


# ---------------------------------------------------------------- scalar atoms (C02)

ORD_CONSTS = [2, 4, 6]  # the integers 1, 2, 3
RANGE_PAIRS = [(2, 4), (2, 6), (4, 4), (6, 2)]
SETS = [(), (2,), (4,), (2, 4), (4, 6), (2, 4, 6), (0,), (0, 2)]  # (0,), (0, 2): the falsy constant 0 as only / as one member


def scalar_atoms():
    out = ["tt", "ff"]
    for k in ("eq", "ne", "ge", "gt", "le", "lt"):
        out += [(k, str(c)) for c in ORD_CONSTS]
    out += [("eq", "0"), ("ne", "0")]  # a falsy constant
    for k in ("gele", "gelt", "gtle", "gtlt"):
        out += [(k, str(a), str(b)) for a, b in RANGE_PAIRS]
    for k in ("in", "notin"):
        out += [(k, *map(str, s)) for s in SETS]
    out += ["none", "notnone", "truthy", "falsy"]
    out += [("inst", "1"), ("inst", "0"), ("inst", "3"), ("inst", "2"), ("inst", "1", "3"), ("inst", "3", "1")]
    out += [("fn", "0"), ("fn", "1")]
    return out


def small_scalar_atoms():
    """A 25-atom sub-grid for three-atom shapes."""
    out = ["tt", "ff"]
    for k in ("eq", "ne", "ge", "gt", "le", "lt"):
        out += [(k, "2"), (k, "4")]
    out += [("in",), ("in", "2"), ("in", "2", "4"), ("notin", "2"), ("notin", "2", "4")]
    out += ["none", "notnone", ("inst", "1"), ("inst", "0"), ("fn", "0"), ("gele", "2", "4")]
    return out


def pair_shapes(atoms):
    """a, ~a, a∘b, ~a∘b, a∘~b, ~(a∘b) for all ordered pairs."""
    for a in atoms:
        yield a
        yield ("not", a)
    for a, b in itertools.product(atoms, repeat=2):
        for op in ("and", "or", "xor"):
            yield (op, a, b)
            yield (op, ("not", a), b)
            yield (op, a, ("not", b))
            yield ("not", (op, a, b))


def triple_shapes(atoms):
    for a, b, c in itertools.product(atoms, repeat=3):
        for o1 in ("and", "or", "xor"):
            for o2 in ("and", "or", "xor"):
                yield (o1, (o2, a, b), c)
                yield (o1, a, (o2, b, c))


def repeat_shapes(atoms):
    """Two atoms, one of them used twice (the same object when lowered with sharing):
    a rewrite that merges a and b must not disturb the other occurrence."""
    ops = ("and", "or", "xor")
    for a, b in itertools.product(atoms, repeat=2):
        if a == b:
            continue
        for o1 in ops:
            for o2 in ops:
                yield (o1, (o2, a, b), a)
                yield (o1, (o2, a, b), b)
                yield (o1, a, (o2, a, b))
                yield (o1, b, (o2, a, b))


def mergeable_atoms():
    out = [("eq", "2"), ("eq", "4"), ("ne", "2"), ("ge", "2"), ("le", "4"), ("gt", "2"), ("lt", "6")]
    out += [("in", "2", "4"), ("in", "4", "6"), ("in", "2", "4", "6"), ("notin", "4"), ("notin", "2", "4"), ("notin", "4", "6", "8")]
    return out


SCALAR_VALUES = [0, 0.5, 1, 1.5, 2, 2.5, 3, 3.5, 4, True, False, None, "a", ""]

# ---------------------------------------------------------------- quantified / set atoms (C03)


def elem_preds():
    base = [("eq", "2"), ("ne", "2"), ("ge", "4"), ("lt", "4"), ("in", "2", "4"), ("notin", "2"), "tt", "ff", "none", "notnone", ("inst", "1"), ("fn", "0"), ("gt", "2"), ("le", "4")]
    out = list(base)
    out += [("not", b) for b in base]
    for a, b in itertools.product(base[:6], repeat=2):
        if a != b:
            out.append(("and", a, b))
            out.append(("or", a, b))
    return out


SUBSET_SETS = [(), (2,), (4,), (2, 4), (6, 8), (2, 4, 6), (2, 4, 6, 8)]


def coll_atoms():
    out = ["empty", "notempty"]
    for k in ("subset", "rsubset", "superset", "rsuperset"):
        out += [(k, *map(str, s)) for s in SUBSET_SETS]
    return out


def quantified_atoms(elems):
    for e in elems:
        yield ("all", e)
        yield ("any", e)


def coll_values():
    """lists / tuples / sets of length 0–3 over {1,2,3}, nested lists."""
    vals = []
    for n in range(0, 4):
        for t in itertools.product([1, 2, 3], repeat=n):
            vals.append(list(t))
            if n <= 2:
                vals.append(tuple(t))
    for s in itertools.chain.from_iterable(itertools.combinations([1, 2, 3, 4], k) for k in range(0, 5)):
        vals.append(set(s))
    vals += [[None], [None, 1], [[1], [2]], [[], [1]], [1.5, 2.5]]
    return vals


# ---------------------------------------------------------------- print-alike constants

def printalike_atoms(sort):
    """Atoms over 9, 10 ('num') or over "9", "10" ('str'): the constants PRINT the same and are ordered differently
    ("10" < "9").  Anything keyed on the printed form of a predicate (a cache keyed by repr) confuses the two sorts."""
    from . import lift

    cs = ["18", "20"] if sort == "num" else [str(lift.STR_BASE + lift.STR_POOL.index("9")), str(lift.STR_BASE + lift.STR_POOL.index("10"))]
    out = []
    for k in ("eq", "ne", "ge", "gt", "le", "lt"):
        out += [(k, c) for c in cs]
    for k in ("gele", "gtlt"):
        out += [(k, cs[0], cs[1]), (k, cs[1], cs[0])]
    out += [("in", cs[0]), ("in", cs[0], cs[1]), ("notin", cs[1]), ("notin", cs[0], cs[1])]
    return out


def printalike_trees():
    """Interleaved: each shape first over the numbers, then over the strings that print the same."""
    num, st = printalike_atoms("num"), printalike_atoms("str")
    out = []
    for i in range(len(num)):
        for j in range(len(num)):
            for op in ("and", "or", "xor"):
                for mk in (lambda a, b: (op, a, b), lambda a, b: (op, ("not", a), b), lambda a, b: ("not", (op, a, b))):
                    out.append(mk(num[i], num[j]))
                    out.append(mk(st[i], st[j]))
    return out
