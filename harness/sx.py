"""S-expressions as nested tuples of str: ('and', ('var','a','0'), 'tt')."""


def parse(text: str):
    toks = text.replace("(", " ( ").replace(")", " ) ").split()
    pos = 0

    def one():
        nonlocal pos
        t = toks[pos]
        pos += 1
        if t == "(":
            items = []
            while toks[pos] != ")":
                items.append(one())
            pos += 1
            return tuple(items)
        if t == ")":
            raise ValueError("unbalanced")
        return t

    out = []
    while pos < len(toks):
        out.append(one())
    return out


def parse1(text: str):
    (x,) = parse(text)
    return x


def show(sx) -> str:
    if isinstance(sx, tuple):
        return "(" + " ".join(show(x) for x in sx) + ")"
    return str(sx)


def size(sx) -> int:
    """Number of predicate nodes (connectives, quantifiers and atoms)."""
    if isinstance(sx, tuple) and sx and sx[0] in ("and", "or", "xor"):
        return 1 + size(sx[1]) + size(sx[2])
    if isinstance(sx, tuple) and sx and sx[0] in ("not", "all", "any"):
        return 1 + size(sx[1])
    if isinstance(sx, tuple) and sx and sx[0] == "box":
        return 1 + sum(size(k) for k in sx[3:])
    return 1


def subterms(sx):
    yield sx
    if isinstance(sx, tuple) and sx:
        if sx[0] in ("and", "or", "xor"):
            yield from subterms(sx[1])
            yield from subterms(sx[2])
        elif sx[0] in ("not", "all", "any"):
            yield from subterms(sx[1])
        elif sx[0] == "box":
            for k in sx[3:]:
                yield from subterms(k)


def head(sx) -> str:
    return sx[0] if isinstance(sx, tuple) else sx
