"""Pools of real predicate objects covering every exported constructor, each as a
thunk so that structurally equal but distinct objects can be made."""
import math
import re
from ipaddress import IPv4Address

from predicate import (
    all_p, always_false_p, always_true_p, any_p, comp_p, eq_p, fn_p, ge_le_p, ge_lt_p, ge_p, gt_le_p, gt_lt_p, gt_p,
    has_length_p, in_p, is_bool_p, is_callable_p, is_complex_p, is_container_p, is_datetime_p, is_dict_of_p, is_dict_p,
    is_empty_p, is_falsy_p, is_float_p, is_hashable_p, is_instance_p, is_int_p, is_iterable_p, is_list_p, is_none_p,
    is_not_none_p, is_predicate_p, is_range_p, is_real_subset_p, is_real_superset_p, is_set_of_p, is_set_p, is_str_p,
    is_subset_p, is_superset_p, is_truthy_p, is_tuple_of_p, is_tuple_p, is_uuid_p, lazy_p, le_p, lt_p, ne_p, not_in_p,
    regex_p, tee_p,
)
from predicate.named_predicate import NamedPredicate
from predicate.predicate import is_not_empty_p
from predicate.property_predicate import PropertyPredicate
from predicate.regex_predicate import RegexPredicate
from predicate.root_predicate import RootPredicate
from predicate.standard_predicates import has_key_p
from predicate.this_predicate import ThisPredicate

from ipaddress import IPv4Address, IPv4Network, IPv6Address, IPv6Network  # noqa: F811

from . import lift

_tee_fns = [lambda x: None, lambda x: None]


def _same_name_fns():
    """two different functions / properties that carry the SAME __name__ and __qualname__ (a closure factory, a class
    statement executed twice, lambdas): what tells them apart is the object, not how it is called"""

    def mk(k):
        def f(x):
            return isinstance(x, k)

        return f

    def mkcls(k):
        class Host:
            @property
            def flag(self):
                return isinstance(self, k)

        return Host

    return [mk(int), mk(str)], [property(lambda x: isinstance(x, int)), property(lambda x: isinstance(x, str))], [mkcls(int).flag, mkcls(str).flag]


_SN_FNS, _SN_LAMBDA_PROPS, _SN_CLASS_PROPS = _same_name_fns()


class _Threshold:
    def __init__(self, limit):
        self.limit = limit

    def exceeded(self, x):
        return isinstance(x, (int, float)) and not isinstance(x, bool) and x > self.limit

    def __call__(self, x):
        return self.exceeded(x)


import functools as _functools

# the same function bound to two objects, partial applications of one function, two callable objects of one class: same
# code, same name, different behaviour (kept here once each: a bound method is a new object at every attribute access)
_BOUND = [_Threshold(1).exceeded, _Threshold(2).exceeded]
_isk = lambda k, x: isinstance(x, k)  # noqa: E731
_PARTIALS = [_functools.partial(_isk, int), _functools.partial(_isk, str)]
_CALLABLES = [_Threshold(1), _Threshold(2)]
# one definition site, one code object, no closure: what differs is a default argument (the `lambda x, k=k:` idiom of loops and
# comprehensions) or a keyword-only default
_DEFAULTED = [lambda x, k=k: isinstance(x, k) for k in (int, str)]
_KWDEFAULTED = [lambda x, *, k=k: isinstance(x, k) for k in (int, str)]


def atom_thunks():
    """(description, thunk) for every exported atom kind at two or three parameter choices."""
    T = []

    def add(desc, th):
        T.append((desc, th))

    add("true", lambda: always_true_p)
    add("false", lambda: always_false_p)
    for n in ("a", "b"):
        for v in (False, True):
            add(f"var {n} {v}", lambda n=n, v=v: NamedPredicate(name=n, v=v))
    for mk, nm in ((eq_p, "eq"), (ne_p, "ne"), (ge_p, "ge"), (gt_p, "gt"), (le_p, "le"), (lt_p, "lt")):
        for v in (1, 2, 2.5):
            add(f"{nm} {v}", lambda mk=mk, v=v: mk(v))
    add("eq 'a'", lambda: eq_p("a"))
    # unhashable constants are legitimate for eq_p / ne_p (built afresh each time: equal, distinct objects)
    for nm, mk in (("eq", eq_p), ("ne", ne_p)):
        add(f"{nm} [1, 2]", lambda mk=mk: mk([1, 2]))
        add(f"{nm} {{'a': 1}}", lambda mk=mk: mk({"a": 1}))
        add(f"{nm} {{1, 2}}", lambda mk=mk: mk({1, 2}))
    add("ne []", lambda: ne_p([]))
    # canonically equivalent but different strings (NFD / NFC): == tells them apart, so must every atom
    for mk, nm in ((eq_p, "eq"), (ne_p, "ne"), (ge_p, "ge"), (lt_p, "lt")):
        add(f"{nm} 'cafe\\u0301'", lambda mk=mk: mk("cafe\u0301"))
        add(f"{nm} 'caf\\u00e9'", lambda mk=mk: mk("caf\u00e9"))
    add("in ('cafe\\u0301',)", lambda: in_p("cafe\u0301"))
    add("not_in ('cafe\\u0301', 'a')", lambda: not_in_p("cafe\u0301", "a"))
    add("eq None", lambda: eq_p(None))
    add("ne None", lambda: ne_p(None))
    add("ne 'a'", lambda: ne_p("a"))
    add("eq ''", lambda: eq_p(""))
    add("eq True", lambda: eq_p(True))
    add("eq 1.0", lambda: eq_p(1.0))
    add("ge 'a'", lambda: ge_p("a"))
    for mk, nm in ((ge_le_p, "ge_le"), (ge_lt_p, "ge_lt"), (gt_le_p, "gt_le"), (gt_lt_p, "gt_lt")):
        for lo, hi in ((1, 2), (1, 3), (2, 2), (3, 1)):
            add(f"{nm} {lo} {hi}", lambda mk=mk, lo=lo, hi=hi: mk(lo, hi))
    for mk, nm in ((in_p, "in"), (not_in_p, "not_in")):
        for s in ((), (1,), (1, 2), (2, 1), (1, 2, 3), ("a", 1), (None,), ("a",), (None, 1), (True,), (2.5,)):
            add(f"{nm} {s}", lambda mk=mk, s=s: mk(*s))
    for mk, nm in ((is_subset_p, "subset"), (is_real_subset_p, "real_subset"), (is_superset_p, "superset"), (is_real_superset_p, "real_superset")):
        for s in (set(), {1}, {1, 2}, {2, 3}):
            add(f"{nm} {s}", lambda mk=mk, s=s: mk(set(s)))
    for nm, p in (("none", is_none_p), ("not_none", is_not_none_p), ("truthy", is_truthy_p), ("falsy", is_falsy_p), ("empty", is_empty_p), ("not_empty", is_not_empty_p)):
        add(nm, lambda p=p: type(p)())
    for nm, p in (
        ("is_bool", is_bool_p), ("is_int", is_int_p), ("is_float", is_float_p), ("is_str", is_str_p), ("is_list", is_list_p), ("is_tuple", is_tuple_p),
        ("is_set", is_set_p), ("is_dict", is_dict_p), ("is_iterable", is_iterable_p), ("is_container", is_container_p), ("is_hashable", is_hashable_p),
        ("is_callable", is_callable_p), ("is_complex", is_complex_p), ("is_datetime", is_datetime_p), ("is_uuid", is_uuid_p), ("is_range", is_range_p),
        ("is_predicate", is_predicate_p),
    ):
        add(nm, lambda p=p: is_instance_p(*p.klass))
    add("is_instance(int,str)", lambda: is_instance_p(int, str))
    add("is_instance(str,int)", lambda: is_instance_p(str, int))
    for i in range(2):
        add(f"fn{i}", lambda i=i: fn_p(lift.FNS[i]))
    add("fn builtin isfinite", lambda: fn_p(math.isfinite))
    add("fn str.isalpha", lambda: fn_p(str.isalpha))
    for k in ("a", "b", 1):
        add(f"has_key {k!r}", lambda k=k: has_key_p(k))
    for n in (0, 1, 2):
        add(f"has_length {n}", lambda n=n: has_length_p(n))
    for pat in ("^foo", "^bar", "a+"):
        add(f"regex {pat}", lambda pat=pat: regex_p(pat))
    # flags that change what a class escape matches (ASCII): same pattern text, different predicate
    add("regex ^\\w+$", lambda: RegexPredicate("^\\w+$"))
    add("regex ^\\w+$ ASCII", lambda: RegexPredicate("^\\w+$", re.ASCII))
    add("regex ^\\w+$ ASCII|IGNORECASE", lambda: RegexPredicate("^\\w+$", re.ASCII | re.IGNORECASE))
    add("regex ^foo IGNORECASE", lambda: RegexPredicate("^foo", re.IGNORECASE))
    # compiled patterns are accepted too (re.compile hands them back): equality is on what was passed in
    add("regex compiled ^foo", lambda: RegexPredicate(re.compile("^foo")))
    add("regex compiled ^foo IGNORECASE", lambda: RegexPredicate(re.compile("^foo", re.IGNORECASE)))
    for r in ("x", "y"):
        add(f"lazy {r}", lambda r=r: lazy_p(r))
    add("this", lambda: ThisPredicate())
    add("root", lambda: RootPredicate())
    for i in range(2):
        add(f"tee {i}", lambda i=i: tee_p(_tee_fns[i]))
    add("property is_private", lambda: PropertyPredicate(getter=IPv4Address.is_private))
    add("property is_global", lambda: PropertyPredicate(getter=IPv4Address.is_global))
    for i in range(2):
        add(f"property <lambda> #{i}", lambda i=i: PropertyPredicate(getter=_SN_LAMBDA_PROPS[i]))
        add(f"property Host.flag #{i}", lambda i=i: PropertyPredicate(getter=_SN_CLASS_PROPS[i]))
        add(f"fn same-name #{i}", lambda i=i: fn_p(_SN_FNS[i]))
        add(f"fn bound method of object #{i}", lambda i=i: fn_p(_BOUND[i]))
        add(f"fn callable object #{i}", lambda i=i: fn_p(_CALLABLES[i]))
        add(f"fn partial #{i}", lambda i=i: fn_p(_PARTIALS[i]))
        add(f"tee same-name #{i}", lambda i=i: tee_p(_SN_FNS[i]))
        add(f"comp same-name #{i} truthy", lambda i=i: comp_p(_SN_FNS[i], is_truthy_p))
        add(f"fn one site, default #{i}", lambda i=i: fn_p(_DEFAULTED[i]))
        add(f"fn one site, keyword default #{i}", lambda i=i: fn_p(_KWDEFAULTED[i]))
        add(f"comp one site, default #{i} truthy", lambda i=i: comp_p(_DEFAULTED[i], is_truthy_p))
        add(f"comp one site, keyword default #{i} truthy", lambda i=i: comp_p(_KWDEFAULTED[i], is_truthy_p))
        add(f"tee one site, default #{i}", lambda i=i: tee_p(_DEFAULTED[i]))
    for i in range(2):
        add(f"comp fn{i} eq 1", lambda i=i: comp_p(lift.FNS[i], eq_p(1)))
    add("comp fn0 eq 2", lambda: comp_p(lift.FNS[0], eq_p(2)))
    add("tuple_of (int,str)", lambda: is_tuple_of_p(is_int_p, is_str_p))
    add("tuple_of (str,int)", lambda: is_tuple_of_p(is_str_p, is_int_p))
    add("tuple_of (int)", lambda: is_tuple_of_p(is_int_p))
    add("tuple_of ()", lambda: is_tuple_of_p())
    add("set_of int", lambda: is_set_of_p(is_int_p))
    add("set_of str", lambda: is_set_of_p(is_str_p))
    add("dict_of (str->int)", lambda: is_dict_of_p((is_str_p, is_int_p)))
    add("dict_of ('a'->int)", lambda: is_dict_of_p(("a", is_int_p)))
    add("dict_of ('a'->int,'b'->str)", lambda: is_dict_of_p(("a", is_int_p), ("b", is_str_p)))
    add("all eq 1", lambda: all_p(eq_p(1)))
    add("any eq 1", lambda: any_p(eq_p(1)))
    add("all eq 2", lambda: all_p(eq_p(2)))
    return T


def oracle_only_thunks():
    """Atoms whose constants the wire format has no code for (datetime, UUID, texts of numbers, a collection as the only member of a
    membership set): judged on the real objects only."""
    T = []
    # constants with a well-known text form (a conversion that "also accepts the text" must be made on both duals or on neither)
    import datetime as _dt0
    import uuid as _uuid0

    _d0, _u0 = _dt0.datetime(2020, 1, 2, 3, 4, 5), _uuid0.UUID("12345678-1234-5678-1234-567812345678")
    T.append(("eq datetime", lambda: eq_p(_d0)))
    T.append(("ne datetime", lambda: ne_p(_d0)))
    T.append(("eq uuid", lambda: eq_p(_u0)))
    T.append(("ne uuid", lambda: ne_p(_u0)))
    T.append(("in {uuid, datetime}", lambda: in_p(_u0, _d0)))
    T.append(("not_in {uuid}", lambda: not_in_p(_u0)))
    T.append(("eq '12'", lambda: eq_p("12")))
    T.append(("ne '1.5'", lambda: ne_p("1.5")))
    # a membership set whose ONLY member is itself a collection (or a text that looks like one)
    T.append(("in {(1, 2)}", lambda: in_p((1, 2))))
    T.append(("not_in {(1, 2)}", lambda: not_in_p((1, 2))))
    T.append(("in {()}", lambda: in_p(())))
    T.append(("in {frozenset({1, 2})}", lambda: in_p(frozenset({1, 2}))))
    T.append(("not_in {frozenset({1})}", lambda: not_in_p(frozenset({1}))))
    T.append(("in {'ab'}", lambda: in_p("ab")))
    T.append(("in {((1, 2),)}", lambda: in_p(((1, 2),))))
    T.append(("not_in {((1, 2),)}", lambda: not_in_p(((1, 2),))))
    T.append(("in {(((1, 2),),)}", lambda: in_p((((1, 2),),))))
    T.append(("in {frozenset({(1, 2)})}", lambda: in_p(frozenset({(1, 2)}))))
    T.append(("not_in {(1, 2), (3, 4)}", lambda: not_in_p((1, 2), (3, 4))))
    # the library's own address / network property predicates, as the objects a user imports
    import predicate.ip_address_predicates as _ip

    for _n in sorted(vars(_ip)):
        _o = getattr(_ip, _n)
        if _n.endswith("_p") and callable(_o) and hasattr(_o, "getter"):
            T.append((f"ip_address_predicates.{_n}", lambda _o=_o: _o))

    return T


def nested_not_thunks(atoms):
    """~~p, ~~~p, ~(~p & q), ~~(p | q) ...: shapes on which negate/optimize unwrap negations."""
    out = []
    for d, a in atoms:
        out.append((f"~~({d})", lambda a=a: ~~a()))
        out.append((f"~~~({d})", lambda a=a: ~~~a()))
    for (d1, a), (d2, b) in zip(atoms, atoms[1:]):
        out.append((f"~(~({d1}) & ({d2}))", lambda a=a, b=b: ~(~a() & b())))
        out.append((f"~~(({d1}) | ({d2}))", lambda a=a, b=b: ~~(a() | b())))
    return out


def chain_thunks():
    """same-operator chains with repeated operands in every grouping: (x . y) . z, x . (y . z), (x . y) . (z . w) over three
    atoms that answer differently -- equality must pair operands as they stand (a chain compared as a set of operands, or up to
    re-association, equates xor chains of different parity)"""
    A = [("ge 2", lambda: ge_p(2)), ("eq 1", lambda: eq_p(1)), ("is_str", lambda: is_instance_p(str))]
    import operator

    out = []
    for sym, op in (("&", operator.and_), ("|", operator.or_), ("^", operator.xor)):
        for (d1, a) in A:
            for (d2, b) in A:
                for (d3, c) in A:
                    out.append((f"(({d1}) {sym} ({d2})) {sym} ({d3})", lambda a=a, b=b, c=c, op=op: op(op(a(), b()), c())))
                    out.append((f"({d1}) {sym} (({d2}) {sym} ({d3}))", lambda a=a, b=b, c=c, op=op: op(a(), op(b(), c()))))
        for (d1, a), (d2, b), (d3, c), (d4, d) in [(A[0], A[1], A[0], A[2]), (A[0], A[1], A[1], A[2]), (A[0], A[0], A[1], A[2]), (A[0], A[1], A[2], A[2]), (A[1], A[0], A[2], A[0]), (A[0], A[1], A[0], A[1]), (A[0], A[1], A[1], A[0]), (A[0], A[0], A[1], A[1])]:
            out.append((f"(({d1}) {sym} ({d2})) {sym} (({d3}) {sym} ({d4}))", lambda a=a, b=b, c=c, d=d, op=op: op(op(a(), b()), op(c(), d()))))
    return out


def composite_thunks(rng, atoms, n):
    out = []
    for _ in range(n):
        (d1, a), (d2, b) = rng.choice(atoms), rng.choice(atoms)
        k = rng.randrange(5)
        if k == 0:
            out.append((f"({d1}) & ({d2})", lambda a=a, b=b: a() & b()))
        elif k == 1:
            out.append((f"({d1}) | ({d2})", lambda a=a, b=b: a() | b()))
        elif k == 2:
            out.append((f"({d1}) ^ ({d2})", lambda a=a, b=b: a() ^ b()))
        elif k == 3:
            out.append((f"~({d1})", lambda a=a: ~a()))
        else:
            out.append((f"({d2}) & ({d1})", lambda a=a, b=b: b() & a()))
    return out


PROBE_VALUES = [IPv4Address("100.64.0.1"), IPv4Address("10.0.0.1"), IPv4Address("8.8.8.8"), IPv4Address("127.0.0.1"), IPv4Address("169.254.1.1"), IPv4Address("224.0.0.1"), IPv4Address("0.0.0.0"),
                IPv6Address("::1"), IPv6Address("2001:db8::1"), IPv6Address("2606:4700::1111"), IPv6Address("fe80::1"), IPv6Address("64:ff9b::1"), IPv4Network("100.64.0.0/30"), IPv4Network("10.0.0.0/30"), IPv4Network("8.8.8.0/30"), IPv6Network("2001:db8::/126"), IPv6Network("fc00::/126"),
                (1, 2), ((1, 2),), (((1, 2),),), frozenset({(1, 2)}), frozenset({1, 2}), frozenset({1}), "ab", "b", "cafe\u0301", "caf\u00e9", [0], [None], [""], [[]], (0,), {0}, [0, 0], (None, 0), [False], 0, 0.5, 1, 1.5, 2, 2.5, 3, 3.5, True, False, None, "a", "", "foo", "foobar", "bar", "FOO", "Foobar", "aaa", [], [1], [1, 2], (1,), (1, "a"), ("a", 1), (), {1}, {1, 2}, set(), {"a": 1}, {"a": 1, "b": "x"}, {}, {"b": 2}, {1: 1}]


def constants_of(p, depth=0, acc=None):
    """The numeric constants held anywhere in a predicate object (dataclass fields, members of set / tuple parameters)."""
    import dataclasses

    acc = [] if acc is None else acc
    if depth > 6:
        return acc
    if isinstance(p, bool):
        return acc
    if isinstance(p, (int, float)):
        acc.append(p)
    elif isinstance(p, (set, frozenset, tuple, list)):
        for e in list(p)[:8]:
            constants_of(e, depth + 1, acc)
    elif dataclasses.is_dataclass(p) and not isinstance(p, type):
        for f in dataclasses.fields(p):
            try:
                constants_of(getattr(p, f.name), depth + 1, acc)
            except Exception:  # noqa: BLE001
                pass
    return acc


def neighbours_of(p):
    """Values next to the predicate's own constants: the adjacent doubles, a relative 1e-12 / 1e-10 away, the next integers, and the
    float / int of equal value -- where a tolerance, a rounding or an off-by-one in a comparison shows and nowhere else."""
    import math

    out = []
    for c in constants_of(p)[:6]:
        try:
            f = float(c)
        except (OverflowError, ValueError):
            continue
        if math.isnan(f) or math.isinf(f):
            continue
        out += [math.nextafter(f, math.inf), math.nextafter(f, -math.inf), f * (1 + 1e-12), f * (1 - 1e-10), f + 1e-9, f]
        if isinstance(c, int) and abs(c) < 2**53:
            out += [c - 1, c + 1, c]
        elif isinstance(c, float) and f == int(f) and abs(f) < 2**53:
            out += [int(f)]
    seen, res = set(), []
    for v in out:
        k = (type(v).__name__, repr(v))
        if k not in seen:
            seen.add(k)
            res.append(v)
    return res


def text_forms_of(p):
    """The text forms of the predicate's scalar constants (str, repr, upper / lower case, ISO and hex forms, bytes) and the parsed forms
    of its text constants: values a "helpful" conversion would confuse with the constant, and that Python's == tells apart."""
    import dataclasses
    import datetime
    import uuid

    consts = []

    def walk(v, depth=0):
        if depth > 5:
            return
        if isinstance(v, (str, int, float, bool, datetime.date, uuid.UUID, bytes)) or v is None:
            consts.append(v)
        elif isinstance(v, (set, frozenset, tuple, list)):
            for e in list(v)[:6]:
                walk(e, depth + 1)
        elif dataclasses.is_dataclass(v) and not isinstance(v, type):
            for f in dataclasses.fields(v):
                try:
                    walk(getattr(v, f.name), depth + 1)
                except Exception:  # noqa: BLE001
                    pass

    walk(p)
    out = []
    for c in consts[:6]:
        forms = [str(c), repr(c), str(c).upper(), str(c).lower(), " " + str(c), str(c).encode()]
        if isinstance(c, (datetime.date, datetime.datetime)):
            forms += [c.isoformat(), c.isoformat().replace("T", " ")]
            if isinstance(c, datetime.datetime):
                forms += [c.date(), c.timestamp() if c.tzinfo else None]
        if isinstance(c, uuid.UUID):
            forms += [c.hex, c.hex.upper(), "{" + str(c) + "}", c.int, c.bytes, c.urn]
        if isinstance(c, str):
            for conv in (int, float):
                try:
                    forms.append(conv(c))
                except ValueError:
                    pass
            forms += [c.strip(), c + " ", c.casefold()]
        if isinstance(c, bool):
            forms += [int(c), str(c).lower()]
        out += [f for f in forms if f is not None]
    seen, res = set(), []
    for v in out:
        k = (type(v).__name__, repr(v))
        if k not in seen:
            seen.add(k)
            res.append(v)
    return res
