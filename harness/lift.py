"""Python predicate objects / values  <->  s-expressions of the line protocol.

Constants are coded as integers (see `encode_const`): numbers that are multiples
of 1/2 by doubling, None as 100000, strings from a fixed sorted pool as 200000+i.
Values that are `==` in Python (True, 1, 1.0) share a code, which is how the model
treats constants; *values* additionally carry a type tag.
"""
import os
import sys
from collections.abc import Callable, Container, Iterable
from typing import Hashable  # the object standard_predicates.py uses
from datetime import datetime
from uuid import UUID

sys.path.insert(0, os.environ.get("PYPRED_REPO", "/repo"))

from predicate import (  # noqa: E402
    AllPredicate,
    AlwaysFalsePredicate,
    AlwaysTruePredicate,
    AndPredicate,
    AnyPredicate,
    EqPredicate,
    FnPredicate,
    GePredicate,
    GtPredicate,
    InPredicate,
    IsEmptyPredicate,
    IsNonePredicate,
    IsNotNonePredicate,
    LePredicate,
    LtPredicate,
    NePredicate,
    NotInPredicate,
    NotPredicate,
    OrPredicate,
    Predicate,
    XorPredicate,
)
from predicate.comp_predicate import CompPredicate  # noqa: E402
from predicate.dict_of_predicate import DictOfPredicate  # noqa: E402
from predicate.has_key_predicate import HasKeyPredicate  # noqa: E402
from predicate.has_length_predicate import HasLengthPredicate  # noqa: E402
from predicate.is_instance_predicate import IsInstancePredicate  # noqa: E402
from predicate.lazy_predicate import LazyPredicate  # noqa: E402
from predicate.named_predicate import NamedPredicate  # noqa: E402
from predicate.predicate import IsFalsyPredicate, IsNotEmptyPredicate, IsTruthyPredicate  # noqa: E402
from predicate.property_predicate import PropertyPredicate  # noqa: E402
from predicate.range_predicate import GeLePredicate, GeLtPredicate, GtLePredicate, GtLtPredicate  # noqa: E402
from predicate.regex_predicate import RegexPredicate  # noqa: E402
from predicate.root_predicate import RootPredicate  # noqa: E402
from predicate.set_of_predicate import SetOfPredicate  # noqa: E402
from predicate.set_predicates import (  # noqa: E402
    IsRealSubsetPredicate,
    IsRealSupersetPredicate,
    IsSubsetPredicate,
    IsSupersetPredicate,
)
from predicate.standard_predicates import PredicateFactory  # noqa: E402
from predicate.tee_predicate import TeePredicate  # noqa: E402
from predicate.this_predicate import ThisPredicate  # noqa: E402
from predicate.tuple_of_predicate import TupleOfPredicate  # noqa: E402

# ---------------------------------------------------------------- constants

NONE_CODE = 100000
STR_BASE = 200000
STR_POOL = ["", "10", "9", "a", "ab", "b", "bar", "cafe\u0301", "caf\u00e9", "foo", "z"]  # incl. a decomposed and a composed spelling of one word: different strings  # sorted; "" has code STR_BASE; "10" < "9": print like the numbers, ordered differently
assert STR_POOL == sorted(STR_POOL)


class Unliftable(Exception):
    pass


TWIN = False  # twin mode: False, or the kind of twin ("str", "awaredt", "bigint", "tuple", "fraction", "decimal")
TWIN_KINDS = ("str", "awaredt", "bigint", "tuple", "fraction", "decimal")


class twin:
    """with lift.twin(kind): ... -- lower / lift in twin mode: the small non-negative numeric constants 0, 0.5, ..., 9.5 are
    lowered as values of ANOTHER Python type that are ordered (and equal / distinct, hashable) exactly like the numbers:
      str       the strings that print the same ("1", "2.5"; single digits, so "1" < "2" < ...),
      awaredt   timezone-aware datetimes 30 minutes apart whose UTC offsets differ, so that their wall-clock fields are ordered
                differently from the instants they denote,
      bigint    ints beyond 2**53 (consecutive ones collapse when converted to float),
      tuple     pairs (1, k) (ordered lexicographically; a tuple is a legitimate hashable constant),
      fraction  fractions.Fraction, decimal  decimal.Decimal (numbers that are not int / float instances).
    A twin tree is the same tree over an order-isomorphic set of constants, so everything the library does through ==, <,
    hashing must come out isomorphic (the Lean model is generic in the constant type).  What twin mode catches: anything keyed
    on how a constant prints, on its type, or on a lossy conversion of it."""

    def __init__(self, kind="str"):
        self.kind = kind

    def __enter__(self):
        global TWIN
        self.old, TWIN = TWIN, self.kind

    def __exit__(self, *a):
        global TWIN
        TWIN = self.old


def _mk_twin(c: int, kind: str):
    if kind == "str":
        return str(c // 2) if c % 2 == 0 else str(c / 2)
    if kind == "awaredt":
        from datetime import timedelta, timezone

        off = timezone(timedelta(hours=((c * 7) % 9) - 4, minutes=30 * (c % 2)))
        return (datetime(2024, 3, 10, 12, 0, tzinfo=timezone.utc) + timedelta(minutes=30 * c)).astimezone(off)
    if kind == "bigint":
        return 2**53 + 1 + c
    if kind == "tuple":
        return (1, c)
    if kind == "fraction":
        from fractions import Fraction

        return Fraction(c, 2) + Fraction(1, 3)
    if kind == "decimal":
        from decimal import Decimal

        return Decimal(c) / Decimal(2) + Decimal("0.25")
    raise ValueError(kind)


_TWINS = {k: {c: _mk_twin(c, k) for c in range(0, 20)} for k in TWIN_KINDS}
_TWIN_BACK = {k: {v: c for c, v in d.items()} for k, d in _TWINS.items()}
for _k, _d in _TWINS.items():  # order-isomorphic, pairwise distinct, hashable
    _vs = [_d[c] for c in range(20)]
    assert all(_vs[i] < _vs[i + 1] for i in range(19)) and len(set(_vs)) == 20, _k


def _twin_str(c: int):
    """the twin (of the current kind, default str) of a numeric code, or None when the code has none (negative, > 9.5, not a number)"""
    if 0 <= c <= 19:
        return _mk_twin(c, TWIN or "str")  # built afresh at every use: two atoms over one constant hold equal but distinct objects
    return None


def twinnable(sx) -> bool:
    """every constant of the case has a twin (or is not numeric at all)"""
    from . import sx as S

    for t in S.subterms(sx):
        if isinstance(t, tuple) and t and t[0] in ("eq", "ne", "ge", "gt", "le", "lt", "gele", "gelt", "gtle", "gtlt", "in", "notin", "subset", "rsubset", "superset", "rsuperset"):
            for c in t[1:]:
                try:
                    k = int(c)
                except (TypeError, ValueError):
                    return False
                if k < STR_BASE and k != NONE_CODE and not (0 <= k <= 19):
                    return False
                if STR_BASE <= k < STR_BASE + len(STR_POOL) and STR_POOL[k - STR_BASE] in _TWIN_BACK["str"]:  # a pool string that is itself a digit string
                    return False
    return True


def _twin_back(v):
    if not TWIN:
        return None
    try:
        return _TWIN_BACK[TWIN].get(v)
    except TypeError:  # unhashable
        return None


def encode_const(v) -> int:
    if TWIN and not isinstance(v, (bool, float)) and not (isinstance(v, int) and abs(v) < 2**40):
        k = _twin_back(v)
        if k is not None:
            return k
    if v is None:
        return NONE_CODE
    if isinstance(v, bool):
        return 2 * int(v)
    if isinstance(v, int):
        if abs(v) > 40000:
            raise Unliftable(f"int out of range {v}")
        return 2 * v
    if isinstance(v, float):
        d = v * 2
        if d != int(d) or abs(d) > 80000:
            raise Unliftable(f"float not a multiple of 1/2: {v}")
        return int(d)
    if isinstance(v, str):
        if v in STR_POOL:
            return STR_BASE + STR_POOL.index(v)
        raise Unliftable(f"string not in pool: {v!r}")
    if isinstance(v, (list, dict, set)):
        # unhashable constants (legitimate for eq_p / ne_p): one code per ==-class, beyond the string range; the model only ever
        # compares them for equality (they occur in eq / ne atoms alone)
        for k, o in enumerate(_OPAQUE):
            if type(o) is type(v) and o == v:
                return OPAQUE_BASE + k
        _OPAQUE.append(v)
        return OPAQUE_BASE + len(_OPAQUE) - 1
    raise Unliftable(f"constant {v!r}")


OPAQUE_BASE = 300000
_OPAQUE: list = []


def decode_const(c: int):
    if c >= OPAQUE_BASE:
        return _OPAQUE[c - OPAQUE_BASE]
    if TWIN and _twin_str(c) is not None:
        return _twin_str(c)
    if c == NONE_CODE:
        return None
    if c >= STR_BASE:
        return STR_POOL[c - STR_BASE]
    if c % 2 == 0:
        return c // 2
    return c / 2


# ---------------------------------------------------------------- classes, function atoms, interning

CLASSES = [bool, int, float, str, list, tuple, set, dict, Iterable, Container, Hashable, Callable, complex, datetime, UUID, range, Predicate, type(None)]
CLASS_ID = {id(c): i for i, c in enumerate(CLASSES)}

TY_NONE, TY_BOOL, TY_INT, TY_FLOAT, TY_STR, TY_LIST, TY_TUPLE, TY_SET, TY_DICT = range(9)


def value_code(x) -> int:
    """What a function atom sees of a value: the constant code, or the length."""
    if isinstance(x, (list, tuple, set, frozenset, dict)):
        return len(x)
    return encode_const(x)


def _mk_fn(i):
    def f(x):
        return (value_code(x) + i) % 2 == 0

    f.__name__ = f.__qualname__ = f"fn{i}"
    return f


FNS = [_mk_fn(i) for i in range(4)]
FN_ID = {id(f): i for i, f in enumerate(FNS)}
_extra_fns: list = []  # functions first seen while lifting (identity keeps them alive)


def fn_id(f) -> int:
    k = FN_ID.get(id(f))
    if k is None:
        k = 100 + len(_extra_fns)
        _extra_fns.append(f)
        FN_ID[id(f)] = k
    return k


_interned: dict = {}
_interned_objs: list = []


def intern(v) -> int:
    """A small integer for a parameter, equal exactly when Python's `==` says so."""
    try:
        hash(v)
        key = ("h", v)
    except TypeError:
        key = ("i", id(v))
        _interned_objs.append(v)
    if key not in _interned:
        _interned[key] = len(_interned)
    return _interned[key]


LEAF_HAS_KEY, LEAF_HAS_LENGTH, LEAF_REGEX, LEAF_LAZY, LEAF_THIS, LEAF_ROOT, LEAF_TEE, LEAF_PROPERTY, LEAF_FACTORY, LEAF_OTHER = range(1, 11)
BOX_COMP, BOX_TUPLE_OF, BOX_SET_OF, BOX_DICT_OF = range(1, 5)

# ---------------------------------------------------------------- predicate -> sexp


def _set(name, s):
    return (name, *[str(c) for c in sorted({encode_const(x) for x in s})])


_KNOWN: set = set()


def lift(p) -> object:
    c = p.__class__
    if not _KNOWN:
        _KNOWN.update(v for v in globals().values() if isinstance(v, type) and issubclass(v, Predicate))
    if c not in _KNOWN:  # an instance of a derived class (a user subclass, a named constant): the nearest class this table knows
        for b in c.__mro__[1:]:
            if b in _KNOWN and b is not Predicate:
                c = b
                break
    if c is AlwaysTruePredicate:
        return "tt"
    if c is AlwaysFalsePredicate:
        return "ff"
    if c is NamedPredicate:
        return ("var", p.name, "1" if p.v else "0")
    if c is FnPredicate:
        return ("fn", str(fn_id(p.predicate_fn)))
    if c is EqPredicate:
        return ("eq", str(encode_const(p.v)))
    if c is NePredicate:
        return ("ne", str(encode_const(p.v)))
    if c is GePredicate:
        return ("ge", str(encode_const(p.v)))
    if c is GtPredicate:
        return ("gt", str(encode_const(p.v)))
    if c is LePredicate:
        return ("le", str(encode_const(p.v)))
    if c is LtPredicate:
        return ("lt", str(encode_const(p.v)))
    if c is GeLePredicate:
        return ("gele", str(encode_const(p.lower)), str(encode_const(p.upper)))
    if c is GeLtPredicate:
        return ("gelt", str(encode_const(p.lower)), str(encode_const(p.upper)))
    if c is GtLePredicate:
        return ("gtle", str(encode_const(p.lower)), str(encode_const(p.upper)))
    if c is GtLtPredicate:
        return ("gtlt", str(encode_const(p.lower)), str(encode_const(p.upper)))
    if c is InPredicate:
        return _set("in", p.v)
    if c is NotInPredicate:
        return _set("notin", p.v)
    if c is IsSubsetPredicate:
        return _set("subset", p.v)
    if c is IsRealSubsetPredicate:
        return _set("rsubset", p.v)
    if c is IsSupersetPredicate:
        return _set("superset", p.v)
    if c is IsRealSupersetPredicate:
        return _set("rsuperset", p.v)
    if c is IsNonePredicate:
        return "none"
    if c is IsNotNonePredicate:
        return "notnone"
    if c is IsTruthyPredicate:
        return "truthy"
    if c is IsFalsyPredicate:
        return "falsy"
    if c is IsEmptyPredicate:
        return "empty"
    if c is IsNotEmptyPredicate:
        return "notempty"
    if c is IsInstancePredicate:
        klass = p.klass if isinstance(p.klass, tuple) else (p.klass,)
        ids = []
        for k in klass:
            if id(k) not in CLASS_ID:
                raise Unliftable(f"class {k}")
            ids.append(str(CLASS_ID[id(k)]))
        return ("inst", *ids)
    if c is AndPredicate:
        return ("and", lift(p.left), lift(p.right))
    if c is OrPredicate:
        return ("or", lift(p.left), lift(p.right))
    if c is XorPredicate:
        return ("xor", lift(p.left), lift(p.right))
    if c is NotPredicate:
        return ("not", lift(p.predicate))
    if c is AllPredicate:
        return ("all", lift(p.predicate))
    if c is AnyPredicate:
        return ("any", lift(p.predicate))
    if c is HasKeyPredicate:
        return ("leaf", str(LEAF_HAS_KEY), str(intern(p.key)))
    if c is HasLengthPredicate:
        return ("leaf", str(LEAF_HAS_LENGTH), str(intern(p.length)))
    if c is RegexPredicate:
        # what == sees: the dataclass fields as they were passed in (a str or a compiled pattern; the flags argument)
        return ("leaf", str(LEAF_REGEX), str(intern(p.pattern)), str(intern(p.flags)))
    if c is LazyPredicate:
        return ("leaf", str(LEAF_LAZY), str(intern(p.ref)))
    if c is ThisPredicate:
        return ("leaf", str(LEAF_THIS))
    if c is RootPredicate:
        return ("leaf", str(LEAF_ROOT))
    if c is TeePredicate:
        return ("leaf", str(LEAF_TEE), str(fn_id(p.fn)))
    if c is PropertyPredicate:
        return ("leaf", str(LEAF_PROPERTY), str(intern(p.getter)))
    if c is PredicateFactory:
        return ("leaf", str(LEAF_FACTORY), str(intern(p.factory)))
    if c is CompPredicate:
        return ("box", str(BOX_COMP), (str(fn_id(p.fn)),), lift(p.predicate))
    if c is TupleOfPredicate:
        return ("box", str(BOX_TUPLE_OF), (), *[lift(q) for q in p.predicates])
    if c is SetOfPredicate:
        return ("box", str(BOX_SET_OF), (), lift(p.predicate))
    if c is DictOfPredicate:
        kids = []
        for k, v in p.key_value_predicates:
            kids.append(lift(k))
            kids.append(lift(v))
        return ("box", str(BOX_DICT_OF), (), *kids)
    raise Unliftable(f"predicate class {c.__name__}")


# ---------------------------------------------------------------- sexp -> predicate


def lower(sx, share=None):
    """Build the Python predicate.  `share` (a dict) makes syntactically equal
    sub-terms the *same* object."""
    if share is not None and sx in share:
        return share[sx]
    r = _lower(sx, share)
    if share is not None:
        share[sx] = r
    return r


def _consts(xs):
    return [decode_const(int(c)) for c in xs]


_alt = [0]


def _singletons():
    import predicate as P
    from predicate.predicate import is_not_empty_p

    return {"tt": P.always_true_p, "ff": P.always_false_p, "none": P.is_none_p, "notnone": P.is_not_none_p, "truthy": P.is_truthy_p, "falsy": P.is_falsy_p,
            "empty": P.is_empty_p, "notempty": is_not_empty_p}


_SINGLETONS: dict = {}


def _lower(sx, share):
    if isinstance(sx, str):
        # parameterless atoms: alternately the library's module-level object (always_true_p, is_none_p, ...) and a fresh
        # instance of its class -- equal, but not the same object; nothing may hinge on which one it is
        _alt[0] += 1
        if _alt[0] % 2:
            if not _SINGLETONS:
                _SINGLETONS.update(_singletons())
            q = _SINGLETONS[sx]
            if type(q) is {"tt": AlwaysTruePredicate, "ff": AlwaysFalsePredicate, "none": IsNonePredicate, "notnone": IsNotNonePredicate, "truthy": IsTruthyPredicate,
                           "falsy": IsFalsyPredicate, "empty": IsEmptyPredicate, "notempty": IsNotEmptyPredicate}[sx]:
                return q
        return {
            "tt": AlwaysTruePredicate,
            "ff": AlwaysFalsePredicate,
            "none": IsNonePredicate,
            "notnone": IsNotNonePredicate,
            "truthy": IsTruthyPredicate,
            "falsy": IsFalsyPredicate,
            "empty": IsEmptyPredicate,
            "notempty": IsNotEmptyPredicate,
        }[sx]()
    h = sx[0]
    if h == "var":
        return NamedPredicate(name=sx[1], v=sx[2] == "1")
    if h == "fn":
        return FnPredicate(predicate_fn=FNS[int(sx[1])])
    if h in ("eq", "ne", "ge", "gt", "le", "lt"):
        cls = {"eq": EqPredicate, "ne": NePredicate, "ge": GePredicate, "gt": GtPredicate, "le": LePredicate, "lt": LtPredicate}[h]
        return cls(v=decode_const(int(sx[1])))
    if h in ("gele", "gelt", "gtle", "gtlt"):
        cls = {"gele": GeLePredicate, "gelt": GeLtPredicate, "gtle": GtLePredicate, "gtlt": GtLtPredicate}[h]
        return cls(lower=decode_const(int(sx[1])), upper=decode_const(int(sx[2])))
    if h == "in":
        return InPredicate(v=_consts(sx[1:]))
    if h == "notin":
        return NotInPredicate(v=_consts(sx[1:]))
    if h in ("subset", "rsubset", "superset", "rsuperset"):
        cls = {"subset": IsSubsetPredicate, "rsubset": IsRealSubsetPredicate, "superset": IsSupersetPredicate, "rsuperset": IsRealSupersetPredicate}[h]
        return cls(set(_consts(sx[1:])))
    if h == "inst":
        return IsInstancePredicate(klass=tuple(CLASSES[int(k)] for k in sx[1:]))
    if h == "and":
        return AndPredicate(left=lower(sx[1], share), right=lower(sx[2], share))
    if h == "or":
        return OrPredicate(left=lower(sx[1], share), right=lower(sx[2], share))
    if h == "xor":
        return XorPredicate(left=lower(sx[1], share), right=lower(sx[2], share))
    if h == "not":
        return NotPredicate(predicate=lower(sx[1], share))
    if h == "all":
        return AllPredicate(predicate=lower(sx[1], share))
    if h == "any":
        return AnyPredicate(predicate=lower(sx[1], share))
    raise Unliftable(f"cannot lower {sx!r}")


# ---------------------------------------------------------------- values


def lift_val(x):
    if x is None:
        return ("s", str(TY_NONE), str(NONE_CODE))
    if isinstance(x, bool):
        return ("s", str(TY_BOOL), str(encode_const(x)))
    if isinstance(x, int):
        return ("s", str(TY_INT), str(encode_const(x)))
    if isinstance(x, float):
        return ("s", str(TY_FLOAT), str(encode_const(x)))
    if isinstance(x, str):
        return ("s", str(TY_STR), str(encode_const(x)))
    if isinstance(x, list):
        return ("c", str(TY_LIST), *[lift_val(e) for e in x])
    if isinstance(x, tuple):
        return ("c", str(TY_TUPLE), *[lift_val(e) for e in x])
    if isinstance(x, (set, frozenset)):
        return ("c", str(TY_SET), *sorted((lift_val(e) for e in x), key=repr))
    raise Unliftable(f"value {x!r}")
