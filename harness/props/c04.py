"""C04  negate(p) is the exact complement of p."""
import json
import random

from predicate.negate import negate

from .. import cases, driver, lift, pool, sx as S
from ..core import Check


def main(tier):
    chk = Check("C04", tier)
    chk.prove(checker=(tier == "thorough"))
    rng = random.Random(chk.seed)
    atoms = pool.atom_thunks()
    comps = pool.composite_thunks(rng, atoms, 150 if tier == "quick" else 2000)
    objs = [(d, th()) for d, th in atoms + comps + pool.nested_not_thunks(atoms)]
    # grid atoms of C02/C03 as well (built through lower)
    grid = cases.scalar_atoms() + cases.coll_atoms() + list(cases.quantified_atoms(cases.elem_preds()[:20]))
    grid += [("not", g) for g in grid]
    objs += [(S.show(g), lift.lower(g)) for g in grid]
    reqs, expect, meta = [], [], []
    for d, p in objs:
        reqs.append(f"neg {S.show(lift.lift(p))}")
        try:
            expect.append(S.show(lift.lift(negate(p))))
        except Exception as e:  # noqa: BLE001
            expect.append(f"RAISED {type(e).__name__}")
        meta.append(d)
    out = driver.run(reqs)
    dis = [{"input": m, "model": o, "implementation": e} for o, e, m in zip(out, expect, meta) if o != e]
    chk.add_corr("neg/all-constructors", len(reqs), dis)
    chk.evaluations += len(reqs)
    # once more, in reverse order, on the same objects: negate is a function of its argument
    adis = []
    for (d, p), e in reversed(list(zip(objs, expect))):
        try:
            r = S.show(lift.lift(negate(p)))
        except Exception as ex:  # noqa: BLE001
            r = f"RAISED {type(ex).__name__}"
        if r != e:
            adis.append({"input": d, "first_time": e, "second_time": r})
    chk.add_corr("neg/again-in-reverse-order", len(objs), adis)
    for a in adis[:5]:
        chk.add_failure(a["input"] + "  [negated a second time]", {"what": "negate answers differently the second time", **a}, None)
    kinds = set()
    objs = objs + [(d, th()) for d, th in pool.oracle_only_thunks()]
    # the property on the real code
    values = pool.PROBE_VALUES + cases.coll_values()[:40] + cases.coll_values()[-5:]
    checked = 0
    for d, p in objs:
        try:
            q = negate(p)
        except Exception as e:  # noqa: BLE001
            chk.add_failure(d, {"what": f"negate raised {type(e).__name__}"}, None)
            continue
        kinds.add(type(p).__name__)
        if type(q).__name__ != "NotPredicate" or type(p).__name__ == "NotPredicate":
            chk.nontrivial.add(d)
        for x in values + pool.neighbours_of(p) + pool.text_forms_of(p):
            try:
                a = p(x)
            except Exception:  # noqa: BLE001  p undefined at x
                continue
            try:
                b = q(x)
            except Exception as e:  # noqa: BLE001
                chk.add_failure(d, {"what": "negate(p) raises where p is defined", "value": repr(x), "error": type(e).__name__}, None)
                break
            checked += 1
            if bool(a) == bool(b):
                chk.add_failure(d, {"what": "negate(p)(x) == p(x)", "value": repr(x), "p(x)": bool(a)}, None)
                break
    # ---- the emptiness duals on one-shot iterables (a fresh iterator for each call): items that are None / falsy
    from predicate.predicate import IsEmptyPredicate, IsNotEmptyPredicate

    it_cases = 0
    for P_ in (IsEmptyPredicate, IsNotEmptyPredicate):
        p_ = P_()
        q_ = negate(p_)
        for xs in ([None], [None, 1], [0], [False, None], [], [""], [[]], [1]):
            for mk in (iter, lambda v: (e for e in v), lambda v: map(lambda e: e, v)):
                it_cases += 1
                try:
                    a, b = bool(p_(mk(list(xs)))), bool(q_(mk(list(xs))))
                except Exception:  # noqa: BLE001
                    continue
                if a == b:
                    chk.add_failure(f"{P_.__name__} on a one-shot iterable over {xs!r}", {"what": "negate(p)(x) == p(x) on a lazy iterable", "p(x)": a}, None)
    chk.evaluations += it_cases
    chk.extra["one_shot_iterable_cases"] = it_cases
    # ---- caller-owned parameters: a predicate built from a set the caller keeps (and later changes) and its negation
    # must stay complements of each other -- set-valued predicates copy their argument, so neither may alias it
    from predicate.set_predicates import (InPredicate, IsRealSubsetPredicate, IsRealSupersetPredicate, IsSubsetPredicate, IsSupersetPredicate,
                                          NotInPredicate)

    alias_cases = 0
    for cls in (InPredicate, NotInPredicate, IsSubsetPredicate, IsRealSubsetPredicate, IsSupersetPredicate, IsRealSupersetPredicate):
        for start, change in (({1, 2}, ("add", 3)), ({1, 2, 3}, ("discard", 2)), (set(), ("add", 1)), ({"a"}, ("add", "b"))):
            owned = set(start)
            try:
                p = cls(owned)
                q = negate(p)
            except Exception as e:  # noqa: BLE001
                chk.add_failure(f"{cls.__name__}({sorted(map(repr, start))})", {"what": f"constructor/negate raised {type(e).__name__}"}, None)
                continue
            getattr(owned, change[0])(change[1])  # the caller changes ITS set afterwards
            probes = [1, 2, 3, "a", "b", set(), {1}, {1, 2}, {1, 2, 3}, {1, 3}, {"a"}, {"a", "b"}]
            for x in probes:
                try:
                    a = p(x)
                except Exception:  # noqa: BLE001
                    continue
                try:
                    b = q(x)
                except Exception:  # noqa: BLE001
                    continue
                alias_cases += 1
                if bool(a) == bool(b):
                    chk.add_failure(f"{cls.__name__}(s) with s = {sorted(map(repr, start))}, then s.{change[0]}({change[1]!r})",
                                    {"what": "after the caller changed its own set, p and negate(p) are no longer complements (a parameter is aliased, not copied)", "value": repr(x), "p(x)": bool(a), "negate(p)(x)": bool(b)}, None)
                    break
    chk.evaluations += alias_cases
    chk.extra["caller_owned_set_cases"] = alias_cases
    # ---- negate is a function of the predicate as it is NOW: negate(p), change a parameter of p in place (the classes are plain
    # mutable dataclasses), negate(p) again -- the second answer must be the complement of the changed p; and changing an
    # earlier result must not show in a later one
    import dataclasses

    hist_cases = 0

    def complement_on(pp, qq, probes):
        for x in probes:
            try:
                a = pp(x)
            except Exception:  # noqa: BLE001
                continue
            try:
                b = qq(x)
            except Exception as e:  # noqa: BLE001
                return {"value": repr(x), "error": type(e).__name__}
            if bool(a) == bool(b):
                return {"value": repr(x), "p(x)": bool(a), "negate(p)(x)": bool(b)}
        return None

    for d, th in atoms:
        try:
            p = th()
            if not dataclasses.is_dataclass(p) or p is th():  # module singletons (always_true_p ...) are shared: never touched
                continue
            fields = [f.name for f in dataclasses.fields(p)]
        except Exception:  # noqa: BLE001
            continue
        change = None
        for name in fields:
            v = getattr(p, name, None)
            if isinstance(v, set):
                change = (name, "set.add", lambda v=v: v.add(3 if 3 not in v else 7))
            elif isinstance(v, bool):
                change = (name, "assign", lambda name=name, v=v: setattr(p, name, not v))
            elif isinstance(v, (int, float)):
                change = (name, "assign", lambda name=name, v=v: setattr(p, name, v + 1))
            elif isinstance(v, str) and name in ("v",):
                change = (name, "assign", lambda name=name, v=v: setattr(p, name, v + "a"))
            if change:
                break
        if not change:
            continue
        try:
            q1 = negate(p)
            change[2]()
            q2 = negate(p)
        except Exception:  # noqa: BLE001
            continue
        hist_cases += 1
        bad = complement_on(p, q2, values)
        if bad:
            chk.add_failure(f"negate(p); p.{change[0]} changed in place ({change[1]}); negate(p)   with p = {d}", {"what": "the second negate(p) is not the complement of p as it is now (an answer was remembered on the object)", **bad}, None)
            continue
        # the first result belongs to the caller: emptying / changing it must not reach later results
        q1v = getattr(q1, "v", None)
        if isinstance(q1v, set) and q1 is not p:
            q1v.clear()
            try:
                q3 = negate(p)
            except Exception:  # noqa: BLE001
                continue
            bad = complement_on(p, q3, values)
            if bad:
                chk.add_failure(f"q = negate(p); q.v.clear(); negate(p)   with p = {d}", {"what": "a result handed out earlier is handed out again: changing it changed what negate(p) returns", **bad}, None)
    chk.evaluations += hist_cases
    chk.extra["negate_again_after_change_cases"] = hist_cases
    chk.extra["value_checks"] = checked
    chk.extra["predicate_classes_covered"] = sorted(kinds)
    chk.rule = (
        "every exported constructor at 2-4 parameter choices + random composites + the C02/C03 atom grids and their negations (%d predicates): "
        "model negate vs predicate.negate (structural); then negate(p)(x) == not p(x) on %d values wherever p(x) is defined. "
        "Histories: a caller-owned set changed after construction; negate(p), p changed in place, negate(p) again. non-trivial = inputs with a dedicated dual or an unwrapped ~p (not the default wrapping)." % (len(objs), len(values))
    )
    chk.samples = [f"{m} -> {e}" for m, e in list(zip(meta, expect))[10:14]]
    chk.assumptions = ["values come from totally ordered domains (no NaN)"]
    return chk.finish()


def replay(path):
    from ..core import replay_by_rerun

    return replay_by_rerun(main, path)
