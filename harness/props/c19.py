"""C19  construct() only yields predicates that separate the two example sets.

Lean side: lean/PyPred/Model/Construct.lean, lean/PyPred/Props/C19.lean, driver
lean/DriverConstruct.lean (`driver_construct`).

Correspondence (model stream vs. the real generator, in order):
  * `construct`   first `limit` yields of construct(F, T) for pairs of example lists of
                  size 0-2 over a mixed-type pool, lifted with harness/lift.py, against
                  `prefixFrom` (= constructPrefix, C19_prefixFrom_eq) two rounds deep;
                  a few pairs three rounds deep (the real code has to build the 263 536
                  candidates of round 2 for that);
  * `mutations`   create_mutations on the initial list, on random candidate lists with
                  `==`-equal members, (thorough) on round 1 -> the full round 2;
  * `gray`        more_itertools.gray_product(range(n), range(m)) against `grayPairs`.
Property on the real code: every yield called on every example; first-round clause.

The generator never terminates: every `next` runs under a line-event budget
(harness/budget.py).  EVENTS_SHALLOW is enough for rounds 0 and 1 on sets of size <= 2
(measured, recorded in the evidence as `max_events_per_next`) and far too little to
build round 2 (about 5.0e6 events), so a shallow pull stops exactly at the end of
round 1 with status `starved`.
"""
import json
import random
from datetime import datetime

from more_itertools import gray_product
from predicate.constructor import construct as _cmod
from predicate.constructor.construct import construct

# internal helpers: tied when they exist with the shape they have today; the property is about construct() alone, so a
# refactor that renames or re-shapes them only drops the sub-tie (recorded in the evidence), it is not a failure
create_mutations = getattr(_cmod, "create_mutations", None)
initial_predicates = getattr(_cmod, "initial_predicates", None)

from .. import budget, driver, lift, sx as S
from ..core import Check, HarnessError

EXE = dict(exe="driver_construct", src="DriverConstruct.lean")

EVENTS_SHALLOW = 60_000  # rounds 0+1 need <= ~17 200 events per `next` on lists of size <= 2 (measured); building round 2 needs ~5 000 000
EVENTS_DEEP = 30_000_000  # enough to build round 2 and to scan all of it once

# name, factory (fresh object per use: lists/sets/dicts are mutable)
POOL = [
    ("None", lambda: None),
    ("True", lambda: True),
    ("False", lambda: False),
    ("0", lambda: 0),
    ("1", lambda: 1),
    ("1.5", lambda: 1.5),
    ("''", lambda: ""),
    ("'a'", lambda: "a"),
    ("[]", lambda: []),
    ("[1]", lambda: [1]),
    ("{1}", lambda: {1}),
    ("set()", lambda: set()),
    ("{}", lambda: {}),
    ("{'a': 1}", lambda: {"a": 1}),
    ("datetime(2020,1,1)", lambda: datetime(2020, 1, 1)),
]

TY_SET, TY_DICT, TY_DATETIME = 7, 8, 9


def lift_example(x):
    """Example value -> s-expression of the model's universe (Construct.Ex): type tag + payload."""
    if type(x) is dict:
        return ("c", str(TY_DICT), *[lift.lift_val(k) for k in x])
    if type(x) is datetime:
        return ("s", str(TY_DATETIME), "0")
    if type(x) in (type(None), bool, int, float, str, list, set):
        return lift.lift_val(x)
    raise HarnessError(f"example value outside the modelled universe: {x!r}")


def show_vals(idx):
    return "(" + " ".join(S.show(lift_example(POOL[i][1]())) for i in idx) + ")"


def names(idx):
    return "[" + ", ".join(POOL[i][0] for i in idx) + "]"


def mk(idx):
    return [POOL[i][1]() for i in idx]


def all_lists():
    n = len(POOL)
    out = [()]
    out += [(i,) for i in range(n)]
    out += [(i, j) for i in range(n) for j in range(n)]
    return out


def sample_pairs(rng, total):
    ls = all_lists()
    small = [l for l in ls if len(l) <= 1]
    pairs = [(f, t) for f in small for t in small]  # all 16 x 16 pairs of sets of size <= 1
    seen = set(pairs)
    while len(pairs) < total:
        p = (rng.choice(ls), rng.choice(ls))
        if p not in seen:
            seen.add(p)
            pairs.append(p)
    return pairs


def pull(F, T, limit, events):
    """First `limit` yields of the real generator; each `next` under its own budget.
    Returns (items, status, max events of a successful next)."""
    items, worst = [], 0
    try:
        it, _ = budget.limited(lambda: construct(F, T), events)
    except budget.Starved:
        return items, "starved", worst
    except Exception as e:  # noqa: BLE001
        return items, f"error:{type(e).__name__}", worst
    for _ in range(limit):
        try:
            v, ev = budget.limited(lambda: next(it), events)
        except StopIteration:
            return items, "stopped", worst
        except budget.Starved:
            return items, "starved", worst
        except Exception as e:  # noqa: BLE001
            return items, f"error:{type(e).__name__}: {e}", worst
        worst = max(worst, ev)
        items.append(v)
    return items, "more", worst


def call(p, x):
    try:
        return bool(p(x))
    except Exception as e:  # noqa: BLE001
        return f"raised {type(e).__name__}"


def lift_all(ps):
    return [S.show(lift.lift(p)) for p in ps]


def parse_answer(line):
    """`N p1 ... pN` -> list of s-expression strings."""
    if line.startswith("ERR"):
        raise HarnessError(f"driver_construct: {line}")
    xs = S.parse(line)
    n = int(xs[0])
    out = [S.show(x) for x in xs[1:]]
    if n != len(out):
        raise HarnessError("driver_construct: malformed answer")
    return out


def _initial():
    if initial_predicates is not None:
        try:
            return list(initial_predicates())
        except Exception:  # noqa: BLE001
            pass
    import predicate as P

    return [P.always_false_p, P.always_true_p, P.is_bool_p, P.is_datetime_p, P.is_dict_p, P.is_falsy_p, P.is_float_p, P.is_int_p, P.is_list_p, P.is_none_p, P.is_not_none_p, P.is_set_p, P.is_str_p, P.is_truthy_p]


INIT = _initial()


def check_pair(chk, fi, ti, limit, depth, events, model, stats):
    """One pair: pull from the real code, compare with the model's answer `model`, check
    the property on the real code.  Returns a list of (what, detail) problems."""
    F, T = mk(fi), mk(ti)
    before = (repr(F), repr(T))
    items, status, worst = pull(F, T, limit, events)
    if depth == 2 and status == "starved" and len(items) < len(model) and stats.get("escalated", 0) < 3 and lift_all(items) == model[: len(items)]:
        # the shallow budget ran out inside rounds 0-1 (never seen; kept so that a slow path is not a false alarm):
        # pull again with the deep budget, exactly as many items as the model has in rounds 0-1
        stats["escalated"] = stats.get("escalated", 0) + 1
        F, T = mk(fi), mk(ti)
        items, status, _ = pull(F, T, len(model), EVENTS_DEEP)
        status = "starved" if (status == "more" and len(model) < limit) else status
    elif depth == 2:
        stats["max_events_shallow"] = max(stats.get("max_events_shallow", 0), worst)
    stats["max_events"] = max(stats["max_events"], worst)
    problems = []
    inp = {"F": names(fi), "T": names(ti), "F_idx": list(fi), "T_idx": list(ti), "limit": limit, "rounds": depth, "events": events}
    if (repr(F), repr(T)) != before:
        problems.append(("construct mutated its example sets", {"after": [repr(F), repr(T)]}))
    if status.startswith("error") or status == "stopped":
        problems.append((f"construct ended with {status}", {}))
    # ---- the property on the real code
    Fc, Tc = mk(fi), mk(ti)  # fresh copies: what the user holds
    for k, p in enumerate(items):
        bad_t = [POOL[i][0] for i, x in zip(ti, Tc) if call(p, x) is not True]
        bad_f = [POOL[i][0] for i, x in zip(fi, Fc) if call(p, x) is not False]
        chk.evaluations += len(Tc) + len(Fc)
        if bad_t or bad_f:
            problems.append(("yielded predicate does not separate", {"position": k, "predicate": repr(p), "not_true_on": bad_t, "not_false_on": bad_f}))
            break
    sep_init = [q for q in INIT if all(call(q, x) is True for x in Tc) and all(call(q, x) is False for x in Fc)]
    if sep_init and limit >= 1:
        stats["first_round_applicable"] += 1
        lead = []
        for p in items:
            if any(p is q for q in INIT):
                lead.append(p)
            else:
                break
        if not any(any(p is q for q in sep_init) for p in lead[:14]):
            problems.append(("an initial type test separates but no separating predicate is yielded from the first 14 candidates", {"separating_initial": [repr(q) for q in sep_init], "first_yields": [repr(p) for p in items[:5]]}))
        want = sep_init[:limit]
        if [id(p) for p in lead] != [id(q) for q in want]:
            problems.append(("first-round yields are not the separating initial tests in order", {"separating_initial": [repr(q) for q in sep_init], "first_yields": [repr(p) for p in items[:14]]}))
    elif not sep_init and items and any(items[0] is q for q in INIT):
        problems.append(("an initial test was yielded although none separates", {"first": repr(items[0])}))
    # ---- against the model, in order
    got = lift_all(items)
    dis = None
    if depth == 2:
        # shallow budget: the real generator gets through rounds 0-1 and no further
        if got != model:
            dis = {"input": inp, "model": model[:8], "implementation": got[:8], "len_model": len(model), "len_implementation": len(got), "status": status}
        elif (status == "more") != (len(model) == limit):
            dis = {"input": inp, "status": status, "len_model": len(model), "what": "status does not match the model's count"}
    else:
        # deep: the pull may starve inside round 2; what was yielded must be a prefix of the model's stream
        if got != model[: len(got)] or (status == "more" and len(got) != len(model)):
            dis = {"input": inp, "model": model[:8], "implementation": got[:8], "len_model": len(model), "len_implementation": len(got), "status": status}
    stats["yields_compared"] += len(got)
    if status == "starved" and not items:
        stats["starved_empty"] += 1
        # C19_indistinguishable: some T-example and F-example agree on all 14 initial tests
        vec = lambda x: tuple(call(q, x) for q in INIT)  # noqa: E731
        if {vec(x) for x in Tc} & {vec(y) for y in Fc}:
            stats["starved_explained_by_indistinguishable"] += 1
    if items and (fi or ti):
        chk.nontrivial.add((fi, ti))
    return inp, items, status, problems, dis


def interleaved(chk, rng, tier, pairs, answers, limit, stats):
    """Several construct() streams alive at once, advanced in turn: each must still be the stream of its own pair
    (the property speaks of every position of the stream for any two example sets; it does not allow one call to
    disturb another)."""
    n_groups = 60 if tier == "quick" else 400
    lim = min(limit, 12)
    cand = [(p, a) for p, a in zip(pairs, answers) if a]
    other = [(p, a) for p, a in zip(pairs, answers) if not a and (p[0] or p[1])]
    dis, n_streams = [], 0
    for g in range(n_groups):
        if len(cand) < 2:
            break
        grp = rng.sample(cand, 2) + ([rng.choice(other)] if other and g % 3 == 0 else []) + ([rng.choice(cand)] if g % 4 == 0 else [])
        rng.shuffle(grp)
        sets = [(mk(fi), mk(ti)) for (fi, ti), _ in grp]
        its, items, alive = [], [[] for _ in grp], [True] * len(grp)
        for F, T in sets:
            try:
                it, _ = budget.limited(lambda F=F, T=T: construct(F, T), EVENTS_SHALLOW)
            except Exception as e:  # noqa: BLE001
                it = None
            its.append(it)
        for _ in range(lim):
            for k, it in enumerate(its):
                if it is None or not alive[k] or len(items[k]) >= len(grp[k][1]):
                    continue  # never pull past what rounds 0-1 hold (round 2 is far too long for a shallow budget)
                try:
                    v, _ = budget.limited(lambda it=it: next(it), EVENTS_SHALLOW)
                    items[k].append(v)
                except Exception as e:  # noqa: BLE001  (StopIteration, Starved, anything)
                    alive[k] = False
                    items[k].append(f"<{type(e).__name__}>")
        for k, ((fi, ti), model) in enumerate(grp):
            n_streams += 1
            inp = {"interleaved_with": [{"F": names(f), "T": names(t)} for (f, t), _ in grp], "stream": k, "F": names(fi), "T": names(ti), "per_stream_limit": lim}
            got = [x if isinstance(x, str) else S.show(lift.lift(x)) for x in items[k]]
            Fc, Tc = mk(fi), mk(ti)
            for pos, p in enumerate(items[k]):
                if isinstance(p, str):
                    continue
                bad_t = [POOL[i][0] for i, x in zip(ti, Tc) if call(p, x) is not True]
                bad_f = [POOL[i][0] for i, x in zip(fi, Fc) if call(p, x) is not False]
                chk.evaluations += len(Tc) + len(Fc)
                if bad_t or bad_f:
                    chk.add_failure(inp, {"what": "a predicate yielded while another construct() stream was being read does not separate", "position": pos, "predicate": repr(p), "not_true_on": bad_t, "not_false_on": bad_f}, None)
                    break
            if got != model[: len(got)]:
                dis.append({"input": inp, "model": model[:8], "implementation": got[:8], "what": "interleaved stream differs from the stream of the same pair read alone"})
    chk.add_corr("construct/interleaved-streams", n_streams, dis, note=f"groups of 2-4 generators advanced round-robin, {lim} yields each")
    stats["interleaved_streams"] = n_streams
    return dis


def changed_in_place(chk, rng, tier, pairs, answers, stats):
    """The caller keeps its two example lists, reads some predicates, adds an example IN PLACE, and calls construct() again with
    the same list objects: the second stream is the stream of the lists as they are now (judged on the real objects: every
    yielded predicate separates the CURRENT sets)."""
    n = 80 if tier == "quick" else 600
    cand = [(p, a) for p, a in zip(pairs, answers) if a and p[0] and p[1]]
    runs = 0
    for _ in range(n):
        if not cand:
            break
        (fi, ti), ans = rng.choice(cand)
        F, T = mk(fi), mk(ti)
        try:
            it, _ = budget.limited(lambda: construct(F, T), EVENTS_SHALLOW)
            first = []
            for _k in range(min(len(ans), rng.randint(1, 3))):
                v, _ = budget.limited(lambda: next(it), EVENTS_SHALLOW)
                first.append(v)
        except Exception:  # noqa: BLE001
            continue
        # an example that the predicates found so far get wrong: something they accept goes to the false list (or the reverse)
        extra = [i for i in range(len(POOL)) if i not in fi and i not in ti]
        rng.shuffle(extra)
        pick = None
        for i in extra:
            x = POOL[i][1]()
            acc = [call(q, x) for q in first]
            if any(a is True for a in acc):
                pick = (i, "false")
                break
            if any(a is False for a in acc):
                pick = (i, "true")
                break
        if pick is None:
            continue
        i, side = pick
        (F if side == "false" else T).append(POOL[i][1]())
        fi2, ti2 = (list(fi) + [i], list(ti)) if side == "false" else (list(fi), list(ti) + [i])
        runs += 1
        inp = {"history": f"construct(F, T) read {len(first)}; {'F' if side == 'false' else 'T'}.append({POOL[i][0]}) in place; construct(F, T) again with the same list objects",
               "F": names(fi), "T": names(ti), "added": POOL[i][0], "to": side}
        second = []
        try:
            it2, _ = budget.limited(lambda: construct(F, T), EVENTS_SHALLOW)
            for _k in range(3):
                v, _ = budget.limited(lambda: next(it2), EVENTS_SHALLOW)
                second.append(v)
        except Exception:  # noqa: BLE001  (StopIteration, Starved: fewer predicates is no failure of this clause)
            pass
        Fc, Tc = mk(fi2), mk(ti2)
        for pos, q in enumerate(second):
            bad_t = [POOL[j][0] for j, x in zip(ti2, Tc) if call(q, x) is not True]
            bad_f = [POOL[j][0] for j, x in zip(fi2, Fc) if call(q, x) is not False]
            chk.evaluations += len(Tc) + len(Fc)
            if bad_t or bad_f:
                chk.add_failure(inp, {"what": "a predicate yielded for lists that were changed in place since an earlier call does not separate them", "position": pos, "predicate": repr(q), "not_true_on": bad_t, "not_false_on": bad_f}, None)
                break
    stats["changed_in_place_histories"] = runs
    chk.extra["changed_in_place_histories"] = runs


def exotic_examples(chk, rng, tier, stats):
    """Example values outside the model's universe, chosen for their subclass and equality relations (a named tuple is a tuple, a
    datetime is a date, an IntEnum member is an int and equals it, True == 1 == 1.0, a str subclass, bytes, Fraction, Decimal, user
    classes with a subclass): oracle only -- whatever construct() yields within the shallow budget separates the two sets."""
    import collections
    import datetime as dtm
    import decimal
    import enum
    import fractions
    import time

    Point = collections.namedtuple("Point", "x y")

    class Colour(enum.IntEnum):
        RED = 1

    class Name(str):
        pass

    class A:
        pass

    class B(A):
        pass

    ex = [("(1, 2)", lambda: (1, 2)), ("()", lambda: ()), ("Point(1, 2)", lambda: Point(1, 2)), ("struct_time", lambda: time.gmtime(0)), ("b'x'", lambda: b"x"), ("b''", lambda: b""),
          ("date(2020,1,1)", lambda: dtm.date(2020, 1, 1)), ("datetime(2020,1,1)", lambda: dtm.datetime(2020, 1, 1)), ("Colour.RED", lambda: Colour.RED), ("Name('a')", lambda: Name("a")), ("'a'", lambda: "a"),
          ("Fraction(1, 2)", lambda: fractions.Fraction(1, 2)), ("Decimal('1')", lambda: decimal.Decimal("1")), ("1j", lambda: 1j), ("range(3)", lambda: range(3)), ("frozenset({1})", lambda: frozenset({1})),
          ("A()", A), ("B()", B), ("True", lambda: True), ("1", lambda: 1), ("1.0", lambda: 1.0), ("0", lambda: 0), ("False", lambda: False), ("0.0", lambda: 0.0), ("None", lambda: None), ("[]", lambda: []), ("[0]", lambda: [0])]
    n = 150 if tier == "quick" else 1500
    runs = judged = 0
    directed = [([2], [1]), ([3], [1]), ([7], [6]), ([9], [10]), ([17], [16]), ([18], [19]), ([19, 20], [18]), ([21, 22], [23]), ([0], [1]), ([4], [5]), ([18], [19, 20])]  # (F, T): subclass below base, equal across types
    for k in range(n):
        if k < 2 * len(directed):
            fi, ti = directed[k // 2]
            if k % 2:
                fi, ti = ti, fi
        else:
            fi = [rng.randrange(len(ex)) for _ in range(rng.randint(1, 2))]
            ti = [rng.randrange(len(ex)) for _ in range(rng.randint(1, 2))]
        F, T = [ex[i][1]() for i in fi], [ex[i][1]() for i in ti]
        items, status, _ = pull(F, T, 6, EVENTS_SHALLOW)
        runs += 1
        for pos, q in enumerate(items):
            bad_t = [ex[i][0] for i, x in zip(ti, T) if call(q, x) is not True]
            bad_f = [ex[i][0] for i, x in zip(fi, F) if call(q, x) is not False]
            judged += 1
            if bad_t or bad_f:
                chk.add_failure({"exotic": True, "F": "[" + ", ".join(ex[i][0] for i in fi) + "]", "T": "[" + ", ".join(ex[i][0] for i in ti) + "]", "position": pos},
                                {"what": "a yielded predicate does not separate the two example sets (values related by subclassing / equality across types)", "predicate": repr(q), "not_true_on": bad_t, "not_false_on": bad_f}, None)
                break
    # large example sets (33-70 examples on one side): whatever is yielded separates them, whatever the sizes
    big = [([5.5, "x"], list(range(1, 34))), (list(range(1, 41)), [5.5, 6.5]), (["s%d" % k for k in range(40)], list(range(40))), ([None], [k / 2 for k in range(1, 70)]),
           ([[k] for k in range(35)], [(k,) for k in range(3)] + list(range(33))), (list(range(33)) + ["x"], [True, False] * 17),
           # more than 64 / 100 / 128 examples of one type with mixed truthiness (a summary "one example per type" would lose it)
           ([None, ""], list(range(100)) + [1.5]), ([""] + ["s%d" % k for k in range(80)], [None]), ([0.0] + [k + 0.5 for k in range(130)], [[]]), ([[], [1]] * 40, [0, 1] * 70),
           # hundreds of examples with a single odd one out (a tolerance or a rounded score would pass it)
           ([None, None], list(range(249)) + ["spam"]), (list(range(1, 400)) + [0.5], ["a", "b"]), (["x"] * 300 + [""], [1.5] * 300 + [0.0])]
    for F, T in big:
        items, status, _ = pull(list(F), list(T), 10, EVENTS_SHALLOW * 20)
        runs += 1
        for pos, q in enumerate(items):
            bad_t = [repr(x) for x in T if call(q, x) is not True][:3]
            bad_f = [repr(x) for x in F if call(q, x) is not False][:3]
            judged += 1
            if bad_t or bad_f:
                chk.add_failure({"exotic": True, "F": f"{len(F)} examples starting {F[:2]!r}", "T": f"{len(T)} examples starting {T[:2]!r}", "position": pos},
                                {"what": "a yielded predicate does not separate two large example sets", "predicate": repr(q), "not_true_on": bad_t, "not_false_on": bad_f}, None)
                break
    chk.evaluations += judged
    stats["exotic_example_pairs"] = runs
    chk.extra["exotic_example_pairs"] = {"pairs": runs, "yields_judged": judged}


def corr_mutations(chk, rng, tier):
    """create_mutations vs `mutations`; gray_product vs `grayPairs`."""
    dis = []
    reqs, expect, meta = [], [], []
    # the initial list -> round 1
    r1, _ = budget.limited(lambda: list(create_mutations(list(initial_predicates()))), 1_000_000)
    reqs.append("round 1")
    expect.append(lift_all(r1))
    meta.append("round 1 = create_mutations(initial_predicates())")
    reqs.append("round 0")
    expect.append(lift_all(INIT))
    meta.append("round 0 = initial_predicates()")
    # random candidate lists over rounds 0/1 with ==-equal members (duplicates, mirrored operands)
    n_lists = 40 if tier == "quick" else 300
    for _ in range(n_lists):
        k = rng.randint(2, 6)
        cands = []
        for _ in range(k):
            c = rng.random()
            if cands and c < 0.2:
                cands.append(rng.choice(cands))  # the same object again
            elif cands and c < 0.4:
                q = rng.choice(cands)
                cands.append(type(q)(left=q.right, right=q.left) if hasattr(q, "left") else q)  # mirrored operands: == but not identical
            elif c < 0.7:
                cands.append(rng.choice(INIT))
            else:
                cands.append(rng.choice(r1))
        out, _ = budget.limited(lambda c=cands: list(create_mutations(c)), 1_000_000)
        reqs.append("mutations " + " ".join(lift_all(cands)))
        expect.append(lift_all(out))
        meta.append("create_mutations([" + ", ".join(map(repr, cands)) + "])")
    if tier == "thorough":
        r2, _ = budget.limited(lambda: list(create_mutations(r1)), 8_000_000)
        reqs.append("round 2")
        expect.append(lift_all(r2))
        meta.append("round 2 = create_mutations(round 1)")
    out = driver.run(reqs, **EXE)
    n_items = 0
    for o, e, m in zip(out, expect, meta):
        got = parse_answer(o)
        n_items += len(e)
        if got != e:
            first = next((i for i, (a, b) in enumerate(zip(got, e)) if a != b), min(len(got), len(e)))
            dis.append({"input": m[:300], "len_model": len(got), "len_implementation": len(e), "first_difference_at": first, "model": got[first : first + 3], "implementation": e[first : first + 3]})
    chk.add_corr("mutations", len(reqs), dis, note=f"{n_items} candidates compared in order")
    chk.evaluations += n_items
    chk.extra["mutation_candidates_compared"] = n_items
    # gray_product
    sizes = [(n, m) for n in range(2, 8) for m in range(2, 8)] + [(14, 14), (50, 50), (13, 40)]
    if tier == "thorough":
        sizes.append((364, 364))
    out = driver.run([f"gray {n} {m}" for n, m in sizes], **EXE)
    gdis = []
    for (n, m), o in zip(sizes, out):
        want, _ = budget.limited(lambda n=n, m=m: " ".join(f"{i}:{j}" for i, j in gray_product(range(n), range(m))), 5_000_000)
        if o != want:
            gdis.append({"input": f"gray_product(range({n}), range({m}))", "model": o[:80], "implementation": want[:80]})
    chk.add_corr("gray_product", len(sizes), gdis)
    return dis + gdis


def main(tier):
    chk = Check("C19", tier)
    chk.prove(checker=(tier == "thorough"), exes=("driver_construct",))
    rng = random.Random(chk.seed)
    limit = 50 if tier == "quick" else 400
    total = 600 if tier == "quick" else 5000
    pairs = sample_pairs(rng, total)
    stats = {"max_events": 0, "first_round_applicable": 0, "yields_compared": 0, "starved_empty": 0, "starved_explained_by_indistinguishable": 0}

    # ---- model answers for all pairs (two rounds deep), one driver run
    reqs = [f"construct 2 {limit} {show_vals(f)} {show_vals(t)}" for f, t in pairs]
    answers = [parse_answer(o) for o in driver.run(reqs, **EXE)]

    dis = []
    status_count = {}
    size_count = {}
    for (fi, ti), model in zip(pairs, answers):
        inp, items, status, problems, d = check_pair(chk, fi, ti, limit, 2, EVENTS_SHALLOW, model, stats)
        status_count[status.split(":")[0]] = status_count.get(status.split(":")[0], 0) + 1
        size_count[f"{len(fi)}x{len(ti)}"] = size_count.get(f"{len(fi)}x{len(ti)}", 0) + 1
        for what, detail in problems:
            chk.add_failure(inp, {"what": what, **detail}, None)
        if d:
            dis.append(d)
    chk.add_corr("construct/rounds-0-1", len(pairs), dis, note=f"first {limit} yields in order; shallow budget {EVENTS_SHALLOW} events per next")

    # ---- a few pairs three rounds deep
    n_deep = 2 if tier == "quick" else 10
    separable = [(p, a) for p, a in zip(pairs, answers) if 0 < len(a) < min(limit, 200)]
    rng.shuffle(separable)
    deep = [(p, len(a) + 25) for p, a in separable[:n_deep]]
    if tier == "thorough":
        # pairs that need round 2 for their first yield (model says so), if the sample has any
        cand = [p for p, a in zip(pairs, answers) if not a and (p[0] and p[1])][:200]
        if cand:
            probe = driver.run([f"construct 3 3 {show_vals(f)} {show_vals(t)}" for f, t in cand], **EXE)
            late = [p for p, o in zip(cand, probe) if parse_answer(o)]
            deep += [(p, 3) for p in late[:2]]
            chk.extra["pairs_first_separated_in_round_2"] = len(late)
    ddis = []
    if deep:
        danswers = [parse_answer(o) for o in driver.run([f"construct 3 {lim} {show_vals(f)} {show_vals(t)}" for (f, t), lim in deep], **EXE)]
        deep_status = {}
        for ((fi, ti), lim), model in zip(deep, danswers):
            inp, items, status, problems, d = check_pair(chk, fi, ti, lim, 3, EVENTS_DEEP, model, stats)
            deep_status[status.split(":")[0]] = deep_status.get(status.split(":")[0], 0) + 1
            for what, detail in problems:
                chk.add_failure(inp, {"what": what, **detail}, None)
            if d:
                ddis.append(d)
        chk.extra["deep_status"] = deep_status
    chk.add_corr("construct/round-2-prefix", len(deep), ddis, note=f"budget {EVENTS_DEEP} events per next")

    try:
        if create_mutations is None or initial_predicates is None:
            raise AttributeError("construct.py has no create_mutations / initial_predicates")
        mdis = corr_mutations(chk, rng, tier)
    except (AttributeError, TypeError, budget.Starved) as e:
        # the helper is gone or does not accept plain candidate lists any more: internal re-shaping, not judged
        mdis = []
        chk.extra["mutations_tie_skipped"] = f"{type(e).__name__}: {e}"[:300]
    idis = interleaved(chk, rng, tier, pairs, answers, limit, stats)
    changed_in_place(chk, rng, tier, pairs, answers, stats)
    exotic_examples(chk, rng, tier, stats)

    # (a disagreement between model and code is a broken correspondence: finish() reports it, with the first disagreements in the replay)

    chk.extra.update(
        pairs=len(pairs),
        limit=limit,
        pool=[n for n, _ in POOL],
        pairs_by_sizes=size_count,
        status_counts=status_count,
        yields_compared=stats["yields_compared"],
        first_round_clause_applicable=stats["first_round_applicable"],
        starved_with_no_yield=stats["starved_empty"],
        starved_explained_by_C19_indistinguishable=stats["starved_explained_by_indistinguishable"],
        max_events_per_next=stats["max_events"],
        max_events_per_successful_next_shallow=stats.get("max_events_shallow", 0),
        shallow_pulls_escalated=stats.get("escalated", 0),
        events_budget_shallow=EVENTS_SHALLOW,
        events_budget_deep=EVENTS_DEEP,
        deep_pairs=len(deep),
    )
    chk.rule = (
        "example lists of size 0-2 (ordered, repeats allowed) over a pool of %d mixed-type values (None, bools, ints, float, strs, lists, sets, dicts, "
        "datetime); all 256 pairs of lists of size <= 1 plus random pairs up to %d; for each pair the first %d yields of the real construct(F, T) "
        "(every next under a line-event budget) are lifted and compared in order with the model's stream two rounds deep (378 candidates), %d pairs three "
        "rounds deep; on the real code every yield is called on every example and the first-round clause is checked against the 14 initial tests evaluated "
        "independently.  non-trivial = distinct pairs with at least one example and at least one yield." % (len(POOL), len(pairs), limit, len(deep))
    )
    chk.samples = [f"construct({names(f)}, {names(t)}) -> {' '.join(a[:3])}{' ...' if len(a) > 3 else ''}  ({len(a)} yields in rounds 0-1)" for (f, t), a in list(zip(pairs, answers))[17:600:53]]
    chk.assumptions = [
        "example values are described to the model by type tag + payload (harness/props/c19.py lift_example); isinstance/truthiness of other values are not modelled",
        "Python == on predicates is M1 Pred.beq (tied by C06); OrPredicate/AndPredicate construction via | and & is plain node construction",
        "rounds >= 3 of the real generator are unreachable in practice (round 2 has 263 536 candidates, round 3 about 1.4e11); the theorems cover all rounds",
    ]
    return chk.finish()


def replay(path):
    d = json.load(open(path))
    print(json.dumps(d, indent=1))
    inp = d.get("input")
    if d.get("kind") != "failing-input" or not isinstance(inp, dict) or "F_idx" not in inp:
        from ..core import replay_by_rerun

        return replay_by_rerun(main, path)
    fi, ti, limit, depth = tuple(inp["F_idx"]), tuple(inp["T_idx"]), inp["limit"], inp["rounds"]
    chk = Check("C19", "replay")
    model = parse_answer(driver.run([f"construct {depth} {limit} {show_vals(fi)} {show_vals(ti)}"], **EXE)[0])
    stats = {"max_events": 0, "first_round_applicable": 0, "yields_compared": 0, "starved_empty": 0, "starved_explained_by_indistinguishable": 0}
    _, items, status, problems, dis = check_pair(chk, fi, ti, limit, depth, inp["events"], model, stats)
    print("yields:", lift_all(items)[:20], status)
    print("model :", model[:20])
    print("problems:", problems, dis)
    return 1 if (problems or dis) else 0
