"""C08  Every built-in atomic predicate computes the relation it is named after.

Three-way comparison on a grid of (constructor, parameters, input):
  * the library's predicate object (built with the exported constructor),
  * the Lean reference semantics `evalPy` (driver_pyval) -- outcome incl. exception class,
  * a plain-Python definition of the named relation written here (liftv.oracle) -- independent of both.
plus the complement / nesting laws checked directly on the real objects.
"""
import datetime
import decimal
import fractions
import ipaddress
import itertools
import json
import random
import uuid
from collections import Counter

from .. import driver, gencorr as G, liftv as L
from ..core import Check

EXE = dict(exe="driver_pyval", src="DriverPyVal.lean")


# ------------------------------------------------------------------ grids

def values(tier):
    nums = [-1, 0, 1, 2, 3, -0.5, 0.5, 1.5, 2.5, 0.0, 1.0, 2.0, True, False]
    strs = ["", "a", "b", "ab", "abc", "A", "Ab", "aB", "ABC", "foo", "foobar", "Foo Bar", "Foo bar", "123", "a1", "1x", " ", "\t\n", "_x", "a b",
            "\x7f", "~", "a_1", "A1b", "1", "fo"]
    lists = [[], [1], [1, 2], [2, 1], [1, "a"], [None], [[1]], [[]], [1.0, True], [0], ["a", "b"], [1, 2, 3], [(1, 2)], [{1}]]
    tuples = [(), (1,), (1, 2), (2, 1), (1, "a"), ("a", 1), (None,), ((1,),), (1.0, True), (1, 2, 3), ([1],), ("a",)]
    sets = [set(), {1}, {1, 2}, {2, 3}, {"a"}, {1, "a"}, {(1, 2)}, {None}, {1, 2, 3}, {0}, {1.5}]
    dicts = [{}, {"a": 1}, {1: "a"}, {"a": 1, "b": "x"}, {0: 5}, {(1, 2): 3}, {"a": [1]}, {True: 1}, {"b": 2}, {"a": None}, {"a": 1, "b": 2}]
    objs = [o for _, _, o in L.OBJS]
    vs = nums + [None] + strs + lists + tuples + sets + dicts + objs
    if tier == "thorough":
        elems = [0, 1, 2, True, 1.0, 0.5, "a", "", None, (1,), (), "ab"]
        for n in (2, 3):
            for c in itertools.product(elems[:7], repeat=n):
                vs.append(list(c))
                vs.append(tuple(c))
        for c in itertools.combinations(elems, 2):
            vs.append(set(c))
            vs.append({c[0]: c[1]})
            vs.append([list(c), c[0]])
        vs += [-2, 4, 5, -1.5, 3.5, 10, -10, "Z", "z", "aa", "ba", "B", "Title Case", "UPPER lower", "9", "0a", "\x1c", "x" * 5, "a\nb"]
    return vs


BOUNDS = [-1, 0, 1, 2, 0.5, 1.5]


def atoms(tier):
    A = []
    thorough = tier == "thorough"
    for h in ("tt", "ff", "none", "notnone", "truthy", "falsy", "empty", "notempty", "finite", "inf", "nan", "neg", "zero", "pos", "eq_true", "eq_false"):
        A.append((h,))
    eqv = BOUNDS + [True, False, 1.0, 0.0, None, "", "a", "ab", (), (1, 2), [], [1, 2], {1, 2}, set(), {}, {"a": 1}, [1.0, True], L.OBJS[0][2], L.OBJS[2][2]]
    for v in eqv:
        A.append(("eq", v))
        A.append(("ne", v))
    ordv = BOUNDS + [True, 1.0, "a", "ab", "", (1, 2), [1, 2], {1, 2}, None, [], (), set()]
    if thorough:
        ordv += [3, -0.5, 2.5, "b", "B", (1,), [1], {1}, {1, "a"}, [None], (1, "a"), {"a": 1}]
    for h in ("ge", "gt", "le", "lt"):
        for v in ordv:
            A.append((h, v))
    pairs = [(lo, hi) for lo in BOUNDS for hi in BOUNDS] if thorough else [(-1, 1), (0, 0), (0, 1), (0, 2), (1, 2), (2, 1), (0.5, 1.5), (0, 1.5), (0.5, 2), (1, 1), (-1, 0.5), (1.5, 1.5)]
    pairs += [("a", "b"), ("a", "a"), ("", "ab"), (1, "a"), ("a", 1), (None, 1), ((1,), (1, 2)), ([1], [2]), (True, 2.0), ({1}, {1, 2, 3})]
    for h in ("gele", "gelt", "gtle", "gtlt"):
        for lo, hi in pairs:
            A.append((h, lo, hi))
    members = [(), (1,), (1, 2), (True,), (1.0, "a"), (None,), ((1, 2),), ("", 0), ("a", "ab"), (0.5, 1.5, 2), (False, None, "")]
    if thorough:
        members += [(0,), (2, 1), (1, "1"), ((),), ((1,), 1), (1.5,), ("a",), (L.OBJS[0][2],), (-1, 0, 1, 2)]
    for m in members:
        A.append(("in", m))
        A.append(("notin", m))
    ssets = [set(), {1}, {1, 2}, {2, 3}, {1, "a"}, {(1, 2)}, {1.0, 2.0}, {True}]
    if thorough:
        ssets += [{1, 2, 3}, {"a"}, {None}, {0}, [1, 2], (1, 2), 1]
    for h in ("subset", "rsubset", "superset", "rsuperset"):
        for s in ssets:
            A.append((h, s))
    for k in L._INST_FIXED:
        A.append(("inst", k))
    for k in (("int", "str"), ("str", "int"), ("list", "tuple"), ("bool", "float"), ("nonetype",), ("object",), ("set", "dict", "str")):
        A.append(("inst", k))
    for k in ("a", "b", 1, True, 0, None, (1, 2), 1.0, [1], {1}, ""):
        A.append(("haskey", k))
    for n in (0, 1, 2, 3, 1.0, True, "1", None, -1):
        A.append(("haslen", n))
    for pat in ("", "a", "ab", "foo", "A", "a b", "fo", "1", "_x", "foobar", "b"):
        A.append(("regex", pat))
        A.append(("startswith", pat))
        A.append(("endswith", pat))
    for k in L.STR_TESTS:
        A.append(("strtest", k))
    inner = [("inst", ("int",)), ("inst", ("str",)), ("ge", 1), ("eq", 1), ("none",), ("truthy",), ("lt", 2), ("in", (1, "a")), ("strtest", "alpha")]
    if thorough:
        inner += [("inst", ("bool",)), ("ne", 1), ("empty",), ("haslen", 1), ("inst", ("tuple",)), ("gele", 0, 1), ("tupleof", (("inst", ("int",)),))]
    for p in inner:
        for h in ("setof", "listof", "iterof", "single_or_listof", "single_or_iterof", "all", "any"):
            A.append((h, p))
    A.append(("tupleof", ()))
    for p in inner:
        A.append(("tupleof", (p,)))
    for p, q in itertools.product(inner[:5] if not thorough else inner[:9], repeat=2):
        A.append(("tupleof", (p, q)))
    A.append(("tupleof", (inner[0], inner[1], inner[2])))
    A.append(("dictof", ()))
    for k, v in itertools.product(["a", ("inst", ("str",)), ("eq", 1), ("inst", ("int",)), ("truthy",)], inner[:5]):
        A.append(("dictof", ((k, v),)))
    for kv1, kv2 in itertools.product([("a", inner[0]), (("inst", ("str",)), inner[0]), (("inst", ("str",)), inner[1])], [("b", inner[1]), (("inst", ("int",)), inner[1]), ("a", inner[2]), (("truthy",), inner[3])]):
        A.append(("dictof", (kv1, kv2)))
    for f in ("len", "first", "ident", "values"):
        for p in (("eq", 1), ("ge", 1), ("inst", ("int",)), ("all", ("inst", ("int",)))):
            A.append(("comp", f, p))
    return A


HAS_NO_ORACLE = ("dictof",)


def sort_ok(spec, x):
    """Is `x` of the sort the plain-Python definition is stated for?  Only restricts where the obvious plain-Python
    expression is defined on *more* inputs than the predicate is meant for (`k in x` works on lists, slicing on tuples);
    everywhere else every input is compared, exceptions included."""
    h = spec[0]
    if h == "haskey":
        return isinstance(x, dict)
    if h in ("startswith", "endswith"):
        return isinstance(x, str)
    return True


def mentions(spec, heads):
    if spec[0] in heads:
        return True
    if spec[0] in ("tupleof",):
        return any(mentions(k, heads) for k in spec[1])
    if spec[0] in ("dictof",):
        return any((not isinstance(k, str) and mentions(k, heads)) or mentions(v, heads) for k, v in spec[1])
    if spec[0] in ("and", "or", "xor"):
        return mentions(spec[1], heads) or mentions(spec[2], heads)
    if spec[0] in ("not", "all", "any", "setof", "listof", "iterof", "single_or_listof", "single_or_iterof"):
        return mentions(spec[1], heads)
    if spec[0] == "comp":
        return mentions(spec[2], heads)
    return False


# ------------------------------------------------------------------ outside the model universe: oracle only

def extras():
    """(description, real predicate, plain-Python definition, inputs) for third-party semantics the model does not cover."""
    import re

    import predicate as P
    from predicate import ip_address_predicates as IP
    from predicate import str_predicates as SP

    out = []
    odd = [range(0), range(3), frozenset({1}), frozenset(), b"ab", b"", float("inf"), float("-inf"), float("nan"), -0.0, 10**20, 0.1, 1e-9, "é", "ß",
           "ǅ", "١٢", "²", "½", " ", "Αβ", "中", datetime.datetime(2021, 5, 6), datetime.datetime(2020, 1, 2, 3, 4, 5),
           uuid.UUID(int=7), fractions.Fraction(1, 2), decimal.Decimal("1.5"), complex(1, 0), complex(0, 0), bytearray(b"a")]
    for spec in atoms("quick"):
        if spec[0] in HAS_NO_ORACLE or mentions(spec, ("dictof",)):
            continue
        out.append(("odd:" + L.show(spec), spec, None, odd))
    for pat in ("^foo", "a+", "[0-9]+$", "(a|b)c", "fo*", ".", "\\d\\d", "^$", "a|", "(?i)foo", "\\s*x"):
        rx = re.compile(pat)
        out.append((f"regex_p({pat!r})", P.regex_p(pat), (lambda x, rx=rx: rx.match(x) is not None),
                    ["", "foo", "foobar", "afoo", "aaa", "12", "a12", "ac", "bc", "cc", "f", "FOO", "  x", "x", "\n", 1, None, b"foo"]))
    addrs4 = [ipaddress.IPv4Address(a) for a in ("10.0.0.1", "8.8.8.8", "127.0.0.1", "224.0.0.1", "169.254.1.1", "0.0.0.0", "240.0.0.1", "192.168.1.1", "100.64.0.1")]
    addrs6 = [ipaddress.IPv6Address(a) for a in ("::1", "::", "fe80::1", "ff02::1", "2001:4860:4860::8888", "fc00::1", "fec0::1", "2001:db8::1")]
    nets4 = [ipaddress.IPv4Network(a) for a in ("10.0.0.0/8", "8.8.8.0/24", "127.0.0.0/8", "224.0.0.0/4", "169.254.0.0/16", "0.0.0.0/32", "240.0.0.0/4")]
    nets6 = [ipaddress.IPv6Network(a) for a in ("::1/128", "::/128", "fe80::/10", "ff00::/8", "2001:4860::/32", "fc00::/7", "fec0::/10")]
    for name in dir(IP):
        obj = getattr(IP, name)
        if not name.startswith("is_ip") or not name.endswith("_p"):
            continue
        fam, kind, prop = name[3:7], name[8:name.index("_", 8)], name[name.index("_", 8) + 1:-2]
        pool = {("ipv4", "address"): addrs4, ("ipv6", "address"): addrs6, ("ipv4", "network"): nets4, ("ipv6", "network"): nets6}[(fam, kind)]
        out.append((name, obj, (lambda x, prop=prop: getattr(x, "is_" + prop)), pool + [None, 1, "10.0.0.1"]))
    n4 = ipaddress.IPv4Network("10.0.0.0/8")
    out.append(("subnet_of_p(10/8)", IP.subnet_of_p(n4), (lambda x: x.subnet_of(n4)), nets4))
    out.append(("supernet_of_p(10/8)", IP.supernet_of_p(n4), (lambda x: x.supernet_of(n4)), nets4 + [ipaddress.IPv4Network("10.1.0.0/16")]))
    uni = ["é", "ß", "ǅ", "١٢", "²", "½", " ", "Αβ", "中", "aé", "École", "ǅa", "x²"]
    for k, (p, m) in L.STR_TESTS.items():
        out.append((f"is_{k}_p (unicode)", p, m, uni))
    return out


# ------------------------------------------------------------------ main

def exact_universe(tier):
    """Atoms and inputs outside PyVal's universe: exact floats, big ints, datetimes, UUIDs (the universe of Model/GenVal.lean)."""
    import datetime as _dt
    import sys
    import uuid as _uuid

    d1, d2 = _dt.datetime(2020, 1, 2, 3, 4, 5), _dt.datetime(2020, 1, 2, 3, 4, 5, 1)
    u1, u2 = _uuid.UUID(int=5), _uuid.UUID(int=2**100)
    consts = [0.1, 1e-7, -2.5e-7, 2.0000000000000004, 2.0, 1e16, 2e6, 2**70, -(2**70), sys.maxsize + 1, 3, True, d1, d2, u1, u2, "foo", "10", None]
    specs = [("tt",), ("ff",), ("none",), ("notnone",), ("truthy",), ("falsy",), ("empty",)]
    for h in ("eq", "ne", "ge", "gt", "le", "lt"):
        specs += [(h, c) for c in consts]
    sets = [[0.1, 2**70, "foo"], [d1, u1], [1e-7], [], [True, 2.0], [2**70, float(2**70)]]
    for h in ("in", "notin", "subset", "rsubset"):
        specs += [(h, s_) for s_ in sets]
    specs += [("inst", (k,)) for k in ("bool", "int", "float", "str", "datetime", "uuid", "set", "dict", "list", "tuple")]
    specs += [("haskey", 0.1), ("haskey", d1), ("haskey", 2**70)]
    a, b = ("ge", 0.1), ("lt", 2**70)
    specs += [("and", a, b), ("or", ("inst", ("str",)), a), ("all", a), ("any", ("eq", d1)), ("setof", ("gt", 1e-7)), ("all", ("or", ("inst", ("uuid",)), ("le", d2)))]
    vals = [0.1, 0.30000000000000004, 0.1 + 0.2, 1e-7, -2.5e-7, 2.0, 2.0000000000000004, 1.9999999999999998, 1e16, 1e16 + 2, 2e6, 2**70, 2**70 + 1, float(2**70),
            -(2**70), sys.maxsize, sys.maxsize + 1, 3, 0, True, False, None, "foo", "10", "", d1, d2, d1 - _dt.timedelta(days=1), u1, u2,
            [], [0.1], [0.1, 2**70], (1e-7, 2.0), {0.1, 2**70}, {d1}, {u1, u2}, [d1, d2], {"a": 0.1}, {0.1: d1}, {2**70: 1}, [[0.1], [2**70]], [None, 0.1], ["foo", 0.1]]
    if tier == "quick":
        return specs, vals
    return specs + [("and", ("notnone",), (h, c)) for h in ("ge", "lt") for c in consts[:10]], vals + [[x, y] for x in vals[:12] for y in vals[10:16]]


def main(tier):
    chk = Check("C08", tier)
    chk.prove(modules=["PyPred.Props.C08", "PyPred.Lemmas.GenEmbed"], checker=(tier == "thorough"), exes=("driver_pyval", "driver_gen"))
    rng = random.Random(chk.seed)
    A = atoms(tier)
    V = values(tier)
    if tier == "quick":
        # per-seed variation: a few random extra inputs grown from the pool
        for _ in range(12):
            a, b = rng.choice(V[:60]), rng.choice(V[:60])
            V.append(rng.choice([[a, b], (a, b), [a], (b,)]) if L.in_universe(a) else [a])
    rec = L.Recorder()
    vw = [L.val(x) for x in V]
    reqs, real_out, meta = [], [], []
    oracle_cmp = 0
    kinds = Counter()
    outcomes = Counter()
    for spec in A:
        pw = L.sexp(spec)
        p = L.real(spec, rec)
        o = None if (spec[0] in HAS_NO_ORACLE or mentions(spec, ("dictof",))) else L.oracle(spec, rec)
        kinds[spec[0]] += 1
        varied = set()
        for x, xw in zip(V, vw):
            r = L.run(p, x)
            reqs.append(f"evalpy {pw} {xw}")
            real_out.append(L.outcome_wire(r))
            meta.append((spec, x))
            outcomes[L.outcome_wire(r)] += 1
            varied.add(r)
            if r == ("ok", True) or r[0] == "raised":
                chk.nontrivial.add((pw, xw))
            if o is not None and sort_ok(spec, x):
                e = L.run(o, x)
                oracle_cmp += 1
                if e != r:
                    chk.add_failure({"predicate": L.show(spec), "spec": repr(spec), "value": repr(x)},
                                    {"what": "the predicate differs from the plain-Python definition of the relation it is named after",
                                     "implementation": L.outcome_wire(r), "plain_python": L.outcome_wire(e)}, None)
    out = driver.run(reqs, **EXE)
    dis = [{"predicate": L.show(m[0]), "spec": repr(m[0]), "value": repr(m[1]), "model": a, "implementation": b} for a, b, m in zip(out, real_out, meta) if a != b]
    chk.add_corr("evalPy/atoms-x-inputs", len(reqs), dis)
    chk.evaluations += len(reqs)

    # ---- one-shot iterables: the atoms that only iterate their argument (has_length_p, the emptiness tests, all_p / any_p,
    # is_iterable_of_p) give on an iterator, a generator or a map object over xs the answer they give on the list xs
    # (which the stream above ties to the model); surplus / missing items, falsy items and None items included
    ITER_HEADS = ("haslen", "empty", "notempty", "all", "any", "iterof")
    seqs = [x for x in V if isinstance(x, (list, tuple)) and len(x) <= 4]
    seqs += [[0], [None], [1, 2, 0], [1, 0, 0], [0, 0], [None, 1], [1, None], [False, ""], [[], 1], ["", "a"], [1, 2, 3, 0], [0.0], [1, 2, None]]
    makers = (("iter", iter), ("generator", lambda xs: (e for e in xs)), ("map", lambda xs: map(lambda e: e, xs)))
    it_cases, it_bad = 0, 0
    for spec in A:
        if spec[0] not in ITER_HEADS:
            continue
        p = L.real(spec, rec)
        for xs in seqs:
            want = L.run(p, list(xs))
            for mname, mk in makers:
                got = L.run(p, mk(list(xs)))
                it_cases += 1
                if got != want:
                    it_bad += 1
                    chk.add_failure({"predicate": L.show(spec), "spec": repr(spec), "value": f"{mname} over {list(xs)!r}"},
                                    {"what": "on a one-shot iterable the predicate differs from its answer on the list of the same items",
                                     "on_iterable": L.outcome_wire(got), "on_list": L.outcome_wire(want)}, None)
    chk.evaluations += it_cases
    chk.extra["one_shot_iterable_cases"] = it_cases
    # ---- subclasses of the built-in containers: has_key_p on dict subclasses (Counter, defaultdict -- __missing__ never raises
    # KeyError -- OrderedDict), and the caller's mapping must be left as it was
    import collections

    import predicate as _P0

    sub_cases = 0
    for spec in A:
        if spec[0] != "haskey":
            continue
        p = L.real(spec, rec)
        k = spec[1]
        try:
            hash(k)
        except TypeError:
            continue
        for mk in (lambda: collections.Counter({"a": 1}), lambda: collections.defaultdict(int, {"a": 1}), lambda: collections.defaultdict(list), lambda: collections.OrderedDict([("b", 2), (1, 1)]),
                   lambda: collections.ChainMap({"a": 1}, {"b": 2}), lambda: type("D", (dict,), {"__missing__": lambda self, key: 0})({1: 1})):
            d = mk()
            before = dict(d)
            want = ("ok", k in d)
            got = L.run(p, d)
            sub_cases += 1
            if got != want or dict(d) != before:
                chk.add_failure({"predicate": L.show(spec), "spec": repr(spec), "value": f"{type(d).__name__}({before!r})"},
                                {"what": "has_key_p differs from `key in mapping` on a dict subclass (or changed the mapping)", "implementation": L.outcome_wire(got), "plain_python": L.outcome_wire(want), "mapping_after": repr(dict(d))}, None)
    # keys of every shape (dots, slashes, brackets, empty, blank, tuples, numbers equal across types, None) against dictionaries that hold
    # them literally, hold look-alikes (a nested path, a stripped / lower-cased variant) or hold nothing: `key in mapping`, nothing else
    odd_keys = ["a.b", ".", "v1.0", "a/b", "a[0]", "", " ", "a ", "A", "a", "0", 0, 0.0, False, 1, True, None, (1, 2), ("a", "b"), "a.b.c", "*", "a,b", b"a", frozenset({1})]
    odd_dicts = [lambda: {"a.b": 1}, lambda: {"a": {"b": 1}}, lambda: {"a": {"b": {"c": 1}}}, lambda: {".": 0}, lambda: {"": {"": 1}}, lambda: {"v1": {"0": 1}}, lambda: {"v1.0": None}, lambda: {"a/b": 1},
                 lambda: {"a": [1]}, lambda: {"a[0]": 1}, lambda: {"": 1}, lambda: {" ": 1}, lambda: {"a": 1}, lambda: {"A": 1}, lambda: {0: "x"}, lambda: {"0": "x"}, lambda: {1: "x"}, lambda: {None: 1},
                 lambda: {(1, 2): 1}, lambda: {1: {2: 1}}, lambda: {"a": 1, "b": 2}, lambda: {("a", "b"): 1}, lambda: {"*": 1}, lambda: {"a,b": 1}, lambda: {b"a": 1}, lambda: {frozenset({1}): 1}, lambda: {}]
    from predicate.standard_predicates import has_key_p as _has_key_p

    for k in odd_keys:
        p = _has_key_p(k)
        for mk in odd_dicts:
            d = mk()
            before = repr(d)
            want = ("ok", k in d)
            got = L.run(p, d)
            sub_cases += 1
            if got != want or repr(d) != before:
                chk.add_failure({"predicate": f"has_key_p({k!r})", "value": before},
                                {"what": "has_key_p differs from `key in mapping`", "implementation": L.outcome_wire(got), "plain_python": L.outcome_wire(want)}, None)
    chk.evaluations += sub_cases
    chk.extra["mapping_subclass_cases"] = sub_cases
    # ---- strings that are canonically equivalent but different (NFD / NFC, compatibility forms, case): the comparison and
    # membership atoms agree with Python's operators, which tell them apart (the model's string tests are ASCII: oracle only)
    uni = ["cafe\u0301", "caf\u00e9", "CAFE\u0301", "\u212b", "\u00c5", "A\u030a", "\ufb01", "fi", "\uff21", "A", "stra\u00dfe", "STRASSE", "strasse"]
    uni_cases = 0
    import operator as _op

    for c in uni:
        for mk, fn in ((_P0.eq_p, _op.eq), (_P0.ne_p, _op.ne), (_P0.ge_p, _op.ge), (_P0.gt_p, _op.gt), (_P0.le_p, _op.le), (_P0.lt_p, _op.lt)):
            p_ = mk(c)
            for x in uni:
                uni_cases += 1
                got, want = L.run(p_, x), ("ok", fn(x, c))
                if got != want:
                    chk.add_failure({"predicate": repr(p_), "value": ascii(x)}, {"what": "differs from Python's operator on canonically equivalent / case-variant strings", "implementation": L.outcome_wire(got), "plain_python": L.outcome_wire(want)}, None)
        for p_, want_fn in ((_P0.in_p(c, "a"), lambda x, c=c: x in {c, "a"}), (_P0.not_in_p(c, "a"), lambda x, c=c: x not in {c, "a"})):
            for x in uni:
                uni_cases += 1
                got, want = L.run(p_, x), ("ok", want_fn(x))
                if got != want:
                    chk.add_failure({"predicate": repr(p_), "value": ascii(x)}, {"what": "differs from set membership on canonically equivalent / case-variant strings", "implementation": L.outcome_wire(got), "plain_python": L.outcome_wire(want)}, None)
    chk.evaluations += uni_cases
    chk.extra["unicode_equivalence_cases"] = uni_cases
    # ---- regex_p: one pattern text with different flags, built one after the other in this process: each predicate answers like
    # re.match with ITS flags (a compiled-pattern cache keyed on the text alone would hand the first one's regex to the others)
    import re as _re2

    from predicate.regex_predicate import RegexPredicate as _Rx2

    rx_cases = 0
    for pat, probes in (("ab+c", ["abc", "ABC", "abbc", "xabc", ""]), ("^\\w+$", ["abc", "caf\u00e9", "a b", "ABC"]), ("x.y", ["x\ny", "xay", "XAY"]), ("^b", ["a\nb", "b", "B"])):
        built = [(fl, _Rx2(pat, fl)) for fl in (_re2.IGNORECASE, 0, _re2.ASCII, _re2.DOTALL, _re2.MULTILINE, _re2.IGNORECASE | _re2.ASCII)]
        built.append((0, _P0.regex_p(pat)))
        for fl, p_ in built:
            for x in probes:
                rx_cases += 1
                got, want = L.run(p_, x), ("ok", _re2.match(pat, x, fl) is not None)
                if got != want:
                    chk.add_failure({"predicate": f"RegexPredicate({pat!r}, flags={int(fl)})", "value": ascii(x)},
                                    {"what": "regex_p differs from re.match with the predicate's own pattern and flags (several predicates over one pattern text were built before)",
                                     "implementation": L.outcome_wire(got), "plain_python": L.outcome_wire(want)}, None)
    chk.evaluations += rx_cases
    chk.extra["regex_flag_cases"] = rx_cases
    # ---- the input IS the constant (the very object) and is not equal to itself (NaN; an object whose __eq__ says no): the comparison
    # atoms agree with Python's operators, which do not short-cut on identity; membership agrees with `in`, which does
    class _Never:
        def __eq__(self, other):
            return False

        __hash__ = object.__hash__

        def __repr__(self):
            return "<object unequal to itself>"

    same_cases = 0
    for c in (float("nan"), _Never()):
        table = [("eq_p(c)", lambda: _P0.eq_p(c), lambda x: x == c), ("ne_p(c)", lambda: _P0.ne_p(c), lambda x: x != c), ("in_p(c)", lambda: _P0.in_p(c), lambda x: x in {c}),
                 ("not_in_p(c)", lambda: _P0.not_in_p(c), lambda x: x not in {c}), ("in_p(c, 1)", lambda: _P0.in_p(c, 1), lambda x: x in {c, 1})]
        if isinstance(c, float):
            table += [("ge_p(c)", lambda: _P0.ge_p(c), lambda x: x >= c), ("le_p(c)", lambda: _P0.le_p(c), lambda x: x <= c), ("gt_p(c)", lambda: _P0.gt_p(c), lambda x: x > c),
                      ("ge_le_p(c, c)", lambda: _P0.ge_le_p(c, c), lambda x: c <= x <= c)]
        for d_, mk_, py_ in table:
            for xd, x in (("the constant itself", c), ("1", 1)):
                same_cases += 1
                got, want = L.run(mk_(), x), ("ok", bool(py_(x)))
                if got != want:
                    chk.add_failure({"predicate": f"{d_} with c = {c!r}", "value": xd},
                                    {"what": "a comparison atom differs from the plain Python operator when the input is the very object of the constant and that object is not equal to itself",
                                     "implementation": L.outcome_wire(got), "plain_python": L.outcome_wire(want)}, None)
    chk.evaluations += same_cases
    chk.extra["input_is_the_constant_cases"] = same_cases
    # ---- the type tests agree with isinstance on EVERY input and at EVERY moment: values whose __class__ is not their type
    # (mock objects with a spec, weak proxies), and a class registered as a virtual subclass between two evaluations
    import collections.abc as _abc
    import unittest.mock as _mock
    import weakref as _weakref

    import predicate as _P

    class _Bag:  # not iterable, not registered anywhere yet
        pass

    class _Plain:
        pass

    keep = _Plain()
    corner = [_mock.Mock(spec=dict), _mock.MagicMock(spec=list), _mock.Mock(spec=str), _weakref.proxy(keep), _Bag()]
    tests = [("is_dict_p", _P.is_dict_p, dict), ("is_list_p", _P.is_list_p, list), ("is_str_p", _P.is_str_p, str), ("is_iterable_p", _P.is_iterable_p, _abc.Iterable),
             ("is_container_p", _P.is_container_p, _abc.Container), ("is_hashable_p", _P.is_hashable_p, _abc.Hashable), ("is_callable_p", _P.is_callable_p, _abc.Callable),
             ("is_instance_p(dict, list)", _P.is_instance_p(dict, list), (dict, list))]
    inst_cases = 0

    def _inst_round(label):
        nonlocal inst_cases
        for tname, tp, klass in tests:
            for x in corner:
                inst_cases += 1
                got, want = L.run(tp, x), ("ok", isinstance(x, tp.klass))  # the predicate's own class tuple (is_hashable_p holds typing.Hashable)
                if got != want:
                    chk.add_failure({"predicate": tname, "value": f"{type(x).__name__} object ({label})"},
                                    {"what": "a type test differs from isinstance", "implementation": L.outcome_wire(got), "plain_python": L.outcome_wire(want)}, None)

    for tname, tp, klass in tests:  # the exported tests hold the classes their names say
        ks = tp.klass if isinstance(tp.klass, tuple) else (tp.klass,)
        want_ks = klass if isinstance(klass, tuple) else (klass,)
        if [getattr(k, "__name__", str(k)) for k in ks] != [getattr(k, "__name__", str(k)) for k in want_ks]:
            chk.add_failure({"predicate": tname}, {"what": "the exported type test does not hold the class it is named after", "klass": repr(tp.klass)}, None)
    _inst_round("first evaluation")
    _abc.Iterable.register(_Bag)  # from now on isinstance(_Bag(), Iterable) is True
    _abc.Container.register(_Bag)
    _inst_round("after Iterable.register / Container.register of its class")
    chk.evaluations += inst_cases
    chk.extra["isinstance_corner_cases"] = inst_cases

    # PropertyPredicate: the wrapper calls the getter once with the object and returns its answer (model: an instrumented leaf)
    preqs, pexp = [], []
    for i, (dflt, cases) in enumerate([(True, {}), (False, {L.val(1): True}), (False, {L.val("a"): ("raise", AttributeError), L.val(None): True})]):
        r2 = L.Recorder({0: (dflt, cases)})
        pp = L.real(("prop", 0), r2)
        for x in (0, 1, "a", None, [1]):
            r2.log.clear()
            r = L.run(pp, x)
            preqs.append(f"evt {r2.wire()} (probe 0) {L.val(x)}")
            pexp.append(L.outcome_wire(r) + " ; " + " ".join(f"({i_} {k})" for i_, k in r2.log))
    pout = driver.run(preqs, **EXE)
    # ---- the exact universe (floats off the 1/2-grid, big ints, datetimes, UUIDs): the generator-side evaluator evalG
    # (Model/GenVal.lean; proved to agree with atomSem / evalPy on the common universe: Lemmas/GenEmbed.lean) vs the real atoms
    x_specs, x_vals = exact_universe(tier)
    xreq, xexp, xmeta = [], [], []
    for sp in x_specs:
        pr = G.build(sp)
        sxp = G.sexp(sp, pr)
        for x in x_vals:
            try:
                vx = G.canon(G.lift_val(x))
            except G.NotInUniverse:
                continue
            xreq.append((sxp, vx))
            xexp.append(G.call(pr, x))
            xmeta.append((G.show_spec(sp), repr(x)))
    xout = G.eval_model(xreq)
    xdis = []
    for (ds, dx), o, e in zip(xmeta, xout, xexp):
        mo = G.model_outcome(o)
        if mo != e:
            xdis.append({"predicate": ds, "value": dx, "model": o, "implementation": str(e)})
        if e is True or (isinstance(e, str) and e.startswith("raised")):
            chk.nontrivial.add(("exact", ds, dx))
    chk.add_corr("evalG/exact-universe", len(xreq), xdis, note="off-grid floats, ints beyond 2^63, datetimes, UUIDs, containers of them; driver_gen eval")
    chk.evaluations += len(xreq)
    chk.add_corr("evalE/property-wrapper", len(preqs), [{"request": q, "model": a, "implementation": b} for q, a, b in zip(preqs, pout, pexp) if a.strip() != b.strip()])
    chk.evaluations += len(preqs)

    # third-party semantics: implementation vs plain Python only
    ex_n = 0
    for desc, p, o, xs in extras():
        if o is None:  # a spec from the grid on inputs outside the model universe
            spec = p
            p, o = L.real(spec, rec), L.oracle(spec, rec)
        else:
            spec = None
        for x in xs:
            if spec is not None and not sort_ok(spec, x):
                continue
            r, e = L.run(p, x), L.run(o, x)
            ex_n += 1
            if r != e:
                chk.add_failure({"predicate": desc, "value": repr(x)}, {"what": "differs from the plain-Python definition (outside the model universe)",
                                                                        "implementation": L.outcome_wire(r), "plain_python": L.outcome_wire(e)}, None)
    chk.evaluations += ex_n + oracle_cmp

    # opposites and nesting, directly on the real objects
    laws = 0
    import predicate as P
    from predicate.predicate import is_not_empty_p

    def both(p, q, x):
        return L.run(p, x), L.run(q, x)

    for x in V:
        for v in BOUNDS + [True, None, "a", (1, 2), [1], {1}]:
            a, b = both(P.eq_p(v), P.ne_p(v), x)
            laws += 1
            if not (a[0] == b[0] == "ok" and a[1] != b[1]):
                chk.add_failure({"law": "eq/ne complementary", "v": repr(v), "value": repr(x)}, {"eq": a, "ne": b}, None)
        for m in ((), (1,), (1, "a"), (None, (1, 2))):
            a, b = both(P.in_p(*m), P.not_in_p(*m), x)
            laws += 1
            if not ((a[0] == b[0] == "ok" and a[1] != b[1]) or (a == b and a[0] == "raised")):
                chk.add_failure({"law": "in/not_in complementary", "set": repr(m), "value": repr(x)}, {"in": a, "not_in": b}, None)
        for p, q, nm in ((P.is_none_p, P.is_not_none_p, "none/not_none"), (P.is_truthy_p, P.is_falsy_p, "truthy/falsy"), (P.is_empty_p, is_not_empty_p, "empty/not_empty")):
            a, b = both(p, q, x)
            laws += 1
            if not ((a[0] == b[0] == "ok" and a[1] != b[1]) or (a == b and a[0] == "raised")):
                chk.add_failure({"law": nm + " complementary", "value": repr(x)}, {"left": a, "right": b}, None)
        if isinstance(x, set):
            for s in (set(), {1}, {1, 2}, {2, 3}, {1, "a"}, {(1, 2)}, {None}, {1, 2, 3}):
                for sub, rsub, nm in ((P.is_subset_p, P.is_real_subset_p, "subset"), (P.is_superset_p, P.is_real_superset_p, "superset")):
                    a, b = both(sub(s), rsub(s), x)
                    laws += 1
                    ok = a[0] == b[0] == "ok" and (not b[1] or a[1]) and ((a[1] and not b[1]) == (x == s))
                    if not ok:
                        chk.add_failure({"law": f"real-{nm} nested in {nm}, differing exactly at equality", "set": repr(s), "value": repr(x)}, {nm: a, "real": b}, None)
    chk.evaluations += laws

    chk.extra["atoms"] = len(A)
    chk.extra["inputs"] = len(V)
    chk.extra["atom_kinds"] = dict(kinds)
    chk.extra["outcome_histogram"] = dict(outcomes)
    chk.extra["plain_python_comparisons"] = oracle_cmp
    chk.extra["outside_model_universe_comparisons"] = ex_n
    chk.extra["opposite_and_nesting_law_instances"] = laws
    chk.extra["not_modelled"] = "ipaddress properties, Unicode classification, non-literal regular expressions, datetime/UUID/complex/range/frozenset/bytes/inf/nan inputs: implementation vs plain Python only"
    chk.rule = (
        "%d atoms = every exported atom constructor (eq/ne/ge/gt/le/lt, 4 ranges, in/not_in, subset family, none/empty/truthy tests, all is_*_p and is_instance_p tuples, "
        "has_key_p, has_length_p, literal regex_p, 12 str tests, starts/ends_with, is_finite/inf/nan, neg/zero/pos, eq_true/false, tuple/set/list/iterable/single_or 'of' forms, "
        "dict_of, all/any, comp_p with len/first/ident/values) x parameter grid (bounds -1,0,1,2,.5,1.5, True/1.0, str, None, tuples, lists, sets, dicts, opaque objects) "
        "x %d inputs (numbers of the three numeric types at and around the bounds, None, 26 strings of several character classes, empty/singleton/nested lists, tuples, "
        "sets, dicts, opaque objects).  Each pair: implementation outcome (bool or exception class) == Lean evalPy outcome, and == plain-Python definition. "
        "non-trivial = distinct pairs whose outcome is True or an exception." % (len(A), len(V))
    )
    idx = [7, len(reqs) // 3, len(reqs) // 2, 2 * len(reqs) // 3, len(reqs) - 5]
    chk.samples = [f"{reqs[k]}  ->  {out[k]}" for k in idx]
    chk.assumptions = [
        "inputs are finite, re-iterable built-in values; floats are multiples of 1/2; strings in the model comparison are ASCII; regex patterns in the model comparison are literals",
        "the laws proved in Lean are laws of the reference semantics evalPy; their force for the classes is this correspondence",
    ]
    return chk.finish()


def replay(path):
    d = json.load(open(path))
    print(json.dumps(d, indent=1))
    inp = d.get("input") or {}
    if "spec" in inp and "value" in inp and " over " in inp["value"] and inp["value"].split(" over ")[0] in ("iter", "generator", "map"):
        ns = {"set": set, "True": True, "False": False, "None": None}
        kind, lst = inp["value"].split(" over ", 1)
        spec, xs = eval(inp["spec"], ns), eval(lst, ns)  # noqa: S307
        mk = {"iter": iter, "generator": lambda v: (e for e in v), "map": lambda v: map(lambda e: e, v)}[kind]
        p = L.real(spec, L.Recorder())
        got, want = L.run(p, mk(list(xs))), L.run(p, list(xs))
        print("on the iterable:", got, " on the list:", want)
        return 1 if got != want else 0
    if "spec" in inp and "value" in inp:
        ns = {"set": set, "True": True, "False": False, "None": None}
        try:
            spec, x = eval(inp["spec"], ns), eval(inp["value"], ns)  # noqa: S307
        except Exception as e:  # noqa: BLE001
            print("cannot rebuild the input:", e)
            return 1
        rec = L.Recorder()
        r, e = L.run(L.real(spec, rec), x), L.run(L.oracle(spec, rec), x)
        print("implementation:", r, " plain python:", e)
        return 1 if r != e else 0
    return 1
