"""C16  Self-referential predicates denote their own recursive definition in any scope.

Lean side: lean/PyPred/Model/Scope.lean (M7), lean/PyPred/Props/C16.lean, driver `driver_scope`.

Correspondence: this module *generates Python source* for scope configurations, executes it
against the real library in fresh module namespaces, and compares every answer
(True / False / exception type) with the model's answer for the same configuration:

* where the definitions live: module level, function level (called from module level, with
  sibling definitions in the enclosing module scope), or another module (`from A import P`,
  `from A import *`, `import A`, or bound only after the first calls);
* 0-3 sibling bindings before / after each definition: plain predicates, other recursive
  predicates (this_p-, root_p-, lazy_p-based), wrappers of earlier ones (share the node), the
  factories under another name, `is_list_p & this_p`, non-predicates;
* the call site 0-3 frames below, reached through closures, through positional arguments (P is
  rebound under another name), or through a dict (P invisible in that frame), each frame with
  0-1 predicates of its own;
* calls before descending / after returning at every depth, in shuffled order, on nested values.

The frames handed to the model are *predicted* from the configuration (module namespace in
insertion order; function frame in the order of the compiled code object's co_varnames +
co_cellvars + co_freevars) and compared with the frames observed at the call sites in a second,
instrumented execution (`layout` correspondence) -- that mapping is the modelled, trusted part.

Search on the real code: P(x) == spec(x) (plain recursive Python) for every recursive definition
that is in the property's quantifier (visible from the call site, no *related* binding in scope);
ValueError where the definition is not visible; is_json_p from several kinds of caller.
"""
import json
import os
import random
import sys
import types

from .. import driver
from ..core import Check, HarnessError, open_findings

EXE = dict(exe="driver_scope", src="DriverScope.lean")

# ------------------------------------------------------------------ library names

LIB_PRED = {
    "is_str_p": "(base 0)",
    "is_int_p": "(base 1)",
    "is_float_p": "(base 2)",
    "is_none_p": "(base 3)",
    "is_list_p": "(isseq 0)",
    "is_tuple_p": "(isseq 1)",
    "is_dict_p": "isdict",
    "this_p": "(factory this)",
    "root_p": "(factory root)",
}
LIB_FUNC = ["is_list_of_p", "all_p", "comp_p", "lazy_p"]
SELF_PRED_SRC = '__import__("predicate").is_none_p'  # default of a `self` parameter: a predicate object, no new name bound anywhere
BASES = ["is_str_p", "is_int_p", "is_str_p", "is_int_p", "is_float_p", "is_none_p"]


def lib_objects():
    import predicate

    return {n: getattr(predicate, n) for n in list(LIB_PRED) + LIB_FUNC}


# ------------------------------------------------------------------ symbolic predicate expressions


def txt(a, q, acc=None):
    """Python source of an expression; q is '' (from-import style) or 'pp.' (qualified); acc maps the
    name of an earlier binding to the expression that reaches it from the frame the text is for."""
    k = a[0]
    if k == "lib":
        return q + a[1]
    if k == "or":
        return f"({txt(a[1], q, acc)} | {txt(a[2], q, acc)})"
    if k == "and":
        return f"({txt(a[1], q, acc)} & {txt(a[2], q, acc)})"
    if k == "all":
        return f"{q}all_p({txt(a[1], q, acc)})"
    if k == "listof":
        return f"{q}is_list_of_p({txt(a[1], q, acc)})"
    if k == "compvalues":
        return f"{q}comp_p(lambda x: x.values(), {txt(a[1], q, acc)})"
    if k == "aliasnode":  # a factory bound to a name, used where factories are resolved: a fresh node object
        return (acc or {}).get(a[3], a[3])
    if k in ("this", "root"):  # resolved by `|`, all_p, is_list_of_p: a fresh node object
        return f"{q}{k}_p"
    if k == "fac":  # stays the factory object (operand of `&`, or bound directly)
        return f"{q}{a[1]}_p"
    if k == "lazy":
        return f'{q}lazy_p("{a[2]}")'
    if k == "name":
        return (acc or {}).get(a[2], a[2])
    if k == "other":
        return repr(a[1])
    raise ValueError(a)


def sx(a):
    k = a[0]
    if k == "lib":
        return LIB_PRED[a[1]]
    if k in ("or", "and"):
        return f"({k} {sx(a[1])} {sx(a[2])})"
    if k == "all":
        return f"(all {sx(a[1])})"
    if k == "listof":
        return f"(and (isseq 0) (all {sx(a[1])}))"
    if k == "compvalues":
        return f"(comp 0 {sx(a[1])})"
    if k in ("this", "root"):
        return f"(ref {k} {a[1]})"
    if k == "aliasnode":
        return f"(ref {a[1]} {a[2]})"
    if k == "fac":
        return f"(factory {a[1]})"
    if k == "lazy":
        return f"(lazy {a[1]} {a[2]})"
    if k == "name":
        return f"(v {a[1]})"
    raise ValueError(a)


def node_ids(a, table):
    """ids of the reference nodes in the (expanded) tree"""
    k = a[0]
    if k in ("this", "root", "lazy"):
        return {a[1]}
    if k == "aliasnode":
        return {a[2]}
    if k == "name":
        return set(table[a[1]]["nodes"])
    out = set()
    for c in a[1:]:
        if isinstance(c, tuple):
            out |= node_ids(c, table)
    return out


class Unresolved(Exception):
    pass


def intended(a, x, owner, table, lib, visible=True, reached=None):
    """The meaning the property gives to a definition: every reference node inside the definition
    `owner` denotes `owner` itself (plain recursion); with visible=False a reference that is
    reached raises (the definition cannot be found from the call site)."""
    k = a[0]
    if k == "lib":
        return bool(lib[a[1]](x))
    if k == "or":
        return intended(a[1], x, owner, table, lib, visible, reached) or intended(a[2], x, owner, table, lib, visible, reached)
    if k == "and":
        return intended(a[1], x, owner, table, lib, visible, reached) and intended(a[2], x, owner, table, lib, visible, reached)
    if k == "listof":
        return isinstance(x, list) and all(intended(a[1], e, owner, table, lib, visible, reached) for e in x)
    if k in ("this", "root", "lazy"):
        if not visible:
            raise Unresolved()
        if reached is not None:
            reached.append(a[1])
        return intended(owner, x, owner, table, lib, visible, reached)
    raise ValueError(a)


# ------------------------------------------------------------------ values

ATOMS = [("a", "(a 0)"), (1, "(a 1)"), (1.5, "(a 2)"), (None, "(a 3)"), (True, "(a 4)"), (3j, "(a 5)")]


def nested_lists(atoms, depth, width):
    """all lists of nesting depth <= depth with <= width members over the atoms, as (object, sexpr)"""
    level = []  # lists of depth <= d
    for _ in range(depth):
        members = list(atoms) + level
        new = [([], "(s 0)")]
        for w in range(1, width + 1):
            idx = [0] * w
            while True:
                new.append(([members[i][0] for i in idx], "(s 0 " + " ".join(members[i][1] for i in idx) + ")"))
                j = w - 1
                while j >= 0:
                    idx[j] += 1
                    if idx[j] < len(members):
                        break
                    idx[j] = 0
                    j -= 1
                if j < 0:
                    break
        level = new
    return level


def random_value(rng, depth):
    """random nested value over all atoms, lists, tuples, dicts"""
    r = rng.random()
    if depth == 0 or r < 0.3:
        return ATOMS[rng.randrange(len(ATOMS))]
    n = rng.choice([0, 1, 1, 2, 2, 3])
    kids = [random_value(rng, depth - 1) for _ in range(n)]
    if r < 0.7:
        return [k[0] for k in kids], "(s 0" + "".join(" " + k[1] for k in kids) + ")"
    if r < 0.8:
        return tuple(k[0] for k in kids), "(s 1" + "".join(" " + k[1] for k in kids) + ")"
    keys = rng.sample([("a", 0), ("b", 0), ("c", 0), (1, 1), (None, 3)], n) if rng.random() < 0.35 else [("a", 0), ("b", 0), ("c", 0)][:n]
    return {k[0]: v[0] for k, v in zip(keys, kids)}, "(d (" + " ".join(str(k[1]) for k in keys) + ")" + "".join(" " + v[1] for v in kids) + ")"


_POOLS = {}


def value_pools():
    if not _POOLS:
        two = ATOMS[:2]
        _POOLS["d2"] = two + nested_lists(two, 2, 2)
        _POOLS["d3"] = nested_lists(two, 3, 2)
    return _POOLS


def sample_values(rng, n):
    p = value_pools()
    out = []
    for _ in range(n):
        r = rng.random()
        if r < 0.45:
            out.append(p["d2"][rng.randrange(len(p["d2"]))])
        elif r < 0.75:
            out.append(p["d3"][rng.randrange(len(p["d3"]))])
        else:
            out.append(random_value(rng, 3))
    return out


# ------------------------------------------------------------------ configurations


class Ids:
    def __init__(self):
        self.node = 0
        self.uid = 0

    def new_node(self):
        self.node += 1
        return self.node

    def new_uid(self):
        self.uid += 1
        return f"d{self.uid}"


def wrap_ast(rng, ids, e, base):
    """a predicate built from the earlier binding e (shares e's nodes; a factory alias is resolved to
    a fresh node by `|` and is_list_of_p, and stays the factory under `&`)"""
    ref = ("name", e["uid"], e["name"])
    form = rng.choice(["orl", "orr", "and", "listof"])
    if e["kind"] == "facalias" and form != "and":
        ref = ("aliasnode", e["ast"][1], ids.new_node(), e["name"])
    return {"orl": ("or", ref, base), "orr": ("or", base, ref), "and": ("and", ref, base), "listof": ("listof", ref)}[form]


def names_in(a):
    if a[0] == "name":
        return {a[2]}
    if a[0] == "aliasnode":
        return {a[3]}
    out = set()
    for c in a[1:]:
        if isinstance(c, tuple):
            out |= names_in(c)
    return out


def make_def(rng, ids, name, earlier, table, force=None):
    """one binding `name = <expr>`; `earlier` = defs of the same frame that may be referred to by name"""
    kinds = ["this", "root", "lazy", "plain", "plain", "wrap", "facalias", "andfac", "other", "lazyfwd"]
    kind = force or rng.choice(kinds)
    if kind == "wrap" and not [d for d in earlier if d["pred"]]:
        kind = "plain"
    base = ("lib", rng.choice(BASES))
    if rng.random() < 0.25:
        base = ("or", base, ("lib", rng.choice(BASES)))
    d = {"name": name, "uid": ids.new_uid(), "kind": kind, "pred": True, "target": False}
    if kind in ("this", "root", "lazy"):
        nid = ids.new_node()
        node = ("lazy", nid, name) if kind == "lazy" else (kind, nid)
        shape = rng.random()
        if shape < 0.7:
            a = ("or", base, ("listof", node))
        elif shape < 0.85:
            a = ("or", ("listof", node), base)
        else:
            a = ("or", base, ("listof", ("or", node, ("lib", rng.choice(BASES)))))
        d.update(ast=a, target=True, node=nid, flavour=kind)
    elif kind == "plain":
        a = rng.choice([base, ("and", base, ("lib", rng.choice(BASES))), ("listof", base), ("or", ("lib", "is_list_p"), base)])
        d.update(ast=a)
    elif kind == "wrap":
        e = rng.choice([x for x in earlier if x["pred"]])
        d.update(ast=wrap_ast(rng, ids, e, base), wraps=e["name"])
    elif kind == "facalias":
        d.update(ast=("fac", rng.choice(["this", "root"])))
    elif kind == "andfac":
        d.update(ast=("and", ("lib", "is_list_p"), ("fac", rng.choice(["this", "root"]))))
    elif kind == "other":
        d.update(ast=("other", rng.choice([5, 0, None, "s"])), pred=False)
    elif kind == "wrapS":  # placeholder, completed by gen_config (wrapper of a scope-level predicate)
        d.update(ast=("lib", "is_none_p"))
    elif kind == "lazyfwd":  # refers to another name of the scope (possibly bound later, possibly never)
        nid = ids.new_node()
        other = rng.choice([x["name"] for x in earlier] + ["S9", name + "x"])
        d.update(ast=("or", base, ("listof", ("lazy", nid, other))))
    d["nodes"] = sorted(node_ids(d["ast"], table)) if d["pred"] else []
    table[d["uid"]] = d
    return d


def make_defs(rng, ids, table, prefix, n_before, n_after, main):
    """sibling bindings before, the main definition, sibling bindings after"""
    defs = []
    for i in range(n_before):
        defs.append(make_def(rng, ids, f"{prefix}{len(defs)}", defs, table))
    if main:
        defs.append(make_def(rng, ids, f"{prefix}{len(defs)}", defs, table, force=main))
    for i in range(n_after):
        defs.append(make_def(rng, ids, f"{prefix}{len(defs)}", defs, table))
    return defs


def gen_config(rng, n_calls=14, shape=None):
    ids, table = Ids(), {}
    cfg = {"table": table}
    cfg["where"] = shape or rng.choice(["module", "function", "function", "foreign"])
    cfg["style"] = rng.choice(["from", "from", "qual"])
    imps = list(LIB_PRED) + LIB_FUNC
    rng.shuffle(imps)
    cfg["imports"] = imps
    main = rng.choice(["this", "this", "root", "lazy"])
    cfg["defs"] = make_defs(rng, ids, table, "P", rng.randrange(4), rng.randrange(4), main)
    cfg["outer"] = make_defs(rng, ids, table, "M", rng.randrange(3), 0, None) if cfg["where"] != "module" else []
    if cfg["where"] == "function" and rng.random() < 0.35:
        # a module-level binding that carries the NAME of a function-level one (an unrelated predicate or a plain value):
        # the function's own binding must win for every call made at or below the function's frame
        nm = rng.choice(cfg["defs"])["name"]
        cfg["outer"].append(make_def(rng, ids, nm, [], table, force=rng.choice(["other", "plain", "lazy", "this", "root"])))
    if cfg["where"] == "foreign":
        cfg["fstyle"] = rng.choice(["names", "names", "star", "module", "late"])
        cfg["astyle"] = rng.choice(["from", "qual"])
        aimps = list(LIB_PRED) + LIB_FUNC
        rng.shuffle(aimps)
        cfg["aimports"] = aimps
        names = [d["name"] for d in cfg["defs"]]
        rng.shuffle(names)
        keep = [d["name"] for d in cfg["defs"] if d["target"]]
        cfg["fnames"] = [n for n in names if n in keep or rng.random() < 0.6]
    # the call chain below the scope frame
    depth = rng.choice([0, 1, 1, 2, 2, 3])
    chain = []
    for i in range(1, depth + 1):
        fr = {"transport": rng.choice(["closure", "closure", "args", "env"])}
        fr["locals"] = make_defs(rng, ids, table, f"L{i}_", 0, 0, rng.choice([None, None, "this", "root", "lazy", "plain", "wrapS"])) if True else []
        chain.append(fr)
    cfg["chain"] = chain
    # frames that also bind a non-predicate local called `self` (a method, or any function with such a parameter):
    # the resolution only ever skips a *predicate* bound to that name, never the frame
    cfg["selfs"] = [k for k in range(depth + 1) if rng.random() < 0.3]
    # ... and frames whose `self` IS a predicate (a method of a Predicate subclass, a bound predicate passed along): only that one
    # binding is passed over, the other locals of the frame are searched like everywhere else
    cfg["selfp"] = [k for k in cfg["selfs"] if rng.random() < 0.5]
    # "wrapS": a wrapper of a scope-level predicate defined in a deeper frame (a *related* binding below the scope)
    callable_defs = [d for d in cfg["defs"] if d["pred"]]
    for i, fr in enumerate(chain, 1):
        fixed = []
        for d in fr["locals"]:
            if d["kind"] == "wrapS":
                tgt = rng.choice(callable_defs)
                d.update(kind="wrap", ast=wrap_ast(rng, ids, tgt, ("lib", rng.choice(BASES))), wraps=tgt["name"])
                d["nodes"] = sorted(node_ids(d["ast"], table))
            fixed.append(d)
        fr["locals"] = fixed
        if fr["transport"] in ("args", "env") and rng.random() < 0.3:
            # a binding in a deeper frame that re-uses a name of the scope (shadows it for lazy_p lookups)
            nm = rng.choice(cfg["defs"])["name"]
            fr["locals"].append(make_def(rng, ids, nm, [], table, force=rng.choice(["other", "other", "plain", "lazy", "this"])))
        if fr["transport"] == "args":
            perm = [d["name"] for d in callable_defs]
            rng.shuffle(perm)
            fr["perm"] = perm
    # calls: (depth, phase, target name, value index)
    targets = [d for d in callable_defs if d["target"]]
    others = [d for d in callable_defs if not d["target"] and d["kind"] != "facalias"]
    values = sample_values(rng, n_calls)
    calls = []
    for vi in range(len(values)):
        dpt = rng.randrange(depth + 1)
        tgt = rng.choice(targets) if (rng.random() < 0.85 or not others) else rng.choice(others)
        calls.append((dpt, rng.choice(["pre", "post"]), tgt["name"], vi))
    cfg["calls"] = calls
    cfg["values"] = values
    return cfg


# ------------------------------------------------------------------ fixed small configurations (run first)

W_VALUES = [("a", "(a 0)"), (["a"], "(s 0 (a 0))"), ([["a"], "a"], "(s 0 (s 0 (a 0)) (a 0))"), ([1], "(s 0 (a 1))"), (1, "(a 1)"), ([], "(s 0)"),
            ([["a", [1]]], "(s 0 (s 0 (a 0) (s 0 (a 1))))"), ([[1], 1], "(s 0 (s 0 (a 1)) (a 1))")]


def witness_configs():
    """The documented usage and the smallest scopes around it."""
    out = []

    def rec(ids, table, name, flavour, base):
        nid = ids.new_node()
        node = ("lazy", nid, name) if flavour == "lazy" else (flavour, nid)
        d = {"name": name, "uid": ids.new_uid(), "kind": flavour, "pred": True, "target": True, "node": nid, "flavour": flavour,
             "ast": ("or", ("lib", base), ("listof", node))}
        d["nodes"] = [nid]
        table[d["uid"]] = d
        return d

    def mk(title, where, style, spec, chain=(), calls=None, **kw):
        ids, table = Ids(), {}
        cfg = {"table": table, "where": where, "style": style, "title": title, "outer": [], "values": W_VALUES,
               "imports": ["is_str_p", "is_int_p", "is_list_of_p", "lazy_p", "this_p", "root_p"], "chain": [dict(c) for c in chain]}
        cfg["defs"] = [rec(ids, table, n, f, b) for (n, f, b) in spec]
        for fr in cfg["chain"]:
            fr["locals"] = [rec(ids, table, n, f, b) for (n, f, b) in fr.pop("spec", [])]
            if fr["transport"] == "args":
                fr["perm"] = [d["name"] for d in cfg["defs"]]
        depth = len(cfg["chain"])
        cfg["calls"] = calls or [(depth, "pre", cfg["defs"][-1]["name"] if kw.get("last", True) else cfg["defs"][0]["name"], vi) for vi in range(len(W_VALUES))]
        cfg.update({k: v for k, v in kw.items() if k != "last"})
        out.append(cfg)

    for flav in ("this", "root", "lazy"):
        mk(f"documented usage at module level ({flav}_p), names imported from predicate", "module", "from", [("P", flav, "is_str_p")])
        mk(f"documented usage at module level ({flav}_p), library imported as a module", "module", "qual", [("P", flav, "is_str_p")])
        mk(f"documented usage in a function ({flav}_p)", "function", "from", [("P", flav, "is_str_p")])
        mk(f"two {flav}_p predicates in one function, the later one called", "function", "qual", [("A", flav, "is_int_p"), ("P", flav, "is_str_p")])
        mk(f"two {flav}_p predicates in one function, the earlier one called", "function", "qual", [("P", flav, "is_str_p"), ("A", flav, "is_int_p")], last=False)
        mk(f"{flav}_p predicate called two frames below, a helper frame has its own recursive predicate", "function", "qual", [("P", flav, "is_str_p")],
           chain=[{"transport": "closure", "spec": [("H", flav, "is_int_p")]}, {"transport": "closure"}])
        mk(f"{flav}_p predicate passed as an argument, the callee has its own recursive predicate", "function", "qual", [("P", flav, "is_str_p")],
           chain=[{"transport": "args", "spec": [("H", flav, "is_int_p")]}])
        mk(f"{flav}_p predicate imported by another module (from A import P)", "foreign", "qual", [("P", flav, "is_str_p")], fstyle="names", astyle="from",
           aimports=["is_str_p", "is_list_of_p", "lazy_p", "this_p", "root_p"], fnames=["P"])
        mk(f"{flav}_p predicate used by another module (import A; A.P)", "foreign", "qual", [("P", flav, "is_str_p")], fstyle="module", astyle="qual",
           aimports=[], fnames=["P"])
        mk(f"{flav}_p predicate first called through A.P, then bound by `from A import P` and called again", "foreign", "qual", [("P", flav, "is_str_p")],
           fstyle="late", astyle="qual", aimports=[], fnames=["P"],
           calls=[(0, "pre", "P", 1), (0, "post", "P", 1), (0, "post", "P", 2), (0, "post", "P", 3)])
    return out


# ------------------------------------------------------------------ source generation + predicted frames


def lib_import_lines(style, imports):
    if style == "from":
        return ["from predicate import " + ", ".join(imports)], "", [(n, "lib:" + n) for n in imports if n in LIB_PRED]
    return ["import predicate as pp"], "pp.", []


def build(cfg, tag, instrument=False):
    """Returns dict: sources {module name: text}, main module name, per-call predicted stacks,
    and the order in which the calls are executed."""
    table = cfg["table"]
    # one configuration in four lives in modules whose names begin like the library's own package ("predicates_...",
    # "predicate_rules_..."): user modules are user modules whatever they are called
    pre = {"3": "predicates_", "7": "predicate_rules_"}.get(str(tag)[-1], "")
    mname, aname = f"{pre}c16m_{tag}", f"{pre}c16a_{tag}"
    sources = {}
    where = cfg["where"]
    lines, q, modframe = [], "", []
    il, q, bound = lib_import_lines(cfg["style"], cfg["imports"])
    lines += il
    modframe += bound
    depth = len(cfg["chain"])
    order = []  # call indices in execution order
    site_of = {}  # call index -> (depth, module-phase)

    def def_lines(defs, q, ind):
        out = []
        for d in defs:
            out.append(f"{ind}{d['name']} = {txt(d['ast'], q)}")
            if instrument and d["pred"]:
                out.append(f"{ind}_ids[{d['uid']!r}] = id({d['name']})")
        return out

    def call_lines(i, phase, acc, ind, mphase):
        out = []
        for ci, (dpt, ph, name, vi) in enumerate(cfg["calls"]):
            if dpt != i or ph != phase or name not in acc:
                continue
            order.append(ci)
            site_of[ci] = (i, mphase)
            if instrument:
                out += [f"{ind}_snap({ci}, {acc[name]})"]  # same free variables as the real call
                continue
            out += [
                f"{ind}try:",
                f"{ind}    _r = {acc[name]}(_vals[{vi}])",
                f"{ind}except Exception as _e:",
                f"{ind}    _r = type(_e).__name__",
                f"{ind}_out.append(({ci}, _r))",
            ]
        return out

    # ---- module level of the main module
    for d in cfg["outer"]:
        lines += def_lines([d], q, "")
        modframe.append((d["name"], d["uid"]))
    acc = {}
    late_lines, late_bind = [], []
    if where == "foreign":
        al, aq, abound = lib_import_lines(cfg["astyle"], cfg["aimports"])
        asrc = al + def_lines(cfg["defs"], aq, "")
        if instrument:
            asrc.insert(0, "_ids = {}")
        sources[aname] = "\n".join(asrc) + "\n"
        aframe = abound + [(d["name"], d["uid"]) for d in cfg["defs"]]
        fs = cfg["fstyle"]
        if fs in ("module", "late"):
            lines.append(f"import {aname} as modA")
            acc = {d["name"]: f"modA.{d['name']}" for d in cfg["defs"]}
            if fs == "late":
                late_lines = [f"from {aname} import " + ", ".join(cfg["fnames"])]
                late_bind = [(n, next(d["uid"] for d in cfg["defs"] if d["name"] == n)) for n in cfg["fnames"]]
        elif fs == "names":
            lines.append(f"from {aname} import " + ", ".join(cfg["fnames"]))
            modframe += [(n, next(d["uid"] for d in cfg["defs"] if d["name"] == n)) for n in cfg["fnames"]]
            acc = {n: n for n in cfg["fnames"]}
        else:  # star: existing keys keep their place, new ones are appended in A's order
            lines.append(f"from {aname} import *")
            have = {n for n, _ in modframe}
            for n, u in aframe:
                if n in have:
                    modframe = [(m, (u if m == n else v)) for m, v in modframe]
                else:
                    modframe.append((n, u))
            acc = {d["name"]: d["name"] for d in cfg["defs"]}
        if instrument:
            lines.append(f"import {aname} as _modA_ids; _ids.update(_modA_ids._ids)")
        scope_defs, body_ind = [], ""
    elif where == "module":
        scope_defs, body_ind = cfg["defs"], ""
        acc = {d["name"]: d["name"] for d in cfg["defs"]}
    else:
        scope_defs, body_ind = cfg["defs"], "    "
        acc = {d["name"]: d["name"] for d in cfg["defs"]}
        lines.append(f"def _scope(_vals, _out, self={SELF_PRED_SRC if 0 in cfg.get('selfp', ()) else 'None'}):" if 0 in cfg.get("selfs", ()) else "def _scope(_vals, _out):")
    callable_names = [d["name"] for d in cfg["defs"] if d["pred"]]
    acc = {n: a for n, a in acc.items() if n in callable_names or True}

    # function frames: local bindings, for lexical resolution of the code objects' names
    local_bind = {}  # frame index -> {name: uid}
    fn_name = {}  # frame index -> function name
    if where == "function":
        local_bind[0] = {d["name"]: d["uid"] for d in scope_defs}
        fn_name[0] = "_scope"
    else:
        modframe += [(d["name"], d["uid"]) for d in scope_defs]

    body = def_lines(scope_defs, q, body_ind)

    def emit(i, acc, ind):
        """code of frame i (after its definitions): pre calls, child, post calls"""
        out = call_lines(i, "pre", acc, ind, "pre" if i == 0 else "full")
        acc2 = dict(acc)
        if i == 0 and late_lines:
            out += [ind + l for l in late_lines]
            for n, _u in late_bind:
                acc2[n] = n
        if i < depth:
            fr = cfg["chain"][i]
            j = i + 1
            tr = fr["transport"]
            usable = [n for n in acc2 if n in callable_names]
            if tr == "closure":
                params, args, acc3 = [], [], dict(acc2)
            elif tr == "args":
                perm = [n for n in fr["perm"] if n in usable]
                params = [f"q{j}_{k}" for k in range(len(perm))] + ["_vals", "_out"]
                args = [acc2[n] for n in perm] + ["_vals", "_out"]
                acc3 = {n: f"q{j}_{k}" for k, n in enumerate(perm)}
                local_bind.setdefault(j, {}).update({f"q{j}_{k}": next(d["uid"] for d in cfg["defs"] if d["name"] == n) for k, n in enumerate(perm)})
            else:
                params = [f"_env{j}", "_vals", "_out"]
                args = ["{" + ", ".join(f"{n!r}: {acc2[n]}" for n in usable) + "}", "_vals", "_out"]
                acc3 = {n: f"_env{j}[{n!r}]" for n in usable}
            local_bind.setdefault(j, {}).update({d["name"]: d["uid"] for d in fr["locals"]})
            fn_name[j] = f"_f{j}"
            out.append(f"{ind}def _f{j}({', '.join(params + ([('self=' + (SELF_PRED_SRC if j in cfg.get('selfp', ()) else 'None'))] if j in cfg.get('selfs', ()) else []))}):")
            # a wrapper defined in a deeper frame refers to the scope-level predicate through the access path
            for d in fr["locals"]:
                if not names_in(d["ast"]) <= set(acc3):  # the wrapped predicate is not reachable here: bind a plain predicate instead
                    d.update(kind="plain", ast=("lib", "is_none_p"), nodes=[])
                out.append(f"{ind}    {d['name']} = {txt(d['ast'], q, acc3)}")
                if instrument and d["pred"]:
                    out.append(f"{ind}    _ids[{d['uid']!r}] = id({d['name']})")
            inner = emit(j, acc3, ind + "    ")
            out += inner if inner else [f"{ind}    pass"]
            out.append(f"{ind}_f{j}({', '.join(args)})")
        out += call_lines(i, "post", acc2, ind, "full")
        return out

    body += emit(0, acc, body_ind)
    if where == "function":
        if len(body) == 0:
            body = ["    pass"]
        lines += body
        lines.append("_scope(_vals, _out)")
    else:
        lines += body
    sources[mname] = "\n".join(lines) + "\n"

    # ---- predicted frames
    code = compile(sources[mname], mname, "exec")
    codes = {}

    def walk(c):
        for k in c.co_consts:
            if isinstance(k, types.CodeType):
                codes[k.co_name] = k
                walk(k)

    walk(code)

    def fn_frame(i):
        c = codes[fn_name[i]]
        names = list(c.co_varnames) + [n for n in c.co_cellvars if n not in c.co_varnames] + list(c.co_freevars)
        out = []
        for n in names:
            if n == "self":  # a parameter of this very frame (never a closure variable): a predicate only when the frame says so
                if i in cfg.get("selfp", ()):
                    out.append((n, "lib:is_none_p"))
                continue
            for k in range(i, -1, -1):
                if k in local_bind and n in local_bind[k]:
                    out.append((n, local_bind[k][n]))
                    break
        return out

    def stack_for(ci):
        i, mphase = site_of[ci]
        frames = []
        lo = 0 if where == "function" else 1
        for k in range(i, lo - 1, -1):
            frames.append(fn_frame(k))
        mf = list(modframe)
        if late_bind and not (i == 0 and mphase == "pre"):
            have = {n for n, _ in mf}
            for n, u in late_bind:
                if n in have:
                    mf = [(m, (u if m == n else v)) for m, v in mf]
                else:
                    mf.append((n, u))
        frames.append(mf)
        return frames

    stacks = {ci: stack_for(ci) for ci in order}
    return {"sources": sources, "main": mname, "stacks": stacks, "order": order, "modules": list(sources)}


SNAP_SRC = '''
def _snap(ci, _p):
    import sys
    from predicate.predicate import Predicate
    fr = sys._getframe(1)
    frames = []
    while fr is not None and (lambda n: n.startswith("c16") or n.startswith(("predicates_c16", "predicate_rules_c16")))(str(fr.f_globals.get("__name__", ""))):
        frames.append([(k, id(v), isinstance(v, Predicate)) for k, v in fr.f_locals.items()])
        fr = fr.f_back
    _obs[ci] = frames
'''


def execute(built, values, instrument=False):
    """exec the generated modules; returns the list of (call index, outcome) or the observed frames"""
    out, obs, ids = [], {}, {}
    mods = []
    try:
        for name in [n for n in built["sources"] if n != built["main"]] + [built["main"]]:
            m = types.ModuleType(name)
            m.__dict__["_vals"] = [v[0] for v in values]
            m.__dict__["_out"] = out
            if instrument:
                m.__dict__["_obs"] = obs
                if name == built["main"]:
                    m.__dict__["_ids"] = ids
                exec(compile(SNAP_SRC, name, "exec"), m.__dict__)  # noqa: S102
            sys.modules[name] = m
            mods.append(name)
            exec(compile(built["sources"][name], name, "exec"), m.__dict__)  # noqa: S102
    finally:
        for name in mods:
            sys.modules.pop(name, None)
    return (obs, ids) if instrument else out


def execute_as_script(built, values, timeout=60):
    """Run the main module as a script of its own (`python main.py`): its module frame is then the bottom-most frame of
    the interpreter's stack, which no in-process execution can arrange.  Only for single-module configurations."""
    import subprocess
    import tempfile

    repo = os.environ.get("PYPRED_REPO", "/repo")
    with tempfile.TemporaryDirectory(prefix="c16script_") as d:
        path = os.path.join(d, built["main"] + ".py")
        head = "import json as _json\n_vals = " + repr([v[0] for v in values]) + "\n_out = []\n"
        tail = "\nprint(_json.dumps([[c, (r if isinstance(r, (bool, str)) else repr(r))] for c, r in _out]))\n"
        with open(path, "w", encoding="utf-8") as f:
            f.write(head + built["sources"][built["main"]] + tail)
        env = dict(os.environ, PYTHONPATH=repo, PYTHONDONTWRITEBYTECODE="1")
        p = subprocess.run(["/venv/bin/python", path], capture_output=True, text=True, timeout=timeout, env=env, cwd=d)
    if p.returncode != 0:
        raise HarnessError(f"script run of a generated module failed: {p.stderr[-600:]}")
    return [(c, r) for c, r in json.loads(p.stdout.strip().split("\n")[-1])]


def canon(r):
    if r is True:
        return "T"
    if r is False:
        return "F"
    return {"ValueError": "V", "TypeError": "Y", "AttributeError": "A", "RecursionError": "R"}.get(r, f"other:{r}")


def frame_sx(frame, table):
    parts = []
    for n, u in frame:
        if u.startswith("lib:"):
            parts.append(f"({n} (p {LIB_PRED[u[4:]]}))")
        elif table[u]["pred"]:
            parts.append(f"({n} (p (v {u})))")
        else:
            parts.append(f"({n} (o {1 if table[u]['ast'][1] else 0}))")
    return "(f " + " ".join(parts) + ")" if parts else "(f)"


def request(cfg, built, mc):
    """the driver request line for the configuration under model configuration mc = (identity, cacheNone)"""
    table = cfg["table"]
    defs = " ".join(f"({u} {sx(d['ast'])})" for u, d in table.items() if d["pred"])
    name_uid = {d["name"]: d["uid"] for d in cfg["defs"]}
    sites = []
    for ci in built["order"]:
        _dpt, _ph, name, vi = cfg["calls"][ci]
        st = "(st " + " ".join(frame_sx(f, table) for f in built["stacks"][ci]) + ")"
        sites.append(f"(site {st} (c (v {name_uid[name]}) {cfg['values'][vi][1]}))")
    return f"run {mc[0]} {mc[1]} (defs {defs}) (cache) " + " ".join(sites)


def describe(cfg, built):
    return {"title": cfg.get("title", "generated"), "where": cfg["where"], "style": cfg["style"], "fstyle": cfg.get("fstyle"), "sources": built["sources"], "calls": [(cfg["calls"][ci][2], repr(cfg["values"][cfg["calls"][ci][3]][0])) for ci in built["order"]]}


# ------------------------------------------------------------------ the property on a configuration


def quantifier(cfg, built, lib):
    """For every executed call: the answer the property demands, or None when the call is outside
    the property's quantifier (a *related* binding -- one that contains P's node but is not P -- or
    a binding that shadows a lazy name is somewhere in the configuration's frames)."""
    table = cfg["table"]
    by_name = {d["name"]: d for d in cfg["defs"]}
    all_bindings = set()
    for ci in built["order"]:
        for f in built["stacks"][ci]:
            all_bindings |= set(f)
    expect = {}
    resolved = set()  # nodes that an earlier call has reached from a site that sees the definition
    for ci in built["order"]:
        _d, _p, name, vi = cfg["calls"][ci]
        d = by_name[name]
        if not d["target"]:
            expect[ci] = None
            continue
        nid, uid = d["node"], d["uid"]
        related = [u for (_n, u) in all_bindings if not u.startswith("lib:") and u != uid and nid in table[u]["nodes"]]
        if d["flavour"] == "lazy":
            # a binding of the same NAME shadows the definition only where the by-name lookup meets it first: in a frame
            # closer to the reference than the definition's own frame (or in a stack that does not contain the definition).
            # A same-named binding in an ENCLOSING scope (module level, definition in a function) is just an unrelated predicate.
            for cj in built["order"]:
                st = built["stacks"][cj]
                def_idx = next((j for j, f in enumerate(st) if any(n == d["name"] and u == uid for (n, u) in f)), None)
                for j, f in enumerate(st):
                    for (n, u) in f:
                        if n == d["name"] and u != uid and (def_idx is None or j < def_idx):
                            related.append(u)
        if related:
            expect[ci] = None
            continue
        stack = built["stacks"][ci]
        if d["flavour"] == "lazy":
            visible = any(n == d["name"] for f in stack for (n, _u) in f)
        else:
            visible = any(u == uid and n != "self" for f in stack for (n, u) in f)
        reached = []
        try:
            expect[ci] = "T" if intended(d["ast"], cfg["values"][vi][0], d["ast"], table, lib, visible or nid in resolved, reached) else "F"
        except Unresolved:
            expect[ci] = "V"
        if reached:
            resolved.add(nid)
    return expect


# ------------------------------------------------------------------ is_json_p

JSON_DEFS = (
    "(defs (jl (and (isseq 0) (lazy 1001 json_values)))"
    " (jv (all (or (or (or (or (or (base 0) (base 1)) (base 2)) (v jl)) (lazy 1000 is_json_p)) (base 3))))"
    " (ij (or (and (and isdict (all (base 0))) (comp 0 (v jv))) (v jl))))"
)
JSON_SEED = "(cache (1000 (p (v ij))) (1001 (p (v jv))))"

JSON_CALLERS = {
    # name: (source template, predicted stack (innermost first) as list of frames of (name, what))
    "imports_is_json_p": ("from predicate.standard_predicates import is_json_p\n{CALLS}", "is_json_p", [[("is_json_p", "ij")]]),
    "imports_both": ("from predicate.standard_predicates import is_json_p, json_values\n{CALLS}", "is_json_p", [[("is_json_p", "ij"), ("json_values", "jv")]]),
    "qualified": ("import predicate.standard_predicates as sp\n{CALLS}", "sp.is_json_p", [[]]),
    "star": ("from predicate.standard_predicates import *\n{CALLS}", "is_json_p", [[("json_values", "jv"), ("is_json_p", "ij")]]),
    "function_scope": (
        "def _f(_vals, _out):\n    from predicate.standard_predicates import is_json_p, json_values\n{CALLS4}\n_f(_vals, _out)\n",
        "is_json_p",
        [[("is_json_p", "ij"), ("json_values", "jv")], []],
    ),
    "function_scope_only_is_json_p": (
        "def _f(_vals, _out):\n    from predicate.standard_predicates import is_json_p\n{CALLS4}\n_f(_vals, _out)\n",
        "is_json_p",
        [[("is_json_p", "ij")], []],
    ),
    "own_json_values_variable": ("from predicate.standard_predicates import is_json_p\njson_values = [1, 2]\n{CALLS}", "is_json_p", [[("is_json_p", "ij"), ("json_values", "o1")]]),
    "passed_as_argument": (
        "import predicate.standard_predicates as sp\ndef _g(check, _vals, _out):\n{CALLS4}\n_g(sp.is_json_p, _vals, _out)\n",
        "check",
        [[("check", "ij")], []],
    ),
}


def json_source(caller, n_vals):
    tmpl, fn, stack = JSON_CALLERS[caller]
    body = []
    for vi in range(n_vals):
        body += ["try:", f"    _r = {fn}(_vals[{vi}])", "except Exception as _e:", "    _r = type(_e).__name__", f"_out.append(({vi}, _r))"]
    return tmpl.replace("{CALLS4}", "\n".join("    " + l for l in body)).replace("{CALLS}", "\n".join(body)), stack


def json_spec(x):
    def value(v):
        return isinstance(v, (str, int, float)) or v is None or shaped(v)

    def shaped(v):
        if isinstance(v, dict):
            return all(isinstance(k, str) for k in v) and all(value(e) for e in v.values())
        return isinstance(v, list) and all(value(e) for e in v)

    return shaped(x)


def json_values_sample(rng, n):
    fixed = [
        ({}, "(d ())"), ([], "(s 0)"), ({"a": 1}, "(d (0) (a 1))"), ([1, "a", 1.5], "(s 0 (a 1) (a 0) (a 2))"), ({"a": []}, "(d (0) (s 0))"),
        ({"a": {}}, "(d (0) (d ()))"), ({"a": None}, "(d (0) (a 3))"), ({"a": {"b": {"c": 1}}}, "(d (0) (d (0) (d (0) (a 1))))"), (1, "(a 1)"),
        ({1: 2}, "(d (1) (a 1))"), ({"a": 3j}, "(d (0) (a 5))"), ({"a": (1,)}, "(d (0) (s 1 (a 1)))"), ([[1, [None]], {"a": [True]}], "(s 0 (s 0 (a 1) (s 0 (a 3))) (d (0) (s 0 (a 4))))"),
        ([3j], "(s 0 (a 5))"), ("a", "(a 0)"), (None, "(a 3)"),
    ]
    return fixed + [random_value(rng, 3) for _ in range(n)]


class JsonNodes:
    """The library's two lazy nodes are process-wide singletons whose first resolution is stored
    forever; to present each caller with a freshly imported library their instance state is put
    back to what it was right after import (test isolation only; nothing else is touched)."""

    def __init__(self):
        import predicate.standard_predicates as sp
        from predicate.lazy_predicate import LazyPredicate

        self.nodes = []

        def walk(p, seen):
            if id(p) in seen:
                return
            seen.add(id(p))
            if isinstance(p, LazyPredicate):
                self.nodes.append(p)
            for v in list(vars(p).values()):
                if hasattr(v, "__call__") and hasattr(v, "__dataclass_fields__"):
                    walk(v, seen)

        walk(sp.is_json_p, set())
        walk(sp.json_values, set())
        self.initial = [dict(vars(n)) for n in self.nodes]

    def reset(self):
        for n, st in zip(self.nodes, self.initial):
            vars(n).clear()
            vars(n).update(st)


def run_json(seq, values, tag):
    """seq: list of caller names, executed one after the other in one process state; returns outcomes per caller"""
    res = []
    for k, caller in enumerate(seq):
        src, _stack = json_source(caller, len(values))
        name = f"c16j_{tag}_{k}"
        out = []
        m = types.ModuleType(name)
        m.__dict__.update(_vals=[v[0] for v in values], _out=out)
        sys.modules[name] = m
        try:
            exec(compile(src, name, "exec"), m.__dict__)  # noqa: S102
        finally:
            sys.modules.pop(name, None)
        res.append([canon(r) for _i, r in sorted(out)])
    return res


def json_request(seq, values, mc, seeded):
    sites = []
    for caller in seq:
        stack = JSON_CALLERS[caller][2]
        fs = []
        for f in stack:
            fs.append("(f " + " ".join(f"({n} (o 1))" if w == "o1" else f"({n} (p (v {w})))" for n, w in f) + ")" if f else "(f)")
        st = "(st " + " ".join(fs) + ")"
        sites.append(f"(site {st} " + " ".join(f"(c (v ij) {v[1]})" for v in values) + ")")
    return f"run {mc[0]} {mc[1]} {JSON_DEFS} {JSON_SEED if seeded else '(cache)'} " + " ".join(sites)


# ------------------------------------------------------------------ which variant does the code follow (DESIGN 5.3)

PROBE_TWO = '''
from predicate import is_int_p, is_str_p, is_list_of_p, this_p
def _f(_out):
    A = is_int_p | is_list_of_p(this_p)
    P = is_str_p | is_list_of_p(this_p)
    _out.append(P(["a"]))
_f(_out)
'''
PROBE_STICKY = '''
import predicate as pp
def _mk():
    return pp.is_str_p | pp.is_list_of_p(pp.lazy_p("PX"))
_p = _mk()
try:
    _p(["a"])
except ValueError:
    pass
PX = _p
try:
    _out.append(PX(["a"]))
except ValueError:
    _out.append("V")
'''


def determine_cfg(jn):
    def run(src):
        out = []
        m = types.ModuleType("c16probe")
        m.__dict__["_out"] = out
        exec(compile(src, "c16probe", "exec"), m.__dict__)  # noqa: S102
        return out

    identity = 1 if run(PROBE_TWO) == [True] else 0
    cache_none = 1 if run(PROBE_STICKY) == ["V"] else 0
    jn.reset()
    r = run_json(["qualified"], [([], "(s 0)")], "probe")
    jn.reset()
    seeded = r == [["T"]]
    return (identity, cache_none), seeded


FINDING_OF_FLAG = {"identity": "KF-selfRefEq", "cacheNone": "KF-unresolvedCached", "seeded": "KF-jsonLazyCaller"}


# ------------------------------------------------------------------ main


def analysis_before_first_call(chk, tier):
    """Directed histories: a recursive predicate P is handed to the analysis functions (to_dot, to_json, optimize, negate,
    can_optimize, implies), alone and inside a larger predicate `P | is_int_p`, BEFORE its first call; afterwards P must
    still denote its own recursive definition.  (Drawing or rendering a predicate is not a definition: it must not bind
    the references inside it.)  Judged against a plain recursive function; no model involved."""
    import predicate as P_
    from predicate.implies import implies
    from predicate.negate import negate

    vals = ["a", 1, None, [], ["a"], [1], ["a", "b"], ["a", 1], [[]], [["a"]], [[1]], [["a"], "b"], ["a", ["b", [1]]], [[["a"]]], [13], [[13], "a"]]

    def ref(x):
        return isinstance(x, str) or (isinstance(x, list) and all(ref(e) for e in x))

    ops = {
        "to_dot": lambda q: P_.to_dot(q),
        "to_dot(show_optimized)": lambda q: P_.to_dot(q, show_optimized=True),
        "to_json": lambda q: P_.to_json(q),
        "optimize": lambda q: P_.optimize(q),
        "can_optimize": lambda q: P_.can_optimize(q),
        "negate": lambda q: negate(q),
        "implies": lambda q: implies(q, P_.is_int_p),
    }

    def scenario(kind, opname, larger, bind):
        is_str_p, is_int_p, is_list_of_p = P_.is_str_p, P_.is_int_p, P_.is_list_of_p
        if kind == "this":
            P = is_str_p | is_list_of_p(P_.this_p)
        elif kind == "root":
            P = is_str_p | is_list_of_p(P_.root_p)
        else:
            P = is_str_p | is_list_of_p(P_.lazy_p("P"))
        # (no local of this frame other than Q may hold the larger predicate: it would be "a larger predicate in scope")
        try:
            if bind:
                Q = P | is_int_p  # noqa: F841  a larger predicate in scope, defined after P
                ops[opname](Q if larger else P)
            elif larger:
                ops[opname](P | is_int_p)
            else:
                ops[opname](P)
        except Exception:  # noqa: BLE001  (an analysis function that raises is C17/C18/C12's business)
            pass
        out = []
        for v in vals:
            try:
                out.append(bool(P(v)))
            except Exception as e:  # noqa: BLE001
                out.append(type(e).__name__)
        return out

    want = [ref(v) for v in vals]
    n = 0
    for kind in ("this", "root", "lazy"):
        for opname in ops:
            for larger in (False, True):
                for bind in (False, True):
                    if kind == "root" and bind:
                        continue  # root_p is specified only when P is not part of a larger predicate in scope
                    got = scenario(kind, opname, larger, bind)
                    n += 1
                    if got != want:
                        k = next(i for i, (a, b) in enumerate(zip(got, want)) if a != b)
                        chk.add_failure({"history": f"P = is_str_p | is_list_of_p({kind}_p{'(\"P\")' if kind == 'lazy' else ''}); {opname}({'P | is_int_p' if larger else 'P'}){' with Q = P | is_int_p bound in scope' if bind else ''}; then P(x)", "x": repr(vals[k])},
                                        {"what": "after an analysis function was applied before the first call, P no longer denotes its recursive definition", "P(x)": got[k], "expected": want[k]}, None)
    chk.evaluations += n * len(vals)
    chk.extra["analysis_before_first_call_scenarios"] = n


def several_references(chk, tier):
    """Directed: one predicate that refers to itself in SEVERAL places (lists by one reference, dict values by another,
    tuples by a third) -- every reference denotes the same definition; inputs reach each of them."""
    import predicate as P_

    def ref(x):
        if isinstance(x, str):
            return True
        if isinstance(x, list):
            return all(ref(e) for e in x)
        if isinstance(x, dict):
            return all(ref(e) for e in x.values())
        return False

    vals = ["a", 1, [], ["a"], [1], {}, {"k": "a"}, {"k": 1}, {"k": ["a", "b"]}, {"k": [1]}, [{"k": "a"}], [{"k": 1}], {"k": {"j": "a"}}, {"k": {"j": 2}}, [["a"], {"k": ["b", {"j": "c"}]}],
            [["a"], {"k": ["b", {"j": 3}]}], {"a": "x", "b": ["y", {"c": "z"}], "d": {}}]

    def values_of(d):
        return list(d.values())

    def scenario(kind, order):
        is_str_p, is_list_of_p, is_dict_p, all_p, comp_p = P_.is_str_p, P_.is_list_of_p, P_.is_dict_p, P_.all_p, P_.comp_p
        mk = {"this": lambda: P_.this_p, "root": lambda: P_.root_p, "lazy": lambda: P_.lazy_p("P")}[kind]
        if order == 0:
            P = is_str_p | is_list_of_p(mk()) | (is_dict_p & comp_p(values_of, all_p(mk())))
        else:
            P = (is_dict_p & comp_p(values_of, all_p(mk()))) | is_list_of_p(mk()) | is_str_p
        out = []
        for v in vals:
            try:
                out.append(bool(P(v)))
            except Exception as e:  # noqa: BLE001
                out.append(type(e).__name__)
        return out

    want = [ref(v) for v in vals]
    n = 0
    for kind in ("this", "root", "lazy"):
        for order in (0, 1):
            got = scenario(kind, order)
            n += 1
            if got != want:
                k = next(i for i, (a, b) in enumerate(zip(got, want)) if a != b)
                chk.add_failure({"history": f"P with two {kind}_p references (lists and dict values), operand order {order}", "x": repr(vals[k])},
                                {"what": "a predicate that refers to itself in two places does not denote its recursive definition", "P(x)": got[k], "expected": want[k]}, None)
    chk.evaluations += n * len(vals)
    chk.extra["several_references_scenarios"] = n


def exception_then_retry(chk, tier):
    """Directed history: a call of the recursive predicate ends in an exception raised by its base on some leaf (the caller
    catches it), the data is repaired in place, the call is repeated on the same objects: the second answer is the recursive
    definition's (nothing of the abandoned evaluation may be remembered)."""
    import predicate as P_

    def base_fn(x):
        if x is None:
            raise TypeError("no value")
        return isinstance(x, int) and not isinstance(x, bool) and x > 0

    def ref(x):
        if isinstance(x, list):
            return all(ref(e) for e in x)
        return base_fn(x)

    def scenario(kind):
        base = P_.fn_p(base_fn)
        mk = {"this": lambda: P_.this_p, "root": lambda: P_.root_p, "lazy": lambda: P_.lazy_p("P")}[kind]
        P = base | P_.is_list_of_p(mk())
        out = []
        for data, fix in (([[2], [1, None]], -1), ([[2], [1, None]], 5), ([1, [2, [None]]], 0), ([[None]], 7)):
            row = data
            while isinstance(row[-1], list):
                row = row[-1]
            try:
                first = bool(P(data))
            except TypeError:
                first = "TypeError"
            except Exception as e:  # noqa: BLE001
                first = type(e).__name__
            row[-1] = fix  # repaired in place: same list objects
            try:
                second = bool(P(data))
            except Exception as e:  # noqa: BLE001
                second = type(e).__name__
            out.append((first, second, ref(data)))
        return out

    n = 0
    for kind in ("this", "root", "lazy"):
        for first, second, want in scenario(kind):
            n += 1
            if second != want:
                chk.add_failure({"history": f"P = fn_p(base) | is_list_of_p({kind}_p); P(data) raised {first}; data repaired in place; P(data) again"},
                                {"what": "after a call that ended in an exception, the repeated call does not answer like the recursive definition", "P(data)": second, "expected": want}, None)
    chk.evaluations += n
    chk.extra["exception_then_retry_cases"] = n


def main(tier):
    chk = Check("C16", tier)
    chk.prove(checker=(tier == "thorough"), exes=("driver_scope",))
    rng = random.Random(chk.seed)
    lib = lib_objects()
    jn = JsonNodes()
    mc, seeded = determine_cfg(jn)
    chk.extra["model_cfg"] = {"identity": mc[0], "cacheNone": mc[1], "json_nodes_bound_at_import": seeded}
    open_ids = {f["id"] for f in open_findings("C16")}
    n_cfg = 320 if tier == "quick" else 5000
    shapes = ["module", "function", "foreign"]

    configs = []
    for cfg in witness_configs():
        configs.append((len(configs), cfg, build(cfg, f"{chk.seed}_w{len(configs)}")))
    n_wit = len(configs)
    for k in range(n_wit, n_wit + n_cfg):
        cfg = gen_config(rng, n_calls=12 if tier == "quick" else 14, shape=shapes[k % 3] if k < n_wit + 60 else None)
        configs.append((k, cfg, build(cfg, f"{chk.seed}_{k}")))

    # -- model answers under the detected variant
    reqs = [request(cfg, b, mc) for _k, cfg, b in configs]
    answers = driver.run(reqs, **EXE)
    # -- layout: predicted frames vs frames observed at the call sites (instrumented second execution)
    lay_dis, lay_cases = [], 0
    for k, cfg, b in configs:
        bi = build(cfg, f"{chk.seed}_{k}", instrument=True)
        obs, ids = execute(bi, cfg["values"], instrument=True)
        rev = {v: u for u, v in ids.items()}
        rev.update({id(o): "lib:" + n for n, o in lib.items() if n in LIB_PRED})  # library objects win
        lazy_names = {d["name"] for d in cfg["table"].values()}
        for ci in bi["order"]:
            lay_cases += 1
            seen = [[(n, rev.get(i, "?")) for (n, i, isp) in f if isp] for f in obs.get(ci, [])]
            def norm(u):  # `M1 = is_float_p`, `P0 = this_p` bind the library object itself
                if u.startswith("lib:"):
                    return u
                a = cfg["table"][u]["ast"]
                return "lib:" + a[1] if a[0] == "lib" else (f"lib:{a[1]}_p" if a[0] == "fac" else u)

            pred = [[(n, norm(u)) for (n, u) in f if u.startswith("lib:") or cfg["table"][u]["pred"]] for f in b["stacks"][ci]]
            seen_other = [[n for (n, i, isp) in f if not isp and n in lazy_names] for f in obs.get(ci, [])]
            pred_other = [[n for (n, u) in f if not u.startswith("lib:") and not cfg["table"][u]["pred"]] for f in b["stacks"][ci]]
            if seen != pred or seen_other != pred_other:
                lay_dis.append({"config": k, "call": ci, "predicted": pred, "observed": seen, "sources": bi["sources"]})
    chk.add_corr("frame-layout/predicted-vs-observed", lay_cases, lay_dis, note="f_locals of the user frames at every call site")
    # -- real answers, compared with the model; and the property itself
    dis, n_calls, cov = [], 0, {}
    prop_cases = 0
    fails = []
    for (k, cfg, b), ans in zip(configs, answers):
        real = dict(execute(b, cfg["values"]))
        model = ans.split() if not ans.startswith("ERR") else None
        if model is None or len(model) != len(b["order"]):
            raise HarnessError(f"driver_scope: {ans[:200]} for {reqs[k][:300]}")
        expect = quantifier(cfg, b, lib)
        for pos, ci in enumerate(b["order"]):
            n_calls += 1
            r = canon(real.get(ci, "missing"))
            cov[(cfg["where"], r)] = cov.get((cfg["where"], r), 0) + 1
            if r != model[pos]:
                dis.append({"config": k, "call": cfg["calls"][ci][2], "value": repr(cfg["values"][cfg["calls"][ci][3]][0]), "model": model[pos], "implementation": r, **describe(cfg, b)})
            e = expect[ci]
            if e is not None:
                prop_cases += 1
                chk.nontrivial.add((k, cfg["calls"][ci][2], e))
                if r != e:
                    fails.append((k, cfg, b, ci, pos, e, r))
    chk.add_corr("scope/evalRec", n_calls, dis, note=f"{len(configs)} generated scope configurations")
    # -- the same module-level configurations run as scripts of their own (module frame = bottom of the stack)
    sdis, s_calls, s_cfgs = [], 0, 0
    want_scripts = 14 if tier == "quick" else 80
    for (k, cfg, b), ans in zip(configs, answers):
        if s_cfgs >= want_scripts:
            break
        if cfg["where"] != "module" or len(b["sources"]) != 1:
            continue
        try:
            vals_ok = all(eval(repr(v[0]), {"__builtins__": {}}) == v[0] for v in cfg["values"])  # noqa: S307
        except Exception:  # noqa: BLE001
            vals_ok = False
        if not vals_ok:
            continue
        s_cfgs += 1
        sreal = dict(execute_as_script(b, cfg["values"]))
        model = ans.split()
        expect = quantifier(cfg, b, lib)
        for pos, ci in enumerate(b["order"]):
            s_calls += 1
            r = canon(sreal.get(ci, "missing"))
            if r != model[pos]:
                sdis.append({"config": k, "call": cfg["calls"][ci][2], "value": repr(cfg["values"][cfg["calls"][ci][3]][0]), "model": model[pos], "as_script": r, **describe(cfg, b)})
            e = expect[ci]
            if e is not None and r != e:
                chk.add_failure({"configuration": cfg.get("title", "generated") + " (run as a script)", "main": b["main"], "call_index": ci, "values": [repr(v[0]) for v in cfg["values"]],
                                 "target": cfg["calls"][ci][2], "value": repr(cfg["values"][cfg["calls"][ci][3]][0]), "sources": b["sources"], "as_script": True},
                                {"expected": e, "got": r, "where": "module, run as __main__ script"}, None)
    chk.add_corr("scope/as-script", s_calls, sdis, note=f"{s_cfgs} module-level configurations executed with `python main.py` (bottom-most frame = the module)")
    chk.evaluations += s_calls
    chk.evaluations += n_calls + lay_cases
    # -- classify the property failures: which single repair (model flag) makes the model give the demanded answer
    fail_tab = {}
    by_cfg = {}
    for f in fails:
        by_cfg.setdefault(f[0], []).append(f)
    alt_reqs, alt_meta = [], []
    for k, fl in by_cfg.items():
        cfg, b = fl[0][1], fl[0][2]
        for flag, alt in (("identity", (1, mc[1])), ("cacheNone", (mc[0], 0)), ("both", (1, 0))):
            if alt != mc:
                alt_reqs.append(request(cfg, b, alt))
                alt_meta.append((k, flag))
    alt_ans = dict(zip(alt_meta, driver.run(alt_reqs, **EXE))) if alt_reqs else {}
    for k, fl in by_cfg.items():
        for (_k, cfg, b, ci, pos, e, r) in fl:
            why = None
            for flag in ("identity", "cacheNone", "both"):
                a = alt_ans.get((k, flag))
                if a and a.split()[pos] == e:
                    why = flag
                    break
            ids_ = {"identity": ["KF-selfRefEq"], "cacheNone": ["KF-unresolvedCached"], "both": ["KF-selfRefEq", "KF-unresolvedCached"]}.get(why, [])
            explained = ids_[0] if ids_ and all(i in open_ids for i in ids_) else None
            inp = {"configuration": cfg.get("title", "generated"), "main": b["main"], "call_index": ci, "values": [repr(v[0]) for v in cfg["values"]], "target": cfg["calls"][ci][2], "value": repr(cfg["values"][cfg["calls"][ci][3]][0]), "sources": b["sources"], "calls_before": [(cfg["calls"][c][2], repr(cfg["values"][cfg["calls"][c][3]][0])) for c in b["order"][:pos]]}
            chk.add_failure(inp, {"expected": e, "got": r, "repaired_by_model_flag": why, "where": cfg["where"]}, explained)
            key = f"{cfg.get('title', 'generated/' + cfg['where'])} | demanded {e} got {r} | repaired by model flag: {why}"
            fail_tab[key] = fail_tab.get(key, 0) + 1
    # -- is_json_p
    jvals = json_values_sample(rng, 12 if tier == "quick" else 60)
    callers = list(JSON_CALLERS)
    seqs = [[c] for c in callers] + [["qualified", "imports_both"], ["imports_is_json_p", "imports_both"], ["imports_both", "qualified"], ["own_json_values_variable", "imports_both"], ["passed_as_argument", "star"]]
    for _ in range(6 if tier == "quick" else 40):
        seqs.append([rng.choice(callers) for _ in range(rng.choice([2, 3]))])
    jreqs = [json_request(s, jvals, mc, seeded) for s in seqs]
    jans = driver.run(jreqs, **EXE)
    jdis, jn_cases = [], 0
    for si, (s, a) in enumerate(zip(seqs, jans)):
        jn.reset()
        real = run_json(s, jvals, f"{chk.seed}_{si}")
        jn.reset()
        flat = [r for part in real for r in part]
        model = a.split()
        if len(model) != len(flat):
            raise HarnessError(f"driver_scope(json): {a[:200]}")
        for pos, (r, m_) in enumerate(zip(flat, model)):
            jn_cases += 1
            caller, v = s[pos // len(jvals)], jvals[pos % len(jvals)]
            if r != m_:
                jdis.append({"callers": s, "caller": caller, "value": repr(v[0]), "model": m_, "implementation": r})
            # the property: exactly JSON-shaped data, from any caller (a caller's own variable named
            # json_values is a *related* binding for the pinned lookup but not for the property: from any caller)
            e = "T" if json_spec(v[0]) else "F"
            prop_cases += 1
            chk.nontrivial.add(("json", caller, repr(v[0])))
            if r != e:
                explained = "KF-jsonLazyCaller" if (not seeded and "KF-jsonLazyCaller" in open_ids) else None
                key = f"is_json_p | callers in order {s} | caller {caller} | demanded {e} got {r}"
                fail_tab[key] = fail_tab.get(key, 0) + 1
                chk.add_failure({"json_values": [repr(x[0]) for x in jvals], "value_index": pos % len(jvals), "callers_in_order": s, "caller": caller, "value": repr(v[0]), "source": json_source(caller, 1)[0]}, {"expected": e, "got": r, "what": "is_json_p depends on the names bound by its caller"}, explained)
    analysis_before_first_call(chk, tier)
    several_references(chk, tier)
    exception_then_retry(chk, tier)
    chk.add_corr("scope/is_json_p", jn_cases, jdis, note=f"{len(seqs)} caller sequences x {len(jvals)} values")
    chk.evaluations += jn_cases
    # -- thorough: one canonical configuration per flavour on ALL nested lists of depth <= 3 / width <= 2
    if tier == "thorough":
        full = value_pools()["d2"] + value_pools()["d3"]
        for flav in ("this", "root", "lazy"):
            ids, table = Ids(), {}
            cfg = {"table": table, "where": "function", "style": "qual", "imports": list(LIB_PRED) + LIB_FUNC, "outer": [], "chain": [], "values": full}
            cfg["defs"] = [make_def(random.Random(1), ids, "S0", [], table, force="plain"), make_def(random.Random(2), ids, "P1", [], table, force=flav)]
            cfg["calls"] = [(0, "pre", "P1", vi) for vi in range(len(full))]
            b = build(cfg, f"full_{flav}")
            real = dict(execute(b, full))
            model = driver.run([request(cfg, b, mc)], **EXE)[0].split()
            expect = quantifier(cfg, b, lib)
            d = [{"value": repr(full[ci][0]), "model": model[pos], "implementation": canon(real[ci])} for pos, ci in enumerate(b["order"]) if canon(real[ci]) != model[pos]]
            chk.add_corr(f"scope/all-nested-lists/{flav}", len(full), d)
            chk.evaluations += len(full)
            for pos, ci in enumerate(b["order"]):
                if expect[ci] is not None and canon(real[ci]) != expect[ci]:
                    chk.add_failure({"target": "P1", "value": repr(full[ci][0]), "sources": b["sources"]}, {"expected": expect[ci], "got": canon(real[ci])}, None)
    chk.extra["configurations"] = len(configs)
    chk.extra["property_failures_by_configuration"] = fail_tab
    chk.extra["property_cases_in_quantifier"] = prop_cases
    chk.extra["answers_by_scope_kind"] = {f"{w}:{r}": n for (w, r), n in sorted(cov.items())}
    chk.extra["json_caller_sequences"] = len(seqs)
    chk.rule = (
        "generated Python source per configuration: definitions at module / function / other-module level, 0-3 sibling bindings before and after "
        "(plain, this_p-/root_p-/lazy_p-recursive, wrappers sharing the node, factory aliases, is_list_p & this_p, non-predicates), library names "
        "imported by name (shuffled order) or qualified, 0-3 frames below (closure / positional arguments / dict), each with 0-1 own predicate, "
        "calls before descending and after returning at every depth in shuffled order on nested lists (depth<=3, width<=2 over 'a', 1) and random "
        "values with None/float/bool/complex/tuples/dicts; every answer (T/F/exception type) compared with driver_scope under the detected variant; "
        "non-trivial = distinct (configuration, target, demanded answer) inside the property's quantifier"
    )
    k0, cfg0, b0 = configs[0]
    chk.samples = [{"sources": b0["sources"], "calls": describe(cfg0, b0)["calls"], "model": answers[0]}]
    chk.assumptions = [
        "CPython 3.12 frame semantics (f_locals order of module and function frames, closures) are modelled by the harness from the compiled code objects and checked against the observed frames; trusted",
        "the library's own frames between call site and reference node bind no Predicate (values are never predicates; no lazy_p name is self/x/iterable/.0)",
        "the harness's own frames above the generated modules bind no Predicate",
    ]
    return chk.finish()


def replay(path):
    """Re-run the recorded failing input on the implementation: exit 1 if it still fails, 0 if not."""
    d = json.load(open(path))
    inp, det = d.get("input", {}), d.get("detail", {})
    if not isinstance(inp, dict) or not isinstance(det, dict) or "expected" not in det:
        print(json.dumps(d, indent=1)[:4000])
        return 1
    if "history" in inp:  # a directed history: re-enact all of them, look for this one
        chk = Check("C16", "replay")
        analysis_before_first_call(chk, "quick")
        several_references(chk, "quick")
        exception_then_retry(chk, "quick")
        hit = [f for f in chk.failures if f["input"] == inp]
        print(json.dumps(hit[0] if hit else {"the recorded history": "does not fail on this tree"}, indent=1, default=str)[:1500])
        return 1 if hit else 0
    if "sources" in inp:
        values = [(eval(v), "") for v in inp["values"]]  # noqa: S307  reprs of literals written by this check
        out = dict(execute({"sources": inp["sources"], "main": inp["main"]}, values))
        got = canon(out.get(inp["call_index"], "missing"))
        print(f"{inp['configuration']}: {inp['target']}({inp['value']}) -> {got}; the property demands {det['expected']}")
        print(inp["sources"][inp["main"]][:1500])
    else:
        jn = JsonNodes()
        values = [(eval(v), "") for v in inp["json_values"]]  # noqa: S307
        res = run_json(inp["callers_in_order"], values, "replay")
        k = max(i for i, c in enumerate(inp["callers_in_order"]) if c == inp["caller"])
        got = res[k][inp["value_index"]]
        jn.reset()
        print(f"is_json_p({inp['value']}) called from {inp['caller']} after {inp['callers_in_order'][:k]} -> {got}; the property demands {det['expected']}")
    return 1 if got != det["expected"] else 0
