"""C02  optimize() preserves scalar atoms: comparisons, ranges, membership, types."""
import itertools
import json
import random

from .. import cases, evalcorr, lift, optcorr, sx as S
from ..core import Check


def gen(tier, seed):
    rng = random.Random(seed)
    atoms = cases.scalar_atoms()
    pairs = list(cases.pair_shapes(atoms))
    if tier == "quick":
        triples = []
        small = cases.small_scalar_atoms()
        allt = list(cases.triple_shapes(small[:12]))
        triples = rng.sample(allt, 6000)
    else:
        triples = list(cases.triple_shapes(cases.small_scalar_atoms()))
    rnd = []
    for _ in range(1500 if tier == "quick" else 20000):
        rnd.append(cases.random_tree(rng, rng.randint(4, 25), atoms))
    return atoms, pairs, triples, rnd


def nearly_equal_constants(chk):
    """Oracle only (the model's constants are abstract points of a linear order, so it has nothing to add here): pairs of scalar
    atoms whose constants are NEARLY equal -- adjacent doubles, 0.1 + 0.2 against 0.3, 1e16 and its neighbours, an int and the
    doubles around it -- under &, |, ^ and ~, optimize(p) against p on those constants and the points between them."""
    import math

    from predicate import eq_p, ge_p, gt_p, in_p, le_p, lt_p, ne_p, not_in_p, optimize

    n = 0
    for c in (0.3, 1.0, 1e16, 100):
        f = float(c)
        cs = sorted({c, math.nextafter(f, math.inf), math.nextafter(f, -math.inf), f * (1 + 1e-12), f * (1 - 1e-12)} | ({0.1 + 0.2} if c == 0.3 else set()))
        probes = cs + [(a + b) / 2 for a, b in zip(cs, cs[1:])] + [f - 1, f + 1]
        atoms = []
        for v in cs:
            atoms += [(f"eq_p({v!r})", eq_p(v)), (f"ne_p({v!r})", ne_p(v)), (f"ge_p({v!r})", ge_p(v)), (f"gt_p({v!r})", gt_p(v)), (f"le_p({v!r})", le_p(v)), (f"lt_p({v!r})", lt_p(v)),
                      (f"in_p({v!r}, 5)", in_p(v, 5)), (f"not_in_p({v!r}, 5)", not_in_p(v, 5))]
        for (da, a), (db, b) in itertools.product(atoms, atoms):
            for sym, t in (("&", a & b), ("|", a | b), ("^", a ^ b), ("& ~", a & ~b), ("| ~", a | ~b)):
                n += 1
                try:
                    o = optcorr._watchdog(lambda t=t: optimize(t), ("tt",))
                except optcorr.HarnessError:
                    raise
                except Exception as e:  # noqa: BLE001
                    chk.add_failure(f"{da} {sym} {db}", {"what": f"optimize raised {type(e).__name__} on comparable float constants"}, None)
                    continue
                for x in probes:
                    try:
                        want = bool(t(x))
                    except Exception:  # noqa: BLE001
                        continue
                    try:
                        got = bool(o(x))
                    except Exception as e:  # noqa: BLE001
                        got = f"raised {type(e).__name__}"
                    if got != want:
                        chk.add_failure(f"{da} {sym} {db}", {"what": "optimize changes the answer at a value next to a constant", "optimized": repr(o), "value": repr(x), "original_value": want, "optimized_value": got}, None)
                        break
        chk.evaluations += len(atoms) ** 2 * 5
    return n


def main(tier):
    chk = Check("C02", tier)
    chk.prove(checker=(tier == "thorough"))
    cfg, detail = optcorr.detect_cfg()
    chk.extra["cfg"] = cfg
    chk.extra["cfg_detail"] = detail
    atoms, pairs, triples, rnd = gen(tier, chk.seed)
    differs = optcorr.values_differ(cases.SCALAR_VALUES)
    optcorr.run(chk, "opt/pairs", pairs, cfg, differs, share=True)
    optcorr.run(chk, "opt/triples", triples, cfg, differs, share=True)
    optcorr.run(chk, "opt/repeated-atom", list(cases.repeat_shapes(cases.mergeable_atoms())), cfg, differs, share=True)
    optcorr.run(chk, "opt/random-shared", rnd, cfg, differs, share=True)
    # the same shapes over 9, 10 and then over "9", "10": constants that print the same and are ordered differently
    pa_values = [8, 9, 9.5, 10, 11, "1", "10", "5", "9", "95", "a", None]
    optcorr.run(chk, "opt/print-alike-constants", cases.printalike_trees(), cfg, optcorr.values_differ(pa_values), share=True)
    ev_preds = atoms + [("not", a) for a in atoms] + [(op, a, b) for op in ("and", "or", "xor") for a, b in itertools.product(atoms[:30], atoms[10:25])]
    evalcorr.run(chk, "eval/atoms+pairs", ev_preds, cases.SCALAR_VALUES)
    near_n = nearly_equal_constants(chk)
    chk.extra["nearly_equal_constant_trees"] = near_n
    chk.rule = (
        "grid of %d scalar atoms (eq/ne/ge/gt/le/lt at 1,2,3; four range forms; in/not_in at 6 sets incl. empty and singleton; none/truthy; type tests incl. "
        "overlapping class tuples; two function atoms; constants): every a, ~a, a.b, ~a.b, a.~b, ~(a.b) for . in &,|,^; three-atom shapes; random shared trees; pair shapes over 9, 10 interleaved with the same shapes over '9', '10'; every stream re-run over digit-string twins of its constants. "
        "Each case: model optimizeT vs predicate.optimize (structural) and optimize(p) vs p on %d values (each constant, half-way points, beyond both ends, "
        "True/False/None/str) restricted to values on which every atom of the original is defined. non-trivial = distinct inputs changed by optimize."
        % (len(atoms), len(cases.SCALAR_VALUES))
    )
    chk.samples = [S.show(t) for t in (pairs[5000:5003] + triples[:2] + rnd[:2])]
    chk.assumptions = ["function atoms are total, deterministic and respect == on the probed values (the fn & eq rule calls them at optimisation time)"]
    return chk.finish()


def replay(path):
    from predicate import optimize

    d = json.load(open(path))
    if d.get("kind") != "failing-input":
        print(json.dumps(d, indent=1))
        return 1
    sxp = S.parse1(d["input"])
    p = lift.lower(sxp, {})
    j = optcorr.values_differ(cases.SCALAR_VALUES)
    st = j.before(p, sxp)
    o = optimize(p)
    w = j.after(st, p, o, sxp)
    print("input    :", d["input"], "=", repr(p))
    print("optimized:", repr(o))
    print("differs  :", w)
    return 1 if w else 0
