"""C14  parse_expression accepts exactly the expression language and reads it faithfully.

Lean side: PyPred/Model/Parser.lean (lexer, reference precedence parser, the relations Rd / Tg and
their decision procedures), theorems in PyPred/Props/C14.lean.  Tie: every generated text is given to
`predicate.parser.parse_expression` and to the compiled model (lean_exe `driver_parser`):

  * accept / reject must agree (`None` or a lark parse error = reject; any other exception, a predicate for
    a text outside the language, or a rejection of a text of the language = failing input);
  * for accepted texts the *Lean-defined* relation (isReading && isTight => Faithful, theorem
    `C14_faithful_of_checks`) is evaluated by the driver on the implementation's own tree;
  * the implementation's tree is compared structurally with the model parser's tree (the model pins the
    precedence Lark's ambiguity resolution produces: `|` < `&` < `^` < `~`) up to the bracketing of chains of
    one operator, which Lark does not fix uniformly (`a & b & c` -> `(a & b) & c`, `a & b & c ^ d` ->
    `a & (b & (c ^ d))`): both trees are normalised by the Lean function `assocNorm`.
"""
import itertools
import json
import multiprocessing as mp
import os
import random
import sys

from .. import driver
from ..core import Check, HarnessError

EXE = dict(exe="driver_parser", src="DriverParser.lean")

LEAVES6 = ["a", "b", "c", "foo", "true", "false"]
SYMS = ["~", "&", "|", "^", "(", ")"]
# substitutions of the three abstract leaves x y z used for the longer sequences
SUBSTS = [
    ("a", "b", "c"), ("foo", "true", "a"), ("false", "b", "foo"), ("true", "false", "c"), ("a", "a", "b"), ("Bar", "truex", "fals"),
    ("foo", "bar", "bazqux"), ("c", "true", "true"), ("T", "tru", "falsey"),
]

# ---------------------------------------------------------------- wire format


def enc_text(s: str) -> str:
    return ".".join("%x" % ord(c) for c in s) or "-"


def dec_text(w: str) -> str:
    return "" if w == "-" else "".join(chr(int(x, 16)) for x in w.split("."))


def tok_wire(tok: str) -> str:
    if tok == "true":
        return "T"
    if tok == "false":
        return "F"
    if tok in SYMS:
        return tok
    return "n:" + enc_text(tok)


def tree_text(polish: str) -> str:
    """Polish wire form -> readable fully bracketed text (for reports only)."""
    ws = polish.split()
    pos = 0

    def go():
        nonlocal pos
        w = ws[pos]
        pos += 1
        if w in "&|^":
            a = go()
            b = go()
            return f"({a} {w} {b})"
        if w == "~":
            return "~" + go()
        if w == "T":
            return "true"
        if w == "F":
            return "false"
        return dec_text(w[2:])

    return go()


# ---------------------------------------------------------------- implementation side (runs in worker processes)

_impl = {}


def _load_impl():
    if not _impl:
        from lark.exceptions import LexError, ParseError, UnexpectedInput

        from predicate.named_predicate import NamedPredicate
        from predicate.parser import parse_expression
        from predicate.predicate import AlwaysFalsePredicate, AlwaysTruePredicate, AndPredicate, NotPredicate, OrPredicate, Predicate, XorPredicate

        _impl.update(locals())
    return _impl


class _Alien(Exception):
    pass


def polish(p) -> str:
    m = _load_impl()
    out = []

    def go(q):
        t = type(q)
        if t is m["AndPredicate"]:
            out.append("&"); go(q.left); go(q.right)
        elif t is m["OrPredicate"]:
            out.append("|"); go(q.left); go(q.right)
        elif t is m["XorPredicate"]:
            out.append("^"); go(q.left); go(q.right)
        elif t is m["NotPredicate"]:
            out.append("~"); go(q.predicate)
        elif t is m["AlwaysTruePredicate"]:
            out.append("T")
        elif t is m["AlwaysFalsePredicate"]:
            out.append("F")
        elif t is m["NamedPredicate"]:
            if not isinstance(q.name, str) or q.name == "":
                raise _Alien(f"variable with name {q.name!r}")
            out.append("v:" + enc_text(q.name))
        else:
            raise _Alien(f"node of type {t.__name__}")

    go(p)
    return " ".join(out)


def _spoil_tree(q, m):
    """The caller owns what parse_expression returned: rename its variables and flip their values in place."""
    t = type(q)
    if t in (m["AndPredicate"], m["OrPredicate"], m["XorPredicate"]):
        _spoil_tree(q.left, m)
        _spoil_tree(q.right, m)
    elif t is m["NotPredicate"]:
        _spoil_tree(q.predicate, m)
    elif t is m["NamedPredicate"]:
        q.name = q.name + "_renamed"
        q.v = True


def run_impl(s: str, spoil=False):
    """-> ('tree', polish) | ('none',) | ('parse-error', Type) | ('raised', Type, msg) | ('alien', msg)"""
    m = _load_impl()
    try:
        r = m["parse_expression"](s)
    except (m["UnexpectedInput"], m["ParseError"], m["LexError"]) as e:
        return ("parse-error", type(e).__name__)
    except RecursionError as e:
        return ("raised", "RecursionError", "")
    except Exception as e:  # noqa: BLE001
        return ("raised", type(e).__name__, str(e).replace("\n", " ")[:160])
    if r is None:
        return ("none",)
    if not isinstance(r, m["Predicate"]):
        return ("alien", f"returned {type(r).__name__}")
    try:
        out = ("tree", polish(r))
    except _Alien as e:
        return ("alien", str(e))
    if spoil:
        try:
            _spoil_tree(r, m)
        except Exception:  # noqa: BLE001
            pass
    return out


def _work(chunk):
    return [run_impl(s) for s in chunk]


def run_impl_many(texts, procs):
    """Run the implementation on every text, in `procs` worker processes.  Texts are dealt out round-robin so
    that the (slow) long expressions, which are generated together, do not end up in one chunk."""
    texts = list(texts)
    if not texts:
        return []
    if procs <= 1 or len(texts) < 64:
        return _work(texts)
    n = max(procs * 8, min(len(texts) // 16, 512))
    chunks = [texts[k::n] for k in range(n)]
    ctx = mp.get_context("fork")
    with ctx.Pool(procs) as pool:
        res = pool.map(_work, chunks, chunksize=1)
    out = [None] * len(texts)
    for k, r in enumerate(res):
        out[k::n] = r
    return out


# ---------------------------------------------------------------- generators


def in_language(leaves, n):
    """Every token sequence of exactly n tokens of the expression language over `leaves` and the six
    symbols, by the two-state scanner (operand expected / operand ended, open parentheses)."""
    out = []
    cur = []

    def go(expect, depth, left):
        if left == 0:
            if not expect and depth == 0:
                out.append(tuple(cur))
            return
        if depth > left:  # not enough room to close
            return
        if expect:
            for lf in leaves:
                cur.append(lf); go(False, depth, left - 1); cur.pop()
            cur.append("~"); go(True, depth, left - 1); cur.pop()
            cur.append("("); go(True, depth + 1, left - 1); cur.pop()
        else:
            for op in "&|^":
                cur.append(op); go(True, depth, left - 1); cur.pop()
            if depth:
                cur.append(")"); go(False, depth - 1, left - 1); cur.pop()

    go(True, 0, n)
    return out


def is_word(tok):
    return tok not in SYMS


def render(toks, style, rng=None):
    if style == "sp":
        return " ".join(toks)
    if style == "min":
        out = []
        for i, t in enumerate(toks):
            if i and is_word(t) and is_word(toks[i - 1]):
                out.append(" ")
            out.append(t)
        return "".join(out)
    out = [" " * rng.choice((0, 0, 1, 2))]
    for i, t in enumerate(toks):
        if i:
            k = rng.choice((0, 0, 1, 1, 2, 3))
            if k == 0 and is_word(t) and is_word(toks[i - 1]):
                k = 1
            out.append(" " * k)
        out.append(t)
    out.append(" " * rng.choice((0, 0, 1, 3)))
    return "".join(out)


def trees_exact(k, leaves):
    if k == 1:
        for lf in leaves:
            yield lf
        return
    for t in trees_exact(k - 1, leaves):
        yield "~ " + t
    for i in range(1, k - 1):
        ls = list(trees_exact(i, leaves))
        rs = list(trees_exact(k - 1 - i, leaves))
        for op in "&|^":
            for a in ls:
                for b in rs:
                    yield f"{op} {a} {b}"


MALFORMED = [
    "", " ", "   ", "\t", "\n", "a\t", "\ta", "a\t&b", "a &\tb", "a\n", "\na", "a &\n b", "a\r", "a\r\n", "a\x0b", "a\x0c", "a\x00", "a\xa0& b", "a & b", "a　",
    "a1", "1", "1a", "a_b", "_", "_a", "a_", "a0 & b", "x2 | y", "a && b", "a || b", "a ^^ b", "a &| b", "a & | b", "~~", "~", "a ~ b", "a ~", "~a~", "a~b",
    "(", ")", "()", "( )", ")(", "(()", "(a", "a)", "((a)", "(a))", "(a)(b)", "a(b)", "(a)b", "~(", "~)", "~()", "(~)", "(&)", "(a &)", "(& a)", "a & (", "a & )", "a | b |", "| a", "& a", "^ a",
    "a b", "a  b", "true false", "true a", "a true", "tr ue", "f oo", "é", "aé", "éa", "é & a", "a & é", "ß", "π", "а", "ａ", "Ａ", "ı", "ǅ", "á", "ª", "µ", "日本", "a & 日", "\ud800", "a\ud800", "a & \udfff",
    "a.b", "a-b", "a=b", "a!", "!a", "a;", '"a"', "'a'", "a,b", "a+b", "a*b", "a/b", "a\\b", "a<b", "a>b", "a?", "a:b", "a@b", "a#b", "a$b", "a%b", "[a]", "{a}", "a`", "not a", "a and b", "a or b",
    "a & b & ", " & a & b", "a & b )", "( a & b", "true(", "(true", "true)", "false~", "~false~", "a | | b", "a ^ & b", "(a | b) (c)", "~ ~", "( ( a )", "( a ) )",
]

# texts of the language that exercise names / constants / case / blanks
WELLFORMED = [
    "a", "A", "aB", "Foo", "z", "Z", "abcdefghijklmnopqrstuvwxyz", "ABCDEFGHIJKLMNOPQRSTUVWXYZ", "x" * 200, "true", "false", "truex", "xtrue", "tru", "falsey", "fals", "truefalse", "truetrue", "TRUE", "True", "False", "tRue",
    " a", "a ", "  a  ", "~ a", "~ ~ a", "( a )", "a  &  b", "a&b", "a|b", "a^b", "~a", "~~a", "~~~a", "((a))", "(((a)))", "foo & bar", "foo&bar", "true & a", "a & true", "true&false", "~true", "~false", "(true)", "true | truex",
    "a | b & c", "a & b | c", "~a & b", "a & b ^ c", "a ^ b & c", "a ^ b | c", "a | b ^ c", "~a | b", "~a ^ b", "a & b & c", "a | b | c", "a ^ b ^ c", "a | b & c | d", "a ^ b & c ^ d", "a & b ^ c & d", "~(a & b) | c",
    "~" * 40 + "a", "(" * 30 + "a" + ")" * 30, "~(" * 12 + "a" + ")" * 12, "~(a) & b", "~~(a | b) & c", "(a | b) & c", "a & (b | c)", "a | (b & c)", "(a & b) | c", "~ ( a )", "( ~ a )", "a | ~b & c", "foo|bar&baz", "and | or", "not & a", "nota", "a & nota",
]


def gen_inputs(tier, seed):
    """-> list of (stream name, text, intended tokens or None)."""
    rng = random.Random(seed)
    quick = tier == "quick"
    nmax = 7 if quick else 9
    nfull6 = 5
    items = []
    seqs = []
    for n in range(1, nfull6 + 1):
        seqs += in_language(LEAVES6, n)
    idx = 0
    for n in range(nfull6 + 1, nmax + 1):
        for sq in in_language(["x", "y", "z"], n):
            sub = dict(zip("xyz", SUBSTS[idx % len(SUBSTS)]))
            idx += 1
            seqs.append(tuple(sub.get(t, t) for t in sq))
    dist = {}
    for sq in seqs:
        dist[len(sq)] = dist.get(len(sq), 0) + 1
        items.append(("lang/sp", render(sq, "sp"), sq))
        items.append(("lang/min", render(sq, "min"), sq))
        if len(sq) > 1 and (quick is False or rng.random() < 0.5):
            items.append(("lang/blanks", render(sq, "rand", rng), sq))
    # near misses and arbitrary token sequences
    alphabet = LEAVES6 + SYMS
    n_mut = 12000 if quick else 60000
    for _ in range(n_mut):
        sq = list(rng.choice(seqs))
        k = rng.randrange(4)
        if k == 0 and len(sq) > 0:
            del sq[rng.randrange(len(sq))]
        elif k == 1:
            sq.insert(rng.randrange(len(sq) + 1), rng.choice(alphabet))
        elif k == 2:
            sq[rng.randrange(len(sq))] = rng.choice(alphabet)
        elif len(sq) > 1:
            i = rng.randrange(len(sq) - 1)
            sq[i], sq[i + 1] = sq[i + 1], sq[i]
        items.append(("mutant", render(sq, rng.choice(("sp", "min", "rand")), rng), tuple(sq)))
    n_rand = 6000 if quick else 40000
    for _ in range(n_rand):
        sq = tuple(rng.choice(alphabet) for _ in range(rng.randint(1, nmax)))
        items.append(("random-tokens", render(sq, rng.choice(("sp", "min", "rand")), rng), sq))
    # malformed characters
    for s in MALFORMED:
        items.append(("malformed", s, None))
    for s in WELLFORMED:
        items.append(("wellformed-list", s, None))
    bad_chars = "0123456789_\t\n\r\x0b\x0c\xa0.-+=!;,:\"'[]{}<>?/\\@#$%*`éßπаａ日́\ud800\U0001d44e"
    some = [render(sq, "sp") for sq in rng.sample(seqs, 400 if quick else 3000)]
    for s in some:
        i = rng.randrange(len(s) + 1)
        c = rng.choice(bad_chars)
        if rng.random() < 0.5:
            items.append(("bad-char", s[:i] + c + s[i:], None))
        elif s:
            i = min(i, len(s) - 1)
            items.append(("bad-char", s[:i] + c + s[i + 1 :], None))
    chars = "abAZtruefals &|^~()" + bad_chars
    for _ in range(3000 if quick else 20000):
        items.append(("random-chars", "".join(rng.choice(chars) for _ in range(rng.randint(0, 9))), None))
    # random long expressions
    pool_names = ["a", "b", "c", "d", "e", "foo", "Bar", "truex", "falsey", "tru", "xtrue", "Q", "zz"]
    for _ in range(150 if quick else 1500):
        names = rng.sample(pool_names, rng.randint(2, 6))
        toks = random_long(rng, rng.randint(4, 22 if quick else 30), names)
        items.append(("random-long", render(toks, rng.choice(("sp", "min", "rand")), rng), tuple(toks)))
    return items, dist


def gen_history(tier, seed):
    """Order-sensitive texts, parsed one after the other in ONE process (no de-duplication): a text of the language
    followed by texts that a plausible normalisation (dropping / trimming blanks, case folding, collapsing
    parentheses) would map onto it but that are different texts -- outside the language (a name or keyword split by a
    blank) or with a different reading (another name, a name instead of a constant).  parse_expression is a function
    of its argument alone, so what it answers must not depend on what was parsed before."""
    rng = random.Random(seed * 7919 + 14)
    names = ["ab", "foo", "Bar", "truex", "falsey", "pq", "xtrue", "zz", "abc", "tru", "Qr"]
    out = []
    n = 140 if tier == "quick" else 900
    for k in range(n):
        nm = rng.sample(names, 3)
        toks = random_long(rng, rng.randint(1, 4), nm + ["true", "false"])
        words = [i for i, t in enumerate(toks) if is_word(t) and len(t) > 1]
        base = render(toks, rng.choice(("sp", "min")))
        seq = [base]
        if words:
            i = rng.choice(words)
            w = toks[i]
            c = rng.randrange(1, len(w))
            split = list(toks[:i]) + [w[:c], w[c:]] + list(toks[i + 1 :])
            seq.append(render(split, rng.choice(("sp", "min"))))  # a name / keyword split by a blank: not in the language
            flipped = list(toks)
            flipped[i] = w.swapcase() if rng.random() < 0.5 else w[:c] + w[c].swapcase() + w[c + 1 :]
            seq.append(render(flipped, "sp"))  # in the language, other name (or a name where a constant was)
        seq.append(base.upper() if rng.random() < 0.5 else base.lower())
        seq.append("(" + base + ")")
        seq.append(" " + base + "  ")
        seq.append(base)  # the very same text again
        if k % 2:
            seq.reverse()  # the confusable text first, then the text it is confusable with
        out += seq
    return out


def random_long(rng, n_operands, names):
    """Random expression: recursive random grouping so that parentheses are always balanced."""

    def go(k):
        if k == 1:
            lf = rng.choice(names) if rng.random() < 0.85 else rng.choice(("true", "false"))
            return ["~"] * rng.choice((0, 0, 0, 1, 1, 2)) + [lf]
        # split into 2..4 parts joined by random operators; each part possibly parenthesised / negated
        parts = min(k, rng.randint(2, 4))
        cuts = sorted(rng.sample(range(1, k), parts - 1))
        sizes = [b - a for a, b in zip([0] + cuts, cuts + [k])]
        out = []
        for i, sz in enumerate(sizes):
            sub = go(sz)
            r = rng.random()
            if sz > 1 and r < 0.45:
                sub = ["("] + sub + [")"]
                if rng.random() < 0.35:
                    sub = ["~"] + sub
            elif r < 0.08:
                sub = ["(", "("] + sub + [")", ")"]
            if i:
                out.append(rng.choice("&|^"))
            out += sub
        return out

    return go(n_operands)


# ---------------------------------------------------------------- the check


def tight_witness(text, tree, toks_wire):
    """Search a tight reading with the same truth table as `tree` (only needed when the implementation's
    tree is a reading that is not itself tight).  Candidates: every bracketing of the tokens in which `|`
    is loosest; each is *checked* by the Lean relation (`tightsame`)."""
    toks = toks_wire.split()

    def operand(i):
        # -> list of (polish, next index)
        if i >= len(toks):
            return []
        t = toks[i]
        if t == "~":
            return [("~ " + p, j) for p, j in operand(i + 1)]
        if t == "(":
            return [(p, j + 1) for p, j in expr(i + 1, 0) if j < len(toks) and toks[j] == ")"]
        if t in ("T", "F"):
            return [(t, i + 1)]
        if t.startswith("n:"):
            return [("v:" + t[2:], i + 1)]
        return []

    def seq(i, lvl):
        # all ways to read operand (op operand)* from i with ops of this level -> (list of items, ops, next)
        ops_here = ("|",) if lvl == 0 else ("&", "^")
        sub = (lambda k: expr(k, 1)) if lvl == 0 else operand
        res = []
        for p, j in sub(i):
            res.append(([p], [], j))
        out = []
        while res:
            items, ops, j = res.pop()
            out.append((items, ops, j))
            if j < len(toks) and toks[j] in ops_here:
                for p, k in sub(j + 1):
                    res.append((items + [p], ops + [toks[j]], k))
        return out

    def brackets(items, ops):
        if len(items) == 1:
            return [items[0]]
        out = []
        for i in range(len(ops)):
            for l in brackets(items[: i + 1], ops[:i]):
                for r in brackets(items[i + 1 :], ops[i + 1 :]):
                    out.append(f"{ops[i]} {l} {r}")
        return out

    def expr(i, lvl):
        out = []
        for items, ops, j in seq(i, lvl):
            if len(items) > 9:
                continue
            for b in brackets(items, ops):
                out.append((b, j))
        return out

    cands = [p for p, j in expr(0, 0) if j == len(toks)][:5000]
    if not cands:
        return None
    ans = driver.run([f"tightsame\t{enc_text(text)}\t{tree}\t{c}" for c in cands], **EXE)
    for c, a in zip(cands, ans):
        if a == "T":
            return c
    return None


def judge(chk, stats, stream, text, intended, impl, ans, disagreements):
    """Compare one text.  `ans` is the driver's answer to `case`."""
    kind = impl[0]
    if ans == "REJECT-LEX":
        m_tokens, m_tree, wf, faith = None, None, None, None
    else:
        parts = ans.split("\t")
        if len(parts) != 5 or parts[3] == "faithful=ERR":
            raise HarnessError(f"driver answer {ans!r} for {text!r}")
        m_tokens = parts[0]
        m_tree = None if parts[1] == "REJECT" else parts[1]
        wf = parts[2] == "wf=T"
        faith = parts[3][len("faithful=") :]
        same = parts[4][len("same=") :]
        if wf != (m_tree is not None):
            disagreements["wellFormed-vs-parse"].append({"text": text, "wf": wf, "parse": m_tree})
        if intended is not None:
            want = " ".join(tok_wire(t) for t in intended)
            if want != m_tokens:
                disagreements["lex-vs-intended-tokens"].append({"text": text, "intended": want, "model": m_tokens})
    accept_model = m_tree is not None
    stats[(stream, "in" if accept_model else "out")] = stats.get((stream, "in" if accept_model else "out"), 0) + 1
    inp = {"text": text, "codepoints": enc_text(text)}
    if kind == "raised":
        chk.add_failure(inp, {"what": "parse_expression raised something that is not a parse error", "exception": impl[1], "message": impl[2], "in_language": accept_model, "model_tree": m_tree and tree_text(m_tree)})
        return
    if kind == "alien":
        chk.add_failure(inp, {"what": "parse_expression returned something that is not an expression tree", "detail": impl[1], "in_language": accept_model})
        return
    if kind in ("none", "parse-error"):
        stats[("reject-kind", kind if kind == "none" else impl[1])] = stats.get(("reject-kind", kind if kind == "none" else impl[1]), 0) + 1
        if accept_model:
            chk.add_failure(inp, {"what": "a text of the expression language is rejected", "outcome": kind, "model_tree": tree_text(m_tree)})
        return
    tree = impl[1]
    if not accept_model:
        chk.add_failure(inp, {"what": "a text outside the expression language is accepted", "returned": tree_text(tree), "model_tokens": m_tokens})
        return
    if faith == "N":
        # a bracketing of the text that is not itself tight: a tight reading with the same truth table must
        # exist; the search for it is done after the main loop (bounded), see resolve_not_tight
        disagreements.setdefault("_pending_N", []).append((len(m_tokens.split()), text, tree, m_tokens, m_tree))
    elif faith == "F":
        chk.add_failure(inp, {"what": "the returned tree is not a reading of the text (order of leaves/operators, a name, a parenthesised group or the scope of a ~ is wrong)", "returned": tree_text(tree), "model_tree": tree_text(m_tree)})
        return
    elif faith != "T":
        raise HarnessError(f"driver answer {ans!r}")
    if same != "T":
        disagreements["parse-tree"].append({"text": text, "impl": tree_text(tree), "model": tree_text(m_tree)})
    k = "identical" if tree == m_tree else "equal-up-to-association" if same == "T" else "different"
    stats[("tree", k)] = stats.get(("tree", k), 0) + 1
    if tree != m_tree and same == "T" and ("tree-eg", 0) not in stats:
        stats[("tree-eg", 0)] = {"text": text, "impl": tree_text(tree), "model": tree_text(m_tree)}


def resolve_not_tight(chk, stats, pending, max_tokens=14, max_search=400, stop_after=10):
    """`N` answers: the implementation's tree is a reading but not itself tight.  Shortest first, look for a
    tight reading with the same truth table (each candidate is checked by the Lean relation).  None found =
    failing input.  Texts that are too long to search exhaustively are returned (reported as a broken tie)."""
    unsearched = []
    found = 0
    searched = 0
    for ntok, text, tree, m_tokens, m_tree in sorted(pending):
        if ntok > max_tokens or searched >= max_search or found >= stop_after:
            unsearched.append({"text": text, "impl": tree_text(tree), "model": tree_text(m_tree)})
            continue
        searched += 1
        w = tight_witness(text, tree, m_tokens)
        k = "N-witness" if w else "N-none"
        stats[("faithful", k)] = stats.get(("faithful", k), 0) + 1
        if w is None:
            found += 1
            chk.add_failure({"text": text, "codepoints": enc_text(text)}, {"what": "the returned tree is a bracketing of the text but no reading in which | is loosest has its truth table", "returned": tree_text(tree), "model_tree": tree_text(m_tree)})
    return unsearched


def nontrivial_key(m_tokens):
    ws = m_tokens.split()
    ops = [w for w in ws if w in "&|^"]
    if len(ops) >= 2 or ("~" in ws and ops):
        return True
    return False


def self_test(chk):
    """The relation evaluated on the implementation's tree must be able to say no: fixed wrong trees."""
    cases = [
        ("a | b & c", "& | v:61 v:62 v:63", "N"),  # a bracketing, but | is not loosest (and no tight reading has its table)
        ("a | a & a", "& | v:61 v:61 v:61", "N"),  # not tight itself, but a tight reading with the same table exists
        ("~a & b", "~ & v:61 v:62", "F"),  # ~ takes more than its operand
        ("(a | b) & c", "| v:61 & v:62 v:63", "F"),  # a group is torn apart
        ("a & b", "& v:62 v:61", "F"),  # order
        ("foo & b", "& v:66 v:62", "F"),  # name not verbatim
        ("a & b", "| v:61 v:62", "F"),  # operator changed
        ("true & b", "& v:74.72.75.65 v:62", "F"),  # constant read as a name
        ("a & b ^ c", "& v:61 ^ v:62 v:63", "T"),
        ("a & b ^ c", "^ & v:61 v:62 v:63", "T"),  # the property leaves & against ^ open
        ("a | b | c", "| v:61 | v:62 v:63", "T"),  # ... and associativity
        ("~(a & b) | c", "| ~ & v:61 v:62 v:63", "T"),
    ]
    ans = driver.run([f"case\t{enc_text(s)}\t{t}" for s, t, _ in cases], **EXE)
    bad = []
    for (s, t, want), a in zip(cases, ans):
        got = a.split("\t")[3][len("faithful=") :] if "\t" in a else a
        if got != want:
            bad.append({"text": s, "tree": t, "want": want, "got": got})
    w1 = tight_witness("a | b & c", "& | v:61 v:62 v:63", "n:61 | n:62 & n:63")
    w2 = tight_witness("a | a & a", "& | v:61 v:61 v:61", "n:61 | n:61 & n:61")
    if w1 is not None or w2 is None:
        bad.append({"witness-search": [w1, w2]})
    chk.add_corr("selftest/faithful-relation-discriminates", len(cases) + 2, bad)


def main(tier):
    chk = Check("C14", tier)
    chk.prove(modules=["PyPred.Props.C14", "PyPred.Props.C14G"], checker=(tier == "thorough"), exes=("driver_parser", "driver_grammar"))
    procs = int(os.environ.get("VERIF_PROCS", "0")) or min(16, os.cpu_count() or 1)
    items, dist = gen_inputs(tier, chk.seed)
    # de-duplicate texts (keep the first stream / intended tokens)
    seen = {}
    for st, s, intended in items:
        if s not in seen:
            seen[s] = (st, intended)
    texts = list(seen)
    # fully parenthesised prints of all trees (text comes from the model's printer)
    kmax = 6 if tier == "quick" else 7
    trees = []
    for k in range(1, kmax + 1):
        lv = ["v:61", "v:66.6f.6f", "T", "F"] if k <= 5 else ["v:61", "v:66.6f.6f", "T"] if k == 6 else ["v:61", "T"]
        trees += list(trees_exact(k, lv))
    printed = driver.run([f"printfull\t{t}" for t in trees], **EXE)
    pf_texts = []
    for t, w in zip(trees, printed):
        if w.startswith("ERR"):
            raise HarnessError(f"printfull {t}: {w}")
        pf_texts.append(dec_text(w))
    all_texts = texts + pf_texts
    impl = run_impl_many(all_texts, procs)
    # the model: lexer, parser, scanner, and the relation on the implementation's tree
    reqs = []
    for s, r in zip(all_texts, impl):
        reqs.append(f"case\t{enc_text(s)}\t{r[1] if r[0] == 'tree' else '-'}")
    answers = driver.run(reqs, **EXE)
    stats = {}
    dis = {"wellFormed-vs-parse": [], "lex-vs-intended-tokens": [], "parse-tree": [], "printfull-roundtrip": []}
    n_acc = 0
    n_iso = 0
    for i, (s, r, a) in enumerate(zip(all_texts, impl, answers)):
        if i < len(texts):
            st, intended = seen[s]
        else:
            st, intended = "printfull", None
        nf = len(chk.failures)
        judge(chk, stats, st, s, intended, r, a, dis)
        if len(chk.failures) > nf and n_iso < 60:
            # does the answer depend on what the same worker parsed before?  (parsed here, where nothing was parsed yet)
            n_iso += 1
            if run_impl(s) != r:
                nchunks = max(procs * 8, min(len(all_texts) // 16, 512))
                prev = all_texts[:i] if (procs <= 1 or len(all_texts) < 64) else all_texts[i % nchunks : i : nchunks]
                for f in chk.failures[nf:]:
                    f["input"]["after"] = prev[-600:]
                    f["detail"]["history_dependent"] = "parsed on its own the same text is answered differently; `after` lists what the same process parsed before it"
        if r[0] == "tree" and a != "REJECT-LEX":
            n_acc += 1
            mt = a.split("\t")[0]
            if nontrivial_key(mt):
                chk.nontrivial.add(mt)
        if i >= len(texts):
            t = trees[i - len(texts)]
            mtree = a.split("\t")[1] if "\t" in a else None
            if mtree != t:
                dis["printfull-roundtrip"].append({"tree": t, "text": s, "model_parse": mtree})
            elif r[0] == "tree" and r[1] != t:
                chk.add_failure({"text": s, "codepoints": enc_text(s)}, {"what": "the fully parenthesised text of a tree is read as a different tree", "tree": tree_text(t), "returned": tree_text(r[1])})
    # history: order-sensitive texts, one process, sequentially (after the forked workers, so nothing above depends on it)
    hist = gen_history(tier, chk.seed)
    impl_h = []
    for k, s_ in enumerate(hist):
        r_ = run_impl(s_, spoil=(k % 3 == 0))  # every third returned tree is changed by its owner afterwards (names, values)
        impl_h.append(r_)
    ans_h = driver.run([f"case\t{enc_text(s)}\t{r[1] if r[0] == 'tree' else '-'}" for s, r in zip(hist, impl_h)], **EXE)
    for i, (s, r, a) in enumerate(zip(hist, impl_h, ans_h)):
        nf = len(chk.failures)
        judge(chk, stats, "history", s, None, r, a, dis)
        for f in chk.failures[nf:]:
            f["input"]["after"] = hist[max(0, i - 8) : i]  # the texts parsed just before, in order (the replay parses them first)
    chk.extra["history_texts"] = len(hist)
    pending = dis.pop("_pending_N", [])
    dis["impl-tree-not-tight"] = resolve_not_tight(chk, stats, pending)
    chk.extra["not_tight_answers"] = len(pending)
    self_test(chk)
    eg = stats.pop(("tree-eg", 0), None)
    n_in = sum(v for (st, io), v in stats.items() if io == "in")
    n_out = sum(v for (st, io), v in stats.items() if io == "out")
    chk.extra["tree_vs_model"] = {k: v for (st, k), v in stats.items() if st == "tree"}
    chk.extra["tree_vs_model_example_of_reassociation"] = eg
    chk.add_corr("parse (model parser vs parse_expression: accept/reject, tree up to association of equal operators)", len(all_texts), dis["parse-tree"])
    chk.add_corr("isTight on the implementation's tree (answers N that were not searched for a witness)", n_acc, dis["impl-tree-not-tight"])
    chk.add_corr("lex (model tokens vs the tokens the generator wrote)", sum(1 for s in texts if seen[s][1] is not None), dis["lex-vs-intended-tokens"])
    chk.add_corr("wellFormed scanner vs model parse acceptance", len(all_texts), dis["wellFormed-vs-parse"])
    chk.add_corr("printFull round trip through the model (lex, parse)", len(pf_texts), dis["printfull-roundtrip"])
    chk.evaluations = len(all_texts) + len(hist)
    chk.extra["inputs_by_stream"] = {f"{st}:{io}": v for (st, io), v in sorted(stats.items()) if st not in ("reject-kind", "faithful", "tree")}
    chk.extra["reject_kinds"] = {k: v for (st, k), v in stats.items() if st == "reject-kind"}
    chk.extra["in_language_texts"] = n_in
    chk.extra["out_of_language_texts"] = n_out
    chk.extra["accepted_by_implementation"] = n_acc
    chk.extra["in_language_sequences_by_length"] = dist
    chk.extra["printfull_trees"] = len(trees)
    chk.extra["procs"] = procs
    nmax = 7 if tier == "quick" else 9
    chk.rule = (
        "bounded-exhaustive: every token sequence of the expression language with <= 5 tokens over {a,b,c,foo,true,false,~,&,|,^,(,)} and every one with 6..%d tokens over "
        "three leaf slots filled in rotation from 9 leaf triples (multi-letter / upper-case names, keyword prefixes, constants), each rendered blank-separated, without blanks and "
        "(sampled) with random blanks; single-token mutants of those and random token sequences (mostly outside the language); a hand-written list of malformed texts and texts "
        "with an inserted foreign character (digits, _, tab, newline, NBSP, non-ASCII letters, combining mark, lone surrogate, astral letter); random character strings; "
        "fully parenthesised prints (by the model's printFull) of all trees <= %d nodes; random long expressions (4-%d operands); an order-sensitive history stream "
        "(a text, then texts a blank-dropping / case-folding / parenthesis-collapsing normalisation would confuse with it, parsed one after the other in one process). Each text: parse_expression vs model "
        "(accept/reject, structural tree), and the Lean relation isReading && isTight evaluated on the implementation's tree. non-trivial = distinct accepted token sequences "
        "with >= 2 binary operators or a ~ next to a binary operator." % (nmax, kmax, 22 if tier == "quick" else 30)
    )
    chk.exhaustive = False
    chk.samples = [all_texts[i] for i in (0, 7, 300, 2000, 9000, len(texts) - 1, len(all_texts) - 1) if i < len(all_texts)]
    chk.assumptions = [
        "Lark's Earley engine and its ambiguity resolution are observed, not modelled (DESIGN.md section 10): the theorems are about the language, the reference parser and the relation evaluated on Lark's output",
        "a 'parse error' is an exception of lark's UnexpectedInput / ParseError / LexError families; VisitError (an exception inside the transformer) is not",
    ]
    from . import c14g  # the Lark grammar inside the model: translator tie + Lark's own trees as derivations (stage of this check)

    c14g.stage(chk, tier, build=False)
    return chk.finish()


def replay(path):
    d = json.load(open(path))
    if d.get("kind") != "failing-input":
        print(json.dumps(d, indent=1))
        return 1
    text = dec_text(d["input"]["codepoints"])
    for prev in d["input"].get("after", []):
        run_impl(prev, spoil=True)  # (the history stream lets the caller change every third returned tree; here: every one)
    r = run_impl(text)
    a = driver.run([f"case\t{enc_text(text)}\t{r[1] if r[0] == 'tree' else '-'}"], **EXE)[0]
    print("text           :", repr(text))
    print("parse_expression:", r if r[0] != "tree" else ("tree", tree_text(r[1])))
    print("model          :", a.replace("\t", " ; "))
    chk = Check("C14", "replay")
    dis = {"wellFormed-vs-parse": [], "lex-vs-intended-tokens": [], "parse-tree": [], "printfull-roundtrip": []}
    judge(chk, {}, "replay", text, None, r, a, dis)
    resolve_not_tight(chk, {}, dis.pop("_pending_N", []), max_tokens=10**9)
    for f in chk.failures:
        print("FAILS          :", f["detail"]["what"])
    return 1 if chk.failures else 0
