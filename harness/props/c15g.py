"""C15G  The row enumeration of truth_table inside the model (a stage of C15; supports C20).

`truth_table` takes its assignments from `sorted(gray_product(*repeat((False, True), n)))`.  Lean side:
PyPred/Model/Gray.lean (`step` / `loop` / `grayProduct` = the loop of `more_itertools.gray_product`, Knuth's Algorithm H,
arm for arm on the work lists a, f, o; `pySorted` = `sorted` on tuples of bools), theorems in PyPred/Props/C15G.lean: the
loop terminates and yields the reflected mixed-radix Gray code; over n binary factors that is a permutation of all 2^n
tuples, consecutive tuples differ in one position, and `pySorted` of it is `rows n` (for every n); for any radices it lists
every index tuple once and consecutive tuples differ in one position.

`stage(chk, tier)` adds to a running check (normally C15's), through `driver_gray`:

  * `gray/mixed-radix`  -- `list(gray_product(range(m0), range(m1), ...))` (or ValueError) vs the model's loop, for ALL radix
    lists with 0..4 factors of sizes 1..4 (341 lists) plus random longer / wider ones;
  * `gray/binary`       -- `list(gray_product(*repeat((False, True), n)))` vs `grayBool n`, n = 0..12 (quick) / 16 (thorough);
  * `gray/loop-states`  -- the work lists a, f, o of the *running* library generator (read from its frame at every yield,
    nothing patched) vs the model's states: the model is the algorithm, not only its output;
  * `sorted/tuples`, `sorted/lt` -- `sorted(l)` / `a < b` on tuples of bools vs `pySorted` / `tupleLt`;
  * `combinations`      -- `sorted(gray_product(*repeat((False, True), n)))` vs the model's `rows n` (what Model/TruthTable
    uses) and vs the model's own `combinations n` = pySorted (grayBool n);
  * `truth_table/rows`  -- the enumeration as `truth_table` really uses it: `truth_table` is called on a formula over n fresh
    variables (conjunction, and a random mix of & | ^ ~) and the row tuples it yields are compared with `rows n`.  A
    deviation here is a violation of the property itself (failing input recorded), the other items are ties.

Stand-alone: `./check C15G quick|thorough`.
"""
import itertools
import random
from itertools import repeat

from .. import budget, core, driver
from ..core import Check, HarnessError

EXE = dict(exe="driver_gray", src="DriverGray.lean")
MODULES = ["PyPred.Props.C15G"]
EXES = ("driver_gray",)

# theorem names the coordinator appends to Audit/C15.lean (which then also needs `import PyPred.Props.C15G`)
AUDIT_THEOREMS = [
    "Gray.C15G_loop_reflected", "Gray.C15G_grayIdx", "Gray.C15G_gray_total", "Gray.C15G_gray_perm", "Gray.C15G_gray_length",
    "Gray.C15G_gray_each_once", "Gray.C15G_gray_adjacent", "Gray.C15G_gray_first", "Gray.C15G_tupleLt_lex",
    "Gray.C15G_pySorted_sorts", "Gray.C15G_pySorted_stable", "Gray.C15G_sorted_gray_eq_rows", "Gray.C15G_sorted_any_perm",
    "Gray.C15G_zero", "Gray.C15G_mixed_adjacent", "Gray.C15G_mixed_each_once",
]

NAMES = ["a", "b", "c", "d", "e", "B", "Z", "A", "ab", "aa", "a1", "b0", "_x", "zz", "é", "ä", "ß", "Ab", "a_", "E", "q", "Q", "x9", "x10"]


def bits(t):
    return "".join("1" if b else "0" for b in t) or "-"


def tup(t):
    return ":".join(str(x) for x in t) or "-"


def ask(lines):
    out = driver.run(lines, **EXE)
    for l, o in zip(lines, out):
        if o.startswith("ERR"):
            raise HarnessError(f"driver_gray: {o} for `{l[:80]}`")
    return out


def prod(ms):
    p = 1
    for m in ms:
        p *= m
    return p


def real_gray(ms):
    """`list(gray_product(range(m0), ...))` printed like the driver prints it, or the exception's type name."""
    from more_itertools import gray_product

    try:
        r, _ = budget.limited(lambda: list(gray_product(*[range(m) for m in ms])), 60 * prod(ms) + 20_000)
    except budget.Starved:
        return "Starved"
    except Exception as e:  # noqa: BLE001
        return type(e).__name__
    return " ".join(tup(t) for t in r)


def real_binary(n):
    from more_itertools import gray_product

    r, _ = budget.limited(lambda: list(gray_product(*repeat((False, True), n))), 60 * 2**n + 20_000)
    return r


def real_states(ms):
    """The work lists of the running generator at every yield: `a|f|o` words, or None when the frame cannot be read."""
    from more_itertools import gray_product

    def go():
        g = gray_product(*[range(m) for m in ms])
        out = []
        for _ in g:
            fr = getattr(g, "gi_frame", None)
            loc = fr.f_locals if fr is not None else {}
            if not all(k in loc for k in ("a", "f", "o")):
                return None
            out.append("|".join(tup(loc[k]) for k in ("a", "f", "o")))
        return out

    r, _ = budget.limited(go, 200 * prod(ms) + 20_000)
    return r


def radix_lists(rng, tier):
    small = [list(ms) for k in range(5) for ms in itertools.product((1, 2, 3, 4), repeat=k)]
    extra = []
    for _ in range(40 if tier == "quick" else 300):
        k = rng.randint(1, 7)
        ms = [rng.choice((2, 2, 3, 4, 5, 6, 7)) for _ in range(k)]
        if rng.random() < 0.1:
            ms[rng.randrange(k)] = rng.choice((0, 1))
        if prod([max(m, 1) for m in ms]) <= 20000:
            extra.append(ms)
    extra += [[17], [2, 9], [9, 2], [5, 5, 5], [2] * 9 + [3], [3] + [2] * 9, [0], [0, 2], [2, 0, 3]]
    return small, extra


def formula(rng, vs, mixed):
    """A formula over all of the variable objects `vs` (each at least once)."""
    from predicate import always_true_p

    if not vs:
        return always_true_p
    leaves = list(vs)
    if mixed:
        leaves += [rng.choice(vs) for _ in range(rng.randint(0, 3))]
        rng.shuffle(leaves)
    p = leaves[0]
    for q in leaves[1:]:
        op = rng.choice("&|^") if mixed else "&"
        if mixed and rng.random() < 0.2:
            q = ~q
        p = (p & q) if op == "&" else (p | q) if op == "|" else (p ^ q)
    return p


def tt_rows(n, names, mixed, seed):
    """The row tuples `truth_table` yields for a formula over n fresh variables.  -> (list of tuples | None, status)"""
    from predicate.named_predicate import NamedPredicate
    from predicate.truth_table import truth_table

    rng = random.Random(seed)
    vs = [NamedPredicate(name=nm, v=bool(rng.randint(0, 1))) for nm in names]
    p = formula(rng, vs, mixed)
    items, status = budget.take(lambda: truth_table(p), 2**n + 1, 400 * (n + 4) + 20_000 + 80 * 2**n)
    rows = []
    for it in items:
        if not (isinstance(it, tuple) and len(it) == 2 and isinstance(it[0], tuple) and all(type(b) is bool for b in it[0])):
            return None, f"item {it!r} is not (tuple of bools, value)"
        rows.append(it[0])
    return rows, status


def check_tt_case(case):
    """-> None when `truth_table` enumerates `rows n` for this case, else a description."""
    n, names, mixed, seed = case["n"], case["names"], case["mixed"], case["formula_seed"]
    rows, status = tt_rows(n, names, mixed, seed)
    want = list(itertools.product((False, True), repeat=n))
    if rows is None:
        return {"what": status}
    if status != "stopped":
        return {"what": f"truth_table did not stop after 2^n rows: {status}", "rows_seen": len(rows)}
    if rows != want:
        k = next((i for i, (a, b) in enumerate(zip(rows, want)) if a != b), min(len(rows), len(want)))
        return {"what": "the rows of truth_table are not the 2^n assignments in ascending order", "rows_seen": len(rows), "first_difference_at": k,
                "got": bits(rows[k]) if k < len(rows) else None, "want": bits(want[k]) if k < len(want) else None}
    return None


def stage(chk, tier, build=True):
    """Add the Gray / sorted stage to a running check.  `build`: build PyPred.Props.C15G and driver_gray first (a no-op
    when the caller's `chk.prove` already did)."""
    if build:
        ok, log = core.lean_build(MODULES, exes=EXES)
        if not ok:
            errs = [l for l in log.split("\n") if "error" in l.lower()][:10]
            chk.proof_problems.append("lake build (gray stage) failed: " + " | ".join(errs)[:1200])
            return
    from more_itertools import gray_product

    rng = random.Random(chk.seed * 7919 + 1515)
    thorough = tier == "thorough"
    nmax = 16 if thorough else 12

    # --- gray_product vs the loop model, mixed radices
    small, extra = radix_lists(rng, tier)
    lists = small + extra
    outs = ask(["gray " + " ".join(map(str, ms)) for ms in lists])
    refl = ask(["refl " + " ".join(map(str, ms)) for ms in lists])
    dis, rdis = [], []
    kinds = {"ValueError": 0, "ok": 0}
    for ms, o, rf in zip(lists, outs, refl):
        want = real_gray(ms)
        kinds["ValueError" if want == "ValueError" else "ok"] += 1
        if o != want:
            dis.append({"input": f"gray_product(*[range(m) for m in {ms}])", "model": o[:120], "implementation": want[:120]})
        elif want != "ValueError":
            if len(ms) >= 2:
                chk.nontrivial.add("gray " + tup(ms))
            if rf != o:
                rdis.append({"radices": ms, "loop": o[:120], "reflected": rf[:120]})
    chk.add_corr("gray/mixed-radix (gray_product(range(m0), ..) vs Gray.grayIdx)", len(lists), dis, note=f"all {len(small)} lists with 0..4 factors of sizes 1..4, {len(extra)} others")
    chk.add_corr("gray/loop-vs-reflected (driver cross-check of C15G_loop_reflected)", kinds["ok"], rdis)
    chk.evaluations += len(lists)

    # --- binary factors
    ns = list(range(0, nmax + 1))
    outs = ask([f"grayb {n}" for n in ns])
    rows_m = ask([f"rows {n}" for n in ns])
    comb_m = ask([f"comb {n}" for n in ns if n <= 12])
    bdis, cdis, mdis = [], [], []
    for n, o, rw in zip(ns, outs, rows_m):
        real = real_binary(n)
        if o != " ".join(bits(t) for t in real):
            bdis.append({"input": f"gray_product(*repeat((False, True), {n}))", "model": o[:120], "implementation": " ".join(bits(t) for t in real)[:120]})
        srt, _ = budget.limited(lambda real=real: sorted(real), 1_000_000)
        if rw != " ".join(bits(t) for t in srt):
            cdis.append({"input": f"sorted(gray_product(*repeat((False, True), {n})))", "model_rows": rw[:120], "implementation": " ".join(bits(t) for t in srt)[:120]})
            if srt != list(itertools.product((False, True), repeat=n)):
                chk.add_failure({"stage": "C15G", "kind": "sorted_gray", "n": n}, {"what": "sorted(gray_product(*repeat((False, True), n))) is not the ascending enumeration of the 2^n assignments"}, None)
        elif n >= 2:
            chk.nontrivial.add(f"binary {n}")
        if n <= 12 and comb_m[n] != rw:
            mdis.append({"n": n, "model_combinations": comb_m[n][:120], "model_rows": rw[:120]})
    chk.add_corr("gray/binary (gray_product(*repeat((False, True), n)) vs Gray.grayBool n)", len(ns), bdis, note=f"n = 0..{nmax}")
    chk.add_corr("combinations (sorted(gray_product(..)) vs TT.rows n)", len(ns), cdis, note=f"n = 0..{nmax}")
    chk.add_corr("combinations/model (Gray.combinations n vs TT.rows n, driver cross-check of C15G_sorted_gray_eq_rows)", len(comb_m), mdis)
    chk.evaluations += 3 * len(ns)

    # --- the work lists of the running generator
    st_lists = [list(ms) for k in range(4) for ms in itertools.product((2, 3, 4), repeat=k)] + [[2] * n for n in range(4, 9)] + [[5, 2, 3, 2], [2, 6, 2]]
    outs = ask(["states " + " ".join(map(str, ms)) for ms in st_lists])
    sdis, seen, unreadable = [], 0, 0
    for ms, o in zip(st_lists, outs):
        real = real_states(ms)
        if real is None:
            unreadable += 1
            continue
        seen += len(real)
        if o != " ".join(real):
            k = next((i for i, (x, y) in enumerate(zip(o.split(" "), real)) if x != y), 0)
            sdis.append({"input": f"gray_product(*[range(m) for m in {ms}])", "yield": k, "model_a|f|o": (o.split(" ") + ["-"])[k], "implementation_a|f|o": (real + ["-"])[k]})
    chk.add_corr("gray/loop-states (a, f, o of the running generator at every yield vs Gray.step)", len(st_lists) - unreadable, sdis, note=f"{seen} states compared; {unreadable} generators without readable frame")
    chk.extra["gray_states_compared"] = seen
    chk.evaluations += len(st_lists)

    # --- sorted / < on tuples of bools
    tuples = [tuple(t) for k in range(4) for t in itertools.product((False, True), repeat=k)]
    pairs = [(a, b) for a in tuples for b in tuples]
    outs = ask([f"lt {bits(a)} {bits(b)}" for a, b in pairs])
    ldis = [{"a": bits(a), "b": bits(b), "model": o, "implementation": "T" if a < b else "F"} for (a, b), o in zip(pairs, outs) if o != ("T" if a < b else "F")]
    chk.add_corr("sorted/lt (a < b on tuples of bools vs Gray.tupleLt)", len(pairs), ldis)
    sl = []
    for _ in range(300 if not thorough else 3000):
        k = rng.randint(0, 14)
        maxlen = rng.randint(0, 6)
        sl.append([tuple(rng.random() < 0.5 for _ in range(rng.randint(0, maxlen))) for _ in range(k)])
    sl = [l for l in sl if l]
    outs = ask(["sorted " + " ".join(bits(t) for t in l) for l in sl])
    sdis2 = []
    for l, o in zip(sl, outs):
        want = " ".join(bits(t) for t in sorted(l))
        if o != want:
            sdis2.append({"input": [bits(t) for t in l], "model": o, "implementation": want})
    chk.add_corr("sorted/tuples (sorted(l) vs Gray.pySorted)", len(sl), sdis2)
    chk.evaluations += len(pairs) + len(sl)

    # --- the enumeration as truth_table uses it
    tmax = 13 if thorough else 10
    n_cases = 0
    tdis = []
    for n in range(0, tmax + 1):
        for mixed in (False, True):
            reps = 1 if n > 8 else 2
            for _ in range(reps):
                names = rng.sample(NAMES, n) if n <= len(NAMES) else [f"v{i}" for i in range(n)]
                case = {"stage": "C15G", "kind": "truth_table_rows", "n": n, "names": names, "mixed": mixed, "formula_seed": rng.randrange(10**6)}
                bad = check_tt_case(case)
                n_cases += 1
                if bad is not None:
                    chk.add_failure(case, bad, None)
                    tdis.append({"input": case, **bad, "model": f"rows {n}"})
                elif n >= 2:
                    chk.nontrivial.add(f"truth_table rows {n} {'mixed' if mixed else 'and'}")
    chk.add_corr("truth_table/rows (row tuples yielded by truth_table over n fresh variables vs TT.rows n)", n_cases, tdis, note=f"n = 0..{tmax}")
    chk.evaluations += n_cases

    # --- is the modelled call still the one the code makes?  (informative)
    try:
        import inspect

        import predicate.truth_table as ttm

        src = inspect.getsource(ttm.truth_table)
        chk.extra["gray_tie"] = {
            "truth_table_calls_sorted_gray_product": "sorted(gray_product(" in src.replace(" ", ""),
            "gray_product_is_more_itertools": getattr(ttm, "gray_product", None) is gray_product,
        }
    except Exception as e:  # noqa: BLE001
        chk.extra["gray_tie"] = f"not inspected: {type(e).__name__}"
    chk.extra["gray_radix_lists"] = {"exhaustive_0..4_factors_sizes_1..4": len(small), "others": len(extra), **kinds}
    chk.assumptions.append(
        "gray stage: the theorems of C15G are about Gray.loop / Gray.pySorted; that these are more_itertools.gray_product and sorted is the tie above "
        "(outputs for all small radix lists and binary n up to the tier's bound, the work lists a/f/o at every yield, sorted and < on tuples of bools); "
        "Python ints in a, o are modelled as unbounded Int, list indexing a[j], f[j+1] as getD/set inside the proved bounds"
    )


def replay_case(case):
    """Re-run one recorded failing input of this stage on the current tree: 1 when it still fails, else 0."""
    kind = case.get("kind")
    if kind == "truth_table_rows":
        bad = check_tt_case(case)
        print("truth_table rows:", "deviate -- " + str(bad) if bad else "as specified")
        return 1 if bad else 0
    if kind == "sorted_gray":
        n = case["n"]
        bad = sorted(real_binary(n)) != list(itertools.product((False, True), repeat=n))
        print("sorted(gray_product(..)):", "deviates" if bad else "as specified")
        return 1 if bad else 0
    return 1


def main(tier):
    chk = Check("C15G", tier)
    chk.prove(modules=MODULES, checker=(tier == "thorough"), exes=EXES)
    stage(chk, tier, build=False)
    chk.rule = (
        "more_itertools.gray_product against the Lean model of its loop: every radix list with 0..4 factors of sizes 1..4 (sizes 0/1 give ValueError), random lists of up to 7 "
        "factors of sizes 2..7, binary factors n = 0..12 (quick) / 16 (thorough); the generator's work lists a, f, o read from its frame at every yield against the model's "
        "states; sorted / < on tuples of bools against pySorted / tupleLt (all pairs of tuples of length <= 3, random lists with duplicates and mixed lengths); "
        "sorted(gray_product(..)) against rows n; the row tuples yielded by truth_table over n fresh variables (n = 0..10 / 13, conjunction and random & | ^ ~ mix, random "
        "names) against rows n.  non-trivial = distinct agreeing radix lists with >= 2 factors, binary n >= 2, truth_table runs with n >= 2."
    )
    chk.samples = ["gray_product(range(2), range(3)) -> 0:0 1:0 1:1 0:1 0:2 1:2", "gray_product(range(3), range(1)) -> ValueError", "sorted(gray_product(*repeat((False, True), 2))) -> 00 01 10 11",
                   "a|f|o of gray_product(range(2), range(2)) at its yields -> 0:0|0:1:2|1:1 1:0|1:1:2|-1:1 1:1|0:2:2|-1:-1 0:1|2:1:2|1:-1"]
    return chk.finish()


def replay(path):
    return core.replay_by_rerun(main, path)
