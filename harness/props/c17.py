"""C17  to_dot renders a graph isomorphic to the predicate tree, with truthful labels.

Two independent things are done with every case (a predicate tree as an s-expression,
`show_optimized` off/on):

* correspondence: the Lean model `Dot.toDot` (driver_dot) against `Digraph.body` of the real
  `to_dot`, parsed back into clusters / nodes (id, name, label) / edges (from, to, style);
* the property itself on the real output, without the model: the cluster is walked together with
  the real predicate object (one node per sub-predicate, one solid edge per operand in operand
  order, nothing left over), every label is judged by a small oracle written from the property
  text, ids are disjoint across clusters, dashed edges leave reference nodes only, the second
  cluster is walked together with the real `optimize(p)`, unknown kinds raise ValueError only.

`to_dot` resolves this_p / root_p / lazy_p by walking the *caller's* frames.  Every call of the
real code is therefore made from `_real_dot`, the only harness frame that holds predicate
objects, and `_assert_clean_stack` verifies that.
"""
import inspect
import json
import random
import re

from predicate import optimize
from predicate.all_predicate import AllPredicate
from predicate.any_predicate import AnyPredicate
from predicate.comp_predicate import CompPredicate
from predicate.dict_of_predicate import DictOfPredicate
from predicate.formatter.format_dot import to_dot
from predicate.has_key_predicate import HasKeyPredicate
from predicate.has_length_predicate import HasLengthPredicate
from predicate.is_instance_predicate import IsInstancePredicate
from predicate.lazy_predicate import LazyPredicate
from predicate.named_predicate import NamedPredicate
from predicate.predicate import (
    AlwaysFalsePredicate, AlwaysTruePredicate, AndPredicate, EqPredicate, FnPredicate, GePredicate, GtPredicate,
    IsEmptyPredicate, IsFalsyPredicate, IsNonePredicate, IsNotEmptyPredicate, IsNotNonePredicate, IsTruthyPredicate,
    LePredicate, LtPredicate, NePredicate, NotPredicate, OrPredicate, Predicate, XorPredicate,
)
from predicate.property_predicate import PropertyPredicate
from predicate.range_predicate import GeLePredicate, GeLtPredicate, GtLePredicate, GtLtPredicate
from predicate.regex_predicate import RegexPredicate
from predicate.root_predicate import RootPredicate
from predicate.set_of_predicate import SetOfPredicate
from predicate.set_predicates import (
    InPredicate, IsRealSubsetPredicate, IsRealSupersetPredicate, IsSubsetPredicate, IsSupersetPredicate, NotInPredicate,
)
from predicate.standard_predicates import PredicateFactory
from predicate.tee_predicate import TeePredicate
from predicate.this_predicate import ThisPredicate
from predicate.tuple_of_predicate import TupleOfPredicate

from .. import cases, driver, lift, optcorr, sx as S
from ..core import Check, HarnessError, open_findings

EXE, SRC = "driver_dot", "DriverDot.lean"
KF_INST = "KF-dotInstanceLabel"
KF_OPTK = "KF-dotOptimizerKinds"

# ---------------------------------------------------------------- s-expression -> real predicate

BOUND_REF, UNBOUND_REF = "the_pred", "zz_unbound_ref"
_REFS = {}  # intern id -> reference name
_KEYS = {}  # intern id -> parameter of an unknown leaf


def _ref(name):
    i = lift.intern(name)
    _REFS[i] = name
    return ("leaf", str(lift.LEAF_LAZY), str(i))


def _param(v):
    i = lift.intern(v)
    _KEYS[i] = v
    return str(i)


class _Ip:  # something with a property, for PropertyPredicate
    @property
    def flag(self):
        return True


def lower(sx, memo=None):
    """Like lift.lower, extended by the opaque kinds (leaf / box).  With a `memo` dict, structurally equal
    sub-terms become ONE shared object (the same predicate object at several positions of the tree)."""
    if memo is not None:
        key = S.show(sx)
        if key not in memo:
            memo[key] = _lower(sx, memo)
        return memo[key]
    return _lower(sx, None)


def _lower(sx, memo):
    h = S.head(sx)
    if h in ("and", "or", "xor"):
        cls = {"and": AndPredicate, "or": OrPredicate, "xor": XorPredicate}[h]
        return cls(left=lower(sx[1], memo), right=lower(sx[2], memo))
    if h in ("not", "all", "any"):
        cls = {"not": NotPredicate, "all": AllPredicate, "any": AnyPredicate}[h]
        return cls(predicate=lower(sx[1], memo))
    if h == "leaf":
        kind = int(sx[1])
        if kind == lift.LEAF_LAZY:
            return LazyPredicate(ref=_REFS[int(sx[2])])
        if kind == lift.LEAF_THIS:
            return ThisPredicate()
        if kind == lift.LEAF_ROOT:
            return RootPredicate()
        if kind == lift.LEAF_TEE:
            return TeePredicate(fn=lift.FNS[int(sx[2])])
        if kind == lift.LEAF_HAS_KEY:
            return HasKeyPredicate(key=_KEYS[int(sx[2])])
        if kind == lift.LEAF_HAS_LENGTH:
            return HasLengthPredicate(length=_KEYS[int(sx[2])])
        if kind == lift.LEAF_REGEX:
            return RegexPredicate(_KEYS[int(sx[2])])
        if kind == lift.LEAF_PROPERTY:
            return PropertyPredicate(getter=_Ip.flag)
        if kind == lift.LEAF_FACTORY:
            return PredicateFactory(factory=ThisPredicate)
        raise HarnessError(f"cannot lower {sx!r}")
    if h == "box":
        kind, params, kids = int(sx[1]), sx[2], sx[3:]
        if kind == lift.BOX_COMP:
            return CompPredicate(fn=lift.FNS[int(params[0])], predicate=lower(kids[0], memo))
        if kind == lift.BOX_DICT_OF:
            ks = [lower(k, memo) for k in kids]
            return DictOfPredicate(list(zip(ks[0::2], ks[1::2])))
        if kind == lift.BOX_TUPLE_OF:
            return TupleOfPredicate([lower(k, memo) for k in kids])
        if kind == lift.BOX_SET_OF:
            return SetOfPredicate(lower(kids[0], memo))
        raise HarnessError(f"cannot lower {sx!r}")
    return lift.lower(sx)


# ---------------------------------------------------------------- the real call, from a clean stack

_stack_checked = False


def _assert_clean_stack():
    """No frame above `_real_dot` may bind a predicate or one of the reference names."""
    global _stack_checked
    fr = inspect.currentframe().f_back.f_back  # caller of _real_dot
    while fr is not None:
        for k, v in list(fr.f_locals.items()):
            if isinstance(v, Predicate) or k in (BOUND_REF, UNBOUND_REF):
                raise HarnessError(f"frame {fr.f_code.co_name} binds {k}: the frame walk of to_dot would see it")
        fr = fr.f_back
    _stack_checked = True


DEFAULTS: list = []  # (edge_attr, node_attr) of every Digraph returned, in call order


def _call_to_dot(sx, show, bind, share=False):
    """The only harness frame with predicate locals while to_dot runs: `p` (and `the_pred`, the same object)."""
    p = sx() if callable(sx) else lower(sx, {} if share else None)
    if bind:
        the_pred = p  # noqa: F841  the local that lazy_p("the_pred") resolves to
    try:
        g = to_dot(p, show_optimized=bool(show))
        # graph-level defaults matter too: an `edge [style=dashed]` default makes every parent-child edge dashed
        DEFAULTS.append((dict(g.edge_attr or {}), dict(g.node_attr or {})))
        return p, g.body, None
    except Exception as e:  # noqa: BLE001
        return p, None, e


def _real_dot(sx, show, bind, share=False):
    """Build the predicate, call to_dot, judge the output against the real objects.  Returns plain data."""
    if not _stack_checked:
        _assert_clean_stack()
    res = _call_to_dot(sx, show, bind, share)
    try:
        opt = [optimize(res[0])] if show else [None]
    except Exception as e:  # noqa: BLE001  optimize's own trouble is not C17's
        return {"skip": f"optimize raised {type(e).__name__}"}
    if res[2] is not None:
        return {"raised": type(res[2]).__name__, "message": str(res[2])[:120]}
    try:
        clusters = parse_body(res[1])
    except Exception as e:  # noqa: BLE001
        raise HarnessError(f"cannot parse Digraph.body {res[1]!r}: {e}")
    problems = judge(res[0], opt[0], clusters, show)
    if DEFAULTS and DEFAULTS[-1][0].get("style") not in (None, "solid"):
        problems.append(f"graph-level edge default {DEFAULTS[-1][0]!r}: every parent-child edge without a style of its own is drawn {DEFAULTS[-1][0].get('style')}, not solid")
    return {"clusters": clusters, "problems": problems, "optimized_differs": bool(show) and opt[0] != res[0]}


# ---------------------------------------------------------------- Digraph.body -> clusters

_BARE = r"[A-Za-z_\u0080-\U0010ffff][A-Za-z_0-9\u0080-\U0010ffff]*|-?(?:\.[0-9]+|[0-9]+(?:\.[0-9]*)?)"


def _read_id(text, i):
    """One DOT ID at text[i:]: a quoted string (\\" escapes a quote) or a bare identifier / numeral.  -> (value, next index)"""
    if text[i] == '"':
        i += 1
        buf = []
        while True:
            c = text[i]
            if c == "\\" and text[i + 1] == '"':
                buf.append('"')
                i += 2
            elif c == '"':
                return "".join(buf), i + 1
            else:
                buf.append(c)
                i += 1
    m = re.compile(_BARE).match(text, i)
    if not m:
        raise ValueError(f"no DOT identifier at {text[i:i + 20]!r}")
    return m.group(0), m.end()


def _read_endpoint(text, i):
    """An edge end point `ID [: port [: compass]]` as Graphviz reads it: the node is the FIRST ID; what follows a colon is a
    port of that node (the graphviz package writes `a:b` unquoted for a tail/head name `a:b`).  -> (node id, next index)"""
    node, i = _read_id(text, i)
    while i < len(text) and text[i] == ":":
        _port, i = _read_id(text, i + 1)
    return node, i


def _parse_stmt(item):
    """-> ('node', id, attrs) | ('edge', tail id, head id, attrs) for one statement line of a cluster"""
    text = item.strip()
    first, i = _read_endpoint(text, 0)
    rest = text[i:].lstrip()
    if rest.startswith("->"):
        head, j = _read_endpoint(rest, 2 + (len(rest[2:]) - len(rest[2:].lstrip())))
        tail_attrs = rest[j:].strip()
        attrs = parse_attrs(tail_attrs[1:-1]) if tail_attrs.startswith("[") and tail_attrs.endswith("]") else {}
        if tail_attrs and not attrs and tail_attrs != "[]":
            raise ValueError(f"unexpected edge statement {item!r}")
        return ("edge", first, head, attrs)
    if rest.startswith("[") and rest.endswith("]"):
        # (a node statement names the node by the whole ID, colons included, which is why the package quotes it there)
        whole, k = _read_id(text, 0)
        return ("node", whole if text[k:].lstrip().startswith("[") else first, parse_attrs(rest[1:-1]))
    raise ValueError(f"unexpected item {item!r}")


def _kind_of_id(nid):
    m = re.match(r"^(.*)_(\d+)$", nid, re.S)
    return m.group(1) if m else None


def parse_attrs(text):
    """`k=v k="v w" …` as written by the graphviz package (quoted strings escape `"` as `\\"`)."""
    out, i, n = {}, 0, len(text)
    while i < n:
        while i < n and text[i] == " ":
            i += 1
        j = text.index("=", i)
        key = text[i:j]
        i = j + 1
        if i < n and text[i] == '"':
            i += 1
            buf = []
            while True:
                c = text[i]
                if c == "\\" and i + 1 < n and text[i + 1] == '"':
                    buf.append('"')
                    i += 2
                elif c == '"':
                    i += 1
                    break
                else:
                    buf.append(c)
                    i += 1
            out[key] = "".join(buf)
        else:
            j = i
            while j < n and text[j] != " ":
                j += 1
            out[key] = text[i:j]
            i = j
    return out


def parse_body(body):
    """Digraph.body -> clusters: nodes [(id, kind part of the id or None, label)], edges [(None, tail id, None, head id, style)].
    Ids are whole DOT node ids (strings): nothing here assumes a naming scheme."""
    clusters, cur = [], None
    for item in body:
        if item.startswith("\tsubgraph "):
            cur = {"name": item.split()[1].replace("cluster_", ""), "nodes": [], "edges": [], "title": None, "other_attrs": []}
            continue
        if item == "\t}\n":
            clusters.append(cur)
            cur = None
            continue
        if cur is None:
            raise ValueError(f"item outside a cluster: {item!r}")
        body_text = item.strip()
        if re.match(r"^[A-Za-z_]+=", body_text) and "->" not in body_text and not body_text.endswith("]"):
            a = parse_attrs(body_text)  # a graph attribute of the cluster (label, color, style, ...)
            if "label" in a:
                cur["title"] = a["label"]
            cur["other_attrs"] += [k for k in a if k != "label"]
            continue
        st = _parse_stmt(item)
        if st[0] == "edge":
            a = st[3]
            style = "dashed" if a.get("style") == "dashed" else a.get("label", "solid")
            if style not in ("solid", "key", "value", "dashed"):
                raise ValueError(f"unexpected edge label {item!r}")
            cur["edges"].append((None, st[1], None, st[2], style))
        else:
            if "label" not in st[2]:
                if st[1] in ("node", "edge", "graph"):  # default attribute statement
                    continue
                raise ValueError(f"node without a label {item!r}")
            cur["nodes"].append((st[1], _kind_of_id(st[1]), st[2]["label"]))
    return clusters


# ---------------------------------------------------------------- the property on the real output

SYM = {AndPredicate: "∧", OrPredicate: "∨", XorPredicate: "⊻", NotPredicate: "¬", AllPredicate: "∀", AnyPredicate: "∃"}
CMP = {EqPredicate: "=", NePredicate: "≠", GePredicate: "≥", GtPredicate: ">", LePredicate: "≤", LtPredicate: "<"}
SETSYM = {InPredicate: "∈", NotInPredicate: "∉", IsSubsetPredicate: "⊆", IsRealSubsetPredicate: "⊂", IsSupersetPredicate: "⊇", IsRealSupersetPredicate: "⊃"}
RANGES = {GeLePredicate: ("≤", "≤"), GeLtPredicate: ("≤", "<"), GtLePredicate: ("<", "≤"), GtLtPredicate: ("<", "<")}
WORDS = {
    AlwaysTruePredicate: "true", AlwaysFalsePredicate: "false", IsTruthyPredicate: "truthy", IsFalsyPredicate: "falsy",
    ThisPredicate: "this", RootPredicate: "root", TeePredicate: "tee", CompPredicate: "f",
}
_RANGE_RE = re.compile(r"^(.*) (≤|<) x (≤|<) (.*)$", re.S)
_SET_RE = re.compile(r"^x (\S) \{(.*)\}$", re.S)


def fn_names(f):
    if hasattr(f, "__name__"):
        return {f.__name__}  # "the function's name" (a functools.wraps wrapper is named like the function it wraps)
    return {repr(f)}  # a callable object without a name is named by its repr


def label_oracle(p, label):
    """None if `label` names the operator of `p` and shows its constants the way the property says."""
    c = type(p)
    if c in SYM:
        return None if label == SYM[c] else f"operator sign {SYM[c]!r} expected"
    if c in CMP:
        want = f"x {CMP[c]} {p.v}"
        return None if label == want else f"expected {want!r}"
    if c in RANGES:
        m = _RANGE_RE.match(label)
        if not m:
            return "not of the form '<lower> <sign> x <sign> <upper>'"
        lo, s1, s2, hi = m.groups()
        bad = []
        if lo != str(p.lower):
            bad.append(f"left bound is {lo!r}, lower is {p.lower!r}")
        if hi != str(p.upper):
            bad.append(f"right bound is {hi!r}, upper is {p.upper!r}")
        if (s1, s2) != RANGES[c]:
            bad.append(f"signs {s1}{s2}, expected {''.join(RANGES[c])}")
        return "; ".join(bad) or None
    if c in SETSYM:
        m = _SET_RE.match(label)
        if not m:
            return "not of the form 'x <sign> {…}'"
        if m.group(1) != SETSYM[c]:
            return f"sign {m.group(1)!r}, expected {SETSYM[c]!r}"
        have, want = sorted(m.group(2).split(", ")), sorted(str(i) for i in p.v) or [""]
        return None if have == want else f"members {have}, expected {want}"
    if c is CompPredicate:  # names the operator; may show the composed function
        return None if (label == "f" or label.startswith(("f:", "f ", "comp"))) else "expected 'f' (optionally followed by the function)"
    if c in WORDS:
        return None if WORDS[c] in label.lower().replace("_", " ").split() or label == WORDS[c] else f"expected a label naming {WORDS[c]!r}"
    neg = ("≠" in label) or ("not" in label.lower().split()) or ("!=" in label)
    if c is IsNonePredicate:
        return None if ("None" in label and not neg) else "expected a label saying 'is None' (e.g. 'x = None')"
    if c is IsNotNonePredicate:
        return None if ("None" in label and neg) else "expected a label saying 'is not None' (e.g. 'x ≠ None')"
    if c is IsEmptyPredicate:
        return None if "empty" in label and "not" not in label else "expected 'empty'"
    if c is IsNotEmptyPredicate:
        return None if "empty" in label and "not" in label else "expected 'not empty'"
    if c is IsInstancePredicate:
        klass = p.klass if isinstance(p.klass, tuple) else (p.klass,)
        if not (label.startswith("is_") and label.endswith("_p")):
            return "not of the form is_<classes>_p"
        missing = [k.__name__ for k in klass if k.__name__ not in label[3:-2]]
        return f"classes {missing} are not shown" if missing else None
    if c is FnPredicate:
        return None if label.startswith("fn: ") and label[4:] in fn_names(p.predicate_fn) else "function name expected"
    if c is NamedPredicate:
        return None if label == p.name else f"expected the name {p.name!r}"
    if c is LazyPredicate:
        return None if label == p.ref else f"expected the reference {p.ref!r}"
    if c is DictOfPredicate:
        return None if "dict" in label else "expected a dict_of label"
    return f"no oracle for {c.__name__}"


def operands(p):
    if isinstance(p, (AndPredicate, OrPredicate, XorPredicate)):
        return [p.left, p.right]
    if isinstance(p, (NotPredicate, AllPredicate, AnyPredicate, CompPredicate)):
        return [p.predicate]
    return []


def walk_cluster(p, cl):
    """Walk predicate and cluster together.  Returns (problems, {node id: predicate object})."""
    problems = []
    nodes = {}
    for i, _name, label in cl["nodes"]:
        if i in nodes:
            problems.append(f"node id {i} occurs twice")
        nodes[i] = label
    out = {}
    for _sn, s, _dn, d, style in cl["edges"]:
        if style != "dashed":
            out.setdefault(s, []).append((d, style))
    seen = {}

    def go(q, i, path):
        if i in seen:
            problems.append(f"{path}: node {i} reached twice (not a tree)")
            return
        if i not in nodes:
            problems.append(f"{path}: edge to a node {i} that is not in the cluster")
            return
        seen[i] = q
        kids = out.get(i, [])
        if isinstance(q, DictOfPredicate):
            w = label_oracle(q, nodes[i])
            if w:
                problems.append(f"{path}: label {nodes[i]!r}: {w}")
            pairs = q.key_value_predicates
            if len(kids) != len(pairs) or any(st != "solid" for _d, st in kids):
                problems.append(f"{path}: {len(kids)} edges for {len(pairs)} key/value pairs")
                return
            for n, ((kv, _st), (kp, vp)) in enumerate(zip(kids, pairs)):
                if kv in seen or kv not in nodes:
                    problems.append(f"{path}: pair node {kv} missing or shared")
                    continue
                seen[kv] = None
                sub = out.get(kv, [])
                if [st for _d, st in sub] != ["key", "value"]:
                    problems.append(f"{path}.pair{n}: edges {[st for _d, st in sub]}, expected one 'key' then one 'value'")
                    continue
                go(kp, sub[0][0], f"{path}.key{n}")
                go(vp, sub[1][0], f"{path}.value{n}")
            return
        w = label_oracle(q, nodes[i])
        if w:
            problems.append(f"{path}: label {nodes[i]!r} of {type(q).__name__}: {w}")
        ops = operands(q)
        if len(kids) != len(ops) or any(st != "solid" for _d, st in kids):
            problems.append(f"{path}: {len(kids)} solid edges for {len(ops)} operands")
            return
        for n, ((d, _st), op) in enumerate(zip(kids, ops)):
            go(op, d, f"{path}.{n}")

    if not cl["nodes"]:
        return ["empty cluster"], {}
    go(p, cl["nodes"][0][0], "root")
    if len(seen) != len(nodes):
        problems.append(f"{len(nodes) - len(seen)} nodes are not part of the tree")
    n_solid = sum(1 for e in cl["edges"] if e[4] != "dashed")
    if n_solid != len(seen) - 1 and not problems:
        problems.append(f"{n_solid} non-dashed edges for {len(seen)} nodes")
    for _sn, s, _dn, d, style in cl["edges"]:
        if style == "dashed":
            if not isinstance(seen.get(s), (LazyPredicate, ThisPredicate, RootPredicate)):
                problems.append(f"dashed edge leaves node {s}, which is not a reference")
            if d not in nodes:
                problems.append(f"dashed edge {s} -> {d} leaves the cluster")
    return problems, seen


def judge(p, o, clusters, show):
    problems = []
    want = ["original", "optimized"] if show else ["original"]
    if [c["name"] for c in clusters] != want:
        return [f"clusters {[c['name'] for c in clusters]}, expected {want}"]
    pr, _ = walk_cluster(p, clusters[0])
    problems += [f"original: {x}" for x in pr]
    ids0 = [n[0] for n in clusters[0]["nodes"]]
    if show:
        pr, _ = walk_cluster(o, clusters[1])
        problems += [f"optimized: {x}" for x in pr]
        ids1 = [n[0] for n in clusters[1]["nodes"]]
        if set(ids0) & set(ids1):
            problems.append(f"node ids shared by the clusters: {sorted(set(ids0) & set(ids1))}")
        for _sn, s, _dn, d, _st in clusters[1]["edges"]:
            if s in ids0 or d in ids0:
                problems.append(f"edge {s} -> {d} of the optimized cluster touches the original one")
    return problems


# ---------------------------------------------------------------- model output -> the same canonical form


def _str_const(c):
    return str(lift.decode_const(int(c)))


def tok_text(t):
    """Candidate texts of one model token (a set: canonical member order; a function: its __name__, else repr)."""
    k = t[0]
    if k == "l":
        return ["" if t[1] == "-" else bytes.fromhex(t[1]).decode("utf-8")]
    if k == "c":
        return [_str_const(t[1])]
    if k == "s":
        return ["{" + ", ".join(sorted({_str_const(c) for c in t[1:]})) + "}"]
    if k == "k":
        return [lift.CLASSES[int(t[1])].__name__]
    if k == "f":
        return sorted(fn_names(lift.FNS[int(t[1])]))
    if k == "r":
        return [_REFS[int(t[1])]]
    raise HarnessError(f"token {t!r}")


def canon_real_label(label):
    m = re.match(r"^(x \S )\{(.*)\}$", label, re.S)
    if m:
        return m.group(1) + "{" + ", ".join(sorted(m.group(2).split(", "))) + "}"
    return label


def model_clusters(answer):
    """Parse `OK (original …) (optimized …)`.  Labels become lists of alternatives (usually one)."""
    out = []
    for g in S.parse(answer[3:]):
        cl = {"name": g[0], "nodes": [], "edges": []}
        for it in g[1:]:
            if it[0] == "n":
                alts = [""]
                for t in it[3:]:
                    alts = [a + x for a in alts for x in tok_text(t)]
                cl["nodes"].append((int(it[1]), it[2], alts))
            else:
                cl["edges"].append((int(it[1]), int(it[2]), it[3]))
        out.append(cl)
    return out


def compare(real, model_answer):
    """None if the model's answer and the real outcome are the same, else a short description."""
    if "raised" in real:
        want = f"ERROR {real['raised']}"
        return None if model_answer == want else f"implementation raised {real['raised']} ({real['message']}), model {model_answer[:80]}"
    if not model_answer.startswith("OK "):
        return f"implementation rendered, model {model_answer[:80]}"
    mc = model_clusters(model_answer)
    rc = real["clusters"]
    if [c["name"] for c in mc] != [c["name"] for c in rc]:
        return "cluster names differ"
    for m, r in zip(mc, rc):
        rn = [(i, nm, canon_real_label(lb)) for i, nm, lb in r["nodes"]]
        if len(rn) != len(m["nodes"]):
            return f"{r['name']}: {len(rn)} nodes, model {len(m['nodes'])}"
        for (i, nm, lb), (mi, mnm, alts) in zip(rn, m["nodes"]):
            if i != f"{mnm}_{mi}" or lb not in alts:
                return f"{r['name']}: node {i} [{lb}], model {mnm}_{mi} {alts}"
        # Dashed (self-reference) edges are not part of the tie: which reference resolves to which node depends
        # on object identity (this_predicate.py compares with `is` since the C16 repair), which the tree model
        # does not carry.  The property only asks that dashed edges leave reference nodes and stay inside the
        # cluster; that is judged on the real output below (walk_cluster / check_cluster), not by comparison.
        mids = {mi: f"{mnm}_{mi}" for mi, mnm, _alts in m["nodes"]}
        re_ = [(s, d, st) for _sn, s, _dn, d, st in r["edges"] if st != "dashed"]
        me_ = [(mids.get(e[0], str(e[0])), mids.get(e[1], str(e[1])), e[2]) for e in m["edges"] if e[2] != "dashed"]
        if re_ != me_:
            return f"{r['name']}: edges {re_}, model {me_}"
        # an edge names its ends by whole node ids: they must be ids of declared nodes
        names = {i for i, _nm, _ in r["nodes"]}
        for _sn, s, _dn, d, _st in r["edges"]:
            if s not in names or d not in names:
                return f"{r['name']}: edge {s} -> {d} names a node that does not exist"
    return None


# ---------------------------------------------------------------- the case space

NUM = ["2", "4", "5", "-6"]  # 1, 2, 2.5, -3
STR = [str(lift.STR_BASE + lift.STR_POOL.index(x)) for x in ("a", "b", "foo")]


def atoms(sort):
    """Supported atoms with constants of one sort ('num' | 'str'), so that optimize never compares across types."""
    cs = NUM if sort == "num" else STR
    A = ["tt", "ff", "none", "notnone", "truthy", "falsy", "empty", "notempty", ("var", "a", "0"), ("var", "a", "1"), ("var", "bb", "0"), ("fn", "0"), ("fn", "1")]
    for h in ("eq", "ne", "ge", "gt", "le", "lt"):
        A += [(h, c) for c in cs]
    pairs = [(cs[0], cs[1]), (cs[1], cs[0]), (cs[0], cs[0]), (cs[2], cs[1])]
    for h in ("gele", "gelt", "gtle", "gtlt"):
        A += [(h, lo, hi) for lo, hi in pairs]
    sets = [(), (cs[0],), (cs[0], cs[1]), (cs[2], cs[0], cs[1])]
    for h in ("in", "notin", "subset", "rsubset", "superset", "rsuperset"):
        A += [(h, *s) for s in sets]
    A += [("inst", *k) for k in (("1",), ("3",), ("1", "3"), ("3", "1"), ("0", "1", "2"), ("8",), ("10",), ())]
    A += [_ref(UNBOUND_REF), ("leaf", str(lift.LEAF_TEE), "0"), ("leaf", str(lift.LEAF_TEE), "1")]
    A += [("box", "1", ("0",), ("eq", cs[0])), ("box", "1", ("1",), ("and", ("ge", cs[0]), ("var", "a", "0")))]
    A += [("box", "4", ()), ("box", "4", (), ("eq", STR[0]), ("inst", "1")), ("box", "4", (), ("inst", "3"), ("ge", cs[0]), ("eq", STR[1]), ("in", cs[0], cs[1]))]
    return A


def extra_atoms():
    """Constants outside the sorted grids (only ever alone or with show_optimized off)."""
    big = tuple(str(2 * k) for k in range(1, 13))  # 1 .. 12
    huge = tuple(str(2 * k) for k in range(1, 41))  # 1 .. 40
    return [("eq", "100000"), ("ne", "100000"), ("eq", "200000"), ("in", STR[0], "2", "5"), ("notin", "100000", "2"), ("gele", STR[0], STR[1]), ("eq", "3"), ("ge", "-1"),
            ("in", *big[:7]), ("in", *big), ("notin", *big[:8]), ("subset", *big[:9]), ("rsubset", *big), ("superset", *big[:7]), ("rsuperset", *big[:10]),
            ("in", STR[0], STR[1], STR[2], "2", "4", "6", "8", "10"),
            # every size from 13 to 17, then 25 and 40: a label names every member (or says that it does not), whatever the size
            ("in", *huge[:13]), ("notin", *huge[:13]), ("subset", *huge[:13]), ("rsubset", *huge[:14]), ("superset", *huge[:13]), ("rsuperset", *huge[:15]), ("in", *huge[:14]),
            ("in", *huge[:16]), ("notin", *huge[:17]), ("in", *huge[:25]), ("subset", *huge)]


def unknown_atoms():
    return [
        ("leaf", str(lift.LEAF_HAS_KEY), _param("a")), ("leaf", str(lift.LEAF_HAS_LENGTH), _param(2)), ("leaf", str(lift.LEAF_REGEX), _param("^a")),
        ("leaf", str(lift.LEAF_PROPERTY)), ("leaf", str(lift.LEAF_FACTORY)), ("box", "2", (), ("inst", "1")), ("box", "2", ()), ("box", "3", (), ("inst", "1")),
    ]


REF_LEAVES = lambda: [("leaf", str(lift.LEAF_THIS)), ("leaf", str(lift.LEAF_ROOT)), _ref(BOUND_REF), _ref(UNBOUND_REF), ("eq", "2")]  # noqa: E731


def ref_trees(n):
    """Every tree with at most n nodes over the reference leaves (and one ordinary atom)."""

    def wrap_comp(t):
        return ("box", "1", ("0",), t)

    out = {1: REF_LEAVES()}
    for k in range(2, n + 1):
        cur = []
        for t in out[k - 1]:
            cur += [("not", t), ("all", t), ("any", t), wrap_comp(t)]
        for i in range(1, k - 1):
            for op in ("and", "or", "xor"):
                cur += [(op, l, r) for l in out[i] for r in out[k - 1 - i]]
        out[k] = cur
    return [t for k in range(1, n + 1) for t in out[k]]


def contexts(hole):
    a = ("eq", "2")
    return [
        hole, ("not", hole), ("all", hole), ("any", hole), ("and", hole, a), ("and", a, hole), ("or", a, hole), ("xor", hole, a),
        ("box", "1", ("0",), hole), ("box", "4", (), hole, a), ("box", "4", (), a, hole), ("box", "4", (), a, a, a, hole), ("and", ("not", a), ("or", a, ("all", hole))),
    ]


def random_tree(rng, size, leaves):
    if size <= 1:
        return rng.choice(leaves)
    r = rng.random()
    if r < 0.3:
        u = rng.choice(("not", "all", "any", "comp"))
        t = random_tree(rng, size - 1, leaves)
        return ("box", "1", (str(rng.randrange(2)),), t) if u == "comp" else (u, t)
    if r < 0.38 and size >= 3:
        i = rng.randint(1, size - 2)
        return ("box", "4", (), random_tree(rng, i, leaves), random_tree(rng, size - 1 - i, leaves))
    i = rng.randint(1, max(1, size - 2))
    return (rng.choice(("and", "or", "xor")), random_tree(rng, i, leaves), random_tree(rng, max(1, size - 1 - i), leaves))


def build_cases(rng, tier):
    """[(family, sexp, bind)] — every case is run with show_optimized off and on."""
    out = []
    num, st = atoms("num"), atoms("str")
    every = num + [a for a in st if a not in num]
    for a in every + extra_atoms():
        out.append(("atom", a, False))
    for a in every:
        for u in ("not", "all", "any"):
            out.append(("unary", (u, a), False))
        out.append(("unary", ("box", "1", ("0",), a), False))
        out.append(("dict", ("box", "4", (), a, ("inst", "1")), False))
        out.append(("dict", ("box", "4", (), ("eq", STR[0]), ("tt"), ("inst", "3"), a), False))
    for grid in (num, st):
        cs = NUM if grid is num else STR
        partners = [("eq", cs[0]), ("ge", cs[1]), ("not", ("eq", cs[1])), "tt", ("var", "a", "0")]
        for a in grid:
            for b in partners:
                for op in ("and", "or", "xor"):
                    out.append(("binary", (op, a, b), False))
                    out.append(("binary", (op, b, a), False))
    small = ["tt", ("var", "a", "0"), ("eq", "2"), ("ge", "2"), ("in", "2", "4"), ("gtlt", "2", "5")]
    for t in cases.trees_upto(4 if tier == "quick" else 5, small, unary=("not", "all", "any"), binary=("and", "or", "xor")):
        out.append(("exhaustive", t, False))
    for t in ref_trees(4):
        out.append(("references", t, True))
    # the same predicate OBJECT at several positions (lowered with a memo): still one node per occurrence
    comps = [("and", ("ge", "2"), ("le", "5")), ("or", ("eq", "2"), ("var", "a", "0")), ("not", ("eq", "2")), ("all", ("ge", "2")), ("xor", ("var", "a", "0"), ("var", "bb", "0")),
             ("box", "1", ("0",), ("eq", "2")), ("box", "4", (), ("eq", STR[0]), ("inst", "1")), ("any", ("and", ("ge", "2"), ("var", "a", "0")))]
    for t in comps:
        u = ("ge", "4")
        for sh in [("or", t, ("not", t)), ("and", t, t), ("xor", t, ("all", t)), ("and", ("or", t, u), ("or", u, t)), ("or", ("and", t, u), ("not", ("and", t, u))),
                   ("box", "4", (), t, t), ("not", ("xor", t, t)), ("and", ("and", t, u), ("and", u, t)), ("or", ("any", t), ("all", t))]:
            out.append(("shared", sh, False))
    for k in range(300 if tier == "quick" else 6000):
        t = random_tree(rng, rng.randint(2, 4), num)
        out.append(("shared", (rng.choice(("and", "or", "xor")), (rng.choice(("not", "all", "any")), t), random_tree(rng, 3, [t, ("eq", "2"), ("not", t)])), False))
    n_rand = 2500 if tier == "quick" else 60000
    for k in range(n_rand):
        grid = num if k % 3 else st
        out.append(("random", random_tree(rng, rng.randint(3, 7), grid), False))
    unknown = []
    for u in unknown_atoms():
        for c in contexts(u):
            unknown.append(("unknown", c, False))
    return out, unknown


# ---------------------------------------------------------------- the check


def detect_dcfg():
    """Which variant of the two DCfg places does the repository follow?  (like optcorr.detect_cfg)"""
    r = _real_dot(("inst", "1", "3"), 0, False)
    inst = "i" if "clusters" in r and r["clusters"][0]["nodes"][0][2] == "is_int_p" else "f"
    r = [_real_dot(a, 0, False) for a in ("notnone", "empty", "notempty")]
    optk = "i" if all(x.get("raised") == "ValueError" for x in r) else "f"
    return inst + optk


OPT_KINDS = ("notnone", "empty", "notempty")


def has_opt_kind(sx):
    return any(t in OPT_KINDS for t in S.subterms(sx))


def extras():
    """Real objects outside the wire format: judged on the real output only (walk + label oracle)."""
    import functools
    import math

    from predicate import all_p, eq_p, fn_p, ge_p, in_p, is_int_p, is_list_of_p, is_none_p, lazy_p, ne_p
    from predicate import comp_p as comp_p_
    from predicate.standard_predicates import is_finite_p, is_str_p
    from predicate.str_predicates import is_alpha_p

    def named(x):
        return bool(x)

    class Callable_:
        def __call__(self, x):
            return True

    return [
        ("fn builtin math.isfinite", lambda: fn_p(math.isfinite)), ("fn method descriptor str.isalpha", lambda: fn_p(str.isalpha)),
        ("is_finite_p", lambda: is_finite_p), ("is_alpha_p", lambda: is_alpha_p), ("fn lambda", lambda: fn_p(lambda x: x)), ("fn def", lambda: fn_p(named)),
        ("fn functools.partial", lambda: fn_p(functools.partial(named))), ("fn callable object", lambda: fn_p(Callable_())), ("fn builtin len", lambda: fn_p(len)),
        ("is_finite_p & ge 0", lambda: is_finite_p & ge_p(0)), ("~is_alpha_p | is_none_p", lambda: ~is_alpha_p | is_none_p), ("all(is_finite_p)", lambda: all_p(is_finite_p)),
        ("eq True", lambda: eq_p(True)), ("eq 1.0", lambda: eq_p(1.0)), ("ne 'a\"b'", lambda: ne_p('a"b')), ("eq 'two words'", lambda: eq_p("two words")),
        ("in {True, 'x y'}", lambda: in_p(True, "x y")), ("named 'x y'", lambda: NamedPredicate(name="x y")), ("named 'node' (DOT keyword)", lambda: NamedPredicate(name="node")),
        ("lazy 'node'", lambda: lazy_p("node")), ("lazy 'digraph'", lambda: lazy_p("digraph")), ("named '∧'", lambda: NamedPredicate(name="∧")),
        ("is_list_of_p(is_int_p)", lambda: is_list_of_p(is_int_p)), ("is_str_p | all(lazy unbound)", lambda: is_str_p | all_p(lazy_p(UNBOUND_REF))),
        ("ge_le 1.5 'z' (mixed)", lambda: GeLePredicate(lower=1.5, upper="z")), ("gt_lt None None", lambda: GtLtPredicate(lower=None, upper=None)),
        # constants whose shortest spelling is long / tiny: a label shows the constant, not a rounding of it
        ("eq 1e-12", lambda: eq_p(1e-12)), ("gt 0.1+0.2", lambda: GtPredicate(v=0.1 + 0.2)), ("ne 1/3", lambda: ne_p(1 / 3)), ("le -2.5e-11", lambda: LePredicate(v=-2.5e-11)),
        ("ge_le 0.1+0.2 0.3", lambda: GeLePredicate(lower=0.1 + 0.2, upper=0.3)), ("gt_lt 1e-11 2e-11", lambda: GtLtPredicate(lower=1e-11, upper=2e-11)),
        ("ge_lt 1e300 1.0000000000000002e300", lambda: GeLtPredicate(lower=1e300, upper=1.0000000000000002e300)), ("in {1e-12, 2.5}", lambda: in_p(1e-12, 2.5)),
        ("eq 2**70+1", lambda: eq_p(2**70 + 1)), ("ge -0.0", lambda: ge_p(-0.0)),
        # sets whose members are equal across types, drawn one after the other in this process (and side by side in one tree)
        ("in {1, 2}", lambda: in_p(1, 2)), ("in {True, 2}", lambda: in_p(True, 2)), ("in {1.0, 2}", lambda: in_p(1.0, 2)), ("in {0.0, 3} | in {0, 3}", lambda: in_p(0.0, 3) | in_p(0, 3)),
        ("subset {False} & subset {0}", lambda: IsSubsetPredicate({False}) & IsSubsetPredicate({0})),
        # names that are not DOT identifiers, on nodes that have a parent (an edge end point is parsed with port syntax node:port)
        ("~named 'ns:p' & named 'q'", lambda: ~NamedPredicate(name="ns:p") & NamedPredicate(name="q")), ("all(lazy 'a:b') | named 'c:d:e'", lambda: all_p(lazy_p("a:b")) | NamedPredicate(name="c:d:e")),
        # parameters that are themselves predicates (a predicate is a callable: comp_p(is_str_p, ...); a constant may be one): they are
        # parameters, not operands -- no edge, no extra subtree
        ("comp_p(is_str_p, eq False)", lambda: comp_p_(is_str_p, eq_p(False))), ("~comp_p(is_int_p | is_str_p, eq True) & is_none_p", lambda: ~comp_p_(is_int_p | is_str_p, eq_p(True)) & is_none_p),
        ("all(comp_p(is_none_p, is_int_p))", lambda: all_p(comp_p_(is_none_p, is_int_p))), ("eq <predicate is_int_p>", lambda: eq_p(is_int_p)), ("ne <predicate is_int_p | is_str_p> | is_none_p", lambda: ne_p(is_int_p | is_str_p) | is_none_p),
        ("fn_p(is_int_p)", lambda: fn_p(is_int_p)),
        ("named 'x -> y' ^ named 'n\"q'", lambda: NamedPredicate(name="x -> y") ^ NamedPredicate(name='n"q')), ("~named 'a b'", lambda: ~NamedPredicate(name="a b")),
    ]


def is_kf_inst(sx):
    """The narrow identification of K9: an is_instance node with a class tuple of length != 1."""
    return any(S.head(t) == "inst" and len(t) != 2 for t in S.subterms(sx))


def main(tier):
    chk = Check("C17", tier)
    chk.prove(checker=(tier == "thorough"), exes=("driver", EXE))
    rng = random.Random(chk.seed)
    cfg, _detail = optcorr.detect_cfg()
    dcfg = detect_dcfg()
    chk.extra["optimizer_cfg"] = cfg
    chk.extra["instance_label_variant"] = {"i": "pinned: first class only (K9)", "f": "all class names joined"}[dcfg[0]]
    chk.extra["optimizer_kinds_variant"] = {"i": "pinned: is_not_none_p / is_empty_p / is_not_empty_p have no arm", "f": "arms present"}[dcfg[1]]
    kf_open = {f["id"] for f in open_findings("C17")}
    supported, unknown = build_cases(rng, tier)
    if dcfg[1] == "i":  # the three kinds have no arm: trees containing them are unknown-kind cases
        unknown = [("unknown", sx, b) for _f, sx, b in supported if has_opt_kind(sx)] + unknown
        supported = [c for c in supported if not has_opt_kind(c[1])]
    bound = str(lift.intern(BOUND_REF))
    reqs, meta = [], []
    for fam, sx, bind in supported + unknown:
        for show in (0, 1):
            reqs.append(f"dot {show} {cfg} {dcfg} ({bound if bind else ''}) {S.show(sx)}")
            meta.append((fam, sx, bind, show))
    answers = driver.run(reqs, exe=EXE, src=SRC)
    dis = {}
    fam_count, skipped, raised_unknown, n_nodes = {}, 0, 0, 0
    for (fam, sx, bind, show), ans in zip(meta, answers):
        text = S.show(sx)
        if ans.startswith(("ERR ", "FUEL")):
            raise HarnessError(f"driver_dot answered {ans!r} for {text}")
        real = _real_dot(sx, show, bind, share=(fam == "shared"))
        if "skip" in real:
            skipped += 1
            continue
        chk.evaluations += 1
        fam_count[fam] = fam_count.get(fam, 0) + 1
        d = compare(real, ans)
        if d is not None:
            dis.setdefault(fam, []).append({"input": text, "show_optimized": show, "difference": d})
        key = {"input": text, "show_optimized": bool(show), "lazy_bound_in_caller": bind}
        if fam == "unknown":
            if real.get("raised") == "ValueError":
                raised_unknown += 1
            else:
                what = f"raised {real['raised']}: {real['message']}" if "raised" in real else "rendered a graph"
                chk.add_failure(key, {"what": f"a predicate kind to_dot does not list must be reported with ValueError; it {what}"}, None)
            continue
        expl = KF_INST if (dcfg[0] == "i" and KF_INST in kf_open and is_kf_inst(sx)) else None
        if "raised" in real:
            if real["raised"] == "ValueError" and show and dcfg[1] == "i" and "Unknown predicate type is_" in real["message"] and d is None:
                # model and implementation agree: optimize(p) contains a kind without an arm
                chk.add_failure(key, {"what": f"show_optimized: optimize(p) is built from a kind to_dot has no arm for: {real['message']}"}, KF_OPTK if KF_OPTK in kf_open else None)
                continue
            chk.add_failure(key, {"what": f"to_dot raised {real['raised']} on a predicate built from supported kinds: {real['message']}"}, expl if real["raised"] == "IndexError" else None)
            continue
        n_nodes += sum(len(c["nodes"]) for c in real["clusters"])
        if real["problems"]:
            only_inst = all("classes [" in x for x in real["problems"])
            chk.add_failure(key, {"what": "; ".join(real["problems"][:4])}, expl if only_inst else None)
        if real["optimized_differs"] or sum(len(c["nodes"]) for c in real["clusters"]) > 2:
            chk.nontrivial.add((text, show))
    n_extra = 0
    for desc, th in extras():
        for show in (0, 1):
            real = _real_dot(th, show, False)
            if "skip" in real:
                skipped += 1
                continue
            n_extra += 1
            chk.evaluations += 1
            key = {"input": desc, "show_optimized": bool(show), "lazy_bound_in_caller": False}
            if "raised" in real:
                chk.add_failure(key, {"what": f"to_dot raised {real['raised']} on a predicate built from supported kinds: {real['message']}"}, None)
            elif real["problems"]:
                chk.add_failure(key, {"what": "; ".join(real["problems"][:4])}, None)
    chk.extra["extra_objects_judged_on_real_output_only"] = n_extra
    # ---- a kind to_dot does not know, in a tree on which optimize() itself would raise (incomparable bounds, a function atom that
    # rejects the constant of `fn & eq`): the unknown kind is reported with ValueError, whether or not the optimized cluster is asked for
    import datetime as _dtm

    from predicate import eq_p as _eq, fn_p as _fn, ge_p as _ge, has_length_p as _hl, le_p as _le, regex_p as _rx, to_dot as _to_dot
    from predicate.standard_predicates import has_key_p as _hk

    window = lambda: _ge(_dtm.datetime(2020, 1, 1)) & _le(_dtm.date(2021, 1, 1))  # noqa: E731  optimize raises TypeError (datetime vs date)
    upper3 = lambda: _fn(str.isupper) & _eq(3)  # noqa: E731  optimize raises TypeError (str.isupper(3))
    unk_raise = [("window & has_length_p(2)", lambda: window() & _hl(2)), ("has_key_p('a') | window", lambda: _hk("a") | window()), ("upper3 | regex_p('^a')", lambda: upper3() | _rx("^a")),
                 ("~(has_length_p(1) & upper3)", lambda: ~(_hl(1) & upper3()))]
    for desc, th in unk_raise:
        for show in (False, True):
            chk.evaluations += 1
            try:
                _to_dot(th(), show_optimized=show)
                got = "returned a graph"
            except ValueError:
                continue
            except Exception as e:  # noqa: BLE001
                got = f"raised {type(e).__name__}: {e}"[:160]
            chk.add_failure({"input": desc, "show_optimized": show, "lazy_bound_in_caller": False}, {"what": "a tree with a kind to_dot does not know must be reported with ValueError; " + got}, None)
    # ---- what was drawn BEFORE does not show: Q is drawn after other predicates were drawn (among them the ones Q's lazy references
    # name, which are not part of Q's tree) and, built again from scratch, without that history; the two graphs are the same text
    hist_n, hist_bad = _drawn_before(chk)
    chk.evaluations += hist_n
    chk.extra["drawn_before_histories"] = hist_n
    for fam in sorted(fam_count):
        chk.add_corr(f"dot/{fam}", fam_count[fam], dis.get(fam, []))
    chk.extra["cases_by_family"] = fam_count
    chk.extra["skipped_because_optimize_raised"] = skipped
    chk.extra["unknown_kind_cases_raising_ValueError"] = raised_unknown
    chk.extra["nodes_walked_on_real_output"] = n_nodes
    chk.extra["kinds"] = {
        "supported": "true false named fn eq ne ge gt le lt ge_le ge_lt gt_le gt_lt in not_in subset real_subset superset real_superset none not_none truthy falsy empty not_empty "
        "is_instance lazy this root tee comp dict_of and or xor not all any",
        "unknown": "has_key has_length regex property PredicateFactory tuple_of set_of",
    }
    chk.rule = (
        "every supported atom kind at 3-8 parameter choices (numbers incl. a float and a negative, strings, None, empty string, bounds in both orders, sets of 0-3 members, "
        "class tuples of 0-3 classes in both orders, two functions, bound and unbound references) alone, under not/all/any/comp, as key and as value of dict_of, and "
        "with 5 partners under and/or/xor in both operand orders; all trees <= %d nodes over 6 leaves; all trees <= 4 nodes over this/root/lazy(bound)/lazy(unbound)/eq "
        "with a caller frame binding the reference; trees in which one composite predicate OBJECT occurs at 2-4 positions (family 'shared'); sets of 7-17, 25 and 40 members; %d random trees of 3-7 nodes over the whole grid; 8 unknown kinds in 13 positions each; everything with "
        "show_optimized off and on.  Per case: model toDot vs parsed Digraph.body (ids, names, labels with constants decoded, edges with styles, in order), and on the "
        "real output alone: walk with the real predicate (and with the real optimize(p)), label oracle, disjoint ids, dashed edges.  non-trivial = cases with more than "
        "two nodes or where optimize changed the predicate." % (4 if tier == "quick" else 5, 2500 if tier == "quick" else 60000)
    )
    pick = [i for i, m in enumerate(meta) if m[0] in ("binary", "references", "random")][:: max(1, len(meta) // 9)][:6]
    chk.samples = [f"{reqs[i]}  ->  {answers[i][:160]}" for i in pick]
    chk.assumptions = [
        "constants are compared through str() of the decoded wire constant; the grids avoid constants that are == but print differently (True/1/1.0)",
        "to_dot is called from a frame stack that binds no predicate other than its argument (checked by _assert_clean_stack); reference resolution against other caller frames is C16",
        "set members are compared as sets (Python's iteration order is not modelled)",
    ]
    return chk.finish()


def _drawn_before(chk):
    from predicate import all_p, eq_p, ge_p, is_int_p, is_none_p, is_str_p, lazy_p, le_p, to_dot

    def scenario(kind, shape, draw_first, show):
        # P: the predicate the reference names (bound in this frame, found through the caller frames of to_dot); never a part of Q
        P = {"or": lambda: is_int_p | is_str_p, "and": lambda: ge_p(1) & le_p(5), "not": lambda: ~is_none_p, "atom": lambda: eq_p(3), "all": lambda: all_p(is_int_p)}[kind]()  # noqa: N806
        if draw_first:
            to_dot(P, show_optimized=False)
            to_dot(P | is_none_p, show_optimized=show)
        Q = {  # noqa: N806
            "or": lambda: lazy_p("P") | is_none_p, "or-right": lambda: is_none_p | lazy_p("P"), "and": lambda: lazy_p("P") & eq_p(2), "not": lambda: ~lazy_p("P"),
            "all": lambda: all_p(lazy_p("P")), "nested": lambda: (is_int_p | is_str_p) & (lazy_p("P") | eq_p(3)), "no-reference": lambda: (is_int_p | is_str_p) & ~eq_p(3),
        }[shape]()
        g = to_dot(Q, show_optimized=show)
        return "\n".join(g.body)

    n, bad = 0, 0
    for kind in ("or", "and", "not", "atom", "all"):
        for shape in ("or", "or-right", "and", "not", "all", "nested", "no-reference"):
            for show in (False, True):
                n += 1
                key = {"history": f"P = <{kind}>; to_dot(P); to_dot(P | is_none_p); Q = <{shape} over lazy_p('P')>; to_dot(Q)", "show_optimized": show, "lazy_bound_in_caller": True}
                try:
                    after = scenario(kind, shape, True, show)
                    alone = scenario(kind, shape, False, show)
                except Exception as e:  # noqa: BLE001
                    chk.add_failure(key, {"what": f"to_dot raised {type(e).__name__} in a drawn-before history: {e}"[:200]}, None)
                    bad += 1
                    continue
                if after != alone:
                    la, lb = after.split("\n"), alone.split("\n")
                    diff = [x for x in la if x not in lb][:3] + ["--- without the history:"] + [x for x in lb if x not in la][:3]
                    chk.add_failure(key, {"what": "the graph of Q depends on what was drawn before it", "difference": diff}, None)
                    bad += 1
    return n, bad


def replay(path):
    d = json.load(open(path))
    print(json.dumps(d, indent=1, ensure_ascii=False))
    inp = d.get("input")
    if isinstance(inp, dict) and "input" in inp:
        unknown_atoms(), _ref(BOUND_REF), _ref(UNBOUND_REF)  # make the interned parameters known again
        r = _real_dot(S.parse1(inp["input"]), int(inp["show_optimized"]), inp.get("lazy_bound_in_caller", False))
        print("implementation now:", json.dumps({k: v for k, v in r.items() if k != "clusters"}, ensure_ascii=False))
        for c in r.get("clusters", []):
            print(c)
    return 1
