"""C07  Connectives and quantifiers evaluate truth-functionally, left to right.

The real classes are built with *instrumented* leaves: `fn_p`s (and `comp_p` / `tee_p` functions) that append
(probe id, argument) to a log and then answer True / False / raise by a table.  For every tree, input and table:
  * return value (or exception class) AND the recorded call sequence of the implementation
    == outcome and event list of the Lean effectful evaluator `evalE` (driver_pyval, request `evt`);
  * == the same tree read with plain Python `and` / `or` / `!=` / `not` / for-loops (liftv.oracle), on the real code only.
"""
import itertools
import json
import random
from collections import Counter

from .. import driver, liftv as L
from ..core import Check, HarnessError

EXE = dict(exe="driver_pyval", src="DriverPyVal.lean")

TEE, FN = 8, 9
RAISES = (ValueError, TypeError, ZeroDivisionError, KeyError)

INPUTS = [0, 1, 2, "ab", "", None, [], [1], [0, 1, 2], [2, 1, 0, 1], [[1], [0, 2]], [1, "a", 2], (0, 1), {"k": 1, "j": 0}, [[], [1]], {1, 2}, [None, 0], "cabd", ["ab", "a"], [[1], 1], ["", None],
          [1, 1, 2, 2], [1, 1.0, True], [0, False, 1]]  # runs of equal neighbours; neighbours that are equal but of different types


def leaves(nprobes):
    return [("probe", i) for i in range(nprobes)] + [("tee", TEE), ("inst", ("int",)), ("inst", ("list",)), ("ge", 1)]


UNARY = [
    lambda p: ("not", p),
    lambda p: ("all", p),
    lambda p: ("any", p),
    lambda p: ("comp", ("pf", FN, "ident"), p),
    lambda p: ("comp", ("pf", FN, "first"), p),
]
BINARY = ["and", "or", "xor"]


def trees_of_size(n, memo, lv):
    if n in memo:
        return memo[n]
    if n == 1:
        out = list(lv)
    else:
        out = []
        for t in trees_of_size(n - 1, memo, lv):
            for u in UNARY:
                out.append(u(t))
        for k in range(1, n - 1):
            for l in trees_of_size(k, memo, lv):
                for r in trees_of_size(n - 1 - k, memo, lv):
                    for b in BINARY:
                        out.append((b, l, r))
    memo[n] = out
    return out


def random_tree(rng, n, lv):
    if n <= 1:
        return rng.choice(lv)
    if n == 2 or rng.random() < 0.35:
        return rng.choice(UNARY)(random_tree(rng, n - 1, lv))
    k = rng.randint(1, n - 2)
    return (rng.choice(BINARY), random_tree(rng, k, lv), random_tree(rng, n - 1 - k, lv))


def directed():
    """Guards with real atoms on the left, the derived 'of' forms, nested guards, the list-shaped nodes."""
    i_, s_, l_ = ("inst", ("int",)), ("inst", ("str",)), ("inst", ("list",))
    p0, p1, p2 = ("probe", 0), ("probe", 1), ("probe", 2)
    D = [
        ("and", i_, ("ge", 1)), ("and", ("ge", 1), i_), ("or", ("not", i_), ("ge", 1)), ("or", ("ge", 1), ("not", i_)),
        ("and", l_, ("all", ("ge", 1))), ("and", l_, ("all", ("and", i_, ("ge", 1)))), ("and", l_, ("all", ("and", i_, p0))),
        ("or", ("and", i_, ("ge", 1)), ("and", s_, ("regex", "a"))), ("or", ("and", s_, ("regex", "a")), ("and", i_, ("ge", 1))),
        ("and", ("and", l_, ("notempty",)), ("comp", "first", ("and", i_, ("ge", 1)))),
        ("and", i_, ("and", ("ge", 0), p0)), ("and", ("and", i_, ("ge", 0)), p0), ("or", ("none",), ("and", i_, ("or", ("lt", 1), p0))),
        ("listof", p0), ("iterof", p0), ("single_or_listof", p0), ("single_or_iterof", p0), ("setof", p0),
        ("listof", ("and", i_, p0)), ("iterof", ("or", p0, p1)), ("listof", ("listof", p0)), ("all", ("all", p0)), ("any", ("all", p0)), ("all", ("any", p0)),
        ("tupleof", (p0, p1)), ("tupleof", (p0,)), ("tupleof", ()), ("tupleof", (p0, p1, p2)), ("tupleof", (i_, p0)), ("tupleof", (("all", p0), p1)),
        ("dictof", ((p0, p1),)), ("dictof", (("k", p0), ("j", p1))), ("dictof", ((s_, p0),)), ("dictof", ((p0, i_), (p1, p2))), ("dictof", ()),
        ("xor", p0, ("xor", p1, p2)), ("xor", ("and", p0, p1), ("or", p1, p2)), ("not", ("xor", p0, p1)),
        ("comp", "len", ("and", ("ge", 1), p0)), ("comp", ("pf", FN, "len"), ("and", ("ge", 1), p0)), ("comp", "values", ("all", p0)),
        ("comp", ("pf", FN, "values"), ("any", p0)), ("comp", "first", ("comp", "first", p0)),
        ("and", ("tee", TEE), p0), ("or", ("tee", TEE), p0), ("and", p0, ("tee", TEE)), ("all", ("tee", TEE)), ("any", ("tee", TEE)), ("not", ("tee", TEE)),
        ("xor", ("tee", TEE), ("tee", TEE)), ("prop", 0), ("and", ("prop", 0), ("prop", 1)), ("all", ("prop", 0)),
    ]
    # quantifiers over every kind of built-in atom (not only instrumented probes): the element test must be
    # applied to each element in turn -- e.g. any_p(eq_p("ab")) on the str "cabd" looks at 'c','a','b','d'
    atoms = [("eq", 1), ("eq", "ab"), ("eq", "a"), ("eq", ""), ("eq", None), ("eq", [1]), ("ne", 1), ("ne", "a"), ("in", (1, "a")),
             ("notin", (1, "a")), ("ge", 1), ("lt", 2), ("none",), ("notnone",), ("truthy",), ("falsy",), i_, s_, l_, ("regex", "a"),
             ("empty",), ("notempty",)]
    for a in atoms:
        for q in ("all", "any"):
            D += [(q, a), ("not", (q, a)), (q, ("not", a)), (q, (q, a)), ("and", (q, a), p0), ("or", (q, a), p0)]
    return D


def arg_closure(inputs):
    seen, out = set(), []

    def add(x, d):
        try:
            k = L.val(x)
        except L.NotInUniverse:
            return
        if k not in seen:
            seen.add(k)
            out.append(k)
        if d and isinstance(x, (list, tuple, set, dict, str)) and not (isinstance(x, str) and len(x) <= 1):
            for y in x:
                add(y, d - 1)
            if isinstance(x, dict):
                for y in x.values():
                    add(y, d - 1)
            if isinstance(x, (list, tuple)):
                add(len(x), 0)
    for x in inputs:
        add(x, 3)
        try:
            add(len(x), 0)
        except TypeError:
            pass
    return out


def make_tables(rng, n, args, nprobes):
    T = []
    # hand-made: constant answers, so that every guard scenario occurs systematically
    T.append({0: (True, {}), 1: (False, {}), 2: (("raise", ValueError), {}), 3: (True, {L.val(0): False, L.val([]): False}), TEE: (False, {}), FN: (True, {})})
    T.append({0: (False, {L.val(1): True, L.val([1]): True}), 1: (True, {L.val(2): ("raise", TypeError)}), 2: (False, {L.val(0): True}), 3: (("raise", KeyError), {L.val(1): True}),
              TEE: (True, {L.val(2): ("raise", ZeroDivisionError)}), FN: (True, {L.val([]): ("raise", ValueError)})})
    while len(T) < n:
        t = {}
        for i in list(range(nprobes)) + [TEE, FN]:
            rare = i in (TEE, FN)
            default = rng.random() < 0.5
            cases = {}
            for k in args:
                u = rng.random()
                if u < (0.08 if rare else 0.12):
                    cases[k] = ("raise", rng.choice(RAISES))
                elif u < 0.55:
                    cases[k] = rng.random() < 0.5
            t[i] = (default, cases)
        T.append(t)
    return T


def leaf_ids(s, acc):
    h = s[0]
    if h in ("probe", "prop", "tee"):
        acc.add(s[1])
    elif h in ("and", "or", "xor"):
        leaf_ids(s[1], acc)
        leaf_ids(s[2], acc)
    elif h in ("not", "all", "any", "setof", "listof", "iterof", "single_or_listof", "single_or_iterof"):
        leaf_ids(s[1], acc)
    elif h == "comp":
        if not isinstance(s[1], str):
            acc.add(s[1][1])
        leaf_ids(s[2], acc)
    elif h == "tupleof":
        for k in s[1]:
            leaf_ids(k, acc)
    elif h == "dictof":
        for k, v in s[1]:
            if not isinstance(k, str):
                leaf_ids(k, acc)
            leaf_ids(v, acc)
    return acc


def ops(s, c):
    h = s[0]
    c[h] += 1
    if h in ("and", "or", "xor"):
        ops(s[1], c)
        ops(s[2], c)
    elif h in ("not", "all", "any", "setof", "listof", "iterof", "single_or_listof", "single_or_iterof"):
        ops(s[1], c)
    elif h == "comp":
        ops(s[2], c)
    elif h == "tupleof":
        for k in s[1]:
            ops(k, c)
    elif h == "dictof":
        for k, v in s[1]:
            if not isinstance(k, str):
                ops(k, c)
            ops(v, c)


class Runner:
    def __init__(self, chk, tables):
        self.chk = chk
        self.tables = tables
        self.wires = [L.Recorder(t).wire() for t in tables]
        self.reqs, self.exp, self.meta = [], [], []
        self.hist_out, self.hist_len, self.hist_size, self.hist_ops = Counter(), Counter(), Counter(), Counter()
        self.skipped_calls = 0
        self.has_oracle = True

    def case(self, spec, pw, p, o, rec, rec2, ti, x, ids):
        rec.table = rec2.table = self.tables[ti]
        rec.log.clear()
        r = L.run(p, x)
        log = list(rec.log)
        line = L.outcome_wire(r) + " ; " + " ".join(f"({i} {k})" for i, k in log)
        self.reqs.append(f"evtn {ti} {pw} {L.val(x)}")
        self.exp.append(line)
        self.meta.append((spec, x, ti))
        self.hist_out[L.outcome_wire(r) if r[0] != "raised" else "raised"] += 1
        self.hist_len[min(len(log), 12)] += 1
        called = {i for i, _ in log}
        if (ids - called) or r[0] == "raised" or len(log) >= 3:
            self.chk.nontrivial.add((pw, ti, L.val(x)))
        if ids - called:
            self.skipped_calls += 1
        if o is not None:
            rec2.log.clear()
            e = L.run(o, x)
            if e != r or rec2.log != log:
                self.chk.add_failure({"predicate": L.show(spec), "spec": repr(spec), "value": repr(x), "table": L.table_to_json(self.tables[ti])},
                                     {"what": "value or call sequence differs from the plain-Python reading (left-to-right, short-circuit)",
                                      "implementation": line, "plain_python": L.outcome_wire(e) + " ; " + " ".join(f"({i} {k})" for i, k in rec2.log)}, None)

    def tree(self, spec, combos):
        rec, rec2 = L.Recorder(), L.Recorder()
        pw = L.sexp(spec)
        p = L.real(spec, rec)
        o = None if _has_dictof(spec) else L.oracle(spec, rec2)
        ids = leaf_ids(spec, set())
        self.hist_size[L.size(spec)] += 1
        ops(spec, self.hist_ops)
        for ti, x in combos:
            self.case(spec, pw, p, o, rec, rec2, ti, x, ids)

    def flush(self, name):
        pre = [f"deftable {w}" for w in self.wires]
        out = driver.run(pre + self.reqs, **EXE)
        if out[: len(pre)] != [str(k) for k in range(len(pre))]:
            raise HarnessError(f"driver_pyval did not register the probe tables: {out[:len(pre)]}")
        out = out[len(pre):]
        dis = []
        for a, b, m, q in zip(out, self.exp, self.meta, self.reqs):
            if a.strip() != b.strip():
                dis.append({"predicate": L.show(m[0]), "spec": repr(m[0]), "value": repr(m[1]), "table": self.wires[m[2]], "model": a.strip(), "implementation": b.strip()})
        self.chk.add_corr(name, len(self.reqs), dis)
        self.chk.evaluations += len(self.reqs)
        n = len(self.reqs)
        sample = [f"{self.reqs[k]}  ->  {out[k]}" for k in (n // 7, n // 3, n // 2, (2 * n) // 3, n - 3) if 0 <= k < n]
        self.reqs, self.exp, self.meta = [], [], []
        return sample


def _has_dictof(s):
    if s[0] == "dictof":
        return True
    if s[0] in ("and", "or", "xor"):
        return _has_dictof(s[1]) or _has_dictof(s[2])
    if s[0] in ("not", "all", "any", "setof", "listof", "iterof", "single_or_listof", "single_or_iterof"):
        return _has_dictof(s[1])
    if s[0] == "comp":
        return _has_dictof(s[2])
    if s[0] == "tupleof":
        return any(_has_dictof(k) for k in s[1])
    return False


def main(tier):
    chk = Check("C07", tier)
    chk.prove(checker=(tier == "thorough"), exes=("driver_pyval",))
    rng = random.Random(chk.seed)
    thorough = tier == "thorough"
    nprobes = 4 if thorough else 3
    lv = leaves(nprobes)
    args = arg_closure(INPUTS)
    tables = make_tables(rng, 6 if thorough else 4, args, 4)
    run = Runner(chk, tables)
    all_combos = [(ti, x) for ti in range(len(tables)) for x in INPUTS]
    samples = []

    # directed: every combination
    for spec in directed():
        run.tree(spec, all_combos)
    samples += run.flush("evalE/directed-guards-and-of-forms")

    # bounded-exhaustive
    memo = {}
    full_upto = 4 if not thorough else 4
    for n in range(1, full_upto + 1):
        for spec in trees_of_size(n, memo, lv):
            run.tree(spec, all_combos if n <= 3 else rng.sample(all_combos, 24 if not thorough else len(all_combos)))
    samples += run.flush(f"evalE/all-trees-upto-{full_upto}-nodes")
    t5 = trees_of_size(5, memo, lv)
    chosen = t5 if thorough else rng.sample(t5, 12000)
    for spec in chosen:
        run.tree(spec, rng.sample(all_combos, 8 if thorough else 3))
    samples += run.flush("evalE/trees-of-5-nodes" + ("" if thorough else "-sample"))
    chk.extra["trees_of_5_nodes_total"] = len(t5)
    chk.extra["trees_of_5_nodes_run"] = len(chosen)

    # structured random: deeper trees
    for _ in range(60000 if thorough else 4000):
        n = rng.randint(6, 7 if not thorough else 9)
        run.tree(random_tree(rng, n, lv), rng.sample(all_combos, 3))
    samples += run.flush("evalE/random-trees-6-to-%d-nodes" % (9 if thorough else 7))

    # ---- quantifiers and connectives over the library's REAL atoms on collections of every shape (ranges with steps, iterators,
    # deques, dict views, strings, sets, generators): all_p / any_p are Python's all() / any() over the elements -- no model here, the
    # oracle is the plain-Python reading of the property
    import collections as _c

    import predicate as _P7

    elem = [("ge_p(3)", _P7.ge_p(3)), ("gt_p(0)", _P7.gt_p(0)), ("le_p(8)", _P7.le_p(8)), ("lt_p(5)", _P7.lt_p(5)), ("eq_p(0)", _P7.eq_p(0)), ("ne_p(4)", _P7.ne_p(4)), ("pos_p", _P7.pos_p),
            ("neg_p", _P7.neg_p), ("zero_p", _P7.zero_p), ("is_none_p", _P7.is_none_p), ("is_int_p", _P7.is_int_p), ("is_falsy_p", _P7.is_falsy_p), ("in_p(0, 4)", _P7.in_p(0, 4)),
            ("ge_le_p(2, 6)", _P7.ge_le_p(2, 6)), ("is_str_p", _P7.is_str_p), ("ge_p(3) & le_p(8)", _P7.ge_p(3) & _P7.le_p(8)), ("lt_p(0) | gt_p(6)", _P7.lt_p(0) | _P7.gt_p(6))]
    colls = [("range(0, 10, 4)", lambda: range(0, 10, 4)), ("range(10, 0, -1)", lambda: range(10, 0, -1)), ("range(10, 0, -3)", lambda: range(10, 0, -3)), ("range(1, 10)", lambda: range(1, 10)),
             ("range(0)", lambda: range(0)), ("range(5, 5, 2)", lambda: range(5, 5, 2)), ("range(-6, 7, 6)", lambda: range(-6, 7, 6)), ("range(3, 4)", lambda: range(3, 4)),
             ("[3, 0, 5]", lambda: [3, 0, 5]), ("[1, None]", lambda: [1, None]), ("['', 7]", lambda: ["", 7]), ("[0, 0.0, False]", lambda: [0, 0.0, False]), ("[]", lambda: []), ("()", lambda: ()),
             ("iter([4, 0])", lambda: iter([4, 0])), ("(x for x in (9, 3))", lambda: (x for x in (9, 3))), ("deque([5, 6])", lambda: _c.deque([5, 6])), ("{0, 4}", lambda: {0, 4}), ("frozenset({7})", lambda: frozenset({7})),
             ("{3: 'a', 9: 'b'}.keys()", lambda: {3: "a", 9: "b"}.keys()), ("{'k': 0}.values()", lambda: {"k": 0}.values()), ("'ab'", lambda: "ab"), ("map(abs, [-4, 4])", lambda: map(abs, [-4, 4])),
             ("[None]", lambda: [None]), ("[[], 0]", lambda: [[], 0])]

    def _py(q, fn, coll):
        try:
            return ("ok", fn(bool(q(x)) for x in coll))
        except Exception as e:  # noqa: BLE001
            return ("raised", type(e).__name__)

    def _lib(p_, coll):
        try:
            return ("ok", p_(coll))
        except Exception as e:  # noqa: BLE001
            return ("raised", type(e).__name__)

    real_n = 0
    for (de, q), (dc, mk) in itertools.product(elem, colls):
        for dq, quant, fn in (("all_p", _P7.all_p, all), ("any_p", _P7.any_p, any)):
            real_n += 1
            got, want = _lib(quant(q), mk()), _py(q, fn, mk())
            if got != want and not (got[0] == "raised" and want[0] == "raised"):
                chk.add_failure({"predicate": f"{dq}({de})", "input": dc}, {"what": f"{dq} differs from Python's {fn.__name__}() over the elements", "implementation": list(got), "plain_python": list(want)}, None)
    chk.evaluations += real_n
    chk.extra["real_atom_quantifier_cases"] = real_n
    chk.extra["probes"] = nprobes
    chk.extra["tables"] = len(tables)
    chk.extra["inputs"] = [repr(x) for x in INPUTS]
    chk.extra["tree_size_histogram"] = dict(sorted(run.hist_size.items()))
    chk.extra["node_kind_histogram"] = dict(run.hist_ops)
    chk.extra["outcome_histogram"] = dict(run.hist_out)
    chk.extra["calls_recorded_histogram"] = {str(k): v for k, v in sorted(run.hist_len.items())}
    chk.extra["cases_where_an_instrumented_leaf_was_not_called"] = run.skipped_calls
    chk.rule = (
        "trees over %d instrumented fn_p probes, an instrumented tee_p, the real atoms is_int_p / is_list_p / ge_p(1), with & | ^ ~, all_p, any_p and comp_p over instrumented "
        "identity / x[0]: ALL trees with <= 3 nodes x %d inputs x %d answer tables, all trees with 4 nodes and %s of the %d trees with 5 nodes on sampled (input, table) pairs, "
        "random trees with 6-%d nodes; plus %d directed trees (type guard left of a raising operand in both orders, nested guards, is_list_of_p / is_iterable_of_p / single_or forms "
        "built by the library, tuple_of / set_of / dict_of over probes, instrumented getters of PropertyPredicate).  Inputs: ints, str, None, lists of length 0-4 incl. nested and "
        "mixed, a tuple, a dict, a set.  Tables make probes answer True / False / raise (4 exception classes) depending on probe and argument. "
        "Each case: implementation's return value or exception class AND its recorded call sequence == Lean evalE outcome and event list, and == plain-Python and/or/!=/not/for-loop reading. "
        "non-trivial = distinct cases in which some instrumented leaf was not called, or an exception propagated, or >= 3 calls were recorded."
        % (nprobes, len(INPUTS), len(tables), "all" if thorough else "12000", len(t5), 9 if thorough else 7, len(directed()))
    )
    chk.samples = samples[:12]
    chk.assumptions = [
        "instrumented leaves are deterministic functions of (probe id, argument); their only effect is the log",
        "the laws proved in Lean are laws of the reference evaluator evalE; their force for the classes is this correspondence plus Python's compositional call semantics",
    ]
    return chk.finish()


def replay(path):
    d = json.load(open(path))
    inp = d.get("input") or {}
    if d.get("kind") != "failing-input" or "spec" not in inp:
        print(json.dumps(d, indent=1))
        return 1
    ns = {"set": set, "True": True, "False": False, "None": None}
    spec, x = eval(inp["spec"], ns), eval(inp["value"], ns)  # noqa: S307
    table = L.table_from_json(inp["table"])
    rec, rec2 = L.Recorder(table), L.Recorder(table)
    r = L.run(L.real(spec, rec), x)
    e = L.run(L.oracle(spec, rec2), x)
    print("predicate      :", L.show(spec))
    print("value          :", repr(x))
    print("implementation :", L.outcome_wire(r), "; calls", rec.log)
    print("plain python   :", L.outcome_wire(e), "; calls", rec2.log)
    return 1 if (r != e or rec.log != rec2.log) else 0
