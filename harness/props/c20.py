"""C20  The CLI prints the truth table / JSON of the expression it was given.

Lean side: PyPred/Model/Cli.lean (click's view of the word, `parse_expression` with its two ways of
rejecting, `toPred`, `--optimize` = `optimizeT`, `table` = the drained `truth_table` generator over a heap
with one variable object per leaf, `json` = `dumps (toJson ..)`), PyPred/Model/CliDecode.lean (decoders of
both texts), theorems in PyPred/Props/C20.lean.

Tie: every generated word is given to the real `main.app` through typer's `CliRunner` (in-process, in
worker processes) as `table` / `json`, with and without `-o`, and to the compiled model (`driver_cli`);
stdout (byte for byte), the exit status and the class of stderr (the exact `Could not parse …` line / the
class of the uncaught exception / click's usage error) are compared.  Lark does not bracket chains of one
operator uniformly (C14), and `json` / `-o` show the bracketing; therefore `main.parse_expression` is
wrapped so that the tree Lark returned for the word is seen: when it differs from the reference parser's
tree it must equal it up to re-association (and be a reading of the text: Lean `sameModAssoc`, `isReading`),
and the model is then run from that tree.  For `table` without `-o` the comparison is always with the model
on the text alone (theorem C20_table_assoc_invariant).  A sample is also run as real subprocesses.

Independently of the model every real output is judged against the property by a small evaluator written
here (own tokenizer, own precedence parser): header = sorted distinct names, 2^k rows ascending, last column =
value of the expression; JSON = the tree; with `-o` the printed table / JSON has the Boolean function of the
expression under every extension of a row to the expression's names; rejected text never prints a table.
A deviation is explained by an open known finding only if model and code agree byte for byte on that
invocation and the model's trace names that quirk arm.
"""
import importlib.util
import itertools
import json
import multiprocessing as mp
import os
import random
import subprocess
import sys
from concurrent.futures import ThreadPoolExecutor

from .. import driver, optcorr
from ..core import Check, HarnessError, open_findings
from . import c14
from .c14 import dec_text, enc_text

EXE = dict(exe="driver_cli", src="DriverCli.lean")
REPO = os.environ.get("PYPRED_REPO", "/repo")
PY = "/venv/bin/python"

# expressions that reach the open xor findings through -o, and a few shapes the short sequences do not reach
FIXED = [
    "a ^ (a | b)", "a ^ (b | a)", "(a | b) ^ a", "(b | a) ^ a", "p ^ (p | q)", "foo ^ (foo | Bar)", "c ^ (b | c) & a",
    "a ^ (~a & b)", "a ^ (b & ~a)", "(~a & b) ^ a", "p ^ (~p & q)", "Zed ^ (~Zed & a)", "x | (a ^ (a | b))", "~(a ^ (a | b))",
    "a ^ (a & b)", "a ^ (b & a)", "a ^ (b & c)", "(a & b) ^ a", "a & ~a", "a | ~a", "a ^ a", "a ^ ~a", "a & a", "a | a", "(a & b) | (a & ~b)",
    "(~a & b) | (a & ~b)", "~(a & b)", "~(a | b)", "~(a ^ b)", "~~a", "~~~a", "a & true", "a | true", "a ^ true", "a & false", "a | false", "a ^ false",
    "true & true", "true ^ true", "false | false", "~true", "~false", "b | a", "b & a | B", "Z & a & M & b", "zz | Zz | zZ | ZZ", "a & ~b",
    "a & b & c ^ d", "a | b | c | d | e", "a & (b | c) & (d ^ e) | f", "(a | b) & (a | c)", "a & (a | b)", "a | (a & b)", "(a & b) | (~a & ~b)",
    "true", "false", "a", "A", "foo", "truex", "xtrue", "falsey", "tru", "( a )", "((a))", "  a  &  b  ", "a&b", "~a|b", "a^b^c", "a ^ b ^ a",
    # names that contain (or are) the English operator words: they are ordinary names of the language, and the words are not operators
    "knot & b", "cannot | a", "whatnot ^ knot", "band & nor", "not & a", "and | or", "xor ^ not", "~not", "nota & b", "a & andy", "oracle | a", "(knot ) & b", "knot &b",
    "a and b", "a or b", "not a", "a xor b", "a and not b", "nota b",
]
# words click may take for options (they all start with '-'), and near misses
OPTIONISH = [
    "-", "--", "---", "-o", "--optimize", "--help", "--hel", "--helpx", "--help ", " --help", "-h", "-a", "-oa", "-oo", "-o--help", "--optimize=1", "--help=1",
    "- a", "-a & b", "--a", "-~a", "-(a)", "- ", "-1", "-é", "--no-optimize", "-O", "--Help", "--HELP", "a-", "a -o", "a --help", " -o", " -", "~-a",
]


# ---------------------------------------------------------------- the property's own reading of a text (independent of the model)


def tokenize(s):
    """-> list of tokens ('n', name) | ('c', bool) | one of ~&|^() ; None if some character is foreign."""
    toks = []
    i = 0
    n = len(s)
    while i < n:
        c = s[i]
        if c == " ":
            i += 1
        elif c in "~&|^()":
            toks.append(c)
            i += 1
        elif ("a" <= c <= "z") or ("A" <= c <= "Z"):
            j = i
            while j < n and (("a" <= s[j] <= "z") or ("A" <= s[j] <= "Z")):
                j += 1
            w = s[i:j]
            toks.append(("c", True) if w == "true" else ("c", False) if w == "false" else ("n", w))
            i = j
        else:
            return None
    return toks


class _NoParse(Exception):
    pass


def read_expr(toks):
    """Precedence parser `|` < `&` < `^` < `~` (C14 fixes `|` loosest; `&` against `^` is the reading Lark's
    resolution produces and the model pins).  -> AST ('n',name) | ('c',b) | ('~',x) | (op,l,r); None = not in the language."""
    pos = 0

    def peek():
        return toks[pos] if pos < len(toks) else None

    def operand():
        nonlocal pos
        t = peek()
        if t is None:
            raise _NoParse
        pos += 1
        if t == "~":
            return ("~", operand())
        if t == "(":
            e = level(0)
            if peek() != ")":
                raise _NoParse
            pos += 1
            return e
        if isinstance(t, tuple):
            return t
        raise _NoParse

    OPS = ["|", "&", "^"]

    def level(k):
        nonlocal pos
        if k == 3:
            return operand()
        e = level(k + 1)
        while peek() == OPS[k]:
            pos += 1
            e = (OPS[k], e, level(k + 1))
        return e

    try:
        e = level(0)
    except _NoParse:
        return None
    return e if pos == len(toks) else None


def ast_names(e):
    if e[0] == "n":
        return {e[1]}
    if e[0] == "c":
        return set()
    return set().union(*(ast_names(x) for x in e[1:]))


def ast_eval(e, env):
    k = e[0]
    if k == "n":
        return env[e[1]]
    if k == "c":
        return e[1]
    if k == "~":
        return not ast_eval(e[1], env)
    a, b = ast_eval(e[1], env), ast_eval(e[2], env)
    return (a and b) if k == "&" else (a or b) if k == "|" else (a != b)


def ast_flat(e):
    """Chains of one operator flattened (the property says nothing about their bracketing)."""
    k = e[0]
    if k in ("n", "c"):
        return e
    if k == "~":
        return ("~", ast_flat(e[1]))
    out = []

    def go(x):
        if x[0] == k:
            go(x[1])
            go(x[2])
        else:
            out.append(ast_flat(x))

    go(e)
    return (k, tuple(out))


JSON_OPS = {"and": "&", "or": "|", "xor": "^"}


def json_to_ast(j):
    """The JSON `main.py json` may print for a propositional tree -> AST; raises ValueError on any other shape."""
    if not isinstance(j, dict) or len(j) != 1:
        raise ValueError(f"not a one-key object: {j!r}")
    ((k, v),) = j.items()
    if k == "variable":
        if not isinstance(v, str):
            raise ValueError("variable name is not a string")
        return ("n", v)
    if k == "true" and v is True:
        return ("c", True)
    if k == "false" and v is False:
        return ("c", False)
    if k == "not":
        if not isinstance(v, dict) or list(v) != ["predicate"]:
            raise ValueError("not: expected {predicate}")
        return ("~", json_to_ast(v["predicate"]))
    if k in JSON_OPS:
        if not isinstance(v, dict) or list(v) != ["left", "right"]:
            raise ValueError(f"{k}: expected left, right in this order")
        return (JSON_OPS[k], json_to_ast(v["left"]), json_to_ast(v["right"]))
    raise ValueError(f"unexpected key {k!r}")


def parse_table_text(out):
    """stdout of `table` -> (names, [(bits, value)]); raises ValueError if it is not of the printed form."""
    if not out.endswith("\n"):
        raise ValueError("does not end with a newline")
    lines = out[:-1].split("\n")
    names = lines[0].split(" ") if lines[0] != "" else []
    rows = []
    for ln in lines[1:]:
        if len(ln) < 5 or ln[-5:-1] != ":   " or ln[-1] not in "01":
            raise ValueError(f"row {ln!r}")
        left = ln[:-5]
        bits = left.split(" ") if left != "" else []
        if any(b not in ("0", "1") for b in bits):
            raise ValueError(f"row {ln!r}")
        rows.append((tuple(b == "1" for b in bits), ln[-1] == "1"))
    return names, rows


def judge_table(ast, out, opt):
    """None, or what is wrong with the printed table with respect to the property."""
    try:
        names, rows = parse_table_text(out)
    except ValueError as e:
        return {"what": f"stdout is not a table: {e}"}
    want = sorted(ast_names(ast))
    if names != sorted(set(names)):
        return {"what": "header is not sorted / has duplicates", "header": names}
    if any(n == "" for n in names):
        return {"what": "empty name in the header", "header": names}
    if not opt and names != want:
        return {"what": "header is not the sorted distinct names of the expression", "header": names, "expected": want}
    if opt and not set(names) <= set(want):
        return {"what": "the optimised table mentions a name the expression does not have", "header": names, "expected_subset_of": want}
    k = len(names)
    if len(rows) != 2**k:
        return {"what": f"{len(rows)} rows for {k} names"}
    rest = [n for n in want if n not in names]
    for i, (bits, val) in enumerate(rows):
        if len(bits) != k or sum(b << (k - 1 - j) for j, b in enumerate(bits)) != i:
            return {"what": "rows are not the assignments in ascending binary order", "row": i, "bits": bits}
        env = dict(zip(names, bits))
        for ext in itertools.product([False, True], repeat=len(rest)):
            env.update(zip(rest, ext))
            if ast_eval(ast, env) != val:
                return {"what": "last column is not the value of the expression", "assignment": {n: int(v) for n, v in env.items()}, "original_value": ast_eval(ast, env), "optimized_value" if opt else "printed_value": val}
    return None


def judge_json(ast, out, opt):
    try:
        tree = json_to_ast(json.loads(out))
    except ValueError as e:
        return {"what": f"stdout is not the JSON of a propositional tree: {e}"}
    if not opt:
        if ast_flat(tree) != ast_flat(ast):
            return {"what": "the JSON is not the rendering of the parsed tree", "json_tree": tree, "expected": ast}
        return None
    want = sorted(ast_names(ast))
    if not ast_names(tree) <= set(want):
        return {"what": "the optimised JSON mentions a name the expression does not have", "names": sorted(ast_names(tree))}
    for bits in itertools.product([False, True], repeat=len(want)):
        env = dict(zip(want, bits))
        if ast_eval(tree, env) != ast_eval(ast, env):
            return {"what": "the optimised JSON does not have the Boolean function of the expression", "assignment": {n: int(v) for n, v in env.items()}, "original_value": ast_eval(ast, env), "optimized_value": ast_eval(tree, env)}
    return None


def judge(cmd, opt, text, res):
    """The property on one real invocation (no model involved)."""
    toks = tokenize(text)
    ast = read_expr(toks) if toks is not None else None
    optionish = len(text) > 1 and text[0] == "-"
    out = res["out"]
    if ast is None or optionish:
        if out == "":
            return None
        if optionish and text == "--help" and "Usage" in out and res["exit"] == 0:
            return None
        return {"what": "text outside the language produced output on stdout", "stdout": out[:300]}
    if res["exit"] != 0 or res["exc"] is not None or res["err"] != "":
        return {"what": "an expression of the language was not rendered", "exit": res["exit"], "exception": res["exc"], "stderr": res["err"][:300]}
    return judge_table(ast, out, opt) if cmd == "table" else judge_json(ast, out, opt)


# ---------------------------------------------------------------- the implementation (worker processes)

_st = {}


def _load():
    if not _st:
        from typer.testing import CliRunner

        spec = importlib.util.spec_from_file_location("pypred_cli_main", os.path.join(REPO, "main.py"))
        mod = importlib.util.module_from_spec(spec)
        spec.loader.exec_module(mod)
        orig = mod.parse_expression
        seen = []

        def spy(expression):
            r = orig(expression)
            seen.append(r)
            return r

        mod.parse_expression = spy
        _st.update(mod=mod, runner=CliRunner(), seen=seen)
        sys.setrecursionlimit(20000)
    return _st


def run_cli(cmd, opt, text):
    st = _load()
    st["seen"].clear()
    args = [cmd] + (["-o"] if opt else []) + [text]
    try:
        x = st["runner"].invoke(st["mod"].app, args)
    except Exception as e:  # noqa: BLE001  the runner itself failed (e.g. cannot encode the word)
        return {"exit": None, "out": "", "err": "", "exc": None, "tree": None, "runner_error": f"{type(e).__name__}: {e}"[:200]}
    exc = x.exception
    tree = None
    if st["seen"] and st["seen"][-1] is not None:
        try:
            tree = c14.polish(st["seen"][-1])
        except Exception as e:  # noqa: BLE001
            tree = f"ALIEN {type(e).__name__}: {e}"[:120]
    try:
        err = x.stderr
    except ValueError:
        err = ""
    return {"exit": x.exit_code, "out": x.stdout, "err": err, "exc": None if exc is None or isinstance(exc, SystemExit) else type(exc).__name__, "tree": tree}


def _work(chunk):
    return [run_cli(*c) for c in chunk]


def run_many(cases, procs):
    cases = list(cases)
    if procs <= 1 or len(cases) < 64:
        return _work(cases)
    n = max(procs * 8, min(len(cases) // 32, 512))
    chunks = [cases[k::n] for k in range(n)]
    ctx = mp.get_context("fork")
    with ctx.Pool(procs) as pool:
        res = pool.map_async(_work, chunks, chunksize=1).get(timeout=3000)
    out = [None] * len(cases)
    for k, r in enumerate(res):
        out[k::n] = r
    return out


def run_subprocess(cmd, opt, text):
    args = [PY, "main.py", cmd] + (["-o"] if opt else []) + [text]
    env = dict(os.environ, NO_COLOR="1", TERM="dumb", COLUMNS="200", PYTHONIOENCODING="utf-8")
    env.pop("PYTHONPATH", None)
    p = subprocess.run(args, cwd=REPO, capture_output=True, env=env, timeout=120)
    return {"exit": p.returncode, "out": p.stdout.decode("utf-8", "replace"), "err": p.stderr.decode("utf-8", "replace")}


# ---------------------------------------------------------------- inputs


def gen_words(tier, seed):
    """-> list of (stream, word)."""
    rng = random.Random(seed)
    quick = tier == "quick"
    nfull, nmax = (5, 6) if quick else (5, 8)
    seqs = []
    for n in range(1, nfull + 1):
        seqs += c14.in_language(c14.LEAVES6, n)
    idx = rng.randrange(len(c14.SUBSTS))
    for n in range(nfull + 1, nmax + 1):
        for sq in c14.in_language(["x", "y", "z"], n):
            sub = dict(zip("xyz", c14.SUBSTS[idx % len(c14.SUBSTS)]))
            idx += 1
            seqs.append(tuple(sub.get(t, t) for t in sq))
    items = []
    dist = {}
    for sq in seqs:
        dist[len(sq)] = dist.get(len(sq), 0) + 1
        style = rng.choice(("sp", "min", "rand")) if len(sq) > 1 else "sp"
        items.append(("lang/" + style, c14.render(sq, style, rng)))
    alphabet = c14.LEAVES6 + c14.SYMS
    for _ in range(1500 if quick else 12000):  # near misses
        sq = list(rng.choice(seqs))
        k = rng.randrange(4)
        if k == 0 and len(sq) > 0:
            del sq[rng.randrange(len(sq))]
        elif k == 1:
            sq.insert(rng.randrange(len(sq) + 1), rng.choice(alphabet))
        elif k == 2:
            sq[rng.randrange(len(sq))] = rng.choice(alphabet)
        elif len(sq) > 1:
            i = rng.randrange(len(sq) - 1)
            sq[i], sq[i + 1] = sq[i + 1], sq[i]
        items.append(("mutant", c14.render(sq, rng.choice(("sp", "min", "rand")), rng)))
    for _ in range(800 if quick else 6000):
        sq = tuple(rng.choice(alphabet) for _ in range(rng.randint(1, nmax)))
        items.append(("random-tokens", c14.render(sq, rng.choice(("sp", "min", "rand")), rng)))
    for s in c14.MALFORMED:
        items.append(("malformed", s))
    for s in c14.WELLFORMED:
        if len(s) <= 120:
            items.append(("wellformed-list", s))
    for s in FIXED:
        items.append(("fixed", s))
    for s in OPTIONISH:
        items.append(("optionish", s))
    bad_chars = "0123456789_\t\n\r\x0b\x0c\xa0.-+=!;,:\"'[]{}<>?/\\@#$%*`éßπаａ日́\U0001d44e"
    for s in [c14.render(sq, "sp") for sq in rng.sample(seqs, 150 if quick else 1200)]:
        i = rng.randrange(len(s) + 1)
        items.append(("bad-char", s[:i] + rng.choice(bad_chars) + s[i:]))
    chars = "abAZtruefals &|^~()-" + bad_chars
    for _ in range(500 if quick else 4000):
        items.append(("random-chars", "".join(rng.choice(chars) for _ in range(rng.randint(0, 9)))))
    pool_names = ["a", "b", "c", "d", "e", "foo", "Bar", "truex", "falsey", "tru", "xtrue", "Q", "zz", "Zed", "B", "knot", "not", "and", "or", "xor", "cannot", "band"]
    for _ in range(250 if quick else 2500):
        names = rng.sample(pool_names, rng.randint(2, 6))
        toks = c14.random_long(rng, rng.randint(4, 16 if quick else 24), names)
        items.append(("random-long", c14.render(toks, rng.choice(("sp", "min", "rand")), rng)))
    # xor shapes around the two open findings, over random names (so that -o reaches them on every seed)
    for _ in range(60 if quick else 600):
        p, q, r = rng.sample(pool_names, 3)
        shape = rng.choice(["{p} ^ ({p} | {q})", "{p} ^ ({q} | {p})", "({p} | {q}) ^ {p}", "{p} ^ (~{p} & {q})", "{p} ^ ({q} & ~{p})", "({r} & {p}) ^ (~({r} & {p}) & {q})", "{r} | ({p} ^ ({p} | {q}))", "({p} ^ ({q} | {p})) & {r}"])
        items.append(("xor-shapes", shape.format(p=p, q=q, r=r)))
    seen = {}
    for st, s in items:
        if "\x00" in s:
            continue  # cannot be an element of argv
        try:
            s.encode("utf-8")
        except UnicodeEncodeError:
            continue  # lone surrogates cannot be written by click's echo; not deliverable through a terminal either
        seen.setdefault(s, st)
    return [(st, s) for s, st in seen.items()], dist


# ---------------------------------------------------------------- comparison with the model


def parse_answer(ans):
    if ans.startswith("ERR"):
        raise HarnessError(f"driver_cli: {ans}")
    f = dict(x.split("=", 1) for x in ans.split("\t"))

    def out(v):
        if v == "-":
            return None
        e, err, o, q = v.split(";")
        if err == "FUEL":
            raise HarnessError("driver_cli: the model ran out of fuel (Cli.fuelFor is too small)")
        return {"exit": int(e), "err": err, "out": None if o == "HELP" else dec_text(o), "quirks": [x for x in q.strip("[]").split(",") if x]}

    return {"ref": out(f["ref"]), "given": out(f["given"]), "mtree": None if f["mtree"] == "-" else f["mtree"], "same": f["same"]}


def agrees(model, res):
    """model output (one of ref / given) against a real in-process invocation -> list of differing fields"""
    bad = []
    if model["exit"] != res["exit"]:
        bad.append("exit")
    err = model["err"]
    if model["out"] is None:  # help page: its text is typer's business
        if "Usage" not in res["out"] or res["err"] != "" or res["exc"] is not None:
            bad.append("help")
        return bad
    if model["out"] != res["out"]:
        bad.append("stdout")
    if err == "empty":
        if res["err"] != "" or res["exc"] is not None:
            bad.append("stderr")
    elif err.startswith("text:"):
        if res["err"] != dec_text(err[5:]) or res["exc"] is not None:
            bad.append("stderr")
    elif err.startswith("tb:"):
        if res["exc"] != err[3:]:
            bad.append("exception")
    elif err == "usage":
        if "Error" not in res["err"] or res["exc"] is not None:  # click's error box; most, not all, also print a Usage: line
            bad.append("usage")
    else:
        raise HarnessError(f"stderr class {err!r}")
    return bad


def agrees_subprocess(model, sub):
    bad = []
    if model["exit"] != sub["exit"]:
        bad.append("exit")
    if model["out"] is None:
        if "Usage" not in sub["out"]:
            bad.append("help")
        return bad
    if model["out"] != sub["out"]:
        bad.append("stdout")
    err = model["err"]
    if err == "empty" and sub["err"] != "":
        bad.append("stderr")
    elif err.startswith("text:") and sub["err"] != dec_text(err[5:]):
        bad.append("stderr")
    elif err.startswith("tb:") and (err[3:] not in sub["err"] or "Traceback" not in sub["err"]):
        bad.append("traceback")
    elif err == "usage" and "Error" not in sub["err"]:
        bad.append("usage")
    return bad


def pick_model(cmd, opt, res, ans):
    """Which model output this invocation is compared with, and what kind of comparison that is."""
    if res["tree"] is None or ans["mtree"] is None or res["tree"] == ans["mtree"]:
        return ans["ref"], "text"
    if cmd == "table" and not opt:
        return ans["ref"], "text (table is invariant under re-association)"
    return ans["given"], "lark-tree"


def show_case(cmd, opt, text):
    return {"cmd": cmd, "optimize": bool(opt), "text": text, "codepoints": enc_text(text)}


def self_test(chk):
    """The independent judge and the Lean decoders must be able to say no."""
    ast = read_expr(tokenize("b | a"))
    good = "a b\n0 0:   0\n0 1:   1\n1 0:   1\n1 1:   1\n"
    wrong = [
        "a b\n0 0:   1\n0 1:   1\n1 0:   1\n1 1:   1\n",  # bit inversion
        "b a\n0 0:   0\n0 1:   1\n1 0:   1\n1 1:   1\n",  # header in occurrence order
        "a b\n0 0:   0\n1 0:   1\n0 1:   1\n1 1:   1\n",  # rows out of order
        "a b\n0 0:   0\n0 1:   1\n1 0:   1\n",  # a row missing
        "a a b\n0 0:   0\n0 1:   1\n1 0:   1\n1 1:   1\n",  # duplicate
        "a b\n0 0: 0\n0 1: 1\n1 0: 1\n1 1: 1\n",  # format
    ]
    bad = []
    if judge_table(ast, good, False) is not None:
        bad.append({"judge rejects a correct table": judge_table(ast, good, False)})
    for w in wrong:
        if judge_table(ast, w, False) is None:
            bad.append({"judge accepts": w})
    ast2 = read_expr(tokenize("a & c"))  # as if -o had produced `b | a` for it
    if judge_table(ast2, good, True) is None or judge_json(ast2, '{"variable": "a"}', True) is None:
        bad.append({"judge accepts an optimised output with another function": True})
    if judge_json(ast, '{"or": {"left": {"variable": "b"}, "right": {"variable": "a"}}}', False) is not None:
        bad.append({"judge rejects a correct json": True})
    for w in ['{"or": {"left": {"variable": "a"}, "right": {"variable": "b"}}}', '{"and": {"left": {"variable": "b"}, "right": {"variable": "a"}}}', '{"or": {"right": {"variable": "a"}, "left": {"variable": "b"}}}']:
        if judge_json(ast, w, False) is None:
            bad.append({"judge accepts json": w})
    # the Lean decoders on texts that differ in one place
    reqs = [f"decode-table\t{enc_text(good)}", f"decode-table\t{enc_text(wrong[0])}", f"decode-table\t{enc_text(wrong[1])}", f"decode-table\t{enc_text(good[:-1])}",
            "decode-json\t" + enc_text('{"or": {"left": {"variable": "b"}, "right": {"variable": "a"}}}'), "decode-json\t" + enc_text('{"or": {"left": {"variable": "b"}, "right": {"variable": "a"}}')]
    ans = driver.run(reqs, **EXE)
    want = ["OK a,b ; 00:0 01:1 10:1 11:1", "OK a,b ; 00:1 01:1 10:1 11:1", "OK b,a ; 00:0 01:1 10:1 11:1", "FAIL", "OK | v:62 v:61", "FAIL"]
    if ans != want:
        bad.append({"lean decoders": ans, "want": want})
    chk.add_corr("selftest/judge-and-decoders-discriminate", len(wrong) + 6 + len(reqs), bad)


def lean_decode_expect(cmd, out):
    """What the Lean decoder must answer on a real stdout, computed here from the text."""
    if cmd == "table":
        names, rows = parse_table_text(out)
        return "OK " + ",".join(names) + " ;" + "".join(" " + "".join("1" if b else "0" for b in bits) + ":" + ("1" if v else "0") for bits, v in rows)

    def pol(e):
        k = e[0]
        if k == "n":
            return "v:" + enc_text(e[1])
        if k == "c":
            return "T" if e[1] else "F"
        if k == "~":
            return "~ " + pol(e[1])
        return f"{k} {pol(e[1])} {pol(e[2])}"

    return "OK " + pol(json_to_ast(json.loads(out)))


def main(tier):
    chk = Check("C20", tier)
    chk.prove(checker=(tier == "thorough"), exes=("driver", "driver_cli"))
    procs = int(os.environ.get("VERIF_PROCS", "0")) or min(16, os.cpu_count() or 1)
    cfg, detail = optcorr.detect_cfg()
    chk.extra["cfg"] = cfg
    chk.extra["cfg_detail"] = {q: d["variant"] for q, d in detail.items()}
    words, dist = gen_words(tier, chk.seed)
    rng = random.Random(chk.seed + 1)
    cases = []
    for st, s in words:
        light = st in ("mutant", "random-tokens", "random-chars", "bad-char")  # mostly rejected: one random variant is enough
        variants = [(rng.choice(("table", "json")), rng.choice((0, 1)))] if light else [("table", 0), ("table", 1), ("json", 0), ("json", 1)]
        for cmd, opt in variants:
            cases.append((st, cmd, opt, s))
    real = run_many([(cmd, opt, s) for _, cmd, opt, s in cases], procs)
    runner_errors = [dict(show_case(c[1], c[2], c[3]), error=r["runner_error"]) for c, r in zip(cases, real) if r.get("runner_error")]
    if runner_errors:
        raise HarnessError(f"CliRunner failed on {len(runner_errors)} words, e.g. {runner_errors[0]}")
    reqs = []
    for (st, cmd, opt, s), r in zip(cases, real):
        tr = r["tree"] if (r["tree"] and not r["tree"].startswith("ALIEN")) else "-"
        reqs.append(f"cli\t{cfg}\t{cmd}\t{opt}\t{enc_text(s)}\t{tr}")
    answers = [parse_answer(a) for a in driver.run(reqs, **EXE)]
    known = {f["quirk"]: f["id"] for f in open_findings("C20") if "quirk" in f}
    dis = {"cli": [], "parse-tree": []}
    stats = {"by_stream": {}, "compared_with": {}, "outcome": {}, "quirk_arms_fired": {}, "optimize_changed_output": 0, "header_order_differs_from_occurrence": 0}
    decode_reqs, decode_want = [], []
    model_ok = []
    for (st, cmd, opt, s), r, a in zip(cases, real, answers):
        chk.evaluations += 1
        stats["by_stream"][st] = stats["by_stream"].get(st, 0) + 1
        model, how = pick_model(cmd, opt, r, a)
        stats["compared_with"][how] = stats["compared_with"].get(how, 0) + 1
        if how == "lark-tree" and a["same"] != "T":
            dis["parse-tree"].append(dict(show_case(cmd, opt, s), lark_tree=c14.tree_text(r["tree"]), model_tree=c14.tree_text(a["mtree"])))
        if (r["tree"] is None) != (a["mtree"] is None) and not (len(s) > 1 and s[0] == "-"):
            dis["parse-tree"].append(dict(show_case(cmd, opt, s), lark_tree=r["tree"], model_tree=a["mtree"]))
        if model is None:
            bad = ["no model output"]
        else:
            bad = agrees(model, r)
        if bad:
            dis["cli"].append(dict(show_case(cmd, opt, s), differs=bad, compared_with=how, model=model, implementation={k: (v[:400] if isinstance(v, str) else v) for k, v in r.items()}))
        model_ok.append(not bad)
        oc = "table/json printed" if (r["exit"] == 0 and r["out"] and not (len(s) > 1 and s[0] == "-")) else "could-not-parse" if r["err"].startswith("Could not parse") else f"exception {r['exc']}" if r["exc"] else "usage error" if r["exit"] == 2 else "help" if "Usage" in r["out"] else "other"
        stats["outcome"][oc] = stats["outcome"].get(oc, 0) + 1
        for q in (model or {}).get("quirks", []):
            stats["quirk_arms_fired"][q] = stats["quirk_arms_fired"].get(q, 0) + 1
        # the property itself, on the real output
        w = judge(cmd, opt, s, r)
        if w is not None:
            expl = None
            if opt and not bad and model is not None and "value" in " ".join(w):
                for q in model["quirks"]:
                    if q in known:
                        expl = known[q]
                        break
            chk.add_failure(show_case(cmd, opt, s), dict(w, stdout=r["out"][:400], model_trace=(model or {}).get("quirks")), expl)
        if oc == "table/json printed":
            if st not in ("mutant", "random-tokens", "random-chars"):
                toks = tokenize(s) or []
                nm = [t[1] for t in toks if isinstance(t, tuple) and t[0] == "n"]
                first = list(dict.fromkeys(nm))
                if len(set(nm)) >= 2 or len(toks) >= 4:
                    chk.nontrivial.add((cmd, opt, s))
                if cmd == "table" and not opt and first != sorted(first):
                    stats["header_order_differs_from_occurrence"] += 1
            try:
                decode_want.append(lean_decode_expect(cmd, r["out"]))
                decode_reqs.append(f"decode-{cmd}\t{enc_text(r['out'])}")
            except ValueError:
                pass  # not of the printed form: already a failure of the judge
    # -o changed something?
    by_key = {(cmd, opt, s): r for (st, cmd, opt, s), r in zip(cases, real)}
    for (cmd, opt, s), r in by_key.items():
        if opt and (cmd, 0, s) in by_key and by_key[(cmd, 0, s)]["out"] != r["out"]:
            stats["optimize_changed_output"] += 1
    chk.add_corr("cli (driver_cli vs main.app through CliRunner: stdout byte for byte, exit status, stderr class)", len(cases), dis["cli"])
    chk.add_corr("lark's tree vs reference parser (accept/reject; equal up to association and a reading when different)", len(cases), dis["parse-tree"])
    # Lean decoders on the real output
    dec = driver.run(decode_reqs, **EXE)
    dbad = [{"stdout": dec_text(q.split("\t")[1])[:200], "lean": a, "expected": w} for q, a, w in zip(decode_reqs, dec, decode_want) if a != w]
    chk.add_corr("Lean decoders (Cli.decodeTable / Cli.readJson) on the real stdout vs the text read in Python", len(decode_reqs), dbad)
    # a sample as real processes
    n_sub = 100 if tier == "quick" else 1000
    idxs = [i for i, c in enumerate(cases) if c[0] in ("fixed", "optionish", "malformed", "wellformed-list")]
    rng.shuffle(idxs)
    rest = [i for i, c in enumerate(cases) if c[0] not in ("fixed", "optionish", "malformed", "wellformed-list")]
    rng.shuffle(rest)
    pick = (idxs[: n_sub // 2] + rest[: n_sub - min(len(idxs), n_sub // 2)])[:n_sub]
    with ThreadPoolExecutor(max_workers=procs) as ex:
        subs = list(ex.map(lambda i: run_subprocess(cases[i][1], cases[i][2], cases[i][3]), pick))
    sbad = []
    for i, sub in zip(pick, subs):
        st, cmd, opt, s = cases[i]
        model, how = pick_model(cmd, opt, real[i], answers[i])
        b = agrees_subprocess(model, sub) if model is not None else ["no model output"]
        if sub["out"] != real[i]["out"] and not (model and model["out"] is None):
            b.append("stdout differs from the in-process run")
        if b:
            sbad.append(dict(show_case(cmd, opt, s), differs=b, model=model, subprocess={k: (v[-400:] if isinstance(v, str) else v) for k, v in sub.items()}))
    chk.add_corr("cli as a real process (python main.py …: stdout, exit status, stderr class) vs model and in-process run", len(pick), sbad)
    # history: the same expression several times in ONE interpreter (table, table again, table -o, json, table): what a command prints
    # is a function of its arguments, whatever ran before (a cached parse tree whose variables kept their last values shows here)
    hrng = random.Random(chk.seed * 131 + 20)
    hwords = ["a & b", "p | q", "a ^ b", "~a & b", "q & ~p", "(a | b) & c", "a & b | c", "~(a ^ b)", "c & (a | ~b)", "x", "a & a", "true & a", "foo | ~bar & baz"]
    for _ in range(30 if tier == "quick" else 300):
        n = hrng.randint(1, 3)
        w = hrng.choice(["a", "b", "~a", "q"])
        for _k in range(n):
            r = hrng.choice(["a", "b", "c", "p", "~b", "true"])
            w = f"({w}) {hrng.choice('&|^')} {r}" if hrng.random() < 0.5 else f"{r} {hrng.choice('&|^')} ({w})"
        hwords.append(w)
    hbad = 0
    for w in hwords:
        seq = [("table", False), ("table", False), ("table", True), ("json", False), ("table", False), ("json", True), ("table", True)]
        outs = {}
        for step, (cmd, opt) in enumerate(seq):
            res = run_cli(cmd, opt, w)
            if res.get("runner_error"):
                continue
            # with -o the open optimizer findings (KF-xorNotAnd / KF-xorOr) are inherited and judged by the main stream with its
            # model: here only "same arguments, same output"; without -o also the property itself
            bad = None if opt else judge(cmd, opt, w, res)
            first = outs.setdefault((cmd, opt), res["out"])
            if bad is None and res["out"] != first:
                bad = {"what": "the same command on the same expression printed something else the second time", "first": first[:300], "now": res["out"][:300]}
            if bad is not None:
                hbad += 1
                chk.add_failure({"cmd": cmd, "optimize": opt, "text": w, "history": [f"{c}{' -o' if o else ''}" for c, o in seq[:step]]}, {**bad, "note": "in-process history"}, None)
                break
    chk.evaluations += len(hwords) * 7
    chk.extra["history_words"] = len(hwords)
    self_test(chk)
    chk.extra.update(stats)
    chk.extra["words"] = len(words)
    chk.extra["in_language_sequences_by_length"] = dist
    chk.extra["procs"] = procs
    nmax = 6 if tier == "quick" else 8
    chk.rule = (
        "bounded-exhaustive: every token sequence of the expression language with <= 5 tokens over {a,b,c,foo,true,false,~,&,|,^,(,)} and every one with 6..%d tokens over three "
        "leaf slots filled in rotation from 9 leaf triples (multi-letter / upper-case names, keyword prefixes, constants), each rendered in one of three blank styles; a fixed list "
        "reaching every xor / and / or / not law and the two open xor findings, random xor shapes over random names, random long expressions (4-%d operands over 2-6 of 15 names), "
        "c14's well-formed and malformed lists; each of these x {table, json} x {-o off, on}. One random variant each of: single-token mutants, random token sequences, texts with "
        "a foreign character, random character strings, words click may take for options. Every invocation: main.app via CliRunner vs driver_cli (stdout bytes, exit, stderr class), "
        "the property judged on the real output by an independent evaluator, Lean decoders run on the real stdout; %d invocations repeated as real processes. "
        "non-trivial = distinct (command, -o, text) that printed a table / JSON for a text with >= 2 names or >= 4 tokens." % (nmax, 16 if tier == "quick" else 24, len(pick))
    )
    chk.exhaustive = False
    chk.samples = [show_case(c[1], c[2], c[3]) for c in (cases[0], cases[401], cases[3003], cases[len(cases) // 2], cases[-1]) if c]
    chk.assumptions = [
        "typer/click argument handling, lark's Earley engine, json.dumps and sys.stdout are observed, not modelled: the model describes their observable outcome and is compared on every invocation",
        "the independent judge reads `&` against `^` the way the reference parser does (`^` binds tighter); C14 leaves that choice open",
        "CliRunner's capture is the process's stdout/stderr (cross-checked on the subprocess sample)",
    ]
    return chk.finish()


def replay(path):
    d = json.load(open(path))
    inp = d.get("input")
    if d.get("kind") == "failing-input" and isinstance(inp, dict) and "history" in inp and "text" in inp:
        # re-enact the recorded in-process history, then the failing command
        for h in inp["history"]:
            c, _, o = h.partition(" ")
            run_cli(c, o == "-o", inp["text"])
        res = run_cli(inp["cmd"], inp["optimize"], inp["text"])
        first = None
        for h in inp["history"]:
            c, _, o = h.partition(" ")
            if (c, o == "-o") == (inp["cmd"], bool(inp["optimize"])):
                first = first or run_cli(c, o == "-o", inp["text"])["out"]
        bad = None if inp["optimize"] else judge(inp["cmd"], inp["optimize"], inp["text"], res)
        print("after", inp["history"], "->", inp["cmd"], repr(inp["text"]), ":", repr(res["out"])[:400], "| judged:", bad)
        return 1 if (bad or (first is not None and first != res["out"])) else 0
    if d.get("kind") != "failing-input" or not isinstance(inp, dict) or "codepoints" not in inp:
        print(json.dumps(d, indent=1)[:4000])
        return 1
    text = dec_text(inp["codepoints"])
    cmd, opt = inp["cmd"], 1 if inp["optimize"] else 0
    r = run_cli(cmd, opt, text)
    cfg, _ = optcorr.detect_cfg()
    tr = r["tree"] if (r["tree"] and not r["tree"].startswith("ALIEN")) else "-"
    a = parse_answer(driver.run([f"cli\t{cfg}\t{cmd}\t{opt}\t{enc_text(text)}\t{tr}"], **EXE)[0])
    model, how = pick_model(cmd, opt, r, a)
    print("invocation :", "python main.py", cmd, "-o" if opt else "", repr(text))
    print("exit       :", r["exit"], " exception:", r["exc"])
    print("stdout     :", repr(r["out"]))
    print("stderr     :", repr(r["err"][:300]))
    print("model      :", model, f"({how})")
    w = judge(cmd, opt, text, r)
    print("property   :", "holds" if w is None else w)
    bad = agrees(model, r) if model else ["no model output"]
    print("model agrees:", not bad, bad)
    return 1 if w is not None else 0
