"""C14G  The Lark grammar of parse_expression inside the model (a stage of C14; supports C20).

Lean side: PyPred/Model/Grammar.lean (`reference` = the rules of the compiled Lark object, derivation trees, `isDerivation`,
`shape` = Lark's tree builder, `transform` = `_PredicateTransformer`, `build`), theorems in PyPred/Props/C14G.lean:
whatever derivation Lark returns is built into a `Bracketing` of the tokens; the grammar's language is the language of C14.

`stage(chk, tier)` adds to a running check (normally C14's):

  * `grammar/reflected-rules-vs-model` -- the translator tie.  `harness/grammar_reflect.py` reads the compiled Lark object
    of the code under test, writes it as a Lean term into a private temporary file (outside the lake package) and lets
    Lean decide `reflected = PyPred.Grammar.referenceWire`.  A difference is a broken proof obligation: the theorems of
    C14G are about a grammar the code no longer has.  The differing rules / terminals / options are listed.
  * `grammar/lark-tree-is-a-derivation` -- for sampled texts that Lark accepts: the tree `grammar.parse(text)` returns,
    with the filtered tokens and the inlined `?expression` nodes put back (`grammar_reflect.unshape`), is a derivation of
    `reference` for the tokens of the text (`isDerivation`, evaluated by the compiled model, `driver_grammar`);
  * `grammar/shape` -- the model's tree builder applied to that derivation gives exactly Lark's tree (so the un-shaping is
    not trusted);
  * `grammar/build` -- the model's tree builder + transformer applied to that derivation give exactly the predicate that
    `parse_expression` returns.

Stand-alone: `./check C14G quick|thorough`.
"""
import json
import multiprocessing as mp
import os
import random

from .. import core, driver
from .. import grammar_reflect as gr
from ..core import Check, HarnessError
from . import c14

EXE = dict(exe="driver_grammar", src="DriverGrammar.lean")
MODULES = ["PyPred.Props.C14G"]
EXES = ("driver_grammar",)

# theorem names the coordinator appends to Audit/C14.lean (which then also needs `import PyPred.Props.C14G`)
AUDIT_THEOREMS = [
    "C14G_isDerivation_iff_derives",
    "C14G_derivation_yield", "C14G_build_total", "C14G_derivation_bracketing", "C14G_check_sound", "C14G_bracketing_is_derivation",
    "C14G_built_iff_bracketing", "C14G_reading_bracketing", "C14G_reading_is_derivation", "C14G_language", "C14G_language_iff_accepts",
    "C14G_parse_is_derivation", "C14G_bracketing_inorder", "C14G_bracketing_names", "C14G_bracketing_group_subtree",
    "C14G_derivation_group_subtree", "C14G_tie_means", "C14G_terminal_patterns", "C14G_not_scope_open", "C14G_precedence_open",
]


def model_items():
    ans = driver.run(["grammar"], **EXE)[0]
    if ans.startswith("ERR"):
        raise HarnessError(f"driver_grammar: {ans}")
    return ans.split("\t")


def tie(chk, refl):
    """The translator tie.  -> True when the model's grammar is the code's grammar."""
    mine = model_items()
    theirs = gr.items(refl.g)
    only_code = [gr.readable(x) for x in theirs if x not in mine]
    only_model = [gr.readable(x) for x in mine if x not in theirs]
    ok, log, bad = gr.check_tie(refl.g)
    dis = []
    if not ok:
        # Lean is the judge; the item lists say where the difference is
        if only_code or only_model:
            dis = [{"in_the_code_not_in_the_model": x} for x in only_code] + [{"in_the_model_not_in_the_code": x} for x in only_model]
        else:
            dis = [{"lean": log[-1500:], "components": bad}]
        chk.proof_problems.append(
            "grammar tie: Lean could not prove `reflected = PyPred.Grammar.referenceWire` (components: "
            + ", ".join(bad)
            + "); the compiled Lark grammar differs from the model's: "
            + "; ".join(f"code has `{x}`" for x in only_code[:6])
            + ("; " if only_code and only_model else "")
            + "; ".join(f"model has `{x}`" for x in only_model[:6])
        )
    elif only_code or only_model:
        # Lean proved the equality but the printed forms differ: the printers disagree (machinery, not the property)
        raise HarnessError(f"grammar items differ although Lean proved the equality: {only_code[:3]} / {only_model[:3]}")
    chk.add_corr("grammar/reflected-rules-vs-model", len(theirs), dis, note=f"from {refl.how}; Lean: example : reflected = PyPred.Grammar.referenceWire := by decide")
    chk.extra["grammar_items"] = {k: sum(1 for x in theirs if x.startswith(k + " ")) for k in ("rule", "terminal", "ignore", "start", "option", "callback", "unsupported")}
    return ok


def sample_texts(tier, seed):
    """Texts of the C14 generators; a few thousand in quick."""
    rng = random.Random(seed * 104729 + 1420)
    items, _dist = c14.gen_inputs(tier, seed)
    by_stream = {}
    seen = set()
    for st, s, _intended in items:
        if s in seen:
            continue
        seen.add(s)
        by_stream.setdefault(st, []).append(s)
    quota = {
        "quick": {"lang/sp": 900, "lang/min": 700, "lang/blanks": 500, "mutant": 500, "random-tokens": 300, "wellformed-list": 10**9, "malformed": 10**9, "random-long": 60, "bad-char": 60, "random-chars": 200},
        "thorough": {"lang/sp": 9000, "lang/min": 6000, "lang/blanks": 5000, "mutant": 4000, "random-tokens": 2500, "wellformed-list": 10**9, "malformed": 10**9, "random-long": 400, "bad-char": 300, "random-chars": 1500},
    }[tier if tier in ("quick", "thorough") else "quick"]
    out = []
    for st in sorted(by_stream):
        xs = by_stream[st]
        k = quota.get(st, 100)
        if len(xs) > k:
            if st.startswith("lang/"):
                # keep every short sequence (they come first), sample the long ones
                head = xs[: k // 3]
                xs = head + rng.sample(xs[k // 3 :], k - len(head))
            else:
                xs = rng.sample(xs, k)
        out += [(st, s) for s in xs]
    return out


_REFL = None


def _lark_one(s):
    from lark.exceptions import LexError, ParseError, UnexpectedInput

    refl = _REFL
    try:
        tree = refl.lark.parse(s)
    except (UnexpectedInput, ParseError, LexError) as e:
        return ("reject", type(e).__name__)
    except Exception as e:  # noqa: BLE001  (C14 reports it)
        return ("raised", type(e).__name__)
    try:
        raw = gr.raw_wire(tree)
    except TypeError as e:
        return ("alien", str(e))
    d = gr.unshape(refl.g, tree)
    pol, detail = None, None
    if getattr(refl.module, "parse_expression", None) is not None:
        r = c14.run_impl(s)
        if r[0] == "tree":
            pol = r[1]
        else:
            detail = r
    return ("tree", raw, d, pol, detail)


def _lark_chunk(chunk):
    return [_lark_one(s) for s in chunk]


def run_lark(refl, texts):
    """-> list of ('tree', parse tree wire, derivation wire or None, polish or None, detail) | ('reject', exception type).
    `grammar.parse(text)` gives the tree, `parse_expression(text)` the predicate; in forked worker processes."""
    global _REFL
    _REFL = refl
    texts = list(texts)
    procs = int(os.environ.get("VERIF_PROCS", "0")) or min(16, os.cpu_count() or 1)
    if procs <= 1 or len(texts) < 64:
        return _lark_chunk(texts)
    n = procs * 8
    chunks = [texts[k::n] for k in range(n)]
    with mp.get_context("fork").Pool(procs) as pool:
        res = pool.map(_lark_chunk, chunks, chunksize=1)
    out = [None] * len(texts)
    for k, r in enumerate(res):
        out[k::n] = r
    return out


SELFTEST = [
    # (text, derivation, parse tree, predicate, expected deriv/shape/same)
    ("a&b", "(predicate/expression (expression/and_expression (and_expression/predicate,AMPERSAND,predicate (predicate/variable (variable/WORD WORD:61)) AMPERSAND:26 (predicate/variable (variable/WORD WORD:62)))))",
     "(predicate (and_expression (predicate (variable WORD:61)) (predicate (variable WORD:62))))", "& v:61 v:62", "TTT"),
    # the derivation of other tokens
    ("a&c", "(predicate/expression (expression/and_expression (and_expression/predicate,AMPERSAND,predicate (predicate/variable (variable/WORD WORD:61)) AMPERSAND:26 (predicate/variable (variable/WORD WORD:62)))))",
     "(predicate (and_expression (predicate (variable WORD:61)) (predicate (variable WORD:62))))", "& v:61 v:62", "FTT"),
    # `~` applied to an expression directly (the shape `not_expression: "~" expression` would give): not a derivation of the reference
    ("~a", "(predicate/expression (expression/not_expression (not_expression/TILDE,predicate TILDE:7e (variable/WORD WORD:61))))", "(predicate (not_expression (variable WORD:61)))", "~ v:61", "FTT"),
    # a tree in which the `expression` node was kept / a filtered token was kept
    ("~a", "(predicate/expression (expression/not_expression (not_expression/TILDE,predicate TILDE:7e (predicate/variable (variable/WORD WORD:61)))))", "(predicate (expression (not_expression (predicate (variable WORD:61)))))", "~ v:61", "TFT"),
    ("~a", "(predicate/expression (expression/not_expression (not_expression/TILDE,predicate TILDE:7e (predicate/variable (variable/WORD WORD:61)))))", "(predicate (not_expression TILDE:7e (predicate (variable WORD:61))))", "~ v:61", "TFT"),
    # another predicate
    ("~a", "(predicate/expression (expression/not_expression (not_expression/TILDE,predicate TILDE:7e (predicate/variable (variable/WORD WORD:61)))))", "(predicate (not_expression (predicate (variable WORD:61))))", "v:61", "TTF"),
    # the other derivation of `~a & b`: a derivation, built into ~(a & b)
    ("~a&b", "(predicate/expression (expression/not_expression (not_expression/TILDE,predicate TILDE:7e (predicate/expression (expression/and_expression (and_expression/predicate,AMPERSAND,predicate (predicate/variable (variable/WORD WORD:61)) AMPERSAND:26 (predicate/variable (variable/WORD WORD:62))))))))",
     "(predicate (not_expression (predicate (and_expression (predicate (variable WORD:61)) (predicate (variable WORD:62))))))", "~ & v:61 v:62", "TTT"),
    # the wrong alternative of ?expression
    ("true", "(predicate/expression (expression/false (true/TRUE TRUE:74.72.75.65)))", "(predicate (true))", "T", "FTT"),
    ("true", "(predicate/expression (expression/true (true/TRUE TRUE:74.72.75.65)))", "(predicate (true))", "T", "TTT"),
]


def self_test(chk):
    reqs = [f"deriv\t{c14.enc_text(s)}\t{d}\t{raw}\t{p}" for s, d, raw, p, _ in SELFTEST]
    ans = driver.run(reqs, **EXE)
    bad = []
    for (s, d, raw, p, want), a in zip(SELFTEST, ans):
        f = a.split("\t")
        got = "".join(x.split("=")[1][:1] for x in (f[1], f[2], f[4])) if len(f) == 5 else a
        if got != want:
            bad.append({"text": s, "derivation": d, "want": want, "got": got, "answer": a})
    # a token the terminal does not match must be refused
    a = driver.run([f"deriv\t{c14.enc_text('true')}\t(predicate/variable (variable/WORD WORD:74.72.75.65))\t(predicate (variable WORD:74.72.75.65))\tv:74.72.75.65"], **EXE)[0]
    if "deriv=F" not in a:
        bad.append({"text": "true", "what": "the keyword read as a WORD is accepted as a derivation", "answer": a})
    # the un-shaper must be able to fail
    from lark import Token, Tree

    refl = gr.find()
    if refl is not None and gr.unshape(refl.g, Tree("predicate", [Tree("variable", [Token("WORD", "a"), Token("WORD", "b")])])) is not None:
        bad.append({"what": "unshape accepts a tree that is no derivation"})
    chk.add_corr("selftest/grammar-driver-discriminates", len(SELFTEST) + 2, bad)


def behaviour(chk, tier, refl):
    texts = sample_texts(tier, chk.seed)
    res = run_lark(refl, [s for _st, s in texts])
    reqs, idx = [], []
    dis = {"derivation": [], "shape": [], "build": []}
    n_acc = n_rej = 0
    streams = {}
    for i, ((st, s), r) in enumerate(zip(texts, res)):
        if r[0] != "tree":
            n_rej += 1
            continue
        n_acc += 1
        streams[st] = streams.get(st, 0) + 1
        _k, raw, d, pol, detail = r
        if d is None:
            dis["derivation"].append({"text": s, "lark_tree": raw, "what": "no derivation of the reflected grammar has this tree as its shape"})
            continue
        reqs.append(f"deriv\t{c14.enc_text(s)}\t{d}\t{raw}\t{pol if pol is not None else '-'}")
        idx.append(i)
    ans = driver.run(reqs, **EXE)
    outside = 0
    nodes = {}
    for i, a in zip(idx, ans):
        st, s = texts[i]
        _k, raw, d, pol, detail = res[i]
        if a == "REJECT-LEX":
            outside += 1  # Lark accepted a text that has no tokens in the model: C14's own comparison reports it
            continue
        f = a.split("\t")
        if a.startswith("ERR") or len(f) != 5:
            dis["derivation"].append({"text": s, "lark_tree": raw, "derivation": d, "driver": a})
            continue
        toks, dv, sh, bd, same = f
        if dv != "deriv=T":
            dis["derivation"].append({"text": s, "tokens": toks, "lark_tree": raw, "derivation": d, "what": "not a derivation of the model's grammar for the tokens of the text"})
        if sh != "shape=T":
            dis["shape"].append({"text": s, "lark_tree": raw, "derivation": d, "what": "the model's tree builder does not produce Lark's tree from this derivation"})
        if pol is None:
            dis["build"].append({"text": s, "lark_tree": raw, "model_build": bd, "parse_expression": detail, "what": "grammar.parse returned a tree but parse_expression no predicate"})
        elif same != "same=T":
            dis["build"].append({"text": s, "lark_tree": raw, "model_build": bd[len("build="):], "parse_expression": pol})
        if dv == "deriv=T" and sh == "shape=T" and same == "same=T":
            if c14.nontrivial_key(toks):
                chk.nontrivial.add(toks)
            for w in d.replace("(", " ").replace(")", " ").split():
                if not w[0].isdigit() and ":" not in w:
                    nodes[w] = nodes.get(w, 0) + 1
    n = len(idx)
    chk.add_corr("grammar/lark-tree-is-a-derivation (isDerivation reference start tokens d, d = grammar.parse(text) un-shaped)", n_acc, dis["derivation"])
    chk.add_corr("grammar/shape (model tree builder on d vs grammar.parse(text))", n, dis["shape"])
    chk.add_corr("grammar/build (model tree builder + transformer on d vs parse_expression(text))", n, dis["build"])
    chk.evaluations += len(texts)
    chk.extra["grammar_texts"] = {"sampled": len(texts), "accepted_by_lark": n_acc, "rejected_by_lark": n_rej, "accepted_outside_model_lexer": outside}
    chk.extra["grammar_accepted_by_stream"] = streams
    chk.extra["grammar_rule_nodes_seen"] = nodes
    return [s for _st, s in texts]


def stage(chk, tier, build=True):
    """Add the grammar stage to a running check.  `build`: build PyPred.Props.C14G and driver_grammar first (a no-op
    when the caller's `chk.prove` already did)."""
    if build:
        ok, log = core.lean_build(MODULES, exes=EXES)
        if not ok:
            errs = [l for l in log.split("\n") if "error" in l.lower()][:10]
            chk.proof_problems.append("lake build (grammar stage) failed: " + " | ".join(errs)[:1200])
            return
    refl = gr.find()
    if refl is None:
        chk.extra["grammar_tie"] = "not applicable: predicate.parser has no Lark object (the theorems of C14G then say nothing about the code)"
        return
    chk.extra["grammar_tie"] = f"reflected from {refl.how}"
    tie(chk, refl)
    behaviour(chk, tier, refl)
    self_test(chk)
    chk.assumptions.append(
        "grammar stage: `grammar.parse` returns the tree of *some* derivation of its grammar and raises when there is none (Lark's Earley engine; observed on the sampled texts: "
        "the returned tree is checked to be a derivation of the model's grammar, and accept/reject is compared with the model by C14); the regular expression of WORD is compared as text, "
        "its meaning (`Parser.isLetter`) is tied by C14's lexer comparison"
    )


def search(chk, tier):
    """The tie is broken and no failing input is known yet: run C14's own comparison of parse_expression with the model."""
    items, _ = c14.gen_inputs("quick", chk.seed)
    texts = list(dict.fromkeys(s for _st, s, _i in items))
    procs = int(os.environ.get("VERIF_PROCS", "0")) or min(16, os.cpu_count() or 1)
    impl = c14.run_impl_many(texts, procs)
    ans = driver.run([f"case\t{c14.enc_text(s)}\t{r[1] if r[0] == 'tree' else '-'}" for s, r in zip(texts, impl)], **c14.EXE)
    dis = {"wellFormed-vs-parse": [], "lex-vs-intended-tokens": [], "parse-tree": [], "printfull-roundtrip": []}
    for s, r, a in zip(texts, impl, ans):
        c14.judge(chk, {}, "search", s, None, r, a, dis)
    c14.resolve_not_tight(chk, {}, dis.pop("_pending_N", []))


def main(tier):
    chk = Check("C14G", tier)
    chk.prove(modules=MODULES, checker=(tier == "thorough"), exes=EXES + ("driver_parser",))
    stage(chk, tier, build=False)
    chk.rule = (
        "the compiled Lark object of predicate.parser is reflected (rules with expand1 / keep_all_tokens / alias / order / priority / filter_out of every symbol, terminals with pattern and "
        "priority, ignore, start, parser options, transformer callbacks) and Lean decides equality with the model's grammar; for a sample of the C14 texts (all wellformed / malformed list "
        "entries, the short in-language token sequences, sampled longer ones, mutants, random tokens / characters, long random expressions) the tree returned by grammar.parse is un-shaped "
        "into a derivation and the compiled model checks isDerivation, shape and build against Lark's tree and parse_expression's predicate. non-trivial = distinct accepted token "
        "sequences with >= 2 binary operators or a ~ next to a binary operator."
    )
    chk.samples = ["a", "~a & b", "(a | b) & c", "true | truex", "a & b ^ c"]
    if core.REPLAY_TARGET is not None and core.REPLAY_TARGET != "*":
        search(chk, tier)  # a replay of a failing input: the recorded input came from this search
    return chk.finish(search_fn=lambda: search(chk, tier))


def replay(path):
    return core.replay_by_rerun(main, path)
