"""C18  to_json mirrors the predicate tree and never fails.

Every exported constructor (harness/pool.py thunks, every ready-made predicate in
`predicate.__all__`, function atoms over lambdas / def'd / built-in functions /
method descriptors / bound methods / classes / partials / callable objects, `ne_p`
over serialisable and unserialisable constants, variables with awkward names) and
trees over them built with the user-facing operators (& | ^ ~ all_p any_p).

For every case: `to_json(p)` is compared structurally with the Lean model's
`toJson` of the lifted tree (lean/PyPred/Model/Json.lean through `driver_tt`), the
shape of the real JSON with the model's `shapeP`, `json.dumps` success with the
model's `serialisable`; and independently the property itself is judged on the
real objects (exactly one key naming the kind, nesting equals nesting with the
operands' own renderings in operand order, never raises, dumps succeeds whenever the
constants are serialisable).
"""
import functools
import json
import math
import operator
import random
from collections import Counter

import predicate as P
from predicate import (
    AllPredicate, AlwaysFalsePredicate, AlwaysTruePredicate, AndPredicate, AnyPredicate, FnPredicate, NePredicate, NotPredicate,
    OrPredicate, Predicate, XorPredicate, all_p, any_p, fn_p, ne_p, to_json,
)
from predicate.named_predicate import NamedPredicate
from predicate.predicate import IsFalsyPredicate, IsTruthyPredicate
from predicate.tee_predicate import TeePredicate

from .. import driver, lift, pool, sx as S
from ..core import Check

EXE = dict(exe="driver_tt", src="DriverTT.lean")

assert lift.LEAF_TEE == 7  # `leafTee` in lean/PyPred/Model/Json.lean

# ---------------------------------------------------------------- constants that lift.py has no code for

_orig_encode = lift.encode_const
ODD_BASE = 300000


def encode18(v):
    """lift.encode_const, extended: any other constant gets a code of its own (by == / hash, else by identity)."""
    try:
        return _orig_encode(v)
    except Exception:  # noqa: BLE001  Unliftable, or int(nan)
        return ODD_BASE + lift.intern(v)


lift.encode_const = encode18  # lift.lift looks the function up at call time; this process only runs C18


def dumps_ok(x):
    try:
        json.dumps(x)
        return True
    except Exception:  # noqa: BLE001
        return False


# ---------------------------------------------------------------- atoms


class _Callable:
    def __call__(self, x):
        return True


def _deffed(x):
    return True


def _wrapped():
    @functools.wraps(_deffed)
    def wrapper(x):
        return _deffed(x)

    return wrapper


_FNS = {
    "lambda": lambda x: True,
    "def": _deffed,
    "wraps": _wrapped(),
    "math.isfinite": math.isfinite,
    "len": len,
    "str.isalpha": str.isalpha,
    "'abc'.startswith": "abc".startswith,
    "int": int,
    "operator.not_": operator.not_,
    "partial": functools.partial(operator.lt, 1),
    "callable-object": _Callable(),
    "bool": bool,
}
_NE_CONSTS = {
    "1": 1, "2.5": 2.5, "'a'": "a", "None": None, "True": True, "(1, 2)": (1, 2), "[1, 2]": [1, 2], "{'k': 1}": {"k": 1},
    "{1, 2}": {1, 2}, "nan": float("nan"), "object()": object(), "frozenset": frozenset({1}), "1j": 1j, "b'x'": b"x",
}
_VAR_NAMES = ["a", "b", "ab", "é", "a b", 'q"uote', "", "(", "{'x'}", "\n"]


def extra_thunks():
    T = []
    for n in P.__all__:
        o = getattr(P, n)
        if isinstance(o, Predicate):
            T.append((f"exported {n}", lambda o=o: o))
    for d, f in _FNS.items():
        T.append((f"fn_p({d})", lambda f=f: fn_p(f)))
    for d, v in _NE_CONSTS.items():
        T.append((f"ne_p({d})", lambda v=v: ne_p(v)))
    for d, v in {"'1'": "1", "'True'": "True", "'None'": "None", "'(1, 2)'": "(1, 2)"}.items():
        T.append((f"ne_p({d})", lambda v=v: ne_p(v)))  # print like ne_p(1), ne_p(True), ne_p(None), ne_p((1, 2))
    for n in _VAR_NAMES:
        T.append((f"variable {n!r}", lambda n=n: NamedPredicate(name=n, v=False)))
    from predicate.standard_predicates import is_json_p

    T.append(("standard_predicates.is_json_p", lambda: is_json_p))  # its lazy references are bound at import and form a cycle
    T.append(("lazy_p already evaluated (resolved)", _resolved_lazy))
    T.append(("this_p-recursive predicate already evaluated", _resolved_this))
    return T


def _resolved_lazy():
    """A lazy reference that has been called (so its target is cached on the node): a kind without a rendering all the same."""
    from predicate import is_int_p, is_list_of_p, lazy_p

    zz_lazy_target = is_int_p | is_list_of_p(lazy_p("zz_lazy_target"))
    zz_lazy_target([1, [2]])
    q = lazy_p("zz_lazy_target")
    q(3)
    return q


def _resolved_this():
    from predicate import is_list_of_p, is_str_p
    from predicate.this_predicate import ThisPredicate

    zz_this_target = is_str_p | is_list_of_p(ThisPredicate())
    zz_this_target(["a", ["b"]])
    return zz_this_target


def all_thunks():
    seen, out = set(), []
    for d, th in pool.atom_thunks() + extra_thunks():
        if d not in seen:
            seen.add(d)
            out.append((d, th))
    return out


# representatives of every JSON-distinguishable kind for the bounded-exhaustive part
REPRESENTATIVES = [
    "true", "var a False", "fn0", "fn_p(math.isfinite)", "ne 1", "ne_p({1, 2})", "truthy", "tee 0", "eq 1", "comp fn0 eq 1",
    "false", "falsy", "variable 'ab'", "exported this_p", "fn_p(str.isalpha)", "ne_p('a')", "is_int", "exported is_alpha_p",
]

# ---------------------------------------------------------------- case specs: ["atom", desc] | [op, kid, …]

UN = {"not": lambda a: ~a, "all": all_p, "any": any_p}
BIN = {"and": lambda a, b: a & b, "or": lambda a, b: a | b, "xor": lambda a, b: a ^ b}


def build(spec, thunks, memo=None):
    """With a `memo` dict, structurally equal sub-specs become ONE shared object (the same node at several positions)."""
    if memo is not None:
        key = repr(spec)
        if key not in memo:
            memo[key] = build(spec, thunks, None) if spec[0] == "atom" else _build(spec, thunks, memo)
        return memo[key]
    return _build(spec, thunks, None)


def _build(spec, thunks, memo):
    if spec[0] == "atom":
        return thunks[spec[1]]()
    if spec[0] in UN:
        return UN[spec[0]](build(spec[1], thunks, memo))
    return BIN[spec[0]](build(spec[1], thunks, memo), build(spec[2], thunks, memo))


def show(spec):
    if spec[0] == "atom":
        return spec[1]
    if spec[0] in UN:
        return f"{spec[0]}({show(spec[1])})"
    return f"({show(spec[1])} {spec[0]} {show(spec[2])})"


def trees_exact(n, leaves, memo):
    if n in memo:
        return memo[n]
    if n == 1:
        out = [["atom", d] for d in leaves]
    else:
        out = []
        for u in UN:
            out += [[u, t] for t in trees_exact(n - 1, leaves, memo)]
        for i in range(1, n - 1):
            for op in BIN:
                for l in trees_exact(i, leaves, memo):
                    for r in trees_exact(n - 1 - i, leaves, memo):
                        out.append([op, l, r])
    memo[n] = out
    return out


def random_tree(rng, n, leaves):
    if n <= 1:
        return ["atom", rng.choice(leaves)]
    if n == 2 or rng.random() < 0.35:
        return [rng.choice(list(UN)), random_tree(rng, n - 1, leaves)]
    i = rng.randint(1, n - 2)
    return [rng.choice(list(BIN)), random_tree(rng, i, leaves), random_tree(rng, n - 1 - i, leaves)]


# ---------------------------------------------------------------- the name of a function atom (the model's `fnName`)


def code_rule_name(f):
    """The function's name: __name__ (what Python calls "the function's name": functions, lambdas, functools.wraps
    wrappers, built-ins, method descriptors, bound methods, classes), else repr (partial objects, callable instances)."""
    n = getattr(f, "__name__", None)
    return n if n is not None else repr(f)


# ---------------------------------------------------------------- wire: lifting with awkward variable names


def lift18(p, varnames):
    sxp = lift.lift(p)

    def ren(s):
        if isinstance(s, tuple):
            if s and s[0] == "var":
                if s[1] not in varnames:
                    varnames[s[1]] = len(varnames)
                return ("var", f"%{varnames[s[1]]}", s[2])
            return tuple(ren(x) for x in s)
        return s

    return ren(sxp)


def decode_model(sxp, var_by_code, fn_by_id):
    """Model answer -> Python value with ('const', N) placeholders."""
    if sxp == "null":
        return None
    if sxp == "true":
        return True
    if sxp == "false":
        return False
    if sxp[0] == "str":
        tok = sxp[1]
        if tok.startswith("%"):
            return var_by_code[int(tok[1:])]
        if tok.startswith("@"):
            return code_rule_name(fn_by_id[int(tok[1:])])
        return tok
    if sxp[0] == "const":
        return ("const", int(sxp[1]))
    assert sxp[0] == "obj", sxp
    return {kv[0]: decode_model(kv[1], var_by_code, fn_by_id) for kv in sxp[1:]}


def same(model, real):
    """Structural equality, dictionaries as unordered maps (JSON objects are; the property does not speak of the
    insertion order of 'left' and 'right'), constants by their code, bool is not int."""
    if isinstance(model, tuple) and model and model[0] == "const":
        try:
            return encode18(real) == model[1]
        except Exception:  # noqa: BLE001
            return False
    if isinstance(model, dict):
        return isinstance(real, dict) and set(model) == set(real) and len(model) == len(real) and all(same(model[k], real[k]) for k in model)
    if model is None or isinstance(model, bool):
        return real is model
    return type(real) is type(model) and real == model


def shape_of_json(j):
    """shapeJ of the real JSON, printed like the driver prints shapeP."""
    if isinstance(j, dict) and len(j) == 1:
        ((k, v),) = j.items()
        if isinstance(v, dict) and sorted(v) == ["left", "right"]:
            return f"(bin {k} {shape_of_json(v['left'])} {shape_of_json(v['right'])})"
        if isinstance(v, dict) and list(v) == ["predicate"]:
            return f"(un {k} {shape_of_json(v['predicate'])})"
    return "leaf"


# ---------------------------------------------------------------- the property on the real objects

KIND = {
    AllPredicate: "all", AlwaysFalsePredicate: "false", AlwaysTruePredicate: "true", AndPredicate: "and", AnyPredicate: "any", FnPredicate: "fn",
    IsFalsyPredicate: "is_falsy", NamedPredicate: "variable", IsTruthyPredicate: "is_truthy", NePredicate: "ne", NotPredicate: "not",
    OrPredicate: "or", TeePredicate: "tee", XorPredicate: "xor",
}


def judge(p, j, path="$"):
    """-> list of complaints (empty = the JSON is what the property says for this predicate object)."""
    if not (isinstance(j, dict) and len(j) == 1):
        return [f"{path}: not a dictionary with exactly one key: {j!r}"]
    ((k, v),) = j.items()
    want = KIND.get(type(p), "unknown")
    if want == "unknown" and k != "unknown":
        # a kind the property does not pin: the placeholder today; a rendering of its own (one key that names no OTHER kind) is
        # equally within the property -- "kinds it has no rendering for become the placeholder" says nothing about which kinds have one
        if isinstance(k, str) and k and k not in set(KIND.values()):
            return []
        return [f"{path}: key {k!r} names another kind; the root is a {type(p).__name__}"]
    if k != want:
        return [f"{path}: key {k!r}, the root is a {type(p).__name__} (expected {want!r})"]
    c = type(p)
    if c in (AndPredicate, OrPredicate, XorPredicate):
        if not (isinstance(v, dict) and sorted(v) == ["left", "right"]):
            return [f"{path}.{k}: entries {list(v) if isinstance(v, dict) else v!r}, expected left, right"]
        return judge(p.left, v["left"], f"{path}.{k}.left") + judge(p.right, v["right"], f"{path}.{k}.right")
    if c in (NotPredicate, AllPredicate, AnyPredicate):
        if not (isinstance(v, dict) and list(v) == ["predicate"]):
            return [f"{path}.{k}: entries {list(v) if isinstance(v, dict) else v!r}, expected predicate"]
        return judge(p.predicate, v["predicate"], f"{path}.{k}.predicate")
    if c is NamedPredicate:
        return [] if (type(v) is str and v == p.name) else [f"{path}: variable rendered as {v!r}, name is {p.name!r}"]
    if c is NePredicate:
        return [] if (isinstance(v, dict) and list(v) == ["v"] and v["v"] is p.v) else [f"{path}: ne rendered as {v!r}, constant is {p.v!r}"]
    if c is FnPredicate:
        f = p.predicate_fn
        if not (isinstance(v, dict) and list(v) == ["name"] and type(v["name"]) is str):
            return [f"{path}: fn rendered as {v!r}"]
        own = getattr(f, "__name__", None)
        return [] if (not isinstance(own, str) or v["name"] == own) else [f"{path}: fn name {v['name']!r}, the function's __name__ is {own!r}"]
    if c is AlwaysTruePredicate:
        return [] if v is True else [f"{path}: true rendered as {v!r}"]
    if c is AlwaysFalsePredicate:
        return [] if v is False else [f"{path}: false rendered as {v!r}"]
    if c in (IsFalsyPredicate, IsTruthyPredicate, TeePredicate):
        return [] if v is None else [f"{path}: {k} rendered as {v!r}"]
    return [] if (isinstance(v, dict) and not v) else [f"{path}: placeholder for {type(p).__name__} is {v!r}, expected {{}}"]


def json_consts(p):
    c = type(p)
    if c is NePredicate:
        return [p.v]
    if c in (AndPredicate, OrPredicate, XorPredicate):
        return json_consts(p.left) + json_consts(p.right)
    if c in (NotPredicate, AllPredicate, AnyPredicate):
        return json_consts(p.predicate)
    return []


def json_consts_all(p):
    """json_consts plus the parameters of kinds the property does not pin (should such a kind be rendered with them,
    they are constants of the rendering: 'serialisable whenever the constants are')."""
    import dataclasses

    c = type(p)
    if c in (AndPredicate, OrPredicate, XorPredicate):
        return json_consts_all(p.left) + json_consts_all(p.right)
    if c in (NotPredicate, AllPredicate, AnyPredicate):
        return json_consts_all(p.predicate)
    if c in KIND:
        return json_consts(p)
    out = []
    if dataclasses.is_dataclass(p):
        for f in dataclasses.fields(p):
            v = getattr(p, f.name, None)
            if not isinstance(v, P.Predicate) and not callable(v):
                out.append(v)
    return out


# ---------------------------------------------------------------- one stream


def run_stream(chk, name, specs, thunks, stats, keep_samples=None, share=False):
    reqs, rows = [], []
    for spec in specs:
        p = build(spec, thunks, {} if share else None)
        varnames = {}
        try:
            sxp = S.show(lift18(p, varnames))
        except lift.Unliftable as e:
            stats["unliftable"] += 1
            sxp = None
            stats["unliftable:" + str(e)[:40]] += 1
        try:
            j = to_json(p)
            err = None
        except Exception as e:  # noqa: BLE001
            j, err = None, f"{type(e).__name__}: {e}"
        chk.evaluations += 1
        stats["cases"] += 1
        # ---- the property on the real code
        if err is not None:
            chk.add_failure(spec, {"what": "to_json raised", "exception": err, "predicate": show(spec)}, None)
            stats["raised"] += 1
        else:
            bad = judge(p, j)
            if bad:
                chk.add_failure(spec, {"what": "the JSON does not mirror the predicate", "complaints": bad[:3], "json": repr(j)[:300], "predicate": show(spec)}, None)
            consts = json_consts_all(p)
            cok = all(dumps_ok(v) for v in consts)
            jok = dumps_ok(j)
            stats["dumps_ok" if jok else "dumps_fails"] += 1
            if cok and not jok:
                chk.add_failure(spec, {"what": "json.dumps fails although every constant is serialisable", "json": repr(j)[:300], "predicate": show(spec)}, None)
            k = next(iter(j)) if isinstance(j, dict) and j else "?"
            stats["root/" + str(k)] += 1
        # ---- requests for the model
        if sxp is not None:
            badc = sorted({encode18(v) for v in json_consts(p) if not dumps_ok(v)})
            reqs += [f"json {sxp}", f"shape {sxp}", "ser (%s) %s" % (" ".join(map(str, badc)), sxp)]
            rows.append((spec, p, j, err, {v: k for k, v in varnames.items()}))
    outs = driver.run(reqs, **EXE)
    dis = []
    fn_by_id = {i: f for i, f in enumerate(lift.FNS)}
    fn_by_id.update({100 + i: f for i, f in enumerate(lift._extra_fns)})
    for n, (spec, p, j, err, var_by_code) in enumerate(rows):
        mj, ms, mser = outs[3 * n : 3 * n + 3]
        if err is not None:
            dis.append({"case": show(spec), "model": mj[:300], "implementation": "raised " + err})
            continue
        model = decode_model(S.parse1(mj), var_by_code, fn_by_id)
        if not same(model, j):
            dis.append({"case": show(spec), "function": "toJson", "model": mj[:300], "implementation": repr(j)[:300]})
        elif ms != shape_of_json(j):
            dis.append({"case": show(spec), "function": "shapeP", "model": ms, "implementation": shape_of_json(j)})
        elif mser != ("T" if dumps_ok(j) else "F"):
            dis.append({"case": show(spec), "function": "serialisable", "model": mser, "implementation": dumps_ok(j)})
        if ms != "leaf":
            chk.nontrivial.add(mj)
        if keep_samples is not None and len(keep_samples) < 6 and "(bin" in ms and "(un" in ms and n % 97 == 0:
            keep_samples.append(f"{show(spec)}  ->  {json.dumps(j, default=repr)[:200]}")
    chk.add_corr(name, len(rows), dis)


def main(tier):
    chk = Check("C18", tier)
    chk.prove(checker=(tier == "thorough"), exes=("driver_tt",))
    rng = random.Random(chk.seed)
    T = all_thunks()
    thunks = dict(T)
    descs = [d for d, _ in T]
    missing = [d for d in REPRESENTATIVES if d not in thunks]
    assert not missing, missing
    stats = Counter()
    samples = []
    # 1. every atom alone, under every unary connective, and in both operand positions of every binary one
    singles = [["atom", d] for d in descs]
    ctx = []
    for d in descs:
        a = ["atom", d]
        ctx += [[u, a] for u in UN]
        for op in BIN:
            ctx += [[op, a, ["atom", "var a False"]], [op, ["atom", "ne 1"], a]]
    run_stream(chk, "json/every-constructor", singles, thunks, stats)
    run_stream(chk, "json/every-constructor-in-context", ctx, thunks, stats)
    # 2. bounded-exhaustive over representatives of every JSON-distinguishable kind
    n_rep, n_ex = (10, 5) if tier == "quick" else (14, 5)
    memo = {}
    ex = [t for k in range(1, n_ex + 1) for t in trees_exact(k, REPRESENTATIVES[:n_rep], memo)]
    run_stream(chk, "json/exhaustive", ex, thunks, stats, samples)
    # 2b. the same operator node OBJECT at several positions of one tree (built with a memo)
    comps = [["and", ["atom", "var a False"], ["atom", "ne 1"]], ["not", ["atom", "ne 1"]], ["all", ["atom", "fn0"]], ["xor", ["atom", "truthy"], ["atom", "var a False"]],
             ["or", ["atom", "eq 1"], ["atom", "ne 1"]], ["any", ["not", ["atom", "ne 1"]]]]
    shared = []
    for t in comps:
        u = ["atom", "ne_p('a')"]
        shared += [["or", t, ["not", t]], ["xor", t, t], ["and", ["all", t], ["any", t]], ["and", ["or", t, u], ["or", u, t]], ["not", ["and", t, t]],
                   ["or", ["and", t, u], ["and", t, u]], ["all", ["xor", ["not", t], t]]]
    for _ in range(300 if tier == "quick" else 5000):
        t = random_tree(rng, rng.randint(2, 4), descs)
        shared.append([rng.choice(list(BIN)), [rng.choice(list(UN)), t], [rng.choice(list(BIN)), t, ["not", t]]])
    run_stream(chk, "json/shared-objects", shared, thunks, stats, samples, share=True)
    # 2c. distinct subtrees that PRINT the same (repr shows neither brackets nor quotes) inside one tree: each is rendered as what
    #     it is, not as the other one
    A, B, C = ["atom", "var a False"], ["atom", "ne 1"], ["atom", "truthy"]
    alike = []
    for o1 in BIN:
        for o2 in BIN:
            alike.append(([o2, [o1, A, B], C], [o1, A, [o2, B, C]]))          # a o1 b o2 c, grouped both ways
    for o in BIN:
        alike.append(([o, ["not", A], B], ["not", [o, A, B]]))                # ~a o b
        alike.append(([o, ["not", ["not", A]], B], ["not", ["not", [o, A, B]]]))
    for d1, d2 in (("ne_p(1)", "ne_p('1')"), ("ne_p(True)", "ne_p('True')"), ("ne_p(None)", "ne_p('None')"), ("ne_p((1, 2))", "ne_p('(1, 2)')"), ("variable 'a'", "var a False")):
        if d1 in thunks and d2 in thunks:
            alike.append((["atom", d1], ["atom", d2]))
    alike_specs = []
    for l, r in alike:
        for o in BIN:
            alike_specs += [[o, l, r], [o, r, l], ["not", [o, ["all", l], ["any", r]]], [o, [o, C, l], [o, r, C]]]
    chk.extra["print_alike_pairs"] = len(alike)
    run_stream(chk, "json/print-alike-subtrees", alike_specs, thunks, stats, samples)
    # 3. random trees over all atoms
    n_rnd, size = (6000, 5) if tier == "quick" else (150000, 6)
    rnd = [random_tree(rng, rng.randint(2, size), descs) for _ in range(n_rnd)]
    run_stream(chk, "json/random", rnd, thunks, stats, samples)
    # 3b. histories on one tree: render it (to_json, to_dot), change a node in place -- the function of a function atom, the
    #     function's own name, a constant, a variable's name, an operand --, render again: the second rendering is the rendering of
    #     the tree as it is now
    from predicate import fn_p, ne_p, to_dot

    def _mk(name):
        def f(x):
            return True

        f.__name__ = f.__qualname__ = name
        return f

    hist_n = 0
    for first in ("to_json", "to_dot", "both"):
        for shape in ("atom", "not", "and-left", "or-right"):
            f1, f2 = _mk("first_fn"), _mk("second_fn")
            a, n, v = fn_p(f1), ne_p(1), NamedPredicate(name="a")
            tree = {"atom": lambda: a, "not": lambda: ~a, "and-left": lambda: (a & n), "or-right": lambda: (v | (n ^ a))}[shape]()
            steps = [("p.predicate_fn = second_fn", lambda: setattr(a, "predicate_fn", f2)), ("second_fn.__name__ = 'renamed_fn'", lambda: setattr(f2, "__name__", "renamed_fn")),
                     ("ne.v = 'seven'", lambda: setattr(n, "v", "seven")), ("var.name = 'zz'", lambda: setattr(v, "name", "zz"))]
            done = []
            try:
                if first in ("to_json", "both"):
                    to_json(tree)
                if first in ("to_dot", "both"):
                    to_dot(tree)
            except Exception:  # noqa: BLE001
                pass
            for sname, step in steps:
                step()
                done.append(sname)
                hist_n += 1
                try:
                    j = to_json(tree)
                except Exception as e:  # noqa: BLE001
                    chk.add_failure({"history": f"{first}(tree); " + "; ".join(done) + "; to_json(tree)", "tree": shape}, {"what": f"to_json raised {type(e).__name__} on a tree that was changed in place"}, None)
                    break
                bad = judge(tree, j)
                if bad:
                    chk.add_failure({"history": f"{first}(tree); " + "; ".join(done) + "; to_json(tree)", "tree": shape}, {"what": "the rendering is not the rendering of the tree as it is now", "complaints": bad[:3], "json": repr(j)[:300]}, None)
                    break
    chk.evaluations += hist_n
    chk.extra["render_change_render_histories"] = hist_n
    # 3b'. a rendering that is abandoned by an exception (a chain too deep for the interpreter's default limit), then -- with the
    #     limit raised -- the same object, its inner nodes and fresh trees are rendered: as if the failed call had never happened
    import sys

    from predicate.predicate import NotPredicate as _N

    base = NamedPredicate(name="a") & ne_p(1)
    chain = base
    nodes = [base]
    for _ in range(1500):
        chain = _N(predicate=chain)
        nodes.append(chain)
    old_limit = sys.getrecursionlimit()
    sys.setrecursionlimit(1000)
    raised = None
    try:
        to_json(chain)
    except RecursionError:
        raised = "RecursionError"
    except Exception as e:  # noqa: BLE001
        raised = type(e).__name__
    finally:
        sys.setrecursionlimit(max(old_limit, 20000))
    retry = [("the same chain", chain), ("an inner node of it (depth 700)", nodes[700]), ("an inner node of it (depth 3)", nodes[3]), ("its base", base),
             ("a new tree over its base", base | ~base), ("a new tree", NamedPredicate(name="b") ^ ne_p(2))]
    retry += [(f"a new small tree #{k}", ~(NamedPredicate(name=f"v{k}") & ne_p(k))) for k in range(200)]
    for what, t in retry:
        try:
            j = to_json(t)
        except Exception as e:  # noqa: BLE001
            chk.add_failure({"history": f"to_json(~…~(a & ne_p(1)), 1500 deep) under the default recursion limit ({raised}); limit raised; to_json({what})"},
                            {"what": f"to_json raised {type(e).__name__} after an earlier call was abandoned by an exception"}, None)
            break
        bad = judge(t, j)
        if bad:
            chk.add_failure({"history": f"to_json(~…~(a & ne_p(1)), 1500 deep) under the default recursion limit ({raised}); limit raised; to_json({what})"},
                            {"what": "after an abandoned rendering, the rendering is not the rendering of the tree", "complaints": bad[:3]}, None)
            break
    sys.setrecursionlimit(old_limit)
    chk.evaluations += len(retry)
    chk.extra["exception_then_retry"] = {"first_call": raised, "later_calls": len(retry)}
    # 3b''. constants that are themselves predicates (predicates are first-class values: ne_p(p) is "is not the predicate p"): the
    #     constant stays the constant -- the very object -- and adds no nesting
    from predicate import always_true_p, is_int_p

    pv = [always_true_p, NamedPredicate(name="a") | is_int_p, ~NamedPredicate(name="a"), ne_p(1), all_p(is_int_p)]
    pc = 0
    for c in pv:
        for mk in (lambda c: ne_p(c), lambda c: ~ne_p(c), lambda c: all_p(ne_p(c) & NamedPredicate(name="b")), lambda c: NamedPredicate(name="b") ^ ne_p(c)):
            t = mk(c)
            pc += 1
            try:
                j = to_json(t)
            except Exception as e:  # noqa: BLE001
                chk.add_failure({"history": f"to_json of a tree holding ne_p(<the predicate {c!r}>)"}, {"what": f"to_json raised {type(e).__name__}"}, None)
                continue
            bad = judge(t, j)
            if bad:
                chk.add_failure({"history": f"to_json of {t!r} whose ne constant is the predicate {c!r}"}, {"what": "a constant that is a predicate is not kept as the constant", "complaints": bad[:3], "json": repr(j)[:300]}, None)
    chk.evaluations += pc
    chk.extra["predicate_valued_constants"] = pc
    # 3b3. the caller owns what to_json returns: it writes into every dictionary of a result (placeholders included), then renders the
    #     same tree and other trees -- each new result is the rendering of its tree, untouched by what was done to earlier results
    def _scribble(j, depth=0):
        if isinstance(j, dict) and depth < 50:
            for v in list(j.values()):
                _scribble(v, depth + 1)
            j["scribbled"] = object()

    from predicate import eq_p as _eq18, ge_p as _ge18, is_str_p as _str18

    own = [("eq_p(1)", lambda: _eq18(1)), ("is_int_p | ge_p(2)", lambda: is_int_p | _ge18(2)), ("~is_str_p & a", lambda: ~_str18 & NamedPredicate(name="a")), ("all_p(eq_p(1)) ^ ne_p(1)", lambda: all_p(_eq18(1)) ^ ne_p(1)),
           ("a | b", lambda: NamedPredicate(name="a") | NamedPredicate(name="b")), ("fn_p(len) & always_true_p", lambda: fn_p(len) & always_true_p)]
    own_n = 0
    for d1, mk1 in own:
        t1 = mk1()
        try:
            _scribble(to_json(t1))
        except Exception:  # noqa: BLE001
            continue
        for d2, mk2 in [(d1 + " (the same object)", lambda t1=t1: t1)] + own:
            own_n += 1
            t2 = mk2()
            hist = {"history": f"j = to_json({d1}); the caller writes into every dictionary of j; to_json({d2})"}
            try:
                j2 = to_json(t2)
            except Exception as e:  # noqa: BLE001
                chk.add_failure(hist, {"what": f"to_json raised {type(e).__name__}"}, None)
                continue
            bad = judge(t2, j2)
            if bad:
                chk.add_failure(hist, {"what": "a later rendering shows what a caller did to an earlier result", "complaints": bad[:3], "json": repr(j2)[:300]}, None)
    chk.evaluations += own_n
    chk.extra["caller_owned_result_histories"] = own_n
    # 3c. user-defined subclasses of the node classes (a class statement that only adds a method / a repr): a node of a derived
    #     class is rendered as the kind it is, exactly like a node of the base class with the same fields
    import dataclasses

    from predicate.all_predicate import AllPredicate as _All
    from predicate.any_predicate import AnyPredicate as _Any
    from predicate.predicate import AndPredicate as _And, FnPredicate as _Fn, NePredicate as _Ne, NotPredicate as _Not, OrPredicate as _Or, XorPredicate as _Xor

    def _sub(base):
        return dataclasses.dataclass(type("My" + base.__name__, (base,), {"extra": lambda self: 1, "__repr__": lambda self: "mine"}))

    SUB = {b: _sub(b) for b in (_And, _Or, _Xor, _Not, _All, _Any, _Ne, NamedPredicate, _Fn)}
    va, vb = NamedPredicate(name="a"), NamedPredicate(name="b")

    def _fn(x):
        return True

    pairs = [
        (SUB[_And](left=va, right=vb), _And(left=va, right=vb)), (SUB[_Or](left=va, right=vb), _Or(left=va, right=vb)), (SUB[_Xor](left=va, right=vb), _Xor(left=va, right=vb)),
        (SUB[_Not](predicate=va), _Not(predicate=va)), (SUB[_All](predicate=va), _All(predicate=va)), (SUB[_Any](predicate=va), _Any(predicate=va)),
        (SUB[_Ne](v=3), _Ne(v=3)), (SUB[NamedPredicate](name="zz"), NamedPredicate(name="zz")), (SUB[_Fn](predicate_fn=_fn), _Fn(predicate_fn=_fn)),
        (_Or(left=SUB[_And](left=va, right=SUB[_Not](predicate=vb)), right=vb), _Or(left=_And(left=va, right=_Not(predicate=vb)), right=vb)),
        (SUB[_Not](predicate=SUB[_Xor](left=SUB[_Ne](v=1), right=va)), _Not(predicate=_Xor(left=_Ne(v=1), right=va))),
    ]
    for k, (mine, base) in enumerate(pairs):
        try:
            got = to_json(mine)
        except Exception as e:  # noqa: BLE001
            chk.add_failure({"history": f"to_json of a tree with user subclasses of the node classes (case {k}: {type(mine).__name__})"}, {"what": f"to_json raised {type(e).__name__}: {e}"[:200]}, None)
            continue
        want = to_json(base)
        if got != want:
            chk.add_failure({"history": f"to_json of a tree with user subclasses of the node classes (case {k}: {type(mine).__name__})"}, {"what": "a node of a derived class is not rendered like a node of its base class", "got": repr(got)[:200], "base": repr(want)[:200]}, None)
    chk.evaluations += len(pairs)
    chk.extra["user_subclass_cases"] = len(pairs)
    # 4. the json command of main.py (an anchor of C18): what it prints is the JSON of the tree it parsed, for every expression,
    #    constants at the root included (judged by C20's reference reader, no model involved)
    from . import c20

    words = ["false", "true", "(false)", "(true)", "~false", "~true", "a", "~a", "false & a", "a | false", "false ^ true", "true & false", "(false) | (false)", "~(false)", "foo & ~bar | false",
             "knot & b", "cannot | a", "not & a", "and | or", "xor ^ not", "band & nor", "(knot ) & b", "whatnot ^ knot",
             # operators of different strength side by side without parentheses (the JSON nests as the language binds them)
             "a ^ b & c", "a & b ^ c", "a | b & c", "a & b | c", "a ^ b | c", "a | b ^ c", "~a ^ b", "~a & b | c", "a & b | c ^ d & e", "a ^ b ^ c & d | e", "~~a", "~ ~a & b",
             # many distinct variables (the json command has no reason to care how many there are)
             " & ".join("v" + chr(97 + k) for k in range(17)), " | ".join("w" + chr(97 + k) for k in range(26)), " ^ ".join(chr(97 + k) + chr(97 + j) for k in range(8) for j in range(5))]
    leaves = ["a", "b", "true", "false", "knot", "not", "or"]
    for _ in range(150 if tier == "quick" else 1500):
        n = rng.randint(1, 4)
        w = rng.choice(leaves)
        for _k in range(n):
            op = rng.choice(["&", "|", "^"])
            r = rng.choice(leaves)
            if rng.random() < 0.3:
                r = "~" + r
            w = f"({w}) {op} {r}" if rng.random() < 0.5 else f"{r} {op} ({w})"
        words.append(w)
    cdis = 0
    for w in words:
        res = c20.run_cli("json", False, w)
        if res.get("runner_error"):
            continue
        bad = c20.judge("json", False, w, res)
        stats["cli-json"] += 1
        if bad is not None:
            cdis += 1
            chk.add_failure({"cmd": "json", "optimize": False, "text": w}, {**bad, "stdout": res["out"][:200], "stderr": res["err"][:200], "exit": res["exit"]}, None)
    chk.evaluations += len(words)
    chk.extra["cli_json_invocations"] = len(words)
    chk.rule = (
        "(1) each of %d atoms alone = pool.atom_thunks (every exported constructor at 2-4 parameter choices) + every Predicate object in predicate.__all__ + fn_p over "
        "%d kinds of callable (lambda, def, functools.wraps, built-in, method descriptor, bound method, class, partial, callable object) + ne_p over %d constants "
        "(serialisable and not) + variables with %d awkward names; each also under ~, all_p, any_p and as left and as right operand of &, |, ^ (%d cases); "
        "(2) bounded-exhaustive: all trees with <= %d nodes over {&,|,^,~,all_p,any_p} and %d representative atoms, one per JSON-distinguishable kind (%d trees); "
        "(3) %d random trees of <= %d nodes over all atoms.  Trees are built with the user-facing operators.  Each case: model toJson vs to_json (structural, "
        "dictionaries as unordered maps, bool/int distinguished, constants by code, function names by the harness table), model shapeP vs the nesting read off the real JSON, "
        "model serialisable vs json.dumps; and the property judged on the real objects; (4) main.py's json command on constants, names and random small expressions, its stdout read back and compared with the expression.  non-trivial = distinct renderings with at least one connective."
        % (len(descs), len(_FNS), len(_NE_CONSTS), len(_VAR_NAMES), len(ctx), n_ex, n_rep, len(ex), n_rnd, size)
    )
    chk.samples = samples
    chk.extra["distribution"] = dict(sorted(stats.items()))
    chk.extra["atoms"] = len(descs)
    chk.assumptions = [
        "the name of a function atom is supplied to the model by the harness (__name__, else repr); "
        "the property check on the real objects demands the function's __name__ when it has one (a functools.wraps wrapper is named like the function it wraps)",
        "json.dumps is exercised, not modelled: a constant counts as serialisable iff json.dumps accepts it on its own",
    ]
    return chk.finish()


def replay(path):
    d = json.load(open(path))
    print(json.dumps({k: v for k, v in d.items() if k != "others"}, indent=1)[:2500])
    spec = d.get("input")
    if d.get("kind") == "failing-input" and isinstance(spec, dict) and spec.get("cmd") == "json":
        from . import c20

        res = c20.run_cli("json", False, spec["text"])
        bad = c20.judge("json", False, spec["text"], res)
        print("main.py json", repr(spec["text"]), "->", res)
        print("judged   :", bad or "stdout is the JSON of the expression")
        return 1 if bad else 0
    if isinstance(spec, dict) and "history" in spec:
        from ..core import replay_by_rerun

        return replay_by_rerun(main, path)
    if d.get("kind") != "failing-input" or not isinstance(spec, list):
        return 1
    thunks = dict(all_thunks())
    p = build(spec, thunks)
    print("predicate:", show(spec), "=", repr(p))
    try:
        j = to_json(p)
    except Exception as e:  # noqa: BLE001
        import traceback

        traceback.print_exc()
        print(f"to_json raised {type(e).__name__}: {e}")
        return 1
    bad = judge(p, j)
    cok = all(dumps_ok(v) for v in json_consts_all(p))
    print("to_json  :", j)
    print("judged   :", bad or "mirrors the predicate", "| dumps:", dumps_ok(j), "| constants serialisable:", cok)
    return 1 if (bad or (cok and not dumps_ok(j))) else 0
