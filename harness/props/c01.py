"""C01  optimize() preserves the Boolean function of a propositional predicate."""
import json
import random

from .. import cases, lift, optcorr, sx as S
from ..core import Check


def gen_cases(tier, seed):
    rng = random.Random(seed)
    n = 6 if tier == "quick" else 7
    exhaustive = list(cases.trees_upto(n, cases.prop_leaves(cases.NAMES3)))
    rnd = []
    leaves = cases.prop_leaves(cases.NAMES5)
    for _ in range(2000 if tier == "quick" else 30000):
        t = cases.random_tree(rng, rng.randint(7, 60), leaves)
        rnd.append(cases.random_var_states(rng, t))
    return exhaustive, rnd


def main(tier):
    chk = Check("C01", tier)
    chk.prove(modules=["PyPred.Props.C01", "PyPred.Props.C01Total"], checker=(tier == "thorough"))
    cfg, detail = optcorr.detect_cfg()
    chk.extra["cfg"] = cfg
    chk.extra["cfg_detail"] = detail
    exhaustive, rnd = gen_cases(tier, chk.seed)
    corpus = [S.parse1(l) for l in open("corpus/c01.sx")] if __import__("os").path.exists("corpus/c01.sx") else []
    optcorr.run(chk, "opt/corpus", corpus, cfg, optcorr.prop_differs)
    optcorr.run(chk, "opt/exhaustive", exhaustive, cfg, optcorr.prop_differs, share=True)
    two = list(cases.two_level(("a", "b"), extra=("tt",) if tier == "thorough" else ()))
    optcorr.run(chk, "opt/two-level", two, cfg, optcorr.prop_differs, share=True)
    optcorr.run(chk, "opt/random-shared", rnd, cfg, optcorr.prop_differs, share=True)
    chk.rule = (
        "bounded-exhaustive: every tree over {&,|,^,~,true,false} and 3 names with <= %d nodes; every two-level tree op1(op2(l1,l2), op3(l3,l4)) over the literals a, ~a, b, ~b (7-11 nodes); plus random trees of 7-60 nodes over 5 names with "
        "repeated / negated / shared sub-terms and random stored variable states. Each case: model optimizeT vs predicate.optimize (structural), "
        "and optimize(p) vs p under all 2^k assignments on the real objects. non-trivial = distinct inputs that optimize changes." % (6 if tier == "quick" else 7)
    )
    chk.exhaustive = False
    chk.samples = [S.show(t) for t in (exhaustive[4000:4003] + rnd[:3])]
    chk.assumptions = ["Python `__call__` of the connectives is truth-functional (C07) – compared on every case here through the real objects"]
    return chk.finish()


def replay(path):
    from predicate import optimize

    d = json.load(open(path))
    if d.get("kind") != "failing-input":
        print(json.dumps(d, indent=1))
        return 1
    sxp = S.parse1(d["input"])
    p = lift.lower(sxp, {})
    st = optcorr.prop_differs.before(p, sxp)
    o = optimize(p)
    w = optcorr.prop_differs.after(st, p, o, sxp)
    print("input    :", d["input"])
    print("optimized:", repr(o))
    print("differs  :", w)
    return 1 if w else 0
