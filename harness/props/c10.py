"""C10  Every value produced by generate_false(p) violates p.

Lean side: lean/PyPred/Model/GenVal.lean, Gen.lean (M6), lean/PyPred/Props/C10.lean, driver
lean/DriverGen.lean (`driver_gen`).  Machinery: harness/gencorr.py (see harness/props/c09.py).
Specs without a generate_false clause (ValueError "Please register …") are outside the property.
"""
from .. import gencorr


def main(tier):
    return gencorr.safety_check("C10", "F", tier)


def replay(path):
    return gencorr.safety_replay(path, "F")
