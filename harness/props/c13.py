"""C13  The basic Boolean laws are applied at the root for every atom."""
import json

from predicate import always_false_p, always_true_p, optimize
from predicate.negate import negate
from predicate.predicate import AndPredicate, NotPredicate, OrPredicate, XorPredicate

from .. import lift, optcorr, pool
from ..core import Check

T, F = always_true_p, always_false_p


def laws(mk):
    """(law name, left-hand side object, expected result as a function of fresh atoms)."""
    p = mk
    A, O, X, N = AndPredicate, OrPredicate, XorPredicate, NotPredicate
    out = [
        ("p & ~p", A(p(), N(p())), lambda: F), ("~p & p", A(N(p()), p()), lambda: F),
        ("p & negate(p)", A(p(), negate(p())), lambda: F), ("negate(p) & p", A(negate(p()), p()), lambda: F),
        ("p | ~p", O(p(), N(p())), lambda: T), ("~p | p", O(N(p()), p()), lambda: T),
        ("p | negate(p)", O(p(), negate(p())), lambda: T), ("negate(p) | p", O(negate(p()), p()), lambda: T),
        ("p ^ ~p", X(p(), N(p())), lambda: T), ("~p ^ p", X(N(p()), p()), lambda: T),
        ("p ^ negate(p)", X(p(), negate(p())), lambda: T), ("negate(p) ^ p", X(negate(p()), p()), lambda: T),
        ("p ^ p", X(p(), p()), lambda: F),
        ("p & p", A(p(), p()), lambda: optimize(p())), ("p | p", O(p(), p()), lambda: optimize(p())),
        ("p & true", A(p(), T), lambda: optimize(p())), ("true & p", A(T, p()), lambda: optimize(p())),
        ("p | false", O(p(), F), lambda: optimize(p())), ("false | p", O(F, p()), lambda: optimize(p())),
        ("p ^ false", X(p(), F), lambda: optimize(p())), ("false ^ p", X(F, p()), lambda: optimize(p())),
        ("~~p", N(N(p())), lambda: optimize(p())),
        ("p ^ true", X(p(), T), lambda: optimize(N(p()))), ("true ^ p", X(T, p()), lambda: optimize(N(p()))),
        ("p & false", A(p(), F), lambda: F), ("false & p", A(F, p()), lambda: F),
        ("p | true", O(p(), T), lambda: T), ("true | p", O(T, p()), lambda: T),
    ]
    return out


def _used_alternately(th):
    from predicate import is_int_p, is_str_p

    state = {"n": 0}

    def mk():
        state["n"] += 1
        q = th()
        if state["n"] % 2 == 1:
            x, y = is_int_p, is_str_p  # noqa: F841  (what lazy_p("x") / lazy_p("y") resolve to from here)
            for v in (0, "a", None, [1], 1.5, (1, "a")):
                try:
                    q(v)
                except Exception:  # noqa: BLE001
                    pass
        return q

    return mk


def main(tier):
    chk = Check("C13", tier)
    chk.prove(modules=["PyPred.Props.C13", "PyPred.Props.C13Total"], checker=(tier == "thorough"))
    cfg, detail = optcorr.detect_cfg()
    chk.extra["cfg"] = cfg
    atoms = [(d, th) for d, th in pool.atom_thunks() if not d.startswith(("all ", "any "))]
    # the library's own named atoms (neg_p, zero_p, is_int_p, ... : the objects a user imports), each as itself
    import predicate as _P
    from predicate.predicate import Predicate as _Pred
    from predicate.all_predicate import AllPredicate as _All
    from predicate.any_predicate import AnyPredicate as _Any
    from predicate.predicate import AndPredicate as _A, NotPredicate as _N, OrPredicate as _O, XorPredicate as _X

    for nm in sorted(set(getattr(_P, "__all__", dir(_P))) | {"neg_p", "zero_p", "pos_p", "eq_true_p", "eq_false_p"}):
        obj = getattr(_P, nm, None) or getattr(__import__("predicate.standard_predicates", fromlist=[nm]), nm, None)
        if isinstance(obj, _Pred) and not isinstance(obj, (_A, _O, _X, _N, _All, _Any)) and nm not in ("this_p", "root_p"):
            try:
                lift.lift(obj)
            except Exception:  # noqa: BLE001  (kinds outside the wire format are covered through the pool)
                continue
            atoms.append((f"exported {nm}", lambda obj=obj: obj))
    # history prelude: nested conjunctions / disjunctions / xors over the atoms and their negations are optimised first -- the laws
    # must hold afterwards exactly as in a fresh process (a helper that keeps operands of earlier calls would show)
    import random as _random

    hr = _random.Random(chk.seed + 13)
    thunks_ = [th for _d, th in atoms]
    for _ in range(400 if tier == "quick" else 3000):
        a, b, c = (hr.choice(thunks_)() for _k in range(3))
        if hr.random() < 0.4:
            c = negate(hr.choice(thunks_)())
        op1, op2 = hr.choice((_A, _O, _X)), hr.choice((_A, _O))
        t = op2(left=op1(left=a, right=b), right=c) if hr.random() < 0.5 else op2(left=a, right=op1(left=b, right=c))
        try:
            optcorr._watchdog(lambda t=t: optimize(t), ("tt",))
        except Exception:  # noqa: BLE001
            pass
    items, expected = [], {}
    import copy

    for d, th in atoms:
        for name, lhs, exp in laws(th):
            key = f"{name}   with p = {d}"
            items.append((key, lhs))
            expected[key] = exp
            # the same law over equal but distinct objects (a deep copy: the constants are then not the module's
            # always_true_p / always_false_p objects, e.g. after a pickle round trip or AlwaysTruePredicate())
            try:
                twin = copy.deepcopy(lhs)
                if not (twin == lhs):  # parameters without value equality (partial objects, instances bound to methods): the copy is another predicate
                    continue
            except Exception:  # noqa: BLE001
                continue
            key2 = f"{name}   with p = {d}   [deep copy: equal, distinct objects]"
            items.append((key2, twin))
            expected[key2] = exp
        # the same law where every other occurrence of p is an object that was USED before (called on a few values, with the names its
        # references look up bound in the calling frames) and the others are freshly built: p is the same atom -- same kind, same parameters
        for name, lhs, exp in laws(_used_alternately(th)):
            key3 = f"{name}   with p = {d}   [every other occurrence was called on values before]"
            items.append((key3, lhs))
            expected[key3] = exp
    cur = {}

    def judge_factory():
        it = iter(items)

        def judge(p, o):
            key, _ = next(it)
            want = expected[key]()
            if o == want:
                return None
            return {"expected": repr(want), "got": repr(o)}

        return judge

    optcorr.run_objects(chk, "opt/laws", items, cfg, judge_factory())
    chk.rule = (
        "28 law instances (both operand orders), each also as a deep copy (equal but distinct objects, constants included) and with every other occurrence of p an object that was called on values before, for each of %d atoms = every exported atom kind at 2-4 parameter choices, incl. opaque ones "
        "(has_key, has_length, regex, lazy, this, root, tee, property, comp, tuple/set/dict 'of', function atoms over built-ins): model optimizeT vs "
        "predicate.optimize on the law's left-hand side, and the result compared (==) with the result the property names. "
        "non-trivial = distinct left-hand sides that optimize changes." % len(atoms)
    )
    chk.samples = [k for k, _ in items[200:206]]
    chk.exhaustive = False
    return chk.finish()


def replay(path):
    from ..core import replay_by_rerun

    return replay_by_rerun(main, path)
