"""C13  The basic Boolean laws are applied at the root for every atom."""
import json

from predicate import always_false_p, always_true_p, optimize
from predicate.negate import negate
from predicate.predicate import AndPredicate, NotPredicate, OrPredicate, XorPredicate

from .. import optcorr, pool
from ..core import Check

T, F = always_true_p, always_false_p


def laws(mk):
    """(law name, left-hand side object, expected result as a function of fresh atoms)."""
    p = mk
    A, O, X, N = AndPredicate, OrPredicate, XorPredicate, NotPredicate
    out = [
        ("p & ~p", A(p(), N(p())), lambda: F), ("~p & p", A(N(p()), p()), lambda: F),
        ("p & negate(p)", A(p(), negate(p())), lambda: F), ("negate(p) & p", A(negate(p()), p()), lambda: F),
        ("p | ~p", O(p(), N(p())), lambda: T), ("~p | p", O(N(p()), p()), lambda: T),
        ("p | negate(p)", O(p(), negate(p())), lambda: T), ("negate(p) | p", O(negate(p()), p()), lambda: T),
        ("p ^ ~p", X(p(), N(p())), lambda: T), ("~p ^ p", X(N(p()), p()), lambda: T),
        ("p ^ negate(p)", X(p(), negate(p())), lambda: T), ("negate(p) ^ p", X(negate(p()), p()), lambda: T),
        ("p ^ p", X(p(), p()), lambda: F),
        ("p & p", A(p(), p()), lambda: optimize(p())), ("p | p", O(p(), p()), lambda: optimize(p())),
        ("p & true", A(p(), T), lambda: optimize(p())), ("true & p", A(T, p()), lambda: optimize(p())),
        ("p | false", O(p(), F), lambda: optimize(p())), ("false | p", O(F, p()), lambda: optimize(p())),
        ("p ^ false", X(p(), F), lambda: optimize(p())), ("false ^ p", X(F, p()), lambda: optimize(p())),
        ("~~p", N(N(p())), lambda: optimize(p())),
        ("p ^ true", X(p(), T), lambda: optimize(N(p()))), ("true ^ p", X(T, p()), lambda: optimize(N(p()))),
        ("p & false", A(p(), F), lambda: F), ("false & p", A(F, p()), lambda: F),
        ("p | true", O(p(), T), lambda: T), ("true | p", O(T, p()), lambda: T),
    ]
    return out


def main(tier):
    chk = Check("C13", tier)
    chk.prove(modules=["PyPred.Props.C13", "PyPred.Props.C13Total"], checker=(tier == "thorough"))
    cfg, detail = optcorr.detect_cfg()
    chk.extra["cfg"] = cfg
    atoms = [(d, th) for d, th in pool.atom_thunks() if not d.startswith(("all ", "any "))]
    items, expected = [], {}
    import copy

    for d, th in atoms:
        for name, lhs, exp in laws(th):
            key = f"{name}   with p = {d}"
            items.append((key, lhs))
            expected[key] = exp
            # the same law over equal but distinct objects (a deep copy: the constants are then not the module's
            # always_true_p / always_false_p objects, e.g. after a pickle round trip or AlwaysTruePredicate())
            try:
                twin = copy.deepcopy(lhs)
                if not (twin == lhs):  # parameters without value equality (partial objects, instances bound to methods): the copy is another predicate
                    continue
            except Exception:  # noqa: BLE001
                continue
            key2 = f"{name}   with p = {d}   [deep copy: equal, distinct objects]"
            items.append((key2, twin))
            expected[key2] = exp
    cur = {}

    def judge_factory():
        it = iter(items)

        def judge(p, o):
            key, _ = next(it)
            want = expected[key]()
            if o == want:
                return None
            return {"expected": repr(want), "got": repr(o)}

        return judge

    optcorr.run_objects(chk, "opt/laws", items, cfg, judge_factory())
    chk.rule = (
        "28 law instances (both operand orders), each also as a deep copy (equal but distinct objects, constants included), for each of %d atoms = every exported atom kind at 2-4 parameter choices, incl. opaque ones "
        "(has_key, has_length, regex, lazy, this, root, tee, property, comp, tuple/set/dict 'of', function atoms over built-ins): model optimizeT vs "
        "predicate.optimize on the law's left-hand side, and the result compared (==) with the result the property names. "
        "non-trivial = distinct left-hand sides that optimize changes." % len(atoms)
    )
    chk.samples = [k for k, _ in items[200:206]]
    chk.exhaustive = False
    return chk.finish()


def replay(path):
    from ..core import replay_by_rerun

    return replay_by_rerun(main, path)
