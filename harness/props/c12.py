"""C12  optimize() always terminates, and analysis functions never mutate their input."""
import copy
import itertools
import json
import random
import sys

from predicate import can_optimize, generate_false, generate_true, optimize, to_dot, to_json
from predicate.implies import implies
from predicate.negate import negate
from predicate.predicate import Predicate

from .. import budget, cases, lift, optcorr, sx as S
from ..core import Check

sys.setrecursionlimit(100000)


snapshot = optcorr.snapshot
PURITY_BUDGET = 400000  # line events per analysis call in the purity histories (trees of <= 30 nodes need a few thousand)


def cost_limit(size):
    """Generous polynomial allowance for the number of optimize* invocations (observed: <= ~0.3 size^2)."""
    return 20 * size * size + 2000


def count_optimize_calls(p, size):
    return optcorr.optimize_counted(p, cost_limit(size))[1]


def chain(kind, n):
    """Growing families (DESIGN.md §7 C12)."""
    v = lambda i: ("var", f"x{i}", "0")  # noqa: E731
    if kind == "xor-and":  # ((a & P) ^ b) nested
        t = v(0)
        for i in range(1, n):
            t = ("xor", ("and", v(i), t), v(i + n))
        return t
    if kind == "and-or":  # a & (b | P)
        t = v(0)
        for i in range(1, n):
            t = ("and", v(i), ("or", v(i + n), t))
        return t
    if kind == "all-and":  # all(P) & all(a)
        t = ("all", ("ge", "2"))
        for i in range(1, n):
            t = ("and", t, ("all", ("ge", str(2 * i))))
        return t
    if kind == "not-xor":
        t = v(0)
        for i in range(1, n):
            t = ("not", ("xor", ("and", v(i), t), v(i + n)))
        return t
    if kind == "balanced":
        def b(lo, hi, d):
            if hi - lo <= 1:
                return v(lo)
            m = (lo + hi) // 2
            return (("and", "or", "xor")[d % 3], b(lo, m, d + 1), b(m, hi, d + 1))
        return b(0, n, 0)
    if kind == "or-chain-neg":
        t = v(0)
        for i in range(1, n):
            t = ("or", t, ("not", v(i % 3)))
        return t
    if kind == "any-not-and-or":  # any(~((P | u) & v)): exponential before fix cc7f1c3 (ANY4 re-optimised an optimised body)
        t = v(0)
        for i in range(1, n):
            t = ("any", ("not", ("and", ("or", t, v(i + n)), v(i))))
        return t
    if kind == "and-all-chain":  # AND14-heavy, the worst constant found after the repair (about 0.3-0.4 size^2)
        t = "notnone"
        for i in range(max(1, n // 8)):
            a = v(i)
            for _ in range(8):
                a = ("all", a)
            t = ("and", a, ("all", t))
        return t
    if kind == "any-tower":  # any^k(ne 1): k(k+3)/2 invocations before the repair, k+1 after
        t = ("ne", "2")
        for _ in range(n):
            t = ("any", t)
        return t
    raise ValueError(kind)


FAMILIES = ["xor-and", "and-or", "all-and", "not-xor", "balanced", "or-chain-neg", "any-not-and-or", "and-all-chain", "any-tower"]


def py_invocations(p):
    """optimize(p) and the number of model-level invocations: calls of the dispatcher `optimize` plus the two direct
    re-entries that bypass it (optimize_and_predicate / optimize_xor_predicate called from a rule, not from the dispatcher)."""
    n = 0

    def prof(frame, event, arg):
        nonlocal n
        if event != "call" or "optimizer" not in frame.f_code.co_filename:
            return
        name = frame.f_code.co_name
        if name == "optimize":
            n += 1
        elif name in ("optimize_and_predicate", "optimize_xor_predicate"):
            back = frame.f_back
            if back is None or back.f_code.co_name != "optimize":
                n += 1
        if n > 5_000_000:
            raise optcorr.CostExceeded("more than 5e6 invocations")

    sys.setprofile(prof)
    try:
        o = optimize(p)
    finally:
        sys.setprofile(None)
    return o, n


def optcorr_call(p, x):
    try:
        return bool(p(x))
    except Exception as e:  # noqa: BLE001
        return type(e).__name__


def main(tier):
    chk = Check("C12", tier)
    chk.prove(modules=["PyPred.Props.C12", "PyPred.Props.C12T", "PyPred.Props.C12P"], checker=(tier == "thorough"), exes=("driver", "driver_cost"))
    rng = random.Random(chk.seed)
    cfg, detail = optcorr.detect_cfg()
    chk.extra["cfg"] = cfg
    # 1. termination on the C01-C03 term spaces: the model never runs out of fuel and the implementation returns a predicate
    optcorr.CALL_BUDGET = cost_limit
    optcorr.SNAPSHOT = True  # every optimize call of the termination pass is also a purity observation
    never = optcorr.NoJudge()  # meaning preservation is C01-C03's business
    prop = list(cases.trees_upto(5 if tier == "quick" else 6, cases.prop_leaves(cases.NAMES3)))
    scal = rng.sample(list(cases.pair_shapes(cases.scalar_atoms())), 6000 if tier == "quick" else 30000)
    quant = [cases.random_tree(rng, rng.randint(3, 14), list(cases.quantified_atoms(cases.elem_preds()))[:60] + cases.coll_atoms() + ["tt", "ff"]) for _ in range(1500)]
    big = [cases.random_tree(rng, rng.randint(60, 400), cases.prop_leaves(cases.NAMES5) + cases.scalar_atoms()[:30]) for _ in range(150 if tier == "quick" else 1500)]
    rep = list(cases.repeat_shapes(cases.mergeable_atoms()))
    for name, cs in (("opt/prop", prop), ("opt/scalar", scal), ("opt/repeated-atom", rep), ("opt/quantified", quant), ("opt/big-random", big), ("opt/print-alike-constants", cases.printalike_trees())):
        optcorr.run(chk, name, cs, cfg, never, share=True)
    # 1b. the model's exact invocation counter (optimizeC, Model/OptimizeCost.lean) == the implementation's
    from .. import driver

    cc = prop[::2] + scal[:1500] + quant[:800] + big[:60] + [chain(f, n) for f in FAMILIES for n in (4, 8, 16, 24)]
    out = driver.run((f"optc {cfg} {S.show(t)}" for t in cc), exe="driver_cost", src="DriverCost.lean")
    cdis, worst = [], (0.0, None)
    for t, line in zip(cc, out):
        if line == "FUEL" or line.startswith("ERR"):
            cdis.append({"input": S.show(t)[:300], "model": line})
            continue
        text, calls, _k = line.rsplit(" ", 2)
        try:
            o, n = py_invocations(lift.lower(t, {}))
            ptxt = S.show(lift.lift(o))
        except optcorr.CostExceeded as e:
            ptxt, n = f"RAISED {e}", -1
        except Exception as e:  # noqa: BLE001
            ptxt, n = f"RAISED {type(e).__name__}", -1
        if ptxt != text or int(calls) != n:
            cdis.append({"input": S.show(t)[:300], "model": f"{text[:120]} calls={calls}", "implementation": f"{ptxt[:120]} calls={n}"})
        r = int(calls) / (S.size(t) ** 2)
        if S.size(t) >= 20 and r > worst[0]:
            worst = (r, {"size": S.size(t), "invocations": int(calls), "input": S.show(t)[:120]})
    chk.add_corr("cost/exact-invocation-count", len(cc), cdis, note="model optimizeC vs sys.setprofile count of optimize / direct re-entries")
    # the family of the lower-bound theorem (C12_cost_lower_exact): lbFam 0 = all(f0), lbFam (k+1) = all(f_{k+1}) & all(lbFam k)
    # costs exactly 3k^2 + 10k + 2 invocations at size 4k + 2 -- the real code must agree call for call
    from predicate import all_p as _allp, fn_p as _fnp
    from predicate.predicate import AndPredicate as _And

    def _lb(k):
        fs = [(lambda x, i=i: True) for i in range(k + 1)]
        t = _allp(_fnp(fs[0]))
        for i in range(1, k + 1):
            t = _And(left=_allp(_fnp(fs[i])), right=_allp(t))
        return t

    lbdis = []
    ks = (0, 1, 2, 3, 8, 24) if tier == "quick" else (0, 1, 2, 3, 8, 24, 64, 128)
    for k in ks:
        try:
            _o, got = py_invocations(_lb(k))
        except Exception as e:  # noqa: BLE001
            got = f"raised {type(e).__name__}"
        if got != 3 * k * k + 10 * k + 2:
            lbdis.append({"input": f"lbFam {k}", "theorem": 3 * k * k + 10 * k + 2, "implementation": got})
    chk.add_corr("cost/lower-bound-family", len(ks), lbdis, note="C12_cost_lower_exact: 3k^2+10k+2 invocations at size 4k+2")
    chk.evaluations += len(cc)
    chk.extra["worst_invocations_over_size_squared"] = {"ratio": round(worst[0], 3), **(worst[1] or {})}
    # 2. cost: number of optimize* invocations on growing families (measurement, not proof)
    sizes = [8, 16, 32, 64] + ([128, 256] if tier == "thorough" else [128])
    cost = {}
    for fam in FAMILIES:
        row = []
        for n in sizes:
            t = chain(fam, n)
            p = lift.lower(t)
            try:
                c = count_optimize_calls(p, S.size(t))
            except optcorr.CostExceeded as e:
                chk.add_failure(f"family {fam} n={n}", {"what": f"optimize* call count exceeds the polynomial allowance 20*size^2+2000 at size {S.size(t)}: {e}"}, None)
                break
            except RecursionError:
                chk.add_failure(f"family {fam} n={n}", {"what": "RecursionError in optimize"}, None)
                break
            row.append((S.size(t), c))
        cost[fam] = row
        for (s1, c1), (s2, c2) in zip(row[1:], row[2:]):
            ratio = c2 / max(c1, 1)
            grow = s2 / s1
            if ratio > grow**3:  # worse than cubic between consecutive sizes
                chk.add_failure(f"family {fam}", {"what": "optimize* call count grows faster than cubic", "sizes": [s1, s2], "calls": [c1, c2]}, None)
    chk.extra["optimize_calls_by_family(size,calls)"] = cost
    # 3. purity: sequences of analysis calls on one shared object
    ops = ["optimize", "can_optimize", "negate", "implies", "to_json", "to_dot", "generate_true", "generate_false"]
    pool_sx = prop[200:260] + scal[:150] + quant[:150]
    nseq = 250 if tier == "quick" else 3000
    calls = 0
    # reference nodes (lazy_p / this_p) too: an analysis call must not resolve or bind them -- the harness frame does hold
    # predicates under the referenced names, so a call that looks them up on the caller's behalf would find something
    from predicate import all_p as _all_p, is_int_p as _is_int_p, is_list_of_p as _is_list_of_p, is_str_p as _is_str_p, lazy_p as _lazy_p, this_p as _this_p

    ref_x = _is_int_p  # noqa: F841  (found by a frame walk for "ref_x")
    ref_y = _is_str_p | _is_int_p  # noqa: F841
    py_pool = [
        ("lazy_p('ref_x') | is_str_p", lambda: _lazy_p("ref_x") | _is_str_p),
        ("all_p(lazy_p('ref_y'))", lambda: _all_p(_lazy_p("ref_y"))),
        ("is_int_p & ~lazy_p('ref_x')", lambda: _is_int_p & ~_lazy_p("ref_x")),
        ("lazy_p('ref_nowhere') | is_int_p", lambda: _lazy_p("ref_nowhere") | _is_int_p),
        ("is_str_p | is_list_of_p(this_p)", lambda: _is_str_p | _is_list_of_p(_this_p)),
    ]
    for k in range(nseq):
        if k % 8 == 7:
            s, th = py_pool[(k // 8) % len(py_pool)]
            p = th()
        else:
            s = rng.choice(pool_sx)
            p = lift.lower(s, share={})
        other = lift.lower(rng.choice(pool_sx))
        before = snapshot(p)
        fresh = copy.deepcopy(p)
        for _k in range(rng.randint(1, 8 if tier == "quick" else 30)):
            op = rng.choice(ops)
            if isinstance(s, str) and op.startswith("generate"):
                op = "to_dot"  # the generators evaluate the predicate (rejection filters), and evaluating a reference resolves it: legitimate
            calls += 1
            lim = lambda fn: budget.limited(fn, PURITY_BUDGET)[0]  # noqa: E731  every library call under a line-event budget
            try:
                if op == "optimize":
                    r1, r2 = lim(lambda: optimize(p)), lim(lambda: optimize(copy.deepcopy(fresh)))
                    same = r1 == r2
                elif op == "can_optimize":
                    same = lim(lambda: can_optimize(p)) == lim(lambda: can_optimize(copy.deepcopy(fresh)))
                elif op == "negate":
                    same = lim(lambda: negate(p)) == lim(lambda: negate(copy.deepcopy(fresh)))
                elif op == "implies":
                    same = lim(lambda: implies(p, other)) == lim(lambda: implies(copy.deepcopy(fresh), other)) and lim(lambda: implies(other, p)) == lim(lambda: implies(other, copy.deepcopy(fresh)))
                elif op == "to_json":
                    same = lim(lambda: to_json(p)) == lim(lambda: to_json(copy.deepcopy(fresh)))
                elif op == "to_dot":
                    same = lim(lambda: to_dot(p).body) == lim(lambda: to_dot(copy.deepcopy(fresh)).body)
                else:
                    g = generate_true if op == "generate_true" else generate_false
                    budget.take(lambda: g(p), 3, 20000)
                    same = True
            except budget.Starved:
                if op in ("optimize", "can_optimize"):  # the terminating half of the property
                    chk.add_failure(s if isinstance(s, str) else S.show(s), {"what": f"{op} did not return within {PURITY_BUDGET} interpreter line events"}, None)
                    break
                same = True
            except Exception:  # noqa: BLE001  an exception is not a mutation (C17/C18/C09 judge those)
                same = True
            after = snapshot(p)
            if after != before:
                chk.add_failure(s if isinstance(s, str) else S.show(s), {"what": f"{op} mutated its argument", "before": str(before)[:300], "after": str(after)[:300]}, None)
                break
            if not same:
                chk.add_failure(s if isinstance(s, str) else S.show(s), {"what": f"{op} answers differently on the used object and on a fresh copy"}, None)
                break
    # 3b. directed purity: a leaf with a mutable parameter (a set) below a wrapper that optimises away to that very leaf object
    #     (x & true, ~~x, x | x, ...), combined with a partner the set-algebra rules merge it with: optimize may hand the caller's
    #     leaf on, it may not write into it
    from predicate import always_false_p as _ff, always_true_p as _tt, eq_p as _eq, in_p as _in, is_subset_p as _sub, is_superset_p as _sup, ne_p as _ne, not_in_p as _nin

    leaves = [("in_p(1, 2)", lambda: _in(1, 2)), ("not_in_p(1, 2)", lambda: _nin(1, 2)), ("in_p(1, 2, 3)", lambda: _in(1, 2, 3)), ("is_subset_p({1, 2})", lambda: _sub({1, 2})),
              ("is_superset_p({1, 2})", lambda: _sup({1, 2})), ("in_p(1)", lambda: _in(1))]
    wraps = [("x", lambda x, mk: x), ("x & true", lambda x, mk: x & _tt), ("true & x", lambda x, mk: _tt & x), ("~~x", lambda x, mk: ~~x), ("x | x'", lambda x, mk: x | mk()), ("x & x'", lambda x, mk: x & mk()),
             ("x | false", lambda x, mk: x | _ff), ("false ^ x", lambda x, mk: _ff ^ x), ("~~(x & true)", lambda x, mk: ~~(x & _tt))]
    partners = [("eq_p(3)", lambda: _eq(3)), ("eq_p(1)", lambda: _eq(1)), ("ne_p(3)", lambda: _ne(3)), ("ne_p(1)", lambda: _ne(1)), ("in_p(3, 4)", lambda: _in(3, 4)), ("in_p(2, 3)", lambda: _in(2, 3)),
                ("not_in_p(2, 3)", lambda: _nin(2, 3)), ("not_in_p(5)", lambda: _nin(5)), ("is_subset_p({2, 3})", lambda: _sub({2, 3})), ("is_superset_p({3})", lambda: _sup({3}))]
    import operator as _op

    directed = 0
    for (dl, mkl), (dw, wr), (dp, mkp) in itertools.product(leaves, wraps, partners):
        for sym, f in (("&", _op.and_), ("|", _op.or_), ("^", _op.xor)):
            for order in (0, 1):
                leaf, partner = mkl(), mkp()
                w = wr(leaf, mkl)
                t = f(w, partner) if order == 0 else f(partner, w)
                text = f"({dw} with x = {dl}) {sym} {dp}" if order == 0 else f"{dp} {sym} ({dw} with x = {dl})"
                before, lbefore = snapshot(t), snapshot(leaf)
                probes = [0, 1, 2, 3, 4, 5, {1}, {1, 2}, {2, 3}, {1, 2, 3}, set()]
                ans = [optcorr_call(t, x) for x in probes]
                for opname, fn in (("optimize", optimize), ("can_optimize", can_optimize)):
                    directed += 1
                    try:
                        optcorr._watchdog(lambda fn=fn, t=t: fn(t), ("tt",))
                    except optcorr.HarnessError:
                        raise
                    except Exception:  # noqa: BLE001
                        pass
                    if snapshot(t) != before or snapshot(leaf) != lbefore:
                        chk.add_failure(text, {"what": f"{opname} mutated its argument (a leaf reached through a wrapper that optimises away)", "leaf_before": str(lbefore)[:200], "leaf_after": str(snapshot(leaf))[:200]}, None)
                        break
                    if [optcorr_call(t, x) for x in probes] != ans:
                        chk.add_failure(text, {"what": f"after {opname} the argument answers differently"}, None)
                        break
    chk.evaluations += directed
    chk.extra["purity_directed_wrapped_leaves"] = directed
    chk.evaluations += calls
    chk.extra["purity_sequences"] = nseq
    chk.extra["purity_calls"] = calls
    chk.extra["polynomial_bound"] = (
        "PROVED (Props/C12P.lean): for every tree, constant type and configuration the model makes at most 12*w(p)^2 <= 48*size^2 optimize invocations "
        "(C12_cost_quadratic, C12_invocations_quadratic for the exact counter), with a matching quadratic lower bound (C12_cost_lower_exact).  The counter is "
        "compared with the implementation's call count case by case on every run; the growth per family below is an additional measurement on the real code."
    )
    chk.rule = (
        "termination: every propositional tree <= %d nodes, sampled scalar pair shapes, random quantified trees and %d random trees of 60-400 nodes, model vs "
        "implementation (the model never out of fuel, the implementation never raising); cost: the model's exact invocation counter == the implementation's on a sample of every space, and optimize* invocation counts on 9 growing families up to size ~%d against 20*size^2+2000 and a cubic growth test; "
        "purity: %d random sequences of optimize/can_optimize/negate/implies/to_json/to_dot/generate_true/generate_false on one shared object with a deep "
        "structural snapshot after every call and comparison with a fresh deep copy. non-trivial = distinct inputs changed by optimize."
        % (5 if tier == "quick" else 6, len(big), 3 * sizes[-1], nseq)
    )
    chk.samples = [S.show(prop[777]), S.show(scal[5]), S.show(quant[3]), "chain xor-and n=8: " + S.show(chain("xor-and", 3))]
    return chk.finish()


def replay(path):
    from ..core import replay_by_rerun

    return replay_by_rerun(main, path)
