"""C09  Every value produced by generate_true(p) satisfies p.

Lean side: lean/PyPred/Model/GenVal.lean, Gen.lean (M6), lean/PyPred/Props/C09.lean, driver
lean/DriverGen.lean (`driver_gen`).  Machinery: harness/gencorr.py.

* correspondence: for every spec of the parameter grid and every tape, the first N results of successive
  next() calls on the real generator (random source = the tape, each next under a line-event budget) against
  the model: yielded values, the requests made to random/uuid4/now, and the final status;
* the property on the real code: every yielded value is called through the real predicate (tapes and real seeds);
* evalG (the reference evaluator the theorem is about) against the real predicate on generated values.
"""
from .. import gencorr


def main(tier):
    return gencorr.safety_check("C09", "T", tier)


def replay(path):
    return gencorr.safety_replay(path, "T")
