"""C15  truth_table(p) is the complete, ordered, history-independent evaluation of p.

Histories: a heap of NamedPredicate objects (several objects may carry one name,
one object may occur many times and in several trees), 1-3 trees over them, 1-4
live `truth_table` generators (two generators may tabulate the same tree) and a
schedule of `next` calls.  Every answer of every `next` (row / StopIteration /
exception type) and the final `.v` of every object is compared with the Lean model
(lean/PyPred/Model/TruthTable.lean through `driver_tt`), and independently with the
property's own description computed in Python (sorted distinct names, ascending
product, reference evaluation of the lifted AST).
"""
import itertools
import json
import random
from collections import Counter
from itertools import repeat

from more_itertools import gray_product

from predicate import (
    AlwaysFalsePredicate, AlwaysTruePredicate, AndPredicate, NotPredicate, OrPredicate, XorPredicate,
    all_p, always_false_p, always_true_p, any_p, comp_p, eq_p, fn_p, ge_p, has_length_p, in_p, is_dict_of_p, is_empty_p,
    is_falsy_p, is_int_p, is_none_p, is_set_of_p, is_str_p, is_truthy_p, is_tuple_of_p, lazy_p, ne_p, regex_p, tee_p,
)
from predicate.named_predicate import NamedPredicate
from predicate.truth_table import get_named_predicates, truth_table

from .. import budget, cases, driver
from ..core import Check
from . import c15g

EXE = dict(exe="driver_tt", src="DriverTT.lean")
NEXT_BUDGET = 50_000  # line events per next(): two traversals and one evaluation of a tree of <= 13 nodes need < 1000

# names: one-letter, multi-letter, mixed case, digits, underscore, non-ASCII – Python sorts str by code point
NAME_POOL = ["a", "b", "c", "d", "e", "B", "Z", "A", "ab", "aa", "a1", "b0", "_x", "zz", "é", "ä", "ß", "Ab", "a_", "E",
             "x2", "x10", "x9", "a10", "a2", "a02", "x1y", "x01"]  # digit runs: string order is not numeric order

# foreign nodes for the malformed stream: (description, constructor taking the list of variable objects)
FOREIGN = [
    ("eq_p(1)", lambda vs: eq_p(1)),
    ("ne_p(1)", lambda vs: ne_p(1)),
    ("ge_p(2)", lambda vs: ge_p(2)),
    ("in_p(1,2)", lambda vs: in_p(1, 2)),
    ("is_int_p", lambda vs: is_int_p),
    ("is_none_p", lambda vs: is_none_p),
    ("is_truthy_p", lambda vs: is_truthy_p),
    ("is_falsy_p", lambda vs: is_falsy_p),
    ("is_empty_p", lambda vs: is_empty_p),
    ("fn_p(lambda)", lambda vs: fn_p(lambda x: True)),
    ("all_p(var0)", lambda vs: all_p(vs[0])),
    ("any_p(var0)", lambda vs: any_p(vs[0])),
    ("all_p(eq_p(1))", lambda vs: all_p(eq_p(1))),
    ("comp_p(f, var0)", lambda vs: comp_p(lambda x: x, vs[0])),
    ("has_length_p(1)", lambda vs: has_length_p(1)),
    ("regex_p('a')", lambda vs: regex_p("a")),
    ("lazy_p('x')", lambda vs: lazy_p("x")),
    ("tee_p", lambda vs: tee_p(lambda x: None)),
    ("is_tuple_of_p(var0)", lambda vs: is_tuple_of_p(vs[0])),
    ("is_set_of_p(is_str_p)", lambda vs: is_set_of_p(is_str_p)),
    ("is_dict_of_p", lambda vs: is_dict_of_p((is_str_p, is_int_p))),
]

# ---------------------------------------------------------------- case specs (JSON-able)
# tree spec: "tt" | "ff" | ["v", i] | ["o", k] | ["ref", j] (the *same object* as the earlier tree j)
#            | ["and"|"or"|"xor", l, r] | ["not", p]


def build(spec, objs, built):
    if spec == "tt":
        return always_true_p
    if spec == "ff":
        return always_false_p
    h = spec[0]
    if h == "v":
        return objs[spec[1]]
    if h == "o":
        return FOREIGN[spec[1]][1](objs)
    if h == "ref":
        return built[spec[1]]
    if h == "not":
        return NotPredicate(predicate=build(spec[1], objs, built))
    cls = {"and": AndPredicate, "or": OrPredicate, "xor": XorPredicate}[h]
    return cls(left=build(spec[1], objs, built), right=build(spec[2], objs, built))


def lift_tt(p, objid, foreign_kind):
    """The real object graph -> the model's tree.  Variables by *identity*."""
    c = type(p)
    if c is AlwaysTruePredicate:
        return "tt"
    if c is AlwaysFalsePredicate:
        return "ff"
    if c is NamedPredicate:
        return f"(v {objid[id(p)]})"
    if c is AndPredicate:
        return f"(and {lift_tt(p.left, objid, foreign_kind)} {lift_tt(p.right, objid, foreign_kind)})"
    if c is OrPredicate:
        return f"(or {lift_tt(p.left, objid, foreign_kind)} {lift_tt(p.right, objid, foreign_kind)})"
    if c is XorPredicate:
        return f"(xor {lift_tt(p.left, objid, foreign_kind)} {lift_tt(p.right, objid, foreign_kind)})"
    if c is NotPredicate:
        return f"(not {lift_tt(p.predicate, objid, foreign_kind)})"
    return f"(o {foreign_kind.setdefault(c.__name__, len(foreign_kind))})"


def tree_nodes(spec, trees):
    if isinstance(spec, str):
        return 1
    if spec[0] in ("v", "o"):
        return 1
    if spec[0] == "ref":
        return tree_nodes(trees[spec[1]], trees)
    return 1 + sum(tree_nodes(s, trees) for s in spec[1:])


def tree_objs(spec, trees):
    if isinstance(spec, str) or spec[0] == "o":
        return []
    if spec[0] == "v":
        return [spec[1]]
    if spec[0] == "ref":
        return tree_objs(trees[spec[1]], trees)
    return [o for s in spec[1:] for o in tree_objs(s, trees)]


def is_prop(spec, trees):
    if isinstance(spec, str) or spec[0] == "v":
        return True
    if spec[0] == "o":
        return False
    if spec[0] == "ref":
        return is_prop(trees[spec[1]], trees)
    return all(is_prop(s, trees) for s in spec[1:])


# ---------------------------------------------------------------- running a history on the real code


def canon_step(x):
    comb, val = x
    if not (isinstance(comb, tuple) and all(b is True or b is False for b in comb) and (val is True or val is False)):
        return f"(odd {x!r})"
    return "(r %s %s)" % ("".join("1" if b else "0" for b in comb) or "-", "T" if val else "F")


def run_real(case):
    """-> (wire request, [answers in call order], final heap bits, trees (real objects), objs)."""
    objs = [NamedPredicate(name=n, v=bool(v)) for n, v in case["objs"]]
    built = []
    for spec in case["trees"]:
        built.append(build(spec, objs, built))
    objid = {id(o): i for i, o in enumerate(objs)}
    fk = {}
    wire_trees = [lift_tt(t, objid, fk) for t in built]
    req = "tt (objs %s) (trees %s) (gens %s) (sched %s)" % (
        " ".join(f"({n} {int(bool(v))})" for n, v in case["objs"]),
        " ".join(wire_trees),
        " ".join(map(str, case["gens"])),
        " ".join(map(str, case["sched"])),
    )
    def _raises(exc):  # a table that rejects its argument when it is created: every next() of it reports that rejection
        def g():
            raise exc
            yield  # pragma: no cover

        return g()

    gens = []
    for ti in case["gens"]:
        try:
            gens.append(truth_table(built[ti]))
        except Exception as e:  # noqa: BLE001  (ValueError at call time instead of at the first next(): the property leaves the moment open)
            gens.append(_raises(e))
    answers = []
    for gi in case["sched"]:
        try:
            x, _ = budget.limited(lambda g=gens[gi]: next(g), NEXT_BUDGET)
            answers.append(canon_step(x))
        except StopIteration:
            answers.append("stop")
        except budget.Starved:
            answers.append("starved")
        except Exception as e:  # noqa: BLE001
            answers.append(type(e).__name__)
    heap = [("1" if o.v is True else "0" if o.v is False else "?") for o in objs]
    return req, answers, heap, built, objs, wire_trees


# ---------------------------------------------------------------- the property, said in Python (independent of the Lean model)


def ref_eval(spec, trees, names_of, sigma):
    if spec == "tt":
        return True
    if spec == "ff":
        return False
    h = spec[0]
    if h == "v":
        return sigma[names_of[spec[1]]]
    if h == "ref":
        return ref_eval(trees[spec[1]], trees, names_of, sigma)
    if h == "not":
        return not ref_eval(spec[1], trees, names_of, sigma)
    a, b = ref_eval(spec[1], trees, names_of, sigma), ref_eval(spec[2], trees, names_of, sigma)
    return (a and b) if h == "and" else (a or b) if h == "or" else (a != b)


def ref_table(spec, trees, names_of):
    """The answers the property prescribes for successive next() calls (without the trailing stops)."""
    if not is_prop(spec, trees):
        return ["ValueError"]
    names = sorted({names_of[o] for o in tree_objs(spec, trees)})
    out = []
    for comb in itertools.product((False, True), repeat=len(names)):  # ascending binary order
        v = ref_eval(spec, trees, names_of, dict(zip(names, comb)))
        out.append("(r %s %s)" % ("".join("1" if b else "0" for b in comb) or "-", "T" if v else "F"))
    return out


def property_violations(case, answers, heap):
    """Compare the real answers with the property's own description."""
    names_of = [n for n, _ in case["objs"]]
    pos = Counter()
    bad = []
    touched = set()
    for gi, a in zip(case["sched"], answers):
        spec = case["trees"][case["gens"][gi]]
        want_all = ref_table(spec, case["trees"], names_of)
        k = pos[gi]
        pos[gi] += 1
        want = want_all[k] if k < len(want_all) else "stop"
        if a != want:
            bad.append({"call": sum(pos.values()) - 1, "generator": gi, "nth_next": k, "expected": want, "got": a})
        if is_prop(spec, case["trees"]) and k < len(want_all):
            touched.update(tree_objs(spec, case["trees"]))
    for i, (_, v0) in enumerate(case["objs"]):
        if i not in touched and heap[i] != str(int(bool(v0))):
            bad.append({"object": i, "what": "an object outside every tabulated tree changed", "was": int(bool(v0)), "now": heap[i]})
    return bad


# ---------------------------------------------------------------- generators of histories


def rand_tree(rng, size, n_obj, foreign=False, prev=0, spread=False):
    leaves = [["v", i] for i in range(n_obj)] * 3 + ["tt", "ff"]
    if prev:
        leaves += [["ref", j] for j in range(prev)]
    fresh = rng.sample(range(n_obj), n_obj) if spread else []  # use every object once before repeating: many names in one tree

    def go(k):
        if k <= 1:
            if fresh:
                return ["v", fresh.pop()]
            return rng.choice(leaves)
        if rng.random() < 0.25:
            return ["not", go(k - 1)]
        i = rng.randint(1, k - 2) if k > 2 else 1
        return [rng.choice(("and", "or", "xor")), go(i), go(max(1, k - 1 - i))]

    t = go(size)
    if foreign:
        # put a foreign node at a random leaf position
        def plant(s, path):
            if not path:
                return ["o", rng.randrange(len(FOREIGN))]
            if isinstance(s, str) or s[0] in ("v", "o", "ref"):
                return ["o", rng.randrange(len(FOREIGN))]
            j = path[0] % (len(s) - 1) + 1
            return [*s[:j], plant(s[j], path[1:]), *s[j + 1 :]]

        t = plant(t, [rng.randrange(2) for _ in range(rng.randint(0, 3))])
    return t


def rand_case(rng, malformed=False):
    n_names = rng.randint(1, 5)
    names = rng.sample(NAME_POOL, n_names)
    n_obj = rng.randint(max(1, n_names), 8)
    # every chosen name on at least one object; the rest repeat names on distinct objects
    obj_names = names + [rng.choice(names) for _ in range(n_obj - n_names)]
    rng.shuffle(obj_names)
    objs = [[n, rng.randint(0, 1)] for n in obj_names]
    n_trees = rng.choice((1, 2, 2, 3, 3))
    trees = []
    for j in range(n_trees):
        foreign = malformed and (j == 0 or rng.random() < 0.4)
        for _ in range(20):
            cap = 6 if rng.random() < 0.7 else 11  # <= 6 nodes hold at most 3 names; 7-11 nodes reach 4 and 5
            t = rand_tree(rng, rng.randint(1 if cap == 6 else 7, cap), n_obj, foreign=foreign, prev=j if rng.random() < 0.3 else 0, spread=(cap == 11 and rng.random() < 0.6))
            if tree_nodes(t, trees + [t]) <= cap:
                break
        else:
            t = ["v", 0]
        trees.append(t)
    n_gens = rng.randint(max(2, n_trees), 4) if rng.random() < 0.9 else 1
    gens = list(range(n_trees))[:n_gens] + [rng.randrange(n_trees) for _ in range(max(0, n_gens - n_trees))]
    rng.shuffle(gens)
    names_of = [n for n, _ in objs]
    need = []
    for gi, ti in enumerate(gens):
        k = len({names_of[o] for o in tree_objs(trees[ti], trees)})
        full = (2**k if is_prop(trees[ti], trees) else 1) + rng.choice((0, 1, 2))
        need += [gi] * (full if rng.random() < 0.7 else rng.randint(0, full))
    rng.shuffle(need)
    # sometimes run generators one after the other instead (history without interleaving)
    if rng.random() < 0.15:
        need.sort(key=lambda g: (g * 7) % 5)
    return {"objs": objs, "trees": trees, "gens": gens, "sched": need}


def exhaustive_cases(rng, n):
    """Every tree with <= n nodes over three variable objects (two of them named alike) and the constants,
    tabulated completely by one generator from a random prior heap."""
    leaves = [("v", 0), ("v", 1), ("v", 2), "tt", "ff"]

    def conv(t):
        if isinstance(t, str):
            return t
        if t[0] == "v":
            return ["v", t[1]]
        return [t[0], *[conv(s) for s in t[1:]]]

    for t in cases.trees_upto(n, leaves):
        spec = conv(t)
        objs = [["a", rng.randint(0, 1)], ["b", rng.randint(0, 1)], ["a", rng.randint(0, 1)]]
        k = len({objs[o][0] for o in tree_objs(spec, [spec])})
        yield {"objs": objs, "trees": [spec], "gens": [0], "sched": [0] * (2**k + 1)}


def interleaved(case):
    """Measured non-triviality: two generators whose trees share a variable object (or the name of one) get
    `next` calls alternately while both are alive."""
    names_of = [n for n, _ in case["objs"]]
    trees = case["trees"]
    objs_of = [set(tree_objs(trees[ti], trees)) for ti in case["gens"]]
    names = [{names_of[o] for o in s} for s in objs_of]
    sched = case["sched"]
    for x in range(len(sched) - 2):
        a, b, c = sched[x], sched[x + 1], sched[x + 2]
        if a == c and a != b and (objs_of[a] & objs_of[b]) and is_prop(trees[case["gens"][a]], trees) and is_prop(trees[case["gens"][b]], trees):
            return "shared-object"
    for x in range(len(sched) - 2):
        a, b, c = sched[x], sched[x + 1], sched[x + 2]
        if a == c and a != b and (names[a] & names[b]):
            return "shared-name"
    return None


# ---------------------------------------------------------------- main


def run_stream(chk, name, stream, stats):
    stream = list(stream)
    reals = [run_real(c) for c in stream]
    outs = driver.run([r[0] for r in reals], **EXE)
    dis = []
    for case, (req, answers, heap, _built, _objs, _wt), out in zip(stream, reals, outs):
        mine = "(steps %s) (heap %s)" % (" ".join(answers), " ".join(heap))
        chk.evaluations += len(answers)
        if out != mine:
            dis.append({"case": case, "request": req, "model": out, "implementation": mine})
        bad = property_violations(case, answers, heap)
        if bad:
            chk.add_failure(case, {"what": "truth_table deviates from the table the property prescribes", "first": bad[:3], "request": req}, None)
        # statistics
        stats["histories"] += 1
        stats["next_calls"] += len(answers)
        stats["rows"] += sum(1 for a in answers if a.startswith("(r"))
        stats["stops"] += answers.count("stop")
        stats["value_errors"] += answers.count("ValueError")
        for a in answers:
            if not (a.startswith("(r") or a in ("stop", "ValueError")):
                stats["other_outcomes"] += 1
        kind = interleaved(case)
        if kind:
            stats["interleaved/" + kind] += 1
            chk.nontrivial.add(req)
        names_of = [n for n, _ in case["objs"]]
        for ti in set(case["gens"]):
            os_ = tree_objs(case["trees"][ti], case["trees"])
            stats["names_per_tree/%d" % len({names_of[o] for o in os_})] += 1
            if len(set(os_)) < len(os_):
                stats["tree_with_repeated_object"] += 1
            if len({names_of[o] for o in os_}) < len(set(os_)):
                stats["tree_with_two_objects_of_one_name"] += 1
            stats["tree_nodes/%d" % tree_nodes(case["trees"][ti], case["trees"])] += 1
    chk.add_corr(name, len(stream), dis)
    return reals


def names_and_rows(chk, rng, tier):
    # rows
    ns = range(0, 7 if tier == "quick" else 11)
    outs = driver.run([f"rows {n}" for n in ns], **EXE)
    dis = []
    for n, out in zip(ns, outs):
        real = sorted(gray_product(*repeat((False, True), n)))
        mine = "(" + " ".join("".join("1" if b else "0" for b in r) or "-" for r in real) + ")"
        if out != mine:
            dis.append({"n": n, "model": out[:200], "implementation": mine[:200]})
        want = list(itertools.product((False, True), repeat=n))
        if real != want:
            chk.add_failure({"rows": n}, {"what": "sorted(gray_product(..)) is not the ascending enumeration"}, None)
    chk.add_corr("rows", len(list(ns)), dis)
    # names: get_named_predicates vs model on random trees over many names (sorting of mixed strings)
    reqs, expect, meta = [], [], []
    for _ in range(400 if tier == "quick" else 4000):
        k = rng.randint(1, 8)
        objs = [NamedPredicate(name=rng.choice(NAME_POOL), v=bool(rng.randint(0, 1))) for _ in range(k)]
        malformed = rng.random() < 0.2
        spec = rand_tree(rng, rng.randint(1, 9), k, foreign=malformed)
        p = build(spec, objs, [])
        objid = {id(o): i for i, o in enumerate(objs)}
        reqs.append("names (objs %s) %s" % (" ".join(f"({o.name} {int(o.v)})" for o in objs), lift_tt(p, objid, {})))
        try:
            r, _ = budget.limited(lambda p=p: get_named_predicates(p), NEXT_BUDGET)
            e = "(ok" + "".join(" " + n for n in r) + ")"
            want = sorted({objs[o].name for o in tree_objs(spec, [])})
            if malformed or r != want:
                chk.add_failure({"names": reqs[-1]}, {"what": "get_named_predicates is not the sorted distinct names / accepted a foreign node", "got": r}, None)
        except Exception as ex:  # noqa: BLE001
            e = type(ex).__name__
            if not malformed or e != "ValueError":
                chk.add_failure({"names": reqs[-1]}, {"what": f"get_named_predicates raised {e}"}, None)
        expect.append(e)
        meta.append(reqs[-1])
    outs = driver.run(reqs, **EXE)
    dis = [{"request": m, "model": o, "implementation": e} for o, e, m in zip(outs, expect, meta) if o != e]
    chk.add_corr("names", len(reqs), dis)
    chk.evaluations += len(reqs)


def main(tier):
    chk = Check("C15", tier)
    chk.prove(modules=["PyPred.Props.C15", "PyPred.Props.C15G"], checker=(tier == "thorough"), exes=("driver_tt", "driver_gray"))
    rng = random.Random(chk.seed)
    stats = Counter()
    names_and_rows(chk, rng, tier)
    n_exh = 5 if tier == "quick" else 6
    ex = list(exhaustive_cases(rng, n_exh))
    run_stream(chk, "tt/exhaustive-single", ex, stats)
    n_hist, n_mal = (5000, 1500) if tier == "quick" else (100000, 20000)
    hist = [rand_case(rng) for _ in range(n_hist)]
    reals = run_stream(chk, "tt/histories", hist, stats)
    mal = [rand_case(rng, malformed=True) for _ in range(n_mal)]
    run_stream(chk, "tt/malformed", mal, stats)
    chk.rule = (
        "(1) bounded-exhaustive: every tree with <= %d nodes over three variable objects (two named 'a', one 'b') and the constants, one generator drained "
        "completely from a random prior heap (%d trees); (2) %d random histories: 1-5 names from a pool of %d (mixed case, multi-letter, non-ASCII), up to 8 "
        "objects with repeated names, 1-3 trees of <= 6 nodes (70%%) or 7-11 nodes (30%%, to reach 4 and 5 names in one tree) (shared objects, one tree literally containing another), 1-4 live generators (possibly two on one "
        "tree), a random schedule of next() that drains most generators past StopIteration; (3) %d malformed histories with one of %d foreign node kinds planted "
        "in at least one tree.  Compared exactly, call by call: model answer vs next(gen) (row bits and value / StopIteration / exception type) and the final .v of "
        "every object; independently the real answers vs the property's own table (sorted distinct names, ascending product, reference evaluation).  Also "
        "get_named_predicates vs model names, sorted(gray_product) vs model rows.  non-trivial = distinct histories in which two live generators over a shared "
        "variable object are resumed alternately." % (n_exh, len(ex), n_hist, len(NAME_POOL), n_mal, len(FOREIGN))
    )
    chk.samples = [r[0] + "  ->  (steps " + " ".join(r[1]) + ") (heap " + " ".join(r[2]) + ")" for r in reals[:4]]
    chk.extra["distribution"] = dict(sorted(stats.items()))
    chk.extra["foreign_kinds"] = [d for d, _ in FOREIGN]
    chk.assumptions = [
        "NamedPredicate.name is not reassigned and trees are not rebuilt while a generator is live (the model's name table and trees are immutable)",
        "Python's str order and Lean's String order are the same relation (code-point lexicographic); exercised with mixed names, not proved about CPython",
    ]
    c15g.stage(chk, tier, build=False)  # sorted(gray_product(..)) inside the model: Gray.combinations n = rows n (C15G_*), tied to more_itertools
    return chk.finish()


def replay(path):
    d = json.load(open(path))
    print(json.dumps({k: v for k, v in d.items() if k not in ("others",)}, indent=1)[:3000])
    case = d.get("input")
    if d.get("kind") == "failing-input" and isinstance(case, dict) and case.get("stage") == "C15G":
        return c15g.replay_case(case)
    if d.get("kind") != "failing-input" or not isinstance(case, dict) or "sched" not in case:
        return 1
    req, answers, heap, _b, _o, _w = run_real(case)
    bad = property_violations(case, answers, heap)
    print("request :", req)
    print("answers :", " ".join(answers))
    print("heap    :", " ".join(heap))
    print("model   :", driver.run([req], **EXE)[0])
    print("deviates:", bad[:5])
    return 1 if bad else 0
