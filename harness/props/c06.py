"""C06  Predicate equality is a congruence."""
import itertools
import json
import random

from predicate import can_optimize, optimize

from .. import driver, lift, pool, sx as S
from ..core import Check


def safe_call(p, x):
    try:
        return ("ok", bool(p(x)))
    except Exception as e:  # noqa: BLE001
        return ("raised", type(e).__name__)


def main(tier):
    chk = Check("C06", tier)
    chk.prove(checker=(tier == "thorough"))
    rng = random.Random(chk.seed)
    atoms = pool.atom_thunks()
    comps = pool.composite_thunks(rng, atoms, 60 if tier == "quick" else 400)
    thunks = atoms + comps + pool.chain_thunks()
    objs = [(d, th(), th()) for d, th in thunks]  # two structurally equal, distinct objects each
    lifted = []
    for d, a, b in objs:
        lifted.append(S.show(lift.lift(a)))
    # -- correspondence: model beq vs Python == on all ordered pairs (second object of the pair is the fresh copy)
    reqs, expect, meta = [], [], []
    n = len(objs)
    for i in range(n):
        for j in range(n):
            reqs.append(f"beq {lifted[i]} {lifted[j]}")
            expect.append("T" if objs[i][1] == objs[j][2] else "F")
            meta.append((objs[i][0], objs[j][0]))
    out = driver.run(reqs)
    dis = [{"left": m[0], "right": m[1], "model": o, "implementation": e} for o, e, m in zip(out, expect, meta) if o != e]
    chk.add_corr("beq/all-pairs", len(reqs), dis)
    chk.evaluations += len(reqs)
    # -- search on the real code: the property itself
    skip_ctx = ("this", "root", "lazy")  # meaning depends on where they occur: excepted by the property
    eq_pairs = 0
    undefined = 0
    for i in range(n):
        di, a, a2 = objs[i]
        if not (a == a2) or not (a2 == a):
            chk.add_failure(di, {"what": "not reflexive on structurally equal copies"}, None)
        for j in range(n):
            dj, b, _ = objs[j]
            e1, e2 = a == b, b == a
            if e1 != e2:
                chk.add_failure(f"{di}  ==  {dj}", {"what": "== is not symmetric", "lr": e1, "rl": e2}, None)
            if e1 and i != j:
                eq_pairs += 1
                chk.nontrivial.add((di, dj))
                if any(di.startswith(s) or dj.startswith(s) for s in skip_ctx):
                    continue
                for x in pool.PROBE_VALUES:
                    r1, r2 = safe_call(a, x), safe_call(b, x)
                    if r1[0] == "raised" or r2[0] == "raised":
                        # not an answer: x is outside the domain of one side.  a & b and b & a are == (operands unordered, as the
                        # property itself demands) and evaluate left to right (C07), so where one operand raises and the other
                        # decides they differ in *definedness*, never in the answer; "same answer on every input" is read over
                        # the inputs on which both sides return
                        undefined += 1
                        continue
                    if r1 != r2:
                        chk.add_failure(f"{di}  ==  {dj}", {"what": "equal predicates disagree", "value": repr(x), "left": r1, "right": r2}, None)
                        break
    # operands unordered
    for (d1, t1), (d2, t2) in itertools.islice(itertools.combinations(atoms, 2), 0, 400 if tier == "quick" else 4000):
        for op in ("&", "|", "^"):
            l = eval(f"a {op} b", {"a": t1(), "b": t2()})  # noqa: S307
            r = eval(f"b {op} a", {"a": t1(), "b": t2()})  # noqa: S307
            chk.evaluations += 1
            if not (l == r):
                chk.add_failure(f"({d1}) {op} ({d2})", {"what": "operands are not treated as unordered"}, None)
    # can_optimize(p) == (optimize(p) != p)
    co = 0
    for d, a, _ in objs:
        try:
            rhs = optimize(a) != a
        except Exception:  # noqa: BLE001  optimize itself raises (a constant its function atom does not accept, incomparable bounds): C12's domain, not C06's
            continue
        try:
            lhs = can_optimize(a)
        except Exception as e:  # noqa: BLE001
            chk.add_failure(d, {"what": f"can_optimize raised {type(e).__name__} although optimize returns"}, None)
            continue
        co += 1
        if lhs != rhs:
            chk.add_failure(d, {"what": "can_optimize(p) differs from optimize(p) != p", "can_optimize": lhs}, None)
    # ... and over the term spaces of C01-C03 (the definition must hold for every tree, e.g. for the pairs of
    # quantifier forms that optimize only swaps: all(~x) | ~any(x))
    from .. import cases
    from . import c03

    sweep = list(cases.trees_upto(5 if tier == "quick" else 6, cases.prop_leaves(cases.NAMES3)))
    elems = cases.elem_preds()
    for x in elems:
        duals = [(("all", ("not", x)), ("not", ("any", x))), (("any", ("not", x)), ("not", ("all", x)))]
        duals += [(("all", x), ("not", ("any", ("not", x)))), (("any", x), ("not", ("all", ("not", x))))]
        for a, b in duals:
            for op in ("and", "or", "xor"):
                sweep += [(op, a, b), (op, b, a), ("not", (op, a, b))]
    sweep += [(op, a, b) for op in ("and", "or", "xor") for a, b in [(("all", "notnone"), ("not", ("any", "none"))), (("any", ("ne", "2")), ("not", ("all", ("eq", "2"))))]]
    _e, singles, nested, pairs, rnd = c03.gen("quick", chk.seed)
    sweep += singles + nested + rng.sample(pairs, 4000 if tier == "quick" else len(pairs)) + rnd
    sweep += rng.sample(list(cases.pair_shapes(cases.scalar_atoms())), 4000 if tier == "quick" else 20000)
    for sx in sweep:
        a = lift.lower(sx)
        try:
            rhs = optimize(a) != a
        except Exception:  # noqa: BLE001
            continue
        try:
            lhs = can_optimize(a)
        except Exception as e:  # noqa: BLE001
            chk.add_failure(S.show(sx), {"what": f"can_optimize raised {type(e).__name__} although optimize returns"}, None)
            continue
        co += 1
        chk.evaluations += 1
        if lhs != rhs:
            chk.add_failure(S.show(sx), {"what": "can_optimize(p) differs from optimize(p) != p", "can_optimize": lhs}, None)
    # ---- a predicate that has been USED (tabulated, evaluated, optimised, drawn) against a fresh one built the same way:
    # whatever the use left behind, if the two still compare equal they must still answer alike (nothing that changes
    # the answer may be hidden from ==)
    from predicate import to_dot, to_json
    from predicate.truth_table import truth_table

    leaves = [("var", n, v) for n in ("a", "b") for v in ("0", "1")] + ["tt"]
    used_cases = 0
    uses = {
        "list(truth_table(p))": lambda q: list(truth_table(q)),
        "next(truth_table(p)) twice": lambda q: [r for _k, r in zip(range(2), truth_table(q))],
        "p(None)": lambda q: q(None),
        "optimize(p)": lambda q: optimize(q),
        "to_json(p); to_dot(p)": lambda q: (to_json(q), to_dot(q)),
    }
    for sx in cases.trees_upto(3, leaves):
        for uname, use in uses.items():
            used, fresh = lift.lower(sx), lift.lower(sx)
            try:
                use(used)
            except Exception:  # noqa: BLE001
                continue
            used_cases += 1
            if used == fresh or fresh == used:
                r1, r2 = safe_call(used, None), safe_call(fresh, None)
                if r1[0] == "ok" and r2[0] == "ok" and r1 != r2:
                    chk.add_failure(f"p = {S.show(sx)} built twice; {uname} on one of them", {"what": "the used predicate and the fresh one compare equal but answer differently", "used": r1, "fresh": r2}, None)
    chk.evaluations += used_cases
    chk.extra["used_vs_fresh_cases"] = used_cases
    # ---- reflexivity holds for every predicate OBJECT, whatever its parameters: an object is equal to itself also when a parameter
    # is not equal to itself (NaN bounds and constants); operands stay unordered and can_optimize stays `optimize(p) != p` there
    import predicate as _P6

    nan = float("nan")
    nan_atoms = [("eq_p(nan)", _P6.eq_p(nan)), ("ne_p(nan)", _P6.ne_p(nan)), ("ge_p(nan)", _P6.ge_p(nan)), ("gt_p(nan)", _P6.gt_p(nan)), ("le_p(nan)", _P6.le_p(nan)), ("lt_p(nan)", _P6.lt_p(nan)),
                 ("ge_le_p(nan, 5)", _P6.ge_le_p(nan, 5)), ("ge_lt_p(0, nan)", _P6.ge_lt_p(0, nan)), ("gt_le_p(nan, nan)", _P6.gt_le_p(nan, nan)), ("gt_lt_p(nan, 1)", _P6.gt_lt_p(nan, 1)),
                 ("in_p(nan, 1)", _P6.in_p(nan, 1)), ("not_in_p(nan)", _P6.not_in_p(nan)), ("has_length_p(nan)", _P6.has_length_p(nan)), ("all_p(eq_p(nan))", _P6.all_p(_P6.eq_p(nan))),
                 ("is_tuple_of_p(eq_p(nan))", _P6.is_tuple_of_p(_P6.eq_p(nan)))]
    other = _P6.is_str_p
    refl = 0
    for d, q in nan_atoms:
        refl += 1
        facts = []
        try:
            if not (q == q):
                facts.append("p == p is False for one and the same object")
            if not ((q & other) == (other & q)):
                facts.append("(p & r) == (r & p) is False")
            if not ((~q) == (~q)):
                facts.append("~p == ~p is False over one object p")
            try:
                o = optimize(q)
                if can_optimize(q) != (o != q):
                    facts.append(f"can_optimize(p) is {can_optimize(q)} although optimize(p) != p is {o != q}")
            except Exception:  # noqa: BLE001
                pass
        except Exception as e:  # noqa: BLE001
            facts.append(f"== raised {type(e).__name__}")
        if facts:
            chk.add_failure(f"p = {d} (one object)", {"what": "; ".join(facts)}, None)
    chk.evaluations += refl
    chk.extra["reflexivity_with_parameters_unequal_to_themselves"] = refl
    chk.extra["equal_pairs_checked_on_values"] = eq_pairs
    chk.extra["probe_values_skipped_because_a_side_raises"] = undefined
    chk.extra["can_optimize_cases"] = co
    chk.rule = (
        "pool of %d predicates: every exported constructor at 2-4 parameter choices (constants of several types incl. True/1/1.0, bounds, sets, patterns "
        "and flags, keys, lengths, class tuples in both orders, functions incl. built-ins, reference names, getters, nested 'of' forms) plus random "
        "composites; ALL ordered pairs: model beq vs Python == (the right operand is a structurally equal fresh copy); then on the real code: "
        "reflexivity on copies, symmetry, unordered operands, equal => same answers on %d probe values; can_optimize(p) == (optimize(p) != p) on the pool and on "
        "the C01-C03 term spaces (all propositional trees <= 5 nodes, quantified / subset singles, nested and sampled pairs, scalar pair shapes, the dual quantifier forms). "
        "non-trivial = distinct pairs i != j that compare equal." % (n, len(pool.PROBE_VALUES))
    )
    chk.samples = [f"{meta[k][0]}  ==  {meta[k][1]}  ->  {expect[k]}" for k in (1, n + 1, 2 * n + 5)]
    chk.assumptions = ["hashable parameters are interned by Python == / hash; functions and getters by identity"]
    return chk.finish()


def replay(path):
    from ..core import replay_by_rerun

    return replay_by_rerun(main, path)
