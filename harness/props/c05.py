"""C05  implies(p, q) is sound, and exact on the atom pairs it understands."""
import itertools
import json
import random

from predicate.implies import implies

from .. import cases, driver, lift, sx as S
from ..core import Check

LISTED = {("ge", "ge"), ("ge", "gt"), ("gt", "ge"), ("gt", "gt"), ("eq", "eq"), ("eq", "ne"), ("eq", "ge"), ("eq", "gt"), ("eq", "in"), ("eq", "notin"), ("in", "in")}


def pool_preds(tier, rng):
    atoms = cases.scalar_atoms() + cases.coll_atoms()
    neg = [("not", a) for a in atoms[:30]]
    conj = []
    for a, b in itertools.product(atoms[:26], repeat=2):
        conj.append(("and", a, b))
    rng.shuffle(conj)
    k = 40 if tier == "quick" else 300
    return atoms + neg + conj[:k]


def main(tier):
    chk = Check("C05", tier)
    chk.prove(checker=(tier == "thorough"))
    rng = random.Random(chk.seed)
    preds = pool_preds(tier, rng)
    objs = [lift.lower(s) for s in preds]
    texts = [S.show(s) for s in preds]
    n = len(preds)
    reqs, expect = [], []
    for i in range(n):
        for j in range(n):
            reqs.append(f"imp {texts[i]} {texts[j]}")
            try:
                expect.append("T" if implies(objs[i], objs[j]) else "F")
            except Exception as e:  # noqa: BLE001
                expect.append(f"RAISED {type(e).__name__}")
    out = driver.run(reqs)
    dis = []
    for k, (o, e) in enumerate(zip(out, expect)):
        if o != e:
            dis.append({"p": texts[k // n], "q": texts[k % n], "model": o, "implementation": e})
    chk.add_corr("imp/all-pairs", len(reqs), dis)
    chk.evaluations += len(reqs)
    # the property on the real code
    scal = cases.SCALAR_VALUES
    coll = cases.coll_values()
    values = scal + coll
    sound_checked = complete_checked = 0

    def val(p, x):
        try:
            return bool(p(x))
        except Exception:  # noqa: BLE001
            return None

    tables = [[val(p, x) for x in values] for p in objs]
    for i in range(n):
        for j in range(n):
            r = expect[i * n + j]
            ti, tj = tables[i], tables[j]
            if r == "T":
                chk.nontrivial.add((texts[i], texts[j]))
                sound_checked += 1
                for k, x in enumerate(values):
                    if ti[k] is True and tj[k] is False:
                        chk.add_failure(f"implies({texts[i]}, {texts[j]})", {"what": "returns True but a value satisfies p and not q", "value": repr(x)}, None)
                        break
            elif r == "F":
                hi, hj = S.head(preds[i]), S.head(preds[j])
                if (hi, hj) in LISTED:
                    complete_checked += 1
                    # entailment over the dense grid of scalars (half-way points and points beyond both ends)
                    ks = [k for k, x in enumerate(values[: len(scal)]) if isinstance(x, (int, float)) and not isinstance(x, bool)]
                    if all(not (ti[k] is True) or tj[k] is True for k in ks) and any(ti[k] is True for k in ks):
                        chk.add_failure(f"implies({texts[i]}, {texts[j]})", {"what": "returns False on a listed pair although the entailment holds on the dense grid"}, None)
    chk.extra["sound_pairs_checked"] = sound_checked
    chk.extra["listed_false_pairs_checked_for_completeness"] = complete_checked
    chk.rule = (
        "pool of %d predicates (the C02 scalar grid, the subset family, negations, conjunctions): ALL ordered pairs, model implies vs predicate.implies; "
        "then soundness of every True answer on %d values and completeness of every False answer on the listed atom pairs over the dense numeric grid "
        "0, 0.5, ..., 4. non-trivial = pairs on which implies returns True." % (n, len(values))
    )
    chk.samples = [f"{reqs[k]} -> {expect[k]}" for k in (n + 2, 5 * n + 7, 9 * n + 11)]
    chk.assumptions = ["completeness is judged over a dense domain: the grid has a point between and beyond every pair of constants used"]
    return chk.finish()


def replay(path):
    print(json.dumps(json.load(open(path)), indent=1))
    return 1
