"""C05  implies(p, q) is sound, and exact on the atom pairs it understands."""
import itertools
import json
import random

from predicate.implies import implies

from .. import cases, driver, lift, sx as S
from ..core import Check

LISTED = {("ge", "ge"), ("ge", "gt"), ("gt", "ge"), ("gt", "gt"), ("eq", "eq"), ("eq", "ne"), ("eq", "ge"), ("eq", "gt"), ("eq", "in"), ("eq", "notin"), ("in", "in")}


def pool_preds(tier, rng):
    atoms = cases.scalar_atoms() + cases.coll_atoms()
    neg = [("not", a) for a in atoms[:30]]
    conj = []
    for a, b in itertools.product(atoms[:26], repeat=2):
        conj.append(("and", a, b))
    rng.shuffle(conj)
    k = 40 if tier == "quick" else 300
    # nested conjunctions with repeated and re-associated operands: And-equality (behind the `and` clause of implies)
    # must compare the two operands as they stand, not a flattened set
    a, b, c, d = atoms[2], atoms[5], atoms[9], atoms[13]
    nested = [("and", ("and", a, a), d), ("and", a, c), ("and", ("and", a, b), c), ("and", a, ("and", b, c)), ("and", ("and", a, c), ("and", a, c)),
              ("and", d, ("and", a, a)), ("and", ("and", a, d), a), ("and", c, a), ("and", ("and", b, a), c), ("and", ("and", a, a), a), ("and", a, a),
              ("or", ("and", a, b), c), ("and", ("or", a, b), ("or", b, a)), ("and", ("xor", a, b), ("xor", b, a)), ("xor", a, ("xor", a, b)), ("xor", a, b)]
    return atoms + neg + conj[:k] + nested


def main(tier):
    chk = Check("C05", tier)
    chk.prove(checker=(tier == "thorough"))
    rng = random.Random(chk.seed)
    preds = pool_preds(tier, rng)
    objs = [lift.lower(s) for s in preds]
    texts = [S.show(s) for s in preds]
    n = len(preds)
    reqs, expect = [], []
    for i in range(n):
        for j in range(n):
            reqs.append(f"imp {texts[i]} {texts[j]}")
            try:
                expect.append("T" if implies(objs[i], objs[j]) else "F")
            except Exception as e:  # noqa: BLE001
                expect.append(f"RAISED {type(e).__name__}")
    out = driver.run(reqs)
    dis = []
    for k, (o, e) in enumerate(zip(out, expect)):
        if o != e:
            dis.append({"p": texts[k // n], "q": texts[k % n], "model": o, "implementation": e})
    chk.add_corr("imp/all-pairs", len(reqs), dis)
    chk.evaluations += len(reqs)
    # the same questions again, in reverse order, on the same objects: implies is a function of its two arguments
    adis, an = [], 0
    for k in reversed(range(0, n * n, 7)):
        i, j = divmod(k, n)
        try:
            r = "T" if implies(objs[i], objs[j]) else "F"
        except Exception as e:  # noqa: BLE001
            r = f"RAISED {type(e).__name__}"
        an += 1
        if r != expect[k]:
            adis.append({"p": texts[i], "q": texts[j], "first_time": expect[k], "second_time": r})
    chk.add_corr("imp/again-in-reverse-order", an, adis)
    chk.evaluations += an
    for d in adis[:5]:
        chk.add_failure(f"implies({d['p']}, {d['q']})  [asked a second time, after the other pairs]", {"what": "implies answers differently the second time", **d}, None)
    # print-alike block: the same atom pairs over 9, 10 and then over "9", "10" (same repr, "10" < "9")
    pa = []
    for sort in ("num", "str"):
        A = cases.printalike_atoms(sort)
        A = A + [("and", a, b) for a, b in zip(A, A[3:])]
        pa += [(a, b) for a in A for b in A]
    pobj = {}
    preq, pexp = [], []
    for a, b in pa:
        for t in (a, b):
            if t not in pobj:
                pobj[t] = lift.lower(t)
        preq.append(f"imp {S.show(a)} {S.show(b)}")
        try:
            pexp.append("T" if implies(pobj[a], pobj[b]) else "F")
        except Exception as e:  # noqa: BLE001
            pexp.append(f"RAISED {type(e).__name__}")
    pout = driver.run(preq)
    pdis = [{"p": S.show(a), "q": S.show(b), "model": o, "implementation": e} for (a, b), o, e in zip(pa, pout, pexp) if o != e]
    chk.add_corr("imp/print-alike-constants", len(preq), pdis, note='atoms over 9, 10 and over "9", "10"')
    chk.evaluations += len(preq)
    for (a, b), e in zip(pa, pexp):  # soundness on the real objects
        if e == "T":
            for x in (8, 9, 9.5, 10, 11, "1", "10", "5", "9", "95", "a"):
                try:
                    if pobj[a](x) and not pobj[b](x):
                        chk.add_failure(f"implies({S.show(a)}, {S.show(b)})", {"what": "returns True but a value satisfies p and not q", "value": repr(x)}, None)
                        break
                except TypeError:
                    continue
    # twin pass (same process, after the numeric pass): the same pairs over the digit-string twins of their constants;
    # strings "1" < "2" < "3" are ordered like the numbers, so every answer must be the same
    tw = [k for k, sx_ in enumerate(preds) if lift.twinnable(sx_)]
    with lift.twin():
        tobjs = {k: lift.lower(preds[k]) for k in tw}
        tdis, tn = [], 0
        for i in tw:
            for j in tw:
                try:
                    r = "T" if implies(tobjs[i], tobjs[j]) else "F"
                except Exception as e:  # noqa: BLE001
                    r = f"RAISED {type(e).__name__}"
                tn += 1
                if r != expect[i * n + j]:
                    tdis.append({"p": texts[i], "q": texts[j], "numeric_constants": expect[i * n + j], "string_twins": r})
    chk.add_corr("imp/string-twins", tn, tdis, note="same pairs over order-isomorphic str constants")
    chk.evaluations += tn
    # the same over constants of other types: aware datetimes whose wall-clock order differs from their order in time, ints beyond
    # 2**53, tuples, Fraction, Decimal (one kind per pair, in rotation)
    kinds = [k for k in lift.TWIN_KINDS if k != "str"]
    kobjs = {}
    for kind in kinds:
        with lift.twin(kind):
            kobjs[kind] = {k: lift.lower(preds[k]) for k in tw}
    odis, on = [], 0
    for i in tw:
        for j in tw:
            kind = kinds[(i * 31 + j) % len(kinds)]
            try:
                r = "T" if implies(kobjs[kind][i], kobjs[kind][j]) else "F"
            except Exception as e:  # noqa: BLE001
                r = f"RAISED {type(e).__name__}"
            on += 1
            if r != expect[i * n + j]:
                odis.append({"p": texts[i], "q": texts[j], "numeric_constants": expect[i * n + j], "twin_kind": kind, "twin_constants": r})
    chk.add_corr("imp/typed-twins", on, odis, note="same pairs over order-isomorphic constants of another type")
    chk.evaluations += on
    for d in odis[:5]:
        chk.add_failure(f"implies({d['p']}, {d['q']})  [constants lowered as order-isomorphic {d['twin_kind']} values]", {"what": "implies depends on the type of the constants, not on their order and equality", **d}, None)
    for d in tdis[:5]:
        chk.add_failure(f"implies({d['p']}, {d['q']})  [constants lowered as the strings that print the same]", {"what": "implies depends on how constants print, not on their values", **d}, None)
    # the property on the real code
    scal = cases.SCALAR_VALUES
    coll = cases.coll_values()
    values = scal + coll
    sound_checked = complete_checked = 0

    def val(p, x):
        try:
            return bool(p(x))
        except Exception:  # noqa: BLE001
            return None

    tables = [[val(p, x) for x in values] for p in objs]
    for i in range(n):
        for j in range(n):
            r = expect[i * n + j]
            ti, tj = tables[i], tables[j]
            if r == "T":
                chk.nontrivial.add((texts[i], texts[j]))
                sound_checked += 1
                for k, x in enumerate(values):
                    if ti[k] is True and tj[k] is False:
                        chk.add_failure(f"implies({texts[i]}, {texts[j]})", {"what": "returns True but a value satisfies p and not q", "value": repr(x)}, None)
                        break
            elif r == "F":
                hi, hj = S.head(preds[i]), S.head(preds[j])
                if (hi, hj) in LISTED:
                    complete_checked += 1
                    # entailment over the dense grid of scalars (half-way points and points beyond both ends)
                    ks = [k for k, x in enumerate(values[: len(scal)]) if isinstance(x, (int, float)) and not isinstance(x, bool)]
                    if all(not (ti[k] is True) or tj[k] is True for k in ks) and any(ti[k] is True for k in ks):
                        chk.add_failure(f"implies({texts[i]}, {texts[j]})", {"what": "returns False on a listed pair although the entailment holds on the dense grid"}, None)
    # ---- soundness holds for EVERY pair of predicates, also over constants the model's linear order does not describe:
    # constants that are == but of different types (True / 1 / 1.0, False / 0 / 0.0: one model constant, several Python values),
    # and constants that are only partially ordered (frozensets under inclusion, NaN).  No model here: whenever the real implies
    # says True, no probe may satisfy p and not q.
    from predicate import eq_p, ge_p, gt_p, in_p, le_p, lt_p, ne_p, not_in_p

    nan = float("nan")
    fs = [frozenset(), frozenset({1}), frozenset({2}), frozenset({1, 2}), frozenset({1, 3}), frozenset({1, 2, 3})]
    mixed = [True, 1, 1.0, False, 0, 0.0, 2, 2.0]
    extra = []
    for c in mixed:
        extra += [(f"eq_p({c!r})", eq_p(c)), (f"ne_p({c!r})", ne_p(c)), (f"ge_p({c!r})", ge_p(c)), (f"gt_p({c!r})", gt_p(c))]
    extra += [("in_p(True, 2)", in_p(True, 2)), ("in_p(1, 2)", in_p(1, 2)), ("in_p(0.0)", in_p(0.0)), ("in_p(False)", in_p(False)), ("not_in_p(1)", not_in_p(1)), ("not_in_p(True)", not_in_p(True)),
              ("not_in_p(0, 2.0)", not_in_p(0, 2.0))]
    for c in fs + [nan, 1.0, 2.0]:
        extra += [(f"ge_p({c!r})", ge_p(c)), (f"gt_p({c!r})", gt_p(c)), (f"eq_p({c!r})", eq_p(c))]
    extra += [(f"in_p({fs[1]!r}, {fs[3]!r})", in_p(fs[1], fs[3])), ("le_p(nan)", le_p(nan)), ("lt_p(1.0)", lt_p(1.0))]
    extra += [(f"({a[0]} & {b[0]})", a[1] & b[1]) for a, b in zip(extra[:40:3], extra[1:41:3])]
    probes = mixed + [3, -1, 0.5, 1.5, nan, None, "a"] + fs + [frozenset({3}), frozenset({1, 2, 3, 4})]
    xtab = [[val(p_, x) for x in probes] for _d, p_ in extra]
    xsound = 0
    for i, (di, pi) in enumerate(extra):
        for j, (dj, pj) in enumerate(extra):
            try:
                r = implies(pi, pj)
            except Exception:  # noqa: BLE001  incomparable constants: no answer, nothing to judge
                continue
            if r:
                xsound += 1
                for k, x in enumerate(probes):
                    if xtab[i][k] is True and xtab[j][k] is False:
                        chk.add_failure(f"implies({di}, {dj})", {"what": "returns True but a value satisfies p and not q (constants equal across types / partially ordered)", "value": repr(x)}, None)
                        break
    chk.evaluations += len(extra) ** 2
    chk.extra["sound_pairs_checked_cross_type_and_partial_order"] = xsound
    # ---- constants that are NEARLY equal (adjacent doubles, rounding noise such as 0.1 + 0.2 against 0.3, large values half a unit
    # apart, an int and the float next to it): the comparisons inside implies are the exact ones the predicates themselves use
    import math

    near, nprobes = [], []
    for c in (0.3, 1.0, 2.5, 1e10, 1e16, -7.25, 100):
        f = float(c)
        cs = [c, math.nextafter(f, math.inf), math.nextafter(f, -math.inf), f * (1 + 1e-12), f * (1 - 1e-12), f + 0.5 if abs(f) >= 1e9 else f + 1e-10]
        if c == 0.3:
            cs.append(0.1 + 0.2)
        mids = sorted(set(cs))
        nprobes += mids + [(a + b) / 2 for a, b in zip(mids, mids[1:])]
        group = []
        for v in mids:
            group += [(f"eq_p({v!r})", eq_p(v)), (f"ne_p({v!r})", ne_p(v)), (f"ge_p({v!r})", ge_p(v)), (f"gt_p({v!r})", gt_p(v)), (f"le_p({v!r})", le_p(v)), (f"lt_p({v!r})", lt_p(v)),
                      (f"in_p({v!r}, 5)", in_p(v, 5)), (f"not_in_p({v!r})", not_in_p(v))]
        near.append(group)
    # constants of different numeric types whose exact values differ although they map to one double (or nearly so): ints around
    # 2**53 against the doubles there, Decimal / Fraction against the float nearest to them -- Python compares them exactly
    import decimal
    import fractions

    mixed_groups = [
        [2.0**53, 2**53, 2**53 + 1, 2**53 + 2, 2**53 - 1, float(2**53 + 2)],
        [decimal.Decimal("0.1"), 0.1, decimal.Decimal("0.1000000000000000055511151231257827"), decimal.Decimal("0.10000000000000001"), 0.30000000000000004, decimal.Decimal("0.3")],
        [fractions.Fraction(1, 10), 0.1, fractions.Fraction(1, 3), 1 / 3, fractions.Fraction(3602879701896397, 36028797018963968), 1],
        [10**30, 1e30, 10**30 + 1, float(10**30) * (1 + 2e-16)],
    ]
    for cs in mixed_groups:
        nprobes += cs
        group = []
        for v in cs:
            group += [(f"eq_p({v!r})", eq_p(v)), (f"ne_p({v!r})", ne_p(v)), (f"ge_p({v!r})", ge_p(v)), (f"gt_p({v!r})", gt_p(v)), (f"le_p({v!r})", le_p(v)), (f"lt_p({v!r})", lt_p(v)),
                      (f"in_p({v!r}, 5)", in_p(v, 5))]
        near.append(group)
    nsound = 0
    for group in near:
        ntab = [[val(p_, x) for x in nprobes] for _d, p_ in group]
        for i, (di, pi) in enumerate(group):
            for j, (dj, pj) in enumerate(group):
                try:
                    r = implies(pi, pj)
                except Exception:  # noqa: BLE001
                    continue
                if r:
                    nsound += 1
                    for k, x in enumerate(nprobes):
                        if ntab[i][k] is True and ntab[j][k] is False:
                            chk.add_failure(f"implies({di}, {dj})", {"what": "returns True but a value satisfies p and not q (constants that are nearly equal)", "value": repr(x)}, None)
                            break
        chk.evaluations += len(group) ** 2
    chk.extra["sound_pairs_checked_nearly_equal_constants"] = nsound
    chk.extra["sound_pairs_checked"] = sound_checked
    chk.extra["listed_false_pairs_checked_for_completeness"] = complete_checked
    chk.rule = (
        "pool of %d predicates (the C02 scalar grid, the subset family, negations, conjunctions): ALL ordered pairs, model implies vs predicate.implies; "
        "then soundness of every True answer on %d values and completeness of every False answer on the listed atom pairs over the dense numeric grid "
        "0, 0.5, ..., 4. non-trivial = pairs on which implies returns True." % (n, len(values))
    )
    chk.samples = [f"{reqs[k]} -> {expect[k]}" for k in (n + 2, 5 * n + 7, 9 * n + 11)]
    chk.assumptions = ["completeness is judged over a dense domain: the grid has a point between and beyond every pair of constants used"]
    return chk.finish()


def replay(path):
    from ..core import replay_by_rerun

    return replay_by_rerun(main, path)
