"""C11  Generators are productive: next() yields or stops, never spins, never fails inside.

Lean side: lean/PyPred/Model/Gen.lean (`pull` with fuel; `starved`), lean/PyPred/Lemmas/GenCost.lean,
lean/PyPred/Props/C11.lean, driver lean/DriverGen.lean.  Machinery: harness/gencorr.py.

For every listed request (comparisons with int / float bounds from 0 to beyond ±sys.maxsize / 1e16, eq, ne,
membership over int / str members, none / truthy / falsy / empty, the nine type tests, all_p / any_p / set-of over
those, the unsatisfiable requests) and every tape (all-low, all-high, alternating, all-zero = adversarial;
seeded mixed) the first N next() calls run under a line-event budget:
  * the final status (more | stopped | starved | error:<Type>) and the values must equal the model's;
  * a request in the model's classes boundedT / boundedF (mirrored below; C11_true_uniform / C11_false_uniform)
    must never starve and never raise, on any tape, and the work per next() must not grow with the bound;
  * a rejection sampler may starve on an adversarial tape (the model says so too) but must yield on some tape or seed;
  * a satisfiable request yields at least one value, an unsatisfiable one gives an empty stream and no error.
"""
import json
import random

from .. import gencorr as G
from ..core import Check

def direct_bound(v):
    return not isinstance(v, (str, G.uuid.UUID))


def bounded(mode, s):
    """Props/C11.lean boundedT / boundedF."""
    h = s[0]
    if mode == "T":
        if h in ("tt", "ff", "eq", "ne", "in", "subset", "rsubset", "none", "notnone", "truthy", "falsy", "empty", "inst"):
            return True
        if h in ("ge", "gt", "le", "lt"):
            return direct_bound(s[1])
        if h == "or":
            return bounded("T", s[1]) and bounded("T", s[2])
        if h in ("all", "any"):
            return bounded("T", s[1])
        return False
    if h in ("tt", "ff", "ne", "empty", "none", "notnone", "truthy"):
        return True
    if h in ("ge", "gt"):
        return direct_bound(s[1])
    if h == "and":
        return bounded("F", s[1]) and bounded("F", s[2])
    if h == "all":
        return bounded("F", s[1])
    if h == "setof":
        return bounded("F", s[1])
    return False


def listed_specs(mode):
    """The kinds C11 names."""
    out = [("tt",), ("ff",), ("none",), ("notnone",), ("truthy",), ("falsy",), ("empty",)]
    cmps = ("ge", "gt", "le", "lt") if mode == "T" else ("ge", "gt")
    for h in cmps:
        for v in G.INT_BOUNDS + G.FLOAT_BOUNDS:
            out.append((h, v))
    for h in ("eq", "ne"):
        for v in [2, 0, -101, G.MAXS + 1, 3.14, 0.0, 2e6, "foo", "", None, True]:
            out.append((h, v))
    sets = [[2, 3, 4], ["a", "b"], [2, "foo", 4], list(range(-100, 101)), list(range(-100, 100)), [0, "x"], ["", "a"], [], [1.5]]
    for s in sets:
        out.append(("in", s))
        if mode == "T":
            out.append(("notin", s))
    for k in ("bool", "int", "float", "str", "complex", "dict", "set", "datetime", "uuid"):
        out.append(("inst", (k,)))
    leaves = [("ge", 101), ("lt", -100), ("gt", 2.0), ("le", -1e16), ("eq", 2), ("ne", 2), ("in", [2, 3, 4]), ("none",), ("notnone",), ("truthy",), ("falsy",), ("empty",),
              ("tt",), ("ff",), ("ge", G.MAXS + 1)] + [("inst", (k,)) for k in ("bool", "int", "float", "str", "complex", "dict", "set", "datetime", "uuid")]
    for q in leaves:
        out.append(("all", q))
        out.append(("setof", q))
        if mode == "T":
            out.append(("any", q))
    out += [("all", ("all", ("inst", ("int",)))), ("setof", ("all", ("ff",))), ("all", ("setof", ("tt",)))]
    # equality with constants that are tuples: hashable ones, and ones that hold a list / dict (a tuple is always an instance of
    # Hashable; whether it can go into a set depends on what it holds)
    for c in ((1, 2), ([1, 2], "x"), (1, {"a": 1}), ((), ([],))):
        out.append(("eq", c))
        out.append(("all", ("eq", c)))
        out.append(("setof", ("eq", c)))
        if mode == "T":
            out.append(("any", ("eq", c)))
    if mode == "F":
        out = [s for s in out if G.false_supported(s)]
    return out


UNSAT_T = [("ff",), ("any", ("ff",))]
UNSAT_F = [("tt",), ("all", ("tt",)), ("setof", ("tt",)), ("all", ("setof", ("tt",)))]


def satisfiable_known(mode, s):
    """Requests that certainly have a value the generator is meant to find (used for the `yields at least one value` clause)."""
    if mode == "T":
        return s not in UNSAT_T and s[0] != "ff" and not (s[0] == "in" and not s[1])
    if s in UNSAT_F:
        return False
    if s[0] == "tt":
        return False
    return True


def explain(mode, s, what):
    h = s[0]
    if what == "no-progress" and ((mode == "T" and h == "notin") or (mode == "F" and h == "in")):
        members = list(s[1])
        first = next((m for m in members if isinstance(m, (int, str))), None)
        if isinstance(first, int) and all(i in members for i in range(-100, 101)):
            return "KF-gen-notin-window"
    return None


def magnitude(s):
    if s[0] in ("ge", "gt", "le", "lt") and isinstance(s[1], (int, float)) and not isinstance(s[1], bool):
        a = abs(s[1])
        return "0-100" if a <= 100 else "101-1e6" if a <= 1e6 else "1e6-1e19" if a <= 1e19 else ">1e19"
    return None


def main(tier):
    chk = Check("C11", tier)
    chk.prove(checker=(tier == "thorough"), exes=("driver_gen",))
    rng = random.Random(chk.seed)
    quick = tier == "quick"
    n = 12 if quick else 40
    n_mixed = 2 if quick else 8
    seeds = range(2) if quick else range(12)
    dis_all, status_count, work = [], {}, {}
    n_cases = n_bounded = n_reject = 0
    for mode in "TF":
        specs = listed_specs(mode)

        def tapes_for(s, _rng=rng):
            base = G.standard_tapes(_rng, n_mixed)(s)
            return base + [("zero", [0] * 8)]

        cases = G.run_cases(mode, specs, n, tapes_for, rng)
        n_cases += len(cases)
        dis_all += [{"input": c.input(), **c.dis} for c in cases if c.dis]
        uniq = {}
        for c in cases:
            uniq.setdefault(repr(c.spec), c.sx)
        cls = dict(zip(uniq, G.classify(list(uniq.values()))))
        by_spec = {}
        for c in cases:
            by_spec.setdefault(repr(c.spec), []).append(c)
            st = c.status.split(":")[0]
            status_count[f"{mode}:{st}"] = status_count.get(f"{mode}:{st}", 0) + 1
        for key, cs in by_spec.items():
            s = cs[0].spec
            is_b = cls[key]["boundedT" if mode == "T" else "boundedF"]  # the theorem's own class (Model/GenClass.lean)
            if is_b != bounded(mode, s):
                raise G.HarnessError(f"class mirror out of date for {G.show_spec(s)}")
            n_bounded += is_b
            n_reject += not is_b
            any_yield = any(c.items for c in cs)
            for c in cs:
                if c.items:
                    chk.nontrivial.add((mode, G.show_spec(s), c.style))
                m = magnitude(s)
                if m and is_b:
                    work[m] = max(work.get(m, 0), c.worst)
                if c.status.startswith("error"):
                    chk.add_failure(c.input(), {"what": f"next() failed with an internal error ({c.status}) after {len(c.items)} values"}, explain(mode, s, c.status))
                elif c.status == "starved" and is_b:
                    chk.add_failure(c.input(), {"what": f"next() did not finish within {G.EVENTS * 10} line events after {len(c.items)} values (the model's uniform bound says it must)"}, None)
            # real seeds: progress of rejection samplers, at-least-one-value
            seed_yield = False
            if not any_yield or not is_b:
                for k in seeds:
                    items, st, _, _ = G.pull_impl(mode, cs[0].pred, 3, G.EVENTS, seed=chk.seed * 1000 + k)
                    chk.evaluations += 1
                    if items:
                        seed_yield = True
                        break
            all_starved = all(c.status == "starved" and not c.items for c in cs)
            if all_starved and not seed_yield and not is_b:
                chk.add_failure(cs[0].input(), {"what": "no tape and no seed makes this request yield: it spins although a satisfying value exists"}, explain(mode, s, "no-progress"))
            unsat = s in (UNSAT_T if mode == "T" else UNSAT_F)
            if unsat:
                for c in cs:
                    if c.items or c.status != "stopped":
                        chk.add_failure(c.input(), {"what": f"unsatisfiable request: expected an empty stream, got {len(c.items)} values and status {c.status}"}, None)
            elif satisfiable_known(mode, s) and not any_yield and not seed_yield and not all_starved and not any(c.status.startswith("error") for c in cs):
                chk.add_failure(cs[0].input(), {"what": "satisfiable request ends without yielding any value", "status": cs[0].status}, explain(mode, s, "empty-but-satisfiable"))
        chk.evaluations += sum(len(c.items) + 1 for c in cases)
    # ---- long prefixes: productivity is about EVERY next(), also far down the stream (beyond two full rounds of the
    # 1 + 10 + 100 windows of random_ints): cheap unbounded requests, 260 / 700 results, statuses and values against the model
    ln = 260 if quick else 700
    long_cases = 0
    for mode in "TF":
        lspecs = [s_ for s_ in G.long_specs(mode) if s_[0] not in ("and", "or")]  # & and | are not among the kinds C11 lists
        lcases = G.run_cases(mode, lspecs, ln, G.long_tapes(rng, ln), rng)
        long_cases += len(lcases)
        for c in lcases:
            if c.dis:
                dis_all.append({"input": c.input(), **c.dis})
            if c.status.startswith("error"):
                chk.add_failure(c.input(), {"what": f"next() failed with an internal error ({c.status}) after {len(c.items)} values (long prefix)"}, explain(mode, c.spec, c.status))
            elif c.status == "starved" and c.dis:
                # (a rejection sampler on an adversarial tape starves in the model too: that is not a disagreement and not judged)
                chk.add_failure(c.input(), {"what": f"next() did not finish within its line-event budget after {len(c.items)} values of the stream, where the model yields (long prefix)"}, explain(mode, c.spec, "no-progress"))
            if len(c.items) > 222:
                chk.nontrivial.add((mode, G.show_spec(c.spec), c.style, "long"))
        chk.evaluations += sum(len(c.items) + 1 for c in lcases)
    n_cases += long_cases
    chk.extra["long_prefix"] = {"cases": long_cases, "length": ln}
    chk.add_corr("pull/status", n_cases, dis_all, note=f"values + final status of the first {n} next() calls; {G.EVENTS} line events per next (x10 on a starved/yield mismatch), model fuel {G.FUEL}")
    # (disagreements are a broken correspondence, reported by finish(); starvation / errors where the model yields are failures, above)
    chk.extra.update(cases=n_cases, prefix_length=n, status_counts=status_count, specs_bounded_class=n_bounded, specs_rejection_class=n_reject,
                     max_line_events_per_next_by_bound_magnitude=work, events_budget=G.EVENTS, fuel=G.FUEL, seeds_per_spec=len(seeds))
    chk.rule = (
        "the kinds C11 lists x generate_true / generate_false: comparisons with int bounds 0, ±1, ±99, ±100, ±101, ±1000, ±sys.maxsize, ±(sys.maxsize+1), ±2^70 and float bounds 0 … ±1e16, 3.5e300, ±8.99e307, ±1e308, ±1.7e308, ±sys.float_info.max; "
        "eq / ne; membership sets (int, str, mixed, range(-100,101), range(-100,100), ∅, float members); none / truthy / falsy / empty; the nine type tests; all_p / any_p / set-of over those; "
        "the unsatisfiable requests.  Tapes: all-low, all-high, alternating, all-zero (adversarial), %d seeded mixed; first %d next() calls under a line-event budget; statuses and values compared with "
        "driver_gen; bounded-class requests must never starve or raise; rejection samplers must yield on some tape or real seed.  non-trivial = distinct (mode, predicate, tape style) with a yield."
        % (n_mixed, n)
    )
    chk.samples = [f"bounded classes: {n_bounded} requests, rejection samplers: {n_reject}", f"work per next by bound magnitude (line events): {work}", f"statuses: {status_count}"]
    chk.assumptions = [
        "work is measured in interpreter line events of the real generator with the random source replaced by a tape; `starved` = more than %d events without a result" % (G.EVENTS * 10),
        "the model's fuel counts sub-generator steps and non-yielding loop iterations; the correspondence of `starved` is checked with 10x budgets on both sides when they differ",
        "rejection samplers have no adversarial bound (a random source that keeps answering a rejected value starves them): proved is C11_filter_step + progress on concrete tapes; the check demands a yield on some tape or seed",
    ]
    return chk.finish()


def replay(path):
    d = json.load(open(path))
    print(json.dumps(d, indent=1)[:3000])
    inp = d.get("input") or {}
    if d.get("kind") != "failing-input" or "spec" not in inp or "tape_rle" not in inp:
        from ..core import replay_by_rerun

        return replay_by_rerun(main, path)
    spec = eval(inp["spec"], {"datetime": G._dt, "UUID": G.uuid.UUID})  # noqa: S307  reprs of plain tuples written by this harness
    p = G.build(spec)
    items, st, _, worst = G.pull_impl(inp["mode"], p, inp.get("n", 12), G.EVENTS * 10, raws=G.unrle(inp["tape_rle"]))
    print("status:", st, "values:", [repr(v)[:60] for v in items[:10]], "max events per next:", worst)
    return 1 if (st == "starved" or st.startswith("error")) else 0
