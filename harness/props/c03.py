"""C03  optimize() preserves quantified, emptiness and set-inclusion predicates."""
import itertools
import json
import random

from .. import cases, evalcorr, lift, optcorr, sx as S
from ..core import Check


def gen(tier, seed):
    rng = random.Random(seed)
    elems = cases.elem_preds()
    q = list(cases.quantified_atoms(elems))
    coll = cases.coll_atoms()
    singles = q + [("not", a) for a in q] + coll + [("not", a) for a in coll]
    nested = [(k1, (k2, e)) for k1 in ("all", "any") for k2 in ("all", "any") for e in elems[:28]]
    nested += [("not", n) for n in nested]
    base = q[:40] + coll[:14]
    pool = q + coll
    pairs = []
    allpairs = [(op, a, b) for op in ("and", "or", "xor") for a, b in itertools.product(pool, repeat=2)]
    if tier == "quick":
        pairs = rng.sample(allpairs, 9000)
    else:
        pairs = allpairs
    pairs += [(op, ("not", a), b) for op in ("and", "or", "xor") for a, b in itertools.product(base[:24], repeat=2)]
    rnd = []
    leaves = q[:60] + coll + ["tt", "ff"]
    for _ in range(1000 if tier == "quick" else 20000):
        rnd.append(cases.random_tree(rng, rng.randint(3, 14), leaves))
    return elems, singles, nested, pairs, rnd


def main(tier):
    chk = Check("C03", tier)
    chk.prove(checker=(tier == "thorough"))
    cfg, detail = optcorr.detect_cfg()
    chk.extra["cfg"] = cfg
    chk.extra["cfg_detail"] = detail
    elems, singles, nested, pairs, rnd = gen(tier, chk.seed)
    values = cases.coll_values()
    differs = optcorr.values_differ(values)
    optcorr.run(chk, "opt/singles", singles, cfg, differs, share=True)
    optcorr.run(chk, "opt/nested", nested, cfg, differs, share=True)
    optcorr.run(chk, "opt/pairs", pairs, cfg, differs, share=True)
    rep_atoms = [("subset", "2", "4"), ("subset", "4", "6"), ("subset", "2", "4", "6"), ("superset", "2"), ("rsubset", "2", "4"), ("all", ("ge", "2")), ("all", ("le", "4")), ("any", ("eq", "2")), ("any", ("ge", "4")), "empty"]
    optcorr.run(chk, "opt/repeated-atom", list(cases.repeat_shapes(rep_atoms)), cfg, differs, share=True)
    # one set-valued element predicate OBJECT under two quantifiers of one tree (built with sharing), next to a partner the set
    # algebra merges it with: (Q1(e) . Q2(partner)) op Q3(e) -- the answers of the original are taken before optimize runs
    shared_elem = []
    for e in (("in", "2", "4"), ("notin", "2", "4"), ("in", "2"), ("notin", "6")):
        for partner in (("eq", "6"), ("ne", "6"), ("eq", "2"), ("in", "4", "6"), ("notin", "4")):
            for q1, q2, q3 in itertools.product(("all", "any"), repeat=3):
                for inner in ("and", "or"):
                    for outer in ("and", "or", "xor"):
                        shared_elem.append((outer, (inner, (q1, e), (q2, partner)), (q3, e)))
                        shared_elem.append((outer, (q3, e), (inner, (q2, partner), (q1, e))))
    optcorr.run(chk, "opt/shared-element-predicate", shared_elem, cfg, differs, share=True)
    optcorr.run(chk, "opt/random-shared", rnd, cfg, differs, share=True)
    evalcorr.run(chk, "eval/quantified", singles + nested[:60], values)
    chk.rule = (
        "all_p/any_p over %d element predicates (atoms, negations, and/or pairs), their negations, doubly nested quantifiers, is_empty/is_not_empty, "
        "the subset family over 7 sets (empty, disjoint, nested), binary combinations and random shared trees. Each case: model optimizeT vs "
        "predicate.optimize (structural) and optimize(p) vs p on %d collections (lists/tuples of length 0-3 over {1,2,3}, all subsets of {1,2,3,4} as sets, "
        "lists with None, nested lists), restricted to values on which every atom of the original is defined. non-trivial = distinct inputs changed by optimize."
        % (len(elems), len(values))
    )
    chk.samples = [S.show(t) for t in (singles[:2] + nested[:1] + pairs[:2] + rnd[:2])]
    chk.assumptions = ["collections are finite and re-iterable (lists, tuples, sets); one-shot iterators are outside the property"]
    return chk.finish()


def replay(path):
    from predicate import optimize

    d = json.load(open(path))
    if d.get("kind") != "failing-input":
        print(json.dumps(d, indent=1))
        return 1
    sxp = S.parse1(d["input"])
    p = lift.lower(sxp, {})
    j = optcorr.values_differ(cases.coll_values())
    st = j.before(p, sxp)
    o = optimize(p)
    w = j.after(st, p, o, sxp)
    print("input    :", d["input"], "=", repr(p))
    print("optimized:", repr(o))
    print("differs  :", w)
    return 1 if w else 0
