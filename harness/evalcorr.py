"""Correspondence of the model's `eval` with calling the real predicate objects,
and the definedness test used by the searches ("every value on which all of the
original's atoms are defined")."""
from . import driver, lift, sx as S
from predicate import AllPredicate, AndPredicate, AnyPredicate, NotPredicate, OrPredicate, XorPredicate


def atoms_defined(p, x) -> bool:
    """Every atom of p returns (does not raise) on x; quantifiers look at elements."""
    if isinstance(p, (AndPredicate, OrPredicate, XorPredicate)):
        return atoms_defined(p.left, x) and atoms_defined(p.right, x)
    if isinstance(p, NotPredicate):
        return atoms_defined(p.predicate, x)
    if isinstance(p, (AllPredicate, AnyPredicate)):
        if isinstance(x, (str, bytes)) or not hasattr(x, "__iter__"):
            return False
        return all(atoms_defined(p.predicate, e) for e in x)
    try:
        p(x)
    except Exception:  # noqa: BLE001
        return False
    return True


def run(chk, name, preds, values):
    """model eval vs p(x) for every (pred, value) on which p's atoms are defined."""
    reqs, expect, meta = [], [], []
    skipped = 0
    for s in preds:
        p = lift.lower(s)
        st = S.show(s)
        for x in values:
            if not atoms_defined(p, x):
                skipped += 1
                continue
            try:
                vx = S.show(lift.lift_val(x))
            except lift.Unliftable:
                skipped += 1
                continue
            reqs.append(f"eval {st} {vx}")
            expect.append("T" if p(x) else "F")
            meta.append((st, repr(x)))
    out = driver.run(reqs)
    dis = [{"input": m[0], "value": m[1], "model": o, "implementation": e} for o, e, m in zip(out, expect, meta) if o != e]
    chk.add_corr(name, len(reqs), dis, note=f"{skipped} (pred, value) pairs skipped: some atom undefined there")
    chk.evaluations += len(reqs)
    return dis
