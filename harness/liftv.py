"""M2 wire format: Python values and predicate *specs* <-> s-expressions of driver_pyval,
construction of the real predicate objects from a spec, and an independent plain-Python
reading of a spec (the oracle).

A spec is a nested tuple with Python values as parameters, e.g.
    ('and', ('inst', ('int',)), ('ge', 1))        ('all', ('probe', 0))
    ('comp', ('pf', 7, 'len'), ('eq', 2))         ('tupleof', (('inst', ('int',)), ('probe', 1)))
"""
import datetime
import math
import re
import uuid
from collections.abc import Callable, Container, Hashable, Iterable

import predicate as P
from predicate import str_predicates as SP
from predicate.predicate import FnPredicate, Predicate, is_not_empty_p
from predicate.property_predicate import PropertyPredicate
from predicate.standard_predicates import (
    has_key_p, is_nan_p, is_single_or_iterable_of_p, is_single_or_list_of_p,
)

# ------------------------------------------------------------------ opaque objects

_f0 = lambda x: None  # noqa: E731
_f1 = lambda x: x  # noqa: E731
OBJS = [
    (0, 0, object()),
    (0, 1, object()),
    (1, 0, _f0),
    (1, 1, _f1),
    (2, 0, P.eq_p(17)),
    (2, 1, P.is_none_p),
    (3, 0, complex(1, 2)),
    (4, 0, datetime.datetime(2020, 1, 2, 3, 4, 5)),
    (5, 0, uuid.UUID("12345678123456781234567812345678")),
]
_OBJ_BY_ID = {id(o): (c, i) for c, i, o in OBJS}


class NotInUniverse(Exception):
    pass


def val(x) -> str:
    """Python value -> wire s-expression (sets and dicts in Python's own iteration order)."""
    if x is None:
        return "N"
    if x is True:
        return "(b 1)"
    if x is False:
        return "(b 0)"
    t = type(x)
    if t is int:
        return f"(i {x})"
    if t is float:
        d = x * 2
        if d != d or d in (math.inf, -math.inf) or d != int(d):
            raise NotInUniverse(repr(x))
        return f"(f {int(d)})"
    if t is str:
        return "(s" + "".join(f" {ord(c)}" for c in x) + ")"
    if t is list:
        return "(l" + "".join(" " + val(y) for y in x) + ")"
    if t is tuple:
        return "(t" + "".join(" " + val(y) for y in x) + ")"
    if t is set:
        return "(S" + "".join(" " + val(y) for y in x) + ")"
    if t is dict:
        return "(d" + "".join(f" ({val(k)} {val(v)})" for k, v in x.items()) + ")"
    if id(x) in _OBJ_BY_ID:
        c, i = _OBJ_BY_ID[id(x)]
        return f"(o {c} {i})"
    raise NotInUniverse(repr(x))


def in_universe(x) -> bool:
    try:
        val(x)
        return True
    except NotInUniverse:
        return False


def chars(s: str) -> str:
    return "".join(f" {ord(c)}" for c in s)


KLASS = {
    "bool": bool, "int": int, "float": float, "str": str, "list": list, "tuple": tuple, "set": set, "dict": dict,
    "complex": complex, "datetime": datetime.datetime, "uuid": uuid.UUID, "range": range, "predicate": Predicate,
    "iterable": Iterable, "container": Container, "hashable": Hashable, "callable": Callable, "object": object,
    "nonetype": type(None),
}

STR_TESTS = {
    "alnum": (SP.is_alnum_p, str.isalnum), "alpha": (SP.is_alpha_p, str.isalpha), "ascii": (SP.is_ascii_p, str.isascii),
    "decimal": (SP.is_decimal_p, str.isdecimal), "digit": (SP.is_digit_p, str.isdigit),
    "identifier": (SP.is_identifier_p, str.isidentifier), "lower": (SP.is_lower_p, str.islower),
    "numeric": (SP.is_numeric_p, str.isnumeric), "printable": (SP.is_printable_p, str.isprintable),
    "space": (SP.is_space_p, str.isspace), "title": (SP.is_title_p, str.istitle), "upper": (SP.is_upper_p, str.isupper),
}

BASE_FNS = {
    "ident": lambda x: x,
    "len": len,
    "first": lambda x: x[0],
    "values": lambda x: list(x.values()),
}

_SIMPLE = {"tt": "tt", "ff": "ff", "none": "none", "notnone": "notnone", "truthy": "truthy", "falsy": "falsy", "empty": "empty",
           "notempty": "notempty", "finite": "finite", "inf": "inf", "nan": "nan"}


def sexp(s) -> str:
    """spec -> wire s-expression of the *model* tree (derived constructors are expanded the way the library defines them)."""
    h = s[0]
    if h in _SIMPLE:
        return _SIMPLE[h]
    if h in ("eq", "ne", "ge", "gt", "le", "lt", "subset", "rsubset", "superset", "rsuperset", "haskey", "haslen"):
        return f"({h} {val(s[1])})"
    if h in ("gele", "gelt", "gtle", "gtlt"):
        return f"({h} {val(s[1])} {val(s[2])})"
    if h in ("in", "notin"):
        # InPredicate keeps set(v): send the members of that set
        return f"({h}" + "".join(" " + val(y) for y in set(s[1])) + ")"
    if h == "inst":
        return "(inst " + " ".join(s[1]) + ")"
    if h == "regex":
        return f"(regex{chars(s[1])})"
    if h == "strtest":
        return f"(strtest {s[1]})"
    if h in ("startswith", "endswith"):
        return f"({h}{chars(s[1])})"
    if h in ("probe", "prop"):
        return f"(probe {s[1]})"
    if h == "tee":
        return f"(tee {s[1]})"
    if h in ("and", "or", "xor"):
        return f"({h} {sexp(s[1])} {sexp(s[2])})"
    if h in ("not", "all", "any", "setof"):
        return f"({h} {sexp(s[1])})"
    if h == "comp":
        f = s[1]
        fs = f if isinstance(f, str) else f"(pf {f[1]} {f[2]})"
        return f"(comp {fs} {sexp(s[2])})"
    if h == "tupleof":
        return "(tupleof" + "".join(" " + sexp(k) for k in s[1]) + ")"
    if h == "dictof":
        return "(dictof" + "".join(f" ({sexp(('eq', k) if isinstance(k, str) else k)} {sexp(v)})" for k, v in s[1]) + ")"
    # derived constructors of standard_predicates.py
    if h == "listof":
        return f"(and (inst list) (all {sexp(s[1])}))"
    if h == "iterof":
        return f"(and (inst iterable) (all {sexp(s[1])}))"
    if h == "single_or_listof":
        return f"(or (and (inst list) (all {sexp(s[1])})) {sexp(s[1])})"
    if h == "single_or_iterof":
        return f"(or (and (inst iterable) (all {sexp(s[1])})) {sexp(s[1])})"
    if h == "neg":
        return "(lt (i 0))"
    if h == "zero":
        return "(eq (i 0))"
    if h == "pos":
        return "(gt (i 0))"
    if h == "eq_true":
        return "(eq (b 1))"
    if h == "eq_false":
        return "(eq (b 0))"
    raise ValueError(f"unknown spec {s!r}")


class Recorder:
    """Probe table + call log for instrumented callables.
    table: {probe id: (default, {wire-string-of-argument: answer})}, answer = True | False | ('raise', ExceptionClass)."""

    def __init__(self, table=None):
        self.table = table or {}
        self.log = []

    def call(self, i, x):
        try:
            key = val(x)
        except NotInUniverse:
            key = "?" + repr(x)
        self.log.append((i, key))
        default, cases = self.table.get(i, (False, {}))
        ans = cases.get(key, default)
        if isinstance(ans, tuple):
            raise ans[1](f"probe {i}")
        return ans

    def wire(self) -> str:
        rows = []
        for i, (default, cases) in sorted(self.table.items()):
            rows.append(f"({i} {ans_wire(default)}" + "".join(f" ({k} {ans_wire(a)})" for k, a in cases.items()) + ")")
        return "(" + " ".join(rows) + ")"


def table_to_json(table):
    return {str(i): [ans_wire(d), {k: ans_wire(a) for k, a in cases.items()}] for i, (d, cases) in table.items()}


def table_from_json(js):
    import builtins

    def ans(w):
        if w in ("T", "F"):
            return w == "T"
        return ("raise", getattr(builtins, w[len("(raise "):-1]))
    return {int(i): (ans(d), {k: ans(a) for k, a in cases.items()}) for i, (d, cases) in js.items()}


def ans_wire(a) -> str:
    if isinstance(a, tuple):
        return f"(raise {a[1].__name__})"
    return "T" if a else "F"


_ATOM_MK = {
    "eq": P.eq_p, "ne": P.ne_p, "ge": P.ge_p, "gt": P.gt_p, "le": P.le_p, "lt": P.lt_p,
    "gele": P.ge_le_p, "gelt": P.ge_lt_p, "gtle": P.gt_le_p, "gtlt": P.gt_lt_p,
    "subset": P.is_subset_p, "rsubset": P.is_real_subset_p, "superset": P.is_superset_p, "rsuperset": P.is_real_superset_p,
    "haskey": has_key_p, "haslen": P.has_length_p,
}
_FIXED = {
    "tt": P.always_true_p, "ff": P.always_false_p, "none": P.is_none_p, "notnone": P.is_not_none_p, "truthy": P.is_truthy_p,
    "falsy": P.is_falsy_p, "empty": P.is_empty_p, "notempty": is_not_empty_p, "finite": P.is_finite_p, "inf": P.is_inf_p,
    "nan": is_nan_p, "neg": P.neg_p, "zero": P.zero_p, "pos": P.pos_p, "eq_true": P.eq_true_p, "eq_false": P.eq_false_p,
}
_INST_FIXED = {
    ("bool",): P.is_bool_p, ("int",): P.is_int_p, ("float",): P.is_float_p, ("str",): P.is_str_p, ("list",): P.is_list_p,
    ("tuple",): P.is_tuple_p, ("set",): P.is_set_p, ("dict",): P.is_dict_p, ("complex",): P.is_complex_p,
    ("datetime",): P.is_datetime_p, ("uuid",): P.is_uuid_p, ("range",): P.is_range_p, ("predicate",): P.is_predicate_p,
    ("iterable",): P.is_iterable_p, ("container",): P.is_container_p, ("hashable",): P.is_hashable_p, ("callable",): P.is_callable_p,
}


def real(s, rec: Recorder):
    """spec -> the library's predicate object, built with the exported constructors and operators."""
    h = s[0]
    if h in _FIXED:
        return _FIXED[h]
    if h in _ATOM_MK:
        return _ATOM_MK[h](*s[1:])
    if h == "in":
        return P.in_p(*s[1])
    if h == "notin":
        return P.not_in_p(*s[1])
    if h == "inst":
        return _INST_FIXED.get(tuple(s[1])) or P.is_instance_p(*[KLASS[k] for k in s[1]])
    if h == "regex":
        return P.regex_p(s[1])
    if h == "strtest":
        return STR_TESTS[s[1]][0]
    if h == "startswith":
        return SP.starts_with_p(s[1])
    if h == "endswith":
        return SP.ends_with_p(s[1])
    if h == "probe":
        i = s[1]
        return P.fn_p(lambda x: rec.call(i, x))
    if h == "prop":
        i = s[1]
        return PropertyPredicate(getter=property(lambda obj: rec.call(i, obj)))
    if h == "tee":
        i = s[1]
        return P.tee_p(lambda x: rec.call(i, x))
    if h == "and":
        return real(s[1], rec) & real(s[2], rec)
    if h == "or":
        return real(s[1], rec) | real(s[2], rec)
    if h == "xor":
        return real(s[1], rec) ^ real(s[2], rec)
    if h == "not":
        return ~real(s[1], rec)
    if h == "all":
        return P.all_p(real(s[1], rec))
    if h == "any":
        return P.any_p(real(s[1], rec))
    if h == "setof":
        return P.is_set_of_p(real(s[1], rec))
    if h == "comp":
        return P.comp_p(_fn(s[1], rec), real(s[2], rec))
    if h == "tupleof":
        return P.is_tuple_of_p(*[real(k, rec) for k in s[1]])
    if h == "dictof":
        return P.is_dict_of_p(*[(k if isinstance(k, str) else real(k, rec), real(v, rec)) for k, v in s[1]])
    if h == "listof":
        return P.is_list_of_p(real(s[1], rec))
    if h == "iterof":
        return P.is_iterable_of_p(real(s[1], rec))
    if h == "single_or_listof":
        return is_single_or_list_of_p(real(s[1], rec))
    if h == "single_or_iterof":
        return is_single_or_iterable_of_p(real(s[1], rec))
    raise ValueError(f"unknown spec {s!r}")


def _fn(f, rec):
    if isinstance(f, str):
        return BASE_FNS[f]
    _, i, base = f
    b = BASE_FNS[base]

    def g(x):
        rec.call(i, x)
        return b(x)

    return g


def oracle(s, rec: Recorder):
    """spec -> plain-Python callable: the relation the constructor is named after, written with Python's own
    operators (`and`, `or`, `!=`, `not`, `all`, `any`, comparison chains, `in`, `isinstance`, `len`, str methods).
    Never touches the library."""
    h = s[0]
    if h == "tt":
        return lambda x: True
    if h == "ff":
        return lambda x: False
    if h == "eq":
        return lambda x: x == s[1]
    if h == "ne":
        return lambda x: x != s[1]
    if h == "ge":
        return lambda x: x >= s[1]
    if h == "gt":
        return lambda x: x > s[1]
    if h == "le":
        return lambda x: x <= s[1]
    if h == "lt":
        return lambda x: x < s[1]
    if h == "gele":
        return lambda x: s[1] <= x and x <= s[2]
    if h == "gelt":
        return lambda x: s[1] <= x and x < s[2]
    if h == "gtle":
        return lambda x: s[1] < x and x <= s[2]
    if h == "gtlt":
        return lambda x: s[1] < x and x < s[2]
    if h == "in":
        return lambda x: x in set(s[1])
    if h == "notin":
        return lambda x: x not in set(s[1])
    if h == "subset":
        return lambda x: x <= s[1]
    if h == "rsubset":
        return lambda x: x <= s[1] and x != s[1]
    if h == "superset":
        return lambda x: x >= s[1]
    if h == "rsuperset":
        return lambda x: x >= s[1] and x != s[1]
    if h == "none":
        return lambda x: x is None
    if h == "notnone":
        return lambda x: x is not None
    if h == "truthy":
        return lambda x: True if x else False
    if h == "falsy":
        return lambda x: False if x else True
    if h == "empty":
        return lambda x: len(x) == 0
    if h == "notempty":
        return lambda x: len(x) != 0
    if h == "inst":
        ks = tuple(KLASS[k] for k in s[1])
        return lambda x: isinstance(x, ks)
    if h == "haskey":
        return lambda x: s[1] in x
    if h == "haslen":
        return lambda x: len(x) == s[1]
    if h == "regex":
        rx = re.compile(s[1])
        return lambda x: bool(rx.match(x))
    if h == "strtest":
        m = STR_TESTS[s[1]][1]
        return lambda x: m(x)
    if h == "startswith":
        return lambda x: x[: len(s[1])] == s[1]
    if h == "endswith":
        return lambda x: x[len(x) - len(s[1]):] == s[1]
    if h == "finite":
        return lambda x: math.isfinite(x)
    if h == "inf":
        return lambda x: math.isinf(x)
    if h == "nan":
        return lambda x: math.isnan(x)
    if h == "neg":
        return lambda x: x < 0
    if h == "zero":
        return lambda x: x == 0
    if h == "pos":
        return lambda x: x > 0
    if h == "eq_true":
        return lambda x: x == True  # noqa: E712
    if h == "eq_false":
        return lambda x: x == False  # noqa: E712
    if h in ("probe", "prop"):
        return lambda x: rec.call(s[1], x)
    if h == "tee":
        def tee(x):
            rec.call(s[1], x)
            return True
        return tee
    if h in ("and", "or", "xor"):
        l, r = oracle(s[1], rec), oracle(s[2], rec)
        if h == "and":
            return lambda x: l(x) and r(x)
        if h == "or":
            return lambda x: l(x) or r(x)
        return lambda x: l(x) != r(x)
    if h == "not":
        p = oracle(s[1], rec)
        return lambda x: not p(x)
    if h in ("all", "setof"):
        p = oracle(s[1], rec)

        def all_(xs):
            for y in xs:
                if not p(y):
                    return False
            return True
        return all_
    if h == "any":
        p = oracle(s[1], rec)

        def any_(xs):
            for y in xs:
                if p(y):
                    return True
            return False
        return any_
    if h == "comp":
        f, p = _fn(s[1], rec), oracle(s[2], rec)
        return lambda x: p(f(x))
    if h == "tupleof":
        ps = [oracle(k, rec) for k in s[1]]

        def tup(x):
            if len(x) != len(ps):
                return False
            for p, v in zip(ps, x):
                if not p(v):
                    return False
            return True
        return tup
    if h in ("listof", "iterof"):
        p = oracle(s[1], rec)
        k = list if h == "listof" else Iterable

        def of(x):
            if not isinstance(x, k):
                return False
            for y in x:
                if not p(y):
                    return False
            return True
        return of
    if h in ("single_or_listof", "single_or_iterof"):
        of = oracle(("listof" if h == "single_or_listof" else "iterof", s[1]), rec)
        p = oracle(s[1], rec)
        return lambda x: of(x) or p(x)
    raise ValueError(f"no oracle for {s!r}")


def run(fn, x):
    """Call and canonicalise: ('ok', bool) | ('raised', ExceptionClassName) | ('nonbool', repr)."""
    try:
        r = fn(x)
    except Exception as e:  # noqa: BLE001
        return ("raised", type(e).__name__)
    if r is True or r is False:
        return ("ok", r)
    return ("nonbool", repr(r))


def outcome_wire(o) -> str:
    if o[0] == "ok":
        return "ok T" if o[1] else "ok F"
    return f"{o[0]} {o[1]}"


def size(s) -> int:
    h = s[0]
    if h in ("and", "or", "xor"):
        return 1 + size(s[1]) + size(s[2])
    if h in ("not", "all", "any", "setof", "listof", "iterof", "single_or_listof", "single_or_iterof"):
        return 1 + size(s[1])
    if h == "comp":
        return 1 + size(s[2])
    if h == "tupleof":
        return 1 + sum(size(k) for k in s[1])
    if h == "dictof":
        return 1 + sum((0 if isinstance(k, str) else size(k)) + size(v) for k, v in s[1])
    return 1


def show(s) -> str:
    """Readable Python-ish rendering of a spec (for evidence and replays)."""
    h = s[0]
    if h in ("and", "or", "xor"):
        return f"({show(s[1])} {'&|^'['and or xor'.split().index(h)]} {show(s[2])})"
    if h == "not":
        return f"~{show(s[1])}"
    if h in ("all", "any", "setof", "listof", "iterof", "single_or_listof", "single_or_iterof"):
        return f"{h}({show(s[1])})"
    if h == "comp":
        return f"comp({s[1]}, {show(s[2])})"
    if h == "tupleof":
        return "tuple_of(" + ", ".join(show(k) for k in s[1]) + ")"
    if h == "dictof":
        return "dict_of(" + ", ".join(f"({k if isinstance(k, str) else show(k)}: {show(v)})" for k, v in s[1]) + ")"
    if len(s) == 1:
        return h
    return f"{h}({', '.join(repr(a) for a in s[1:])})"
