"""Cross-check of the proved bounds (lean/PyPred/Props/C12P.lean) against the real implementation's
invocation count (same counting convention as tools/cost_corr.py, which ties it to the model's optimizeC):

    invocations(p) <= 3 * w(p) * (M(p) + 1 - M(optimize(p)))      (C12_cost_potential)
    invocations(p) <= 12 * w(p)^2                                 (C12_cost_quadratic)
    M(optimize(p)) <= M(p),  w(optimize(p)) <= w(p)

Not part of the proof: the theorems are about the model; this shows the statement is meaningful for (and
how tight it is on) the code.   usage: /venv/bin/python tools/poly_check.py [seed] [ncases]
"""
import os
import random
import sys

sys.path.insert(0, os.path.dirname(os.path.dirname(os.path.abspath(__file__))))
sys.path.insert(0, os.environ.get("PYPRED_REPO", "/repo"))
sys.setrecursionlimit(100000)

from harness import cases, lift, sx as S  # noqa: E402
from harness.props import c12  # noqa: E402
from tools.cost_corr import py_invocations  # noqa: E402

W2 = {"ne", "notin", "lt", "le", "notnone", "notempty", "falsy"}


def head(t):
    return t if isinstance(t, str) else t[0]


def w(t):
    h = head(t)
    if h in ("and", "or", "xor"):
        return 1 + w(t[1]) + w(t[2])
    if h in ("not", "all", "any"):
        return 1 + w(t[1])
    return 2 if h in W2 else 1


def X(t):
    h = head(t)
    if h in ("and", "or"):
        return X(t[1]) + X(t[2])
    if h == "xor":
        return X(t[1]) + X(t[2]) + (0 if head(t[1]) != "and" and head(t[2]) == "and" else 1)
    if h in ("not", "all", "any"):
        return X(t[1])
    return 0


def M(t):
    return 3 * w(t) + X(t)


def main():
    seed = int(sys.argv[1]) if len(sys.argv) > 1 else 0
    ncases = int(sys.argv[2]) if len(sys.argv) > 2 else 2000
    rng = random.Random(seed)
    leaves = cases.prop_leaves(cases.NAMES5) + cases.scalar_atoms()[:30]
    qleaves = list(cases.quantified_atoms(cases.elem_preds()))[:60] + cases.coll_atoms() + ["tt", "ff"]
    cs = [cases.random_tree(rng, rng.randint(3, 60), leaves) for _ in range(ncases)]
    cs += [cases.random_tree(rng, rng.randint(3, 40), qleaves) for _ in range(ncases)]
    for fam in c12.FAMILIES:
        cs += [c12.chain(fam, n) for n in (4, 8, 16, 32, 64)]
    for k in (4, 8, 16, 32):
        for m in (2, 8):
            t = "notnone"
            for i in range(k):
                a = ("var", f"x{i}", "0")
                for _ in range(m):
                    a = ("all", a)
                t = ("and", a, ("all", t))
            cs.append(t)
    bad = 0
    worst_pot = (0.0, None)
    worst_quad = (0.0, None)
    for s in cs:
        if any(head(u) in ("box", "kcons", "knil", "leaf") for u in S.subterms(s)):
            continue
        p = lift.lower(s, {})
        o, n = py_invocations(p)
        so = lift.lift(o)
        wp, mp, mo = w(s), M(s), M(so)
        pot = 3 * wp * (mp + 1 - mo)
        ok = mo <= mp and w(so) <= wp and n <= pot and n <= 12 * wp * wp
        if not ok:
            bad += 1
            if bad < 10:
                print("VIOLATES-BOUND", S.show(s), "->", S.show(so), "n", n, "w", wp, "M", mp, mo)
        if n / pot > worst_pot[0]:
            worst_pot = (n / pot, (wp, n, mp - mo, S.show(s)[:100]))
        if n / (wp * wp) > worst_quad[0] and wp >= 20:
            worst_quad = (n / (wp * wp), (wp, n, S.show(s)[:100]))
    print(f"cases={len(cs)} violations={bad} max n/(3w(M+1-M'))={worst_pot[0]:.3f} at {worst_pot[1]}")
    print(f"max n/w^2 (w>=20) = {worst_quad[0]:.3f} at {worst_quad[1]}")
    return 1 if bad else 0


if __name__ == "__main__":
    sys.exit(main())
