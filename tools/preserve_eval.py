#!/usr/bin/env python3
"""Run quick checks against PROPERTY-preserving behaviour changes (new sound rules, other valid outputs): a check may report that its theorem / correspondence no longer applies (VIOLATION ... no-failing-input-found, as the task prescribes) but must never name a failing input.

usage: tools/benign_eval.py <worktree> <PID> [<PID> ...]      (expects <worktree>/out/b*/patch.diff)
Applies each patch in the scratch worktree, runs the repository's tests (must pass), runs `./check <PID> quick` with
PYPRED_REPO=<worktree>, reverts.  Prints one JSON line per (patch, check): exit status and the VIOLATION / HARNESS lines."""
import glob
import json
import os
import subprocess
import sys

ROOT = os.path.dirname(os.path.dirname(os.path.abspath(__file__)))
PY = "/venv/bin/python"


def sh(cmd, cwd, env=None, timeout=3000):
    e = dict(os.environ)
    e.update(env or {})
    p = subprocess.run(cmd, cwd=cwd, shell=True, capture_output=True, text=True, env=e, timeout=timeout)
    return p.returncode, p.stdout + p.stderr


def main():
    wt = sys.argv[1].rstrip("/")
    pids = sys.argv[2:]
    tag = os.path.basename(wt)
    for d in sorted(glob.glob(os.path.join(wt, "out", "p*"))):
        patch = os.path.join(d, "patch.diff")
        if not os.path.exists(patch):
            continue
        rc, out = sh("git status --porcelain --untracked-files=no", wt)
        if out.strip():
            print(json.dumps({"patch": d, "error": "worktree not clean"}))
            continue
        rc, out = sh(f"git apply {patch}", wt)
        if rc:
            print(json.dumps({"patch": d, "error": "does not apply: " + out[:200]}))
            continue
        try:
            rc, out = sh(f"PYTHONPATH={wt} {PY} -m pytest -q -p no:cacheprovider -x 2>&1 | tail -1", wt)
            tests = out.strip()
            for pid in pids:
                rc, out = sh(f"./check {pid} quick", ROOT, env={"PYPRED_REPO": wt, "VERIF_EVIDENCE_DIR": f"/tmp/benign_evidence_{tag}"})
                lines = [l[:300] for l in out.split("\n") if l.startswith(("VIOLATION", "HARNESS")) or "Error" in l]
                print(json.dumps({"patch": d, "tests": tests, "check": pid, "exit": rc, "lines": lines[:4]}), flush=True)
        finally:
            sh("git checkout -- . && git clean -fdq -e out -e AREA.txt -e TASK.txt -e PROPERTIES.txt", wt)


if __name__ == "__main__":
    main()
