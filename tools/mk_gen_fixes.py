"""Build fixes/gen-*.diff from /repo, one per defect; test each alone and all together."""
import os, shutil, subprocess, sys
OUT = '/tmp/w_gen/fixes'
H = 'predicate/generator/helpers.py'
T = 'predicate/generator/generate_true.py'
F = 'predicate/generator/generate_false.py'
FIX = {}
FIX['gen-int-windows'] = [
 (H, "import string\nimport sys\n", "import string\n"),
 (H, '''def random_ints(lower: int = -sys.maxsize, upper: int = sys.maxsize) -> Iterator[int]:
    # yield lower
    # yield upper
    # TODO: maybe first generate_true some smaller ints

    def between(limit: int) -> Iterator[int]:
        low = max(-limit, lower)
        high = min(limit, upper)
''', '''def random_ints(lower: int | None = None, upper: int | None = None) -> Iterator[int]:
    # yield lower
    # yield upper
    # TODO: maybe first generate_true some smaller ints

    if lower is not None and upper is not None and lower > upper:
        return

    # the windows grow around the point of [lower, upper] that is nearest to zero
    center = 0
    if lower is not None and lower > 0:
        center = lower
    if upper is not None and upper < 0:
        center = upper

    def between(limit: int) -> Iterator[int]:
        low = center - limit if lower is None else max(center - limit, lower)
        high = center + limit if upper is None else min(center + limit, upper)
'''),
]
FIX['gen-float-defaults'] = [
 (H, '''def random_floats(lower: float = -1e-6, upper: float = 1e6) -> Iterator:
    yield lower
''', '''def random_floats(lower: float | None = None, upper: float | None = None) -> Iterator:
    # defaults -1e-6 and 1e6, widened so that they never cross the bound that was given
    if lower is None:
        lower = -1e-6 if upper is None else min(-1e-6, 2 * upper)
    if upper is None:
        upper = max(1e6, 2 * lower)

    yield lower
'''),
]
FIX['gen-float-epsilon'] = [
 (T, "import random\nimport sys\nimport uuid\n", "import math\nimport random\nimport uuid\n"),
 (T, "random_floats(lower=predicate.v + sys.float_info.epsilon)", "random_floats(lower=math.nextafter(predicate.v, math.inf))"),
 (T, "random_floats(upper=predicate.v - sys.float_info.epsilon)", "random_floats(upper=math.nextafter(predicate.v, -math.inf))"),
 (F, "import random\nimport sys\nimport uuid\n", "import math\nimport random\nimport uuid\n"),
 (F, "random_floats(upper=predicate.v - sys.float_info.epsilon)", "random_floats(upper=math.nextafter(predicate.v, -math.inf))"),
]
FIX['gen-lt-datetime'] = [
 (T, '''def generate_lt(predicate: LtPredicate) -> Iterator:
    match predicate.v:
        case datetime() as dt:
            yield from (dt - timedelta(days=days) for days in range(0, 5))
''', '''def generate_lt(predicate: LtPredicate) -> Iterator:
    match predicate.v:
        case datetime() as dt:
            yield from (dt - timedelta(days=days) for days in range(1, 6))
'''),
]
FIX['gen-false-ne'] = [
 (F, '''def generate_ne(predicate: NePredicate) -> Iterator:
    yield from predicate.v
''', '''def generate_ne(predicate: NePredicate) -> Iterator:
    yield predicate.v
'''),
]
FIX['gen-empty-pool'] = [
 (T, '''        values = take(max_length, generate_true(predicate))
        yield random_combination_with_replacement(values, max_length)

        values = take(max_length, generate_true(predicate))
        yield set(random_combination_with_replacement(values, max_length))

        values = take(max_length, generate_true(predicate))
        yield list(random_combination_with_replacement(values, max_length))
''', '''        values = take(max_length, generate_true(predicate))
        if not values:
            return  # nothing satisfies the predicate: [] is the only value
        yield random_combination_with_replacement(values, max_length)

        values = take(max_length, generate_true(predicate))
        if not values:
            return
        yield set(random_combination_with_replacement(values, max_length))

        values = take(max_length, generate_true(predicate))
        if not values:
            return
        yield list(random_combination_with_replacement(values, max_length))
'''),
 (T, '''    values = take(10, generate_true(predicate))

    # TODO: also add some values for which predicate isn't valid
''', '''    values = take(10, generate_true(predicate))
    if not values:
        return  # nothing satisfies the predicate, so no iterable satisfies any_p

    # TODO: also add some values for which predicate isn't valid
'''),
 (F, '''        values = take(max_length, generate_false(predicate))
        yield random_combination_with_replacement(values, max_length)
''', '''        values = take(max_length, generate_false(predicate))
        if not values:
            return  # nothing violates the predicate, so no iterable violates all_p
        yield random_combination_with_replacement(values, max_length)
'''),
 (F, '''    values = take(10, generate_false(predicate))

    yield set(random_combination_with_replacement(values, 5))
''', '''    values = take(10, generate_false(predicate))
    if not values:
        return  # nothing violates the predicate, so no set violates set_of

    yield set(random_combination_with_replacement(values, 5))
'''),
]

def apply(root, edits):
    for f, old, new in edits:
        p = os.path.join(root, f)
        s = open(p).read()
        assert s.count(old) == 1, (f, old[:60], s.count(old))
        open(p, 'w').write(s.replace(old, new))

def pytest(root):
    r = subprocess.run(['/venv/bin/python', '-m', 'pytest', '-q', '-p', 'no:cacheprovider', '-x'], cwd=root, capture_output=True, text=True)
    return r.stdout.strip().split('\n')[-1]

def main():
    os.makedirs(OUT, exist_ok=True)
    only = sys.argv[1:]
    for name, edits in FIX.items():
        if only and name not in only: continue
        root = f'/tmp/scratch_gen/r_{name}'
        shutil.rmtree(root, ignore_errors=True)
        shutil.copytree('/repo', root, ignore=shutil.ignore_patterns('.git', '__pycache__', '.pytest_cache'))
        apply(root, edits)
        files = sorted({f for f, _, _ in edits})
        out = ''
        for f in files:
            r = subprocess.run(['diff', '-U1' if name == 'gen-lt-datetime' else '-u', '--label', 'a/' + f, '--label', 'b/' + f, os.path.join('/repo', f), os.path.join(root, f)], capture_output=True, text=True)
            out += f'diff --git a/{f} b/{f}\n' + r.stdout
        open(os.path.join(OUT, name + '.diff'), 'w').write(out)
        print(name, pytest(root))
        shutil.rmtree(root)
    # all together in /tmp/repo_gen
    subprocess.run(['git', 'checkout', '-q', '--', '.'], cwd='/tmp/repo_gen')
    for name in FIX:
        r = subprocess.run(['git', 'apply', os.path.join(OUT, name + '.diff')], cwd='/tmp/repo_gen', capture_output=True, text=True)
        print('apply', name, r.returncode, r.stderr.strip())
    print('all', pytest('/tmp/repo_gen'))
main()
