#!/usr/bin/env python3
"""Re-run the quick check of each kept seeded change (seeded/<PID>-*/patch.diff) against a scratch worktree of /repo.

usage: tools/seed_regress.py [PID ...]        (default: all)     exit 1 if a change that was caught is now missed
A patch that no longer applies to /repo's HEAD is reported as STALE (not a miss)."""
import glob
import json
import os
import subprocess
import sys

ROOT = os.path.dirname(os.path.dirname(os.path.abspath(__file__)))
WT = f"/tmp/seedreg_wt_{os.getpid()}"


def sh(cmd, cwd=None, env=None, timeout=3000):
    e = dict(os.environ)
    e.update(env or {})
    p = subprocess.run(cmd, cwd=cwd, shell=True, capture_output=True, text=True, env=e, timeout=timeout)
    return p.returncode, p.stdout + p.stderr


def main():
    pids = [a.upper() for a in sys.argv[1:]]
    sh(f"git -C /repo worktree remove --force {WT}")
    rc, out = sh(f"git -C /repo worktree add --detach {WT} HEAD")
    if rc:
        print(out)
        return 2
    missed = 0
    try:
        for d in sorted(glob.glob(os.path.join(ROOT, "seeded", "*"))):
            name = os.path.basename(d)
            meta = json.load(open(os.path.join(d, "meta.json")))
            pid = meta.get("property", name.split("-")[0])
            if pids and pid not in pids:
                continue
            caught_by = meta.get("ran", {}).get("caught_by") or [pid]
            rc, out = sh(f"git apply {os.path.join(d, 'patch.diff')}", WT)
            if rc:
                print(f"{name}: STALE (patch does not apply to HEAD)")
                continue
            try:
                res = []
                for c in caught_by[:1]:
                    rc, out = sh(f"./check {c} quick", ROOT, env={"PYPRED_REPO": WT, "VERIF_EVIDENCE_DIR": "/tmp/seeded_evidence"})
                    res.append((c, rc))
            finally:
                sh("git checkout -- . && git clean -fdq", WT)
            ok = any(rc == 1 for _c, rc in res)
            print(f"{name}: {'caught' if ok else 'MISSED'} {res}")
            if not ok:
                missed += 1
    finally:
        sh(f"git -C /repo worktree remove --force {WT}")
    print("missed:", missed)
    return 1 if missed else 0


if __name__ == "__main__":
    sys.exit(main())
