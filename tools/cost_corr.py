"""Tie of the model's invocation count (lean/PyPred/Model/OptimizeCost.lean, `optimizeC`) to the
implementation: one model invocation = one call of `optimize` (the dispatcher) or one of the two direct
re-entries that bypass it (and_optimizer.py:37 optimize_and_predicate, xor_optimizer.py:60
optimize_xor_predicate, recognised by a caller frame that is not the dispatcher).

usage: /venv/bin/python tools/cost_corr.py [seed] [ncases]
"""
import os
import random
import sys

sys.path.insert(0, os.path.dirname(os.path.dirname(os.path.abspath(__file__))))
sys.path.insert(0, os.environ.get("PYPRED_REPO", "/repo"))
sys.setrecursionlimit(100000)

from harness import cases, driver, lift, optcorr, sx as S  # noqa: E402
from harness.props import c12  # noqa: E402
from predicate import optimize  # noqa: E402


def py_invocations(p):
    n = 0

    def prof(frame, event, arg):
        nonlocal n
        if event != "call" or "optimizer" not in frame.f_code.co_filename:
            return
        name = frame.f_code.co_name
        if name == "optimize":
            n += 1
        elif name in ("optimize_and_predicate", "optimize_xor_predicate"):
            back = frame.f_back
            if back is None or back.f_code.co_name != "optimize":
                n += 1

    sys.setprofile(prof)
    try:
        o = optimize(p)
    finally:
        sys.setprofile(None)
    return o, n


def main():
    seed = int(sys.argv[1]) if len(sys.argv) > 1 else 0
    ncases = int(sys.argv[2]) if len(sys.argv) > 2 else 2000
    rng = random.Random(seed)
    cfg, _ = optcorr.detect_cfg()
    leaves = cases.prop_leaves(cases.NAMES5) + cases.scalar_atoms()[:30]
    qleaves = list(cases.quantified_atoms(cases.elem_preds()))[:60] + cases.coll_atoms() + ["tt", "ff"]
    cs = [cases.random_tree(rng, rng.randint(3, 40), leaves) for _ in range(ncases)]
    cs += [cases.random_tree(rng, rng.randint(3, 25), qleaves) for _ in range(ncases)]
    for fam in c12.FAMILIES:
        cs += [c12.chain(fam, n) for n in (4, 8, 16, 32)]
    anyc = ("ne", "1")
    for _ in range(12):
        anyc = ("any", anyc)
        cs.append(anyc)
    out = driver.run((f"optc {cfg} {S.show(s)}" for s in cs), exe="driver_cost", src="DriverCost.lean")
    bad = 0
    worst = (0.0, None)
    for s, line in zip(cs, out):
        p = lift.lower(s, {})
        o, n = py_invocations(p)
        if line == "FUEL" or line.startswith("ERR"):
            print("MODEL", line, S.show(s))
            bad += 1
            continue
        text, calls, k = line.rsplit(" ", 2)
        ptxt = S.show(lift.lift(o))
        if ptxt != text or int(calls) != n:
            bad += 1
            if bad < 10:
                print("DISAGREE", S.show(s), "model", text, calls, "python", ptxt, n)
        sz = S.size(s)
        r = int(calls) / (sz * sz)
        if r > worst[0]:
            worst = (r, (sz, int(calls), S.show(s)[:120]))
    print(f"cases={len(cs)} disagreements={bad} worst calls/size^2={worst[0]:.3f} at {worst[1]}")
    return 1 if bad else 0


if __name__ == "__main__":
    sys.exit(main())
