#!/usr/bin/env python3
"""Confirm a seeded change and run the property's check against it.

usage: tools/seed_eval.py <worktree> <PID> [<PID2> ...]     (expects <worktree>/out/m*/{patch.diff,demo.py,meta.json})

For each change: apply in the scratch worktree, run the repository's test suite
(must pass), run demo.py (must fail), run ./check <PID> quick with
PYPRED_REPO=<worktree> (so /repo itself is never touched while other work reads
it), revert, run demo.py (must pass).  Keeps confirmed changes under
/verif/seeded/<PID>-<name>/ with the outcome recorded in meta.json.
"""
import glob
import json
import os
import shutil
import subprocess
import sys

ROOT = os.path.dirname(os.path.dirname(os.path.abspath(__file__)))
PY = "/venv/bin/python"


def sh(cmd, cwd, env=None, timeout=1800):
    e = dict(os.environ)
    e.update(env or {})
    p = subprocess.run(cmd, cwd=cwd, shell=True, capture_output=True, text=True, env=e, timeout=timeout)
    return p.returncode, p.stdout + p.stderr


def main():
    wt = sys.argv[1].rstrip("/")
    pids = sys.argv[2:]
    for d in sorted(glob.glob(os.path.join(wt, "out", "m*"))):
        name = os.path.basename(d)
        patch = os.path.join(d, "patch.diff")
        meta = json.load(open(os.path.join(d, "meta.json")))
        rc, out = sh("git status --porcelain --untracked-files=no", wt)
        if out.strip():
            print(f"{d}: worktree not clean, skipping: {out}")
            continue
        rc, out = sh(f"git apply {patch}", wt)
        if rc:
            print(f"{d}: patch does not apply: {out}")
            continue
        res = {}
        try:
            rc, out = sh(f"PYTHONPATH={wt} {PY} -m pytest -q -p no:cacheprovider -x 2>&1 | tail -3", wt)
            res["tests"] = out.strip().split("\n")[-1]
            rc, out = sh(f"{PY} {os.path.join(d, 'demo.py')}", wt, env={"PYTHONPATH": wt})
            res["demo_with_patch_exit"] = rc
            res["checks"] = {}
            for pid in pids:
                rc, out = sh(f"./check {pid} quick", ROOT, env={"PYPRED_REPO": wt, "VERIF_EVIDENCE_DIR": "/tmp/seeded_evidence"})
                lines = [l for l in out.split("\n") if l.startswith(("VIOLATION", "KNOWN-FINDING", "[", "HARNESS"))]
                res["checks"][pid] = {"exit": rc, "lines": [l[:400] for l in lines]}
        finally:
            sh("git checkout -- . && git clean -fdq -e out -e PROPERTY.txt -e TASK.txt", wt)
        rc, out = sh(f"{PY} {os.path.join(d, 'demo.py')}", wt, env={"PYTHONPATH": wt})
        res["demo_without_patch_exit"] = rc
        confirmed = "582 passed" in res.get("tests", "") and res["demo_with_patch_exit"] != 0 and res["demo_without_patch_exit"] == 0
        res["confirmed"] = confirmed
        caught = [pid for pid in pids if res["checks"][pid]["exit"] == 1]
        res["caught_by"] = caught
        print(json.dumps({"change": d, "summary": meta.get("summary"), **res}, indent=1))
        if confirmed:
            dest = os.path.join(ROOT, "seeded", f"{meta.get('property', pids[0])}-{os.environ.get('SEED_ROUND', os.path.basename(wt))}-{name}")
            os.makedirs(dest, exist_ok=True)
            shutil.copy(patch, dest)
            shutil.copy(os.path.join(d, "demo.py"), dest)
            meta["ran"] = {
                "how": f"patch applied in scratch worktree {wt} (git worktree of /repo HEAD); pytest; demo.py; `PYPRED_REPO={wt} ./check <pid> quick`; reverted; demo.py again",
                **res,
            }
            json.dump(meta, open(os.path.join(dest, "meta.json"), "w"), indent=1)


if __name__ == "__main__":
    main()
