"""Phase 2 generator diffs (fixes/gen-notin-fallback.diff, gen-unhashable-set.diff), relative to the repaired /repo.
Builds each diff from /repo, runs the library tests on each alone, then applies both to a fresh /tmp/repo_gen."""
import os
import shutil
import subprocess

OUT = '/tmp/w_gen/fixes'
SCRATCH = '/tmp/scratch_gen'
H = 'predicate/generator/helpers.py'
T = 'predicate/generator/generate_true.py'
F = 'predicate/generator/generate_false.py'
FIX = {}
FIX['gen-notin-fallback'] = [
    (T, '''            case str():
                yield from generate_strings(predicate)


@generate_true.register
def generate_not_none''', '''            case str():
                yield from generate_strings(predicate)
    # no int or str member (e.g. the empty set): any value that is not a member will do
    yield from generate_anys(predicate)


@generate_true.register
def generate_not_none'''),
    (F, '''            case str():
                yield from generate_strings(NotPredicate(predicate=predicate))
''', '''            case str():
                yield from generate_strings(NotPredicate(predicate=predicate))
    # no int or str member (e.g. the empty set): any value that is not a member will do
    yield from generate_anys(NotPredicate(predicate=predicate))
'''),
]
FIX['gen-unhashable-set'] = [
    (H, '''def random_complex_numbers() -> Iterator:''', '''def all_hashable(values: Iterable) -> bool:
    """Return True if a set can be built from the values."""
    try:
        set(values)
    except TypeError:
        return False
    return True


def random_complex_numbers() -> Iterator:'''),
    (H, "from typing import Iterator\n", "from typing import Iterable, Iterator\n"),
    (T, "from predicate.generator.helpers import (\n    generate_anys,", "from predicate.generator.helpers import (\n    all_hashable,\n    generate_anys,"),
    (T, '''        if not values:
            return
        yield set(random_combination_with_replacement(values, max_length))
''', '''        if not values:
            return
        if all_hashable(values):
            yield set(random_combination_with_replacement(values, max_length))
'''),
    (T, '''    yield random_combination_with_replacement(values, 5)

    yield set(random_combination_with_replacement(values, 5))
''', '''    yield random_combination_with_replacement(values, 5)

    if all_hashable(values):
        yield set(random_combination_with_replacement(values, 5))
'''),
    (T, '''        if len(result := set(values)) == length:''', '''        if all_hashable(values) and len(result := set(values)) == length:'''),
    (F, "from predicate.generator.helpers import (\n    generate_anys,", "from predicate.generator.helpers import (\n    all_hashable,\n    generate_anys,"),
    (F, '''    values = take(10, generate_false(predicate))
    if not values:
        return  # nothing violates the predicate, so no set violates set_of
''', '''    # a set can only hold the hashable ones
    values = [value for value in take(10, generate_false(predicate)) if all_hashable((value,))]
    if not values:
        return  # nothing (hashable) violates the predicate, so no set violates set_of
'''),
]


def apply(root, edits):
    for f, old, new in edits:
        p = os.path.join(root, f)
        s = open(p).read()
        assert s.count(old) == 1, (f, old[:60], s.count(old))
        open(p, 'w').write(s.replace(old, new))


def pytest(root):
    r = subprocess.run(['/venv/bin/python', '-m', 'pytest', '-q', '-p', 'no:cacheprovider', '-x'], cwd=root, capture_output=True, text=True)
    return r.stdout.strip().split('\n')[-1]


def main():
    os.makedirs(SCRATCH, exist_ok=True)
    ign = shutil.ignore_patterns('.git', '__pycache__', '.pytest_cache')
    for name, edits in FIX.items():
        root = f'{SCRATCH}/r_{name}'
        shutil.rmtree(root, ignore_errors=True)
        shutil.copytree('/repo', root, ignore=ign)
        apply(root, edits)
        out = ''
        for f in sorted({f for f, _, _ in edits}):
            r = subprocess.run(['diff', '-u', '--label', 'a/' + f, '--label', 'b/' + f, os.path.join('/repo', f), os.path.join(root, f)], capture_output=True, text=True)
            out += f'diff --git a/{f} b/{f}\n' + r.stdout
        open(os.path.join(OUT, name + '.diff'), 'w').write(out)
        print(name, pytest(root))
        shutil.rmtree(root)
    shutil.rmtree('/tmp/repo_gen', ignore_errors=True)
    shutil.copytree('/repo', '/tmp/repo_gen', ignore=ign)
    for name in FIX:
        r = subprocess.run(['patch', '-p1', '-i', os.path.join(OUT, name + '.diff')], cwd='/tmp/repo_gen', capture_output=True, text=True)
        print('apply', name, r.returncode, r.stdout.strip().replace('\n', ' | ')[:200], r.stderr.strip()[:200])
    print('all', pytest('/tmp/repo_gen'))


main()
