#!/usr/bin/env python3
"""Regenerates MANIFEST.json from the table below (run after adding a check)."""
import json
import os

ROOT = os.path.dirname(os.path.dirname(os.path.abspath(__file__)))

TB = ("Trusted base: Lean 4.33 kernel with axioms propext/Classical.choice/Quot.sound only (audited per theorem on every run, no native_decide/bv_decide/sorry); "
      "the hand-written Lean model is tied to /repo by the correspondence run (harness/lift.py lifting, case generators, compiled Lean driver, CPython 3.12); "
      "Python's object model (dataclass ==, match, singledispatch, sets) is exercised, not modelled. ")

CHECKS = {
    "C01": dict(
        text="Machine-checked Lean theorem C01_optimize_preserves (induction on fuel over a 90-arm model of the optimizer; every tree, every interpretation, every value) for every configuration without a known-bad arm, plus C01_partial_impl for the code as it is (no quirk arm fired => meaning preserved) and decide-witnesses for the quirk arms; the model is tied to predicate.optimize on every run by structural comparison on all propositional trees <= 6 nodes over 3 names (15 030) and random shared trees, and the property itself is evaluated on the real objects under all assignments.",
        note=TB + "The open defects KF-xorNotAnd / KF-xorOr (pinned by existing tests) are reported as KNOWN-FINDING; a failing input is explained only when model and code agree on it and the model's trace names that arm.",
        tech="Lean 4 proof (induction on fuel, per-arm soundness lemmas) + differential correspondence of the model with predicate.optimize", ref="§7 C01, §4, §5"),
    "C02": dict(
        text="Same Lean soundness theorem (it quantifies over comparison, range, membership, none/truthy, isinstance with arbitrary overlapping classes, function atoms and all relative orders of constants of a linear order) with corollaries for the boundary claims (ranges as conjunctions with strictness, ge&le point collapse, set algebra incl. empty/singleton collapse) and decide-witnesses for the fn&eq and isinstance arms; C02_no_new_constants / C02_defined_preserved (optimize compares its argument with no bound the original did not, so it raises nowhere the original's comparisons are defined) from the generic closure theorem optimizeT_closed; tie: structural comparison on ~50 000 trees over a 53-atom grid and model eval vs real __call__ on 14 values.",
        note=TB + "Order atoms are totalised consistently on non-scalars (ge/gt false, le/lt their complements); the search only judges values on which every atom of the original is defined. Open defects KF-fnEq, KF-instDisjoint (+ the xor ones) are KNOWN-FINDINGs.",
        tech="Lean 4 proof (same induction, order facts by grind over LinearOrder) + differential correspondence (opt, eval)", ref="§7 C02"),
    "C03": dict(
        text="Same Lean soundness theorem over values with collections (all/any = List.all/List.any, empty collection included) with corollaries for the five quantifier rewrites and the subset-intersection rewrite, decide-witnesses for any(true) and disjoint subsets; tie: structural comparison on ~12 000 quantified/subset trees and model eval vs real calls on 166 collections.",
        note=TB + "Collections are finite and re-iterable. Open defects KF-anyTrue, KF-subsetEmpty (+ inherited ones) are KNOWN-FINDINGs.",
        tech="Lean 4 proof + differential correspondence (opt, eval)", ref="§7 C03"),
    "C04": dict(
        text="Lean theorem C04_negate_complement: eval (negate p) x = !eval p x for every constructor, interpretation and value (18 duals, ~p unwrapping, default wrapping), the dual table and involutivity on atoms; tie: model negate vs predicate.negate on every exported constructor and the C02/C03 grids, and negate(p)(x) vs not p(x) on the real objects.",
        note=TB + "le/lt are the complements of gt/ge by definition of the totalised semantics; C04_order_duals shows they are the usual relations on scalars of a linear order (no NaN).",
        tech="Lean 4 proof (case analysis on all constructors) + differential correspondence (neg)", ref="§7 C04"),
    "C05": dict(
        text="Lean theorems C05_implies_sound (all predicates, all values, linear order) and C05_implies_complete (listed atom pairs, dense linear order), plus the three 'always recognises' clauses; tie: model implies vs predicate.implies on all ordered pairs of a 160-predicate pool; soundness/completeness also judged on the real objects over a dense grid.",
        note=TB + "Completeness is stated for dense orders (C05_int_gap shows why).",
        tech="Lean 4 proof + differential correspondence (imp)", ref="§7 C05"),
    "C06": dict(
        text="Lean theorems: beq (the model of Python == on predicates) is sound w.r.t. eval for every interpretation, reflexive, symmetric, unordered on &,|,^, and separates every parameter; can_optimize definition; tie: model beq vs real == on ALL ordered pairs of a pool with every exported constructor (structurally equal fresh copies on the right), then reflexivity/symmetry/agreement on probe values on the real objects.",
        note=TB + "Parameters are interned by Python ==/hash (functions, getters by identity). this_p/root_p/lazy_p are opaque leaves (excepted by the property).",
        tech="Lean 4 proof (induction on the tree) + differential correspondence (beq)", ref="§7 C06"),
    "C13": dict(
        text="Lean theorems C13_*: for every atom constructor with universally quantified parameters, each of the 28 law instances (both operand orders) is an equation on the model's output for every fuel >= 3 (30 theorems by case analysis over the 31 atom constructors; p & p under the hypothesis that the subset arm is not the implemented one, with a partial form and a decide-witness for is_subset_p(set())); tie: model vs predicate.optimize on all 28 laws x 132 atoms incl. opaque kinds, and the result compared with the result the property names.",
        note=TB + "Open defect KF-subsetEmpty is a KNOWN-FINDING (p & p for p = is_subset_p(set())).",
        tech="Lean 4 proof (case analysis per atom constructor, simp) + differential correspondence (opt)", ref="§7 C13"),
    "C12": dict(
        text="Lean theorems about the executable optimizer model, for every tree, constant type and quirk configuration (the code as it is included): C12_terminates, with the explicit linear bound on the recursion depth C12_depth_linear (fuel 2*w(p)+swapBit+1 <= 4*size+2 suffices; fuel = depth), C12_weight_le (the result is never heavier), C12_size_le, C12_andRoot_shrinks, fuel monotonicity/determinism; a cost model optimizeC (exact number of invocations, same answers: C12_cost_same_answer) with C12_calls_below (every recursive call is on a term of strictly smaller measure), C12_branching (<= 4 per invocation), a finite exponential bound C12_cost_le_exp and a linear bound on the and/or/not fragment C12_cost_linear_aon. NOT proved: a polynomial bound on the number of invocations in general. Tie and observation: model vs predicate.optimize structurally on the C01-C03 term spaces, random trees of 60-400 nodes, print-alike and string-twin constants; the model's exact invocation counter == the implementation's call count on ~3 900 cases; optimize* call counts on nine growing families (incl. the family that was exponential before fix cc7f1c3) against 20*size^2+2000 and a cubic-growth test; purity by deep structural snapshots and fresh-copy comparison over random histories of the eight analysis functions on one shared object, every call under a line-event budget.",
        note=TB + "PARTIAL on one clause: the polynomial bound is measured (quadratic worst case on the model's exact counter, which is tied to the code), not proved; purity is decided by the correspondence (the Lean functions are pure by construction). Python's own stack: one model level is two Python frames.",
        tech="Lean 4 proof (strong induction on the measure 2*weight+swap bit through the fuel; per-arm weight lemmas; ticked cost semantics) + differential correspondence of result and invocation count + growth measurement + snapshot histories", ref="§7 C12, §12.6"),
    "C07": dict(
        text="Lean theorems about the reference effectful evaluator evalE (outcome x ordered list of calls to instrumented leaves), for every probe table, tree and value: value laws for & | ^ ~, trace laws (left first; right only when the left does not decide; ^ always both), C07_guard_protects (left False => result False and the right operand is not called; dual for |), all_p/any_p = for-all/exists cut at the first counter-example/witness and True/False on an empty collection, comp_p = p(f(x)) with f called once first, tee_p = one call and True; C07_trace_is_traversal (induction over all trees) and C07_pure_agrees. Tie: the real classes with instrumented fn_p/comp_p/tee_p/property leaves answering True/False/raise by table - return value or exception class AND recorded call sequence == evalE and == a plain-Python reading: all trees <= 4 nodes, sampled/all trees of 5 nodes, random trees of 6-9 nodes, directed guard and 'of'-form trees (150 276 quick / 970 174 thorough cases).",
        note=TB + "These theorems are laws of the reference evaluator (they are what the property says); what ties them to the classes is the correspondence on each class's behaviour plus Python's compositional call semantics (trusted). Probes are deterministic functions of (id, argument) whose only effect is the log.",
        tech="Lean 4 proof (case analysis on outcomes, induction on lists and on the tree) + differential correspondence of outcome and call trace + plain-Python oracle", ref="§7 C07, §4.1 M2, §10"),
    "C08": dict(
        text="Lean theorems about the reference semantics atomSem/evalPy of the built-in atoms over a concrete universe of Python values (none/bool/int/float-halves/str/list/tuple/set/dict/opaque objects), for every parameter and value: opposites complementary and defined together, eq = Python == across the numeric tower, in = membership up to == with the hashability TypeError, ge/gt/le/lt = four readings of one three-way comparison (cross-type raises TypeError), the four ranges = conjunction of the one-sided atoms with their strictness, exact behaviour at the bounds, subset family = inclusion up to == with real-subset differing exactly at equality, isinstance lattice, empty/truthy/has_length/has_key, literal regex = prefix, ASCII str tests, tuple_of/set_of/list_of/iterable_of. Tie: every exported atom constructor on a parameter grid x inputs (57 420 quick / 905 576 thorough): implementation outcome incl. exception class == evalPy, and == an independent plain-Python definition of the named relation; plus the opposite/nesting laws on the real objects.",
        note=TB + "The model is a specification; the theorems are laws of it, their force for the classes is the correspondence. Not modelled (implementation vs plain Python only): ipaddress properties (PropertyPredicate is modelled as the wrapper), Unicode classification, non-literal regular expressions, datetime/UUID/complex/range/frozenset/bytes/inf/nan/big-int inputs. Floats are multiples of 1/2; model strings are ASCII.",
        tech="Lean 4 proof (case analysis, nested induction over values for ==/order lemmas) + differential correspondence (evalpy) + plain-Python oracle", ref="§7 C08, §4.1 M2, §10"),
    "C20": dict(
        text="Lean theorems about a model of main.py composed from the C14 (parser), C01 (optimizer), C15 (truth table) and C18 (to_json) models: text of the language prints exactly the header (distinct names, sorted) and 2^k rows in ascending binary order whose last column is the value of the expression (C20_table and 7 corollaries, via C15_table_spec on a heap with one object per leaf), the table and JSON texts determine names/rows/tree (decoders with round-trip theorems, so a flipped bit or swapped column is visible in the text), re-association of equal operators does not change the table; with -o the output is that of the optimised predicate, which has the Boolean function of the expression over every extension of each printed row (C20_optimized_same_function for configurations without a known-bad arm, C20_optimized_partial_impl for the code as it is when no quirk fired, decide-witnesses reaching KF-xorOr / KF-xorNotAnd through -o) and -o always answers (C20_optimize_answers, from the termination theorem of C12); rejected text prints nothing on stdout (C20_rejects, three observable classes); 39 theorems. Tie: main.app through typer's CliRunner on ~21 000 (quick) / ~145 000 (thorough) invocations x {table, json} x {-o off, on} compared byte for byte (stdout, exit status, stderr class) with the compiled model, 100 / 1 000 of them as real subprocesses, the Lean decoders on the real stdout, and an independent judge (own tokenizer/parser/evaluator) on every real output.",
        note=TB + "Observed, not modelled: lark (its bracketing of equal-operator chains is read from its own tree and checked with the Lean relation sameModAssoc && isReading), click/typer (help and usage-error texts matched as classes), json.dumps, stdout. The dot command is outside the property. Open defects KF-xorNotAnd / KF-xorOr are reached through -o and reported as KNOWN-FINDING.",
        tech="Lean 4 proof (composition of the C14/C01/C15/C18/C12 theorems, decoders with round-trip proofs, decide +kernel witnesses) + differential correspondence in-process and as subprocess + independent property oracle", ref="§7 C20, §12.6"),
    "C14": dict(
        text="Lean theorems about an executable model of the lexer and of a reference precedence parser: the model accepts exactly the expression language (C14_accepts_iff_language: soundness, completeness for the ambiguous grammar by re-bracketing, a scanner characterisation, rejection lemmas); its tree is a faithful reading (C14_reading_inorder, C14_not_scope, C14_group_subtree, C14_parse_faithful); every tree has an accepted text (C14_parse_print_text); the lexer returns ts exactly for the texts that spell ts (C14_lex_iff_spells); 59 theorems. Lark's Earley engine is NOT modelled: the claim about parse_expression is that on every run it agrees with the model on accept/reject and, for each accepted text, that the Lean-defined relation isReading && isTight (proved to decide Reading and to imply Faithful) holds of the tree the implementation actually returned - on all in-language token sequences up to 7/9 tokens in three spacings, mutants, malformed and random texts, all fully parenthesised trees <= 6/7 nodes and random long expressions (46 606 / 439 605 texts).",
        note=TB + "Observed, not modelled: Lark's Earley parser, dynamic lexer and ambiguity resolution (lark 1.3.1). The model pins the precedence Lark produces (| < & < ^ < ~) and is compared modulo re-association of equal operators, because Lark does not bracket chains uniformly and the property leaves this open. 'Parse error' = lark UnexpectedInput/ParseError/LexError; VisitError is a failure. Inputs beyond the bound are not covered ('~'*300+'a' raises RecursionError).",
        tech="Lean 4 proof (induction on derivations / fuel; precedence-parser completeness, grammar re-association, matcher calculus) + bounded-exhaustive differential correspondence with evaluation of the Lean-defined relation on the implementation's output", ref="§7 C14, §4.1 M4, §10"),
    "C15": dict(
        text="Lean theorems about a heap model of truth_table (variable objects ObjId -> Bool, var leaves as pointers, the lazy generator protocol): rows n read as binary numbers are 0..2^n-1 in order (ascending, duplicate-free, complete), names strictly ascending and exactly those occurring, C15_table_spec for every initial heap and every aliasing, C15_history_independent, C15_interleave for any schedule over any family of generators sharing objects, rejection of foreign nodes as ValueError at the first next with nothing written; 22 theorems. Tie: every next() answer and the final .v of every object compared with the model call by call (3 025 exhaustive trees, 5 000 histories with shared objects and interleavings, 1 500 malformed histories; ~86 000 next calls quick / 1.33 M thorough), and independently with a Python rendering of the property's own table.",
        note=TB + "Trusted: Python str order equals Lean String order (exercised with mixed-case and non-ASCII names); sorted(gray_product(..)) is exercised, not modelled; names and trees are immutable while a generator is live.",
        tech="Lean 4 proof (heap-independence lemma next_stateAt, induction over schedules) + differential correspondence of generator histories", ref="§7 C15, §4.1 M3"),
    "C16": dict(
        text="Lean theorems over a model of the resolution algorithm as written (frame walk, scan order, candidate test, tree search, cached_property) and evaluation through resolved references, for all nested values, frame stacks and call histories: whenever the reference resolves to its definition P(x) = spec base x (C16_denotes, C16_denotes_sequence); an unresolvable reference raises ValueError; under the repaired code the reference resolves to P exactly when P is the first (last for root_p) binding, in the innermost frame with a related binding, in which the node object itself occurs (C16_resolves_iff, C16_fixed_any_scope); is_json_p with its references bound at import accepts exactly JSON-shaped data from any caller; _partial forms and decide-witnesses for the pinned variants; 22 theorems. Tie: ~350 quick / 5 000 thorough generated Python scope configurations (module/function level, siblings, other modules as callers, call depth, order of first calls) and is_json_p caller sequences executed on the real library, every outcome compared with the compiled model; predicted frame layouts compared with observed f_locals.",
        note=TB + "CPython 3.12 frame semantics are not in the Lean model: requests carry the user frames as ordered lists predicted by the harness and compared with observed f_locals on every run; inspect.currentframe, f_back, cached_property are trusted. String atoms are one-character strings; ~, ^, any_p are outside the AST (predicate_in_predicate_tree does not descend into them). Three defects were repaired in /repo (see known_findings.json).",
        tech="Lean 4 proof (induction on fuel and nesting depth) + differential execution on generated Python source", ref="§7 C16, §4.1 M7"),
    "C17": dict(
        text="Lean theorems over an arm-for-arm model of format_dot.py: a decoder reading only a cluster's node table and non-dashed edges returns the predicate (C17_decode_render, incl. comp and dict_of); ids are k..k+n-1, so clusters sharing the counter are disjoint; nodes are the pre-order sub-predicates plus one kv per dict_of pair, with n-1 tree edges; labels parse back to operator and constants; range labels show the lower bound left, the upper right, with the sign of each end, and that reading equals eval; failure is only by ValueError and success exactly on the supported kinds; 22 theorems. Tie: model toDot vs the parsed Digraph.body (ids, names, labels, solid/key/value edges in order) on ~23 600 quick / ~159 000 thorough trees x show_optimized off/on, plus a direct walk of the real output with the real predicate and a label oracle written from the property text.",
        note=TB + "Dashed (self-reference) edges are judged on the real output only (they must leave reference nodes and stay in the cluster): which reference resolves where depends on object identity, which the tree model does not carry. Set iteration order, graphviz quoting and rendering are not modelled. That optimize maps supported trees to supported trees is a theorem (C17_optimize_supported, an instance of the generic closure theorem optimizeT_closed over every rule of the optimizer model), so show_optimized is total on supported trees (C17_toDot_optimized_total). Five defects were repaired in /repo (see known_findings.json).",
        tech="Lean 4 proof (functional induction over render, decoder with fuel) + differential correspondence (dot) + direct walk/oracle on the real Digraph.body", ref="§7 C17, §4.1 M5"),
    "C18": dict(
        text="Lean theorems about toJson over the Pred type of the optimizer model: exactly one key naming the kind, C18_shape (nesting of the JSON = nesting of the predicate through left/right and 'predicate' in operand order), variable name, ne constant, fn name, tee, the 'unknown' placeholder and only that, serialisable iff every reachable ne constant is; 13 theorems. Tie: json, shape and serialisability compared with the model and json.dumps run on 46 530 quick / 240 838 thorough cases over 212 atoms (every exported constructor, 12 kinds of callable, awkward names and constants); the property is also judged directly on the real objects.",
        note=TB + "fnName is supplied by the harness rather than interpreted by the model; json.dumps is exercised, not modelled; dictionaries are compared as unordered maps (the property does not constrain key order). One defect was repaired in /repo (to_json of function atoms over built-ins).",
        tech="Lean 4 proof (structural induction) + differential correspondence (json)", ref="§7 C18, §4.1 M5"),
    "C19": dict(
        text="Lean theorems C19_yields_separate / _at (every member, at every position, of the stream of the construct model - any example lists incl. empty, overlapping, duplicated; any meaning of the 14 type tests; unbounded rounds and limit - is True on all of true_set and False on all of false_set), C19_first_round / _head / _each (if an initial type test separates, the first yield is a separating initial test and every separating initial test is at a position < 14), C19_stream_eq_filter, C19_empty_sets, C19_indistinguishable; 25 theorems. Tie: first 50/400 yields of the real construct() on 600/5 000 pairs of mixed-type example lists compared in order with the model (rounds 0-1 fully, a prefix of round 2), create_mutations and gray_product order vs the model; every real yield called on every example.",
        note=TB + "Example values reach the model as type tag + payload (isinstance/truthiness of the 15 pool values are exercised); == on predicates is the model's Pred.beq (C06). Rounds >= 3 of the real generator are unreachable in practice; the theorems cover all rounds. Every pull runs under a line-event budget.",
        tech="Lean 4 proof (list lemmas, induction on rounds) + differential correspondence of the stream, of create_mutations and of gray_product", ref="§7 C19, §4.1 M7"),
}

PENDING = {}


def main():
    props = [json.loads(l) for l in open(os.path.join(ROOT, "properties.jsonl"))]
    checks = []
    na = []
    for p in props:
        pid = p["id"]
        if pid in CHECKS and os.path.exists(os.path.join(ROOT, "harness", "props", pid.lower() + ".py")):
            c = CHECKS[pid]
            checks.append({
                "property_id": pid,
                "quick_cmd": f"./check {pid} quick",
                "thorough_cmd": f"./check {pid} thorough",
                "evidence_file": f"evidence/{pid}.json",
                "replay_cmd_template": f"./check {pid} --replay {{path}}",
                "engine": "lean4-model+correspondence",
                "level_claimed": {"category": "proof", "text": c["text"], "design_ref": c["ref"]},
                "level_note": c["note"],
                "technique": c["tech"],
            })
        else:
            na.append({"property_id": pid, "reason": PENDING.get(pid, "check not built yet at this commit (work in progress; see DESIGN.md §7 for the plan)")})
    man = {
        "version": 1,
        "setup_cmd": "cd lean && lake build PyPred driver driver_tt driver_pyval driver_construct driver_scope driver_parser driver_dot driver_cost driver_cli",
        "hooks": {
            "guard": "PY_PREDICATE_VERIF",
            "enable": "no source hooks are needed: the checks import /repo in-process and instrument from outside (sys.settrace, monkey-patching inside the harness process); the variable is set by ./check for future use",
            "baseline_off_cmd": "cd /repo && /venv/bin/python -m pytest -q -p no:cacheprovider",
            "source_commits": [],
            "add_only": True,
        },
        "engines": [{"name": "lean4-model+correspondence", "path": "lean/", "serves_properties": [c["property_id"] for c in checks],
                     "kind_free_text": "hand-written Lean 4 models + theorems (lean/PyPred), compiled driver (lean/Driver.lean), Python correspondence harness (harness/)"}],
        "checks": checks,
        "not_applicable": na,
        "notes": "Fix commits in /repo: see known_findings.json ('fixed' entries). Every check first rebuilds the Lean side (lake build, no-op when unchanged) and imports predicate from /repo's working tree.",
    }
    json.dump(man, open(os.path.join(ROOT, "MANIFEST.json"), "w"), indent=1)
    print(f"{len(checks)} checks, {len(na)} not_applicable")


if __name__ == "__main__":
    main()
